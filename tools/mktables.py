#!/venv/bin/python
"""Prints the markdown tables of DESIGN.md section 12.4-12.5 from known_findings.json, mutants/RESULTS.json and seeded/*/meta.json."""
import glob, json, os, collections, subprocess
V = os.path.dirname(os.path.dirname(os.path.abspath(__file__)))
kf = json.load(open(os.path.join(V, "known_findings.json")))
by_commit = collections.OrderedDict()
known = []
for f in kf["findings"]:
    if f.get("status") == "fixed":
        by_commit.setdefault(f["commit"], []).append(f)
    else:
        known.append(f)
log = subprocess.run("git -C /repo log --format='%h %s' --reverse", shell=True, capture_output=True, text=True).stdout.splitlines()
order = {l.split()[0][:8]: (i, l.split(" ", 1)[1]) for i, l in enumerate(log)}
print("### Defects repaired (one `fix:` commit each; `fixed` entries in known_findings.json)\n")
print("| commit | what failed | found / guarded by |")
print("|---|---|---|")
for c in sorted(by_commit, key=lambda c: order.get(c[:8], (9999, ""))[0]):
    fs = by_commit[c]
    props = sorted({f["property"] for f in fs})
    subj = order.get(c[:8], (0, ""))[1].replace("fix: ", "")
    print("| `%s` | %s | %s |" % (c[:8], subj.replace("|", "/"), " ".join(props)))
unrec = [c for c in order if order[c][1].startswith("fix:") and c not in {k[:8] for k in by_commit}]
if unrec:
    print("\nfix: commits without a findings entry:", unrec)
print("\n### Known findings (genuine defects recorded, not repaired)\n")
print("| id | what fails | why not repaired |")
print("|---|---|---|")
for f in known:
    print("| %s | %s | %s |" % (f["id"], f["what"][:260].replace("|", "/"), f.get("why_not_fixed", "")))
rp = os.path.join(V, "mutants", "RESULTS.json")
if os.path.exists(rp):
    res = json.load(open(rp))
    print("\n### Seeded changes by the builders (mutants/*.patch), re-run by tools/mutants.py\n")
    per = collections.defaultdict(lambda: [0, 0, []])
    for k, r in sorted(res.items()):
        if not k.startswith("mutants/"):
            continue  # independently seeded changes have their own table below
        p = r["prop"]
        per[p][0] += 1
        if r["verdict"] == "caught":
            per[p][1] += 1
        else:
            per[p][2].append(os.path.basename(r["patch"]) + ":" + r["verdict"])
    print("| check | mutants | caught | not caught |")
    print("|---|---|---|---|")
    for p in sorted(per):
        print("| %s | %d | %d | %s |" % (p, per[p][0], per[p][1], ", ".join(per[p][2])))
metas = sorted(glob.glob(os.path.join(V, "seeded", "*", "meta.json")))
if metas:
    print("\n### Independently seeded changes (seeded/<id>/), written by sub-agents that saw only the property text\n")
    print("Columns: `when filed` = verdicts of the checks run when the change was confirmed (before any strengthening it caused);")
    print("`final` = verdict of the owning check in the last full re-run (`tools/mutants.py --seeded`, mutants/RESULTS.json);")
    print("`not run` there means the patch, written against an earlier /repo HEAD, no longer applies after later `fix:` commits.\n")
    print("| id | change | needs | when filed | final (owning check) |")
    print("|---|---|---|---|---|")
    _res = json.load(open(os.path.join(V, "mutants", "RESULTS.json"))) if os.path.exists(os.path.join(V, "mutants", "RESULTS.json")) else {}
    _tot = {}
    for m in metas:
        d = json.load(open(m))
        sid = os.path.basename(os.path.dirname(m))
        fin = _res.get("seeded/%s/patch.diff@%s" % (sid, d["property"]), {})
        fv = fin.get("verdict", "-")
        if fv == "MISSED":
            others = [k.split("@")[1] for k, v in _res.items() if k.startswith("seeded/%s/" % sid) and v.get("verdict") == "caught"]
            caught_by_other = [k for k, v in d.get("checks", {}).items() if v.get("verdict") == "caught" and k != d["property"]]
            if others or caught_by_other:
                fv = "MISSED (caught by %s)" % ", ".join(sorted(set(others + caught_by_other)))
        rnd = {"A": 1, "B": 1, "C": 2, "D": 2, "E": 3, "F": 3, "G": 4, "H": 4}.get(sid.split("-")[1], 0)
        _tot.setdefault(rnd, {}).setdefault(fv.split(" ")[0], 0)
        _tot[rnd][fv.split(" ")[0]] += 1
        print("| %s | %s | %s | %s | %s |" % (sid, d.get("what", "")[:160].replace("|", "/"), d.get("needs", "")[:140].replace("|", "/"), ", ".join("%s: %s" % (k, v["verdict"]) for k, v in d.get("checks", {}).items()), fv))
    print("\nFinal verdicts of the owning check per round: " + "; ".join("round %d: %s" % (r, ", ".join("%s %d" % kv for kv in sorted(t.items()))) for r, t in sorted(_tot.items())))

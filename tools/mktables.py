#!/venv/bin/python
"""Prints the markdown tables of DESIGN.md section 12.4-12.5 from known_findings.json, mutants/RESULTS.json and seeded/*/meta.json."""
import glob, json, os, collections, subprocess
V = os.path.dirname(os.path.dirname(os.path.abspath(__file__)))
kf = json.load(open(os.path.join(V, "known_findings.json")))
by_commit = collections.OrderedDict()
known = []
for f in kf["findings"]:
    if f.get("status") == "fixed":
        by_commit.setdefault(f["commit"], []).append(f)
    else:
        known.append(f)
log = subprocess.run("git -C /repo log --format='%h %s' --reverse", shell=True, capture_output=True, text=True).stdout.splitlines()
order = {l.split()[0][:8]: (i, l.split(" ", 1)[1]) for i, l in enumerate(log)}
print("### Defects repaired (one `fix:` commit each; `fixed` entries in known_findings.json)\n")
print("| commit | what failed | found / guarded by |")
print("|---|---|---|")
for c in sorted(by_commit, key=lambda c: order.get(c[:8], (9999, ""))[0]):
    fs = by_commit[c]
    props = sorted({f["property"] for f in fs})
    subj = order.get(c[:8], (0, ""))[1].replace("fix: ", "")
    print("| `%s` | %s | %s |" % (c[:8], subj.replace("|", "/"), " ".join(props)))
unrec = [c for c in order if order[c][1].startswith("fix:") and c not in {k[:8] for k in by_commit}]
if unrec:
    print("\nfix: commits without a findings entry:", unrec)
print("\n### Known findings (genuine defects recorded, not repaired)\n")
print("| id | what fails | why not repaired |")
print("|---|---|---|")
for f in known:
    print("| %s | %s | %s |" % (f["id"], f["what"][:260].replace("|", "/"), f.get("why_not_fixed", "")))
rp = os.path.join(V, "mutants", "RESULTS.json")
if os.path.exists(rp):
    res = json.load(open(rp))
    print("\n### Seeded changes by the builders (mutants/*.patch), re-run by tools/mutants.py\n")
    per = collections.defaultdict(lambda: [0, 0, []])
    for k, r in sorted(res.items()):
        p = r["prop"]
        per[p][0] += 1
        if r["verdict"] == "caught":
            per[p][1] += 1
        else:
            per[p][2].append(os.path.basename(r["patch"]) + ":" + r["verdict"])
    print("| check | mutants | caught | not caught |")
    print("|---|---|---|---|")
    for p in sorted(per):
        print("| %s | %d | %d | %s |" % (p, per[p][0], per[p][1], ", ".join(per[p][2])))
metas = sorted(glob.glob(os.path.join(V, "seeded", "*", "meta.json")))
if metas:
    print("\n### Independently seeded changes (seeded/<id>/), written by sub-agents that saw only the property text\n")
    print("| id | change | needs | checks run -> verdict |")
    print("|---|---|---|---|")
    for m in metas:
        d = json.load(open(m))
        print("| %s | %s | %s | %s |" % (os.path.basename(os.path.dirname(m)), d.get("what", "")[:160].replace("|", "/"), d.get("needs", "")[:140].replace("|", "/"), ", ".join("%s: %s" % (k, v["verdict"]) for k, v in d.get("checks", {}).items())))

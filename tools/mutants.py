#!/venv/bin/python
"""Run seeded code changes against the checks (sensitivity measurement; `./check selftest` calls this).

  tools/mutants.py [--only GLOB] [--tier quick] [--jobs N] [--seeded]

For every /verif/mutants/<CNN>-<name>.patch (and, with --seeded, /verif/seeded/<id>/patch.diff
with meta.json naming the property) a scratch worktree of /repo HEAD is created under
/tmp/verif_mut_<pid>_<k>, the patch applied, `VERIF_REPO=<worktree> ./check CNN --tier quick`
run, the exit code recorded (1 = caught, 0 = missed, 2 = machinery), and the worktree removed.
Results go to /verif/mutants/RESULTS.json (merged with earlier results, keyed by patch and the
/repo commit they were run against).  Nothing is ever applied to /repo itself."""
import argparse
import fnmatch
import glob
import json
import os
import subprocess
import sys
import time
from concurrent.futures import ThreadPoolExecutor

V = os.path.dirname(os.path.dirname(os.path.abspath(__file__)))


def sh(cmd, **kw):
    return subprocess.run(cmd, shell=True, capture_output=True, text=True, **kw)


def run_one(k, patch, prop, tier, head, extra_env):
    wt = "/tmp/verif_mut_%d_%d" % (os.getpid(), k)
    sh("git -C /repo worktree remove --force %s" % wt)
    r = sh("git -C /repo worktree add --detach %s %s" % (wt, head))
    if r.returncode:
        return {"patch": patch, "prop": prop, "rc": None, "note": "worktree: " + r.stderr[-200:]}
    try:
        a = sh("git -C %s apply --whitespace=nowarn %s" % (wt, patch))
        if a.returncode:
            a = sh("cd %s && patch -p1 -s --fuzz=0 < %s" % (wt, patch))
        if a.returncode:
            return {"patch": patch, "prop": prop, "rc": None, "note": "does not apply: " + (a.stderr or a.stdout)[-300:]}
        env = dict(os.environ, VERIF_REPO=wt, **extra_env)
        env.pop("VERIF_EXTRA_FINDINGS", None)
        t0 = time.time()
        c = subprocess.run([os.path.join(V, "check"), prop, "--tier", tier], capture_output=True, text=True, env=env, cwd=V, timeout=3600)
        lines = [l for l in c.stdout.splitlines() if l.startswith("VIOLATION") or l.startswith("  clause=")]
        return {"patch": patch, "prop": prop, "rc": c.returncode, "wall_s": round(time.time() - t0, 1), "violations": lines[:8], "tail": c.stdout.splitlines()[-1:] + c.stderr.splitlines()[-2:]}
    except subprocess.TimeoutExpired:
        return {"patch": patch, "prop": prop, "rc": None, "note": "timeout"}
    finally:
        sh("git -C /repo worktree remove --force %s" % wt)
        sh("rm -rf %s" % wt)


def main():
    ap = argparse.ArgumentParser()
    ap.add_argument("--only", default="*")
    ap.add_argument("--tier", default="quick")
    ap.add_argument("--jobs", type=int, default=2)
    ap.add_argument("--seeded", action="store_true")
    ap.add_argument("--nproc", default="6")
    a = ap.parse_args()
    head = sh("git -C /repo rev-parse HEAD").stdout.strip()
    todo = []
    for p in sorted(glob.glob(os.path.join(V, "mutants", "*.patch"))):
        name = os.path.basename(p)
        if fnmatch.fnmatch(name, a.only) or fnmatch.fnmatch(name, a.only + ".patch"):
            todo.append((p, name.split("-")[0]))
    if a.seeded:
        for d in sorted(glob.glob(os.path.join(V, "seeded", "*", ""))):
            meta = os.path.join(d, "meta.json")
            pd = os.path.join(d, "patch.diff")
            if os.path.exists(meta) and os.path.exists(pd) and fnmatch.fnmatch(os.path.basename(d.rstrip("/")), a.only):
                m = json.load(open(meta))
                for prop in m.get("run_checks") or [m["property"]]:
                    todo.append((pd, prop))
    res_path = os.path.join(V, "mutants", "RESULTS.json")
    results = json.load(open(res_path)) if os.path.exists(res_path) else {}
    with ThreadPoolExecutor(a.jobs) as ex:
        futs = [ex.submit(run_one, k, p, prop, a.tier, head, {"VERIF_NPROC": a.nproc}) for k, (p, prop) in enumerate(todo)]
        for f in futs:
            r = f.result()
            key = os.path.relpath(r["patch"], V) + "@" + r["prop"]
            r["repo_commit"] = head[:8]
            r["tier"] = a.tier
            r["verdict"] = {1: "caught", 0: "MISSED", 2: "machinery"}.get(r["rc"], "not run")
            try:
                hdr = open(r["patch"]).readline().strip()
            except OSError:
                hdr = ""
            r["header"] = hdr[:300] if hdr.startswith("#") else ""
            if r["verdict"] == "MISSED" and ("equivalent" in hdr.lower() or "not expected to be caught" in hdr.lower()):
                r["verdict"] = "equivalent (not expected to be caught)"
            print("%-60s %-4s %s %s" % (key, r["prop"], r["verdict"], (r.get("violations") or [r.get("note", "")])[:1]))
            # several runs may be writing: merge into the file's current contents under a lock
            import fcntl

            with open(res_path + ".lock", "w") as lk:
                fcntl.flock(lk, fcntl.LOCK_EX)
                results = json.load(open(res_path)) if os.path.exists(res_path) else {}
                results[key] = r
                tmp = res_path + ".tmp%d" % os.getpid()
                json.dump(results, open(tmp, "w"), indent=1, sort_keys=True)
                os.replace(tmp, res_path)
    missed = [k for k, r in results.items() if r["verdict"] != "caught" and not r["verdict"].startswith("equivalent")]
    print("%d results, %d not caught" % (len(results), len(missed)))
    return 0


if __name__ == "__main__":
    sys.exit(main())

#!/venv/bin/python
"""Regenerates /verif/MANIFEST.json from the table below (one source of truth)."""

import json
import os

VERIF = os.path.dirname(os.path.dirname(os.path.abspath(__file__)))

# property -> (technique, level text, level note, design ref)
CLAIMED = {
    "C20": (
        "TLA+ state machines of grid pairs under single-entry edits (GridEq.tla) and of two live grids under derivations, setter / in-place edits, copies and comparisons (GridEqHist.tla); TLC checks the equality laws, emits pairs and histories with oracle; replayed on real grids, traces validated by TraceGridEq.tla",
        "TLC explores every pair of grids reachable from a common base by up to two single-entry edits on one side (thorough: "
        "plus one on the other), checks reflexivity, symmetry, 'equal iff identical' and 'any single edit breaks equality' on the "
        "specification, and emits each pair with the expected answer; each pair is realised as two real Grid objects and ==, != "
        "are evaluated in both argument orders, with copies, with an independently built identical grid and with non-Grid operands. "
        "GridEqHist.tla: the answer of == is a function of the two operands' current contents only; TLC proves it for the intended "
        "mechanism over all histories of three steps (lazy derivations and mutators on one operand, setter / in-place edit of one entry, "
        "copy / deepcopy, compare) and refutes mechanisms that compare dataset dimensions or cache a digest; the histories (sampled in "
        "the quick tier, plus simulated ones of six steps) are replayed on two real Grids and validated by TraceGridEq.tla.",
        "abstract coordinate values are realised 10 degrees, one ulp or 1e-9 degrees apart; 'other format' is realised through source_grid_spec",
        "DESIGN.md 6/C20",
    ),
}

# properties whose fragment-described check has been integrated and verified by me
_en = os.path.join(VERIF, "checks", "ENABLED.txt")
ENABLED = set(open(_en).read().split()) if os.path.exists(_en) else set()

NOT_YET = "check not built yet in this session (work in progress; see DESIGN.md section 6)"


def main():
    props = [json.loads(l)["id"] for l in open(os.path.join(VERIF, "properties.jsonl"))]
    checks = []
    na = []
    for p in props:
        frag = os.path.join(VERIF, "checks", p.lower() + ".manifest.json")
        if p not in CLAIMED and os.path.exists(frag) and p in ENABLED:
            fr = json.load(open(frag))
            CLAIMED[p] = (fr["technique"], fr["text"], fr["note"], fr.get("design_ref", "DESIGN.md 6/" + p))
        if p in CLAIMED and os.path.exists(os.path.join(VERIF, "checks", p.lower() + ".py")):
            tech, text, note, ref = CLAIMED[p]
            checks.append(
                {
                    "property_id": p,
                    "quick_cmd": "./check %s --tier quick" % p,
                    "thorough_cmd": "./check %s --tier thorough" % p,
                    "evidence_file": "evidence/%s.json" % p,
                    "replay_cmd_template": "./check %s --replay {path}" % p,
                    "engine": "tlc",
                    "level_claimed": {"category": "model_checking", "text": text, "design_ref": ref},
                    "level_note": note,
                    "technique": tech,
                }
            )
        else:
            na.append({"property_id": p, "reason": NOT_YET})
    man = {
        "version": 1,
        "setup_cmd": "./setup.sh",
        "hooks": {
            "guard": "UXARRAY_VERIF",
            "enable": "no source hooks are needed: checks import uxarray from /repo's working tree (PYTHONPATH) with "
            "UXARRAY_VERIF=1 set; observation is through the public API and Grid._ds",
            "baseline_off_cmd": "cd /repo && /venv/bin/python -m pytest -ra -q -p no:cacheprovider --timeout=900 --continue-on-collection-errors",
            "source_commits": [],
            "add_only": True,
        },
        "engines": [
            {
                "name": "tlc",
                "path": "/opt/veriftools/tla/tla2tools.jar",
                "serves_properties": [c["property_id"] for c in checks],
                "kind_free_text": "TLA+ specifications under /verif/tla checked with TLC 1.8 (model exploration, case generation via -dump/-simulate, "
                "and judging of ndjson records of the implementation's behaviour); Python harness under /verif/harness replays and records",
            }
        ],
        "checks": checks,
        "not_applicable": na,
        "notes": "All checks: ./check <ID> --tier quick|thorough; exit 0 held / 1 VIOLATION / 2 machinery failure. "
        "known_findings.json lists genuine defects recorded rather than repaired.",
    }
    if not na:
        man.pop("not_applicable")
    with open(os.path.join(VERIF, "MANIFEST.json"), "w") as fh:
        json.dump(man, fh, indent=1)
    print("MANIFEST.json: %d checks, %d not_applicable" % (len(checks), len(na)))


if __name__ == "__main__":
    main()

#!/venv/bin/python
"""tools/seedcheck.py PID [--src /tmp/seed_out/PID] [--checks C08,C19] [--skip-suite]

Confirms a seeded change produced by an independent sub-agent and files it under /verif/seeded/.
For each of A and B in the source directory:
  1. fresh scratch worktree of /repo HEAD; the demonstration passes there (exit 0);
  2. the patch applies; the demonstration fails with it (exit != 0);
  3. the pinned test suite still passes with it (tools/baseline.py: every stable_pass test passes);
  4. the owning check (and any check listed with --checks) is run against the changed tree:
     exit 1 = caught, 0 = MISSED.
Writes /verif/seeded/<PID>-<A|B>/{patch.diff, demo.py, meta.json}; removes the worktree."""
import argparse
import json
import os
import shutil
import subprocess
import sys
import time

V = os.path.dirname(os.path.dirname(os.path.abspath(__file__)))


def sh(cmd, **kw):
    return subprocess.run(cmd, shell=True, capture_output=True, text=True, **kw)


def main():
    ap = argparse.ArgumentParser()
    ap.add_argument("pid")
    ap.add_argument("--src")
    ap.add_argument("--checks", default="")
    ap.add_argument("--skip-suite", action="store_true")
    ap.add_argument("--only", default="AB")
    ap.add_argument("--nproc", default="8")
    a = ap.parse_args()
    src = a.src or "/tmp/seed_out/" + a.pid
    notes = json.load(open(os.path.join(src, "notes.json"))) if os.path.exists(os.path.join(src, "notes.json")) else {}
    head = sh("git -C /repo rev-parse HEAD").stdout.strip()
    rc_all = 0
    for ab in a.only:
        diff = os.path.join(src, ab + ".diff")
        demo = os.path.join(src, "demo_%s.py" % ab)
        if not (os.path.exists(diff) and os.path.exists(demo)):
            print(a.pid, ab, "missing files")
            continue
        wt = "/tmp/verif_seed_%s_%s_%d" % (a.pid, ab, os.getpid())
        sh("git -C /repo worktree remove --force " + wt)
        sh("git -C /repo worktree add --detach %s %s" % (wt, head))
        meta = {"property": a.pid, "variant": ab, "repo_commit": head[:8], "from_agent": notes.get(ab, {}), "ran": []}
        try:
            env = dict(os.environ, PYTHONPATH=wt, PYTHONDONTWRITEBYTECODE="1")
            env.pop("UXARRAY_VERIF", None)
            c0 = subprocess.run(["/venv/bin/python", "-W", "ignore", demo], capture_output=True, text=True, env=env, cwd=src, timeout=1200)
            meta["demo_clean_rc"] = c0.returncode
            ap_ = sh("git -C %s apply --whitespace=nowarn %s" % (wt, diff))
            if ap_.returncode:
                ap_ = sh("cd %s && patch -p1 -s --fuzz=0 < %s" % (wt, diff))
            meta["applies"] = ap_.returncode == 0
            if not meta["applies"]:
                meta["apply_error"] = (ap_.stderr or ap_.stdout)[-300:]
            else:
                c1 = subprocess.run(["/venv/bin/python", "-W", "ignore", demo], capture_output=True, text=True, env=env, cwd=src, timeout=1200)
                meta["demo_changed_rc"] = c1.returncode
                meta["demo_changed_tail"] = (c1.stdout + c1.stderr).strip().splitlines()[-2:]
                if not a.skip_suite:
                    b = sh("/venv/bin/python %s/tools/baseline.py %s" % (V, wt), timeout=3000)
                    meta["suite"] = b.stdout.strip().splitlines()[:4]
                    meta["suite_ok"] = b.returncode == 0
                checks = [a.pid] + [c for c in a.checks.split(",") if c and c != a.pid]
                meta["checks"] = {}
                for chk in checks:
                    e2 = dict(os.environ, VERIF_REPO=wt, VERIF_NPROC=a.nproc)
                    e2.pop("VERIF_EXTRA_FINDINGS", None)
                    t0 = time.time()
                    c = subprocess.run([os.path.join(V, "check"), chk, "--tier", "quick"], capture_output=True, text=True, env=e2, cwd=V, timeout=3600)
                    viol = [l for l in c.stdout.splitlines() if l.startswith("VIOLATION") or l.startswith("  clause=")]
                    meta["checks"][chk] = {"rc": c.returncode, "verdict": {1: "caught", 0: "MISSED", 2: "machinery"}.get(c.returncode, "?"), "wall_s": round(time.time() - t0, 1), "violations": viol[:6], "stderr_tail": c.stderr.strip().splitlines()[-2:] if c.returncode == 2 else []}
                    meta["ran"].append("VERIF_REPO=<worktree with patch> ./check %s --tier quick -> exit %d" % (chk, c.returncode))
            valid = meta.get("demo_clean_rc") == 0 and meta.get("applies") and meta.get("demo_changed_rc", 0) != 0 and (a.skip_suite or meta.get("suite_ok"))
            meta["confirmed"] = bool(valid)
            meta["needs"] = notes.get(ab, {}).get("needs", "")
            meta["what"] = notes.get(ab, {}).get("what", "")
            out = os.path.join(V, "seeded", "%s-%s" % (a.pid, ab))
            if valid:
                os.makedirs(out, exist_ok=True)
                shutil.copy(diff, os.path.join(out, "patch.diff"))
                shutil.copy(demo, os.path.join(out, "demo.py"))
                json.dump(meta, open(os.path.join(out, "meta.json"), "w"), indent=1)
            print(a.pid, ab, "confirmed" if valid else "NOT CONFIRMED", {k: v["verdict"] for k, v in meta.get("checks", {}).items()}, meta.get("suite", "")[:1], "clean rc", meta.get("demo_clean_rc"), "changed rc", meta.get("demo_changed_rc"), meta.get("apply_error", ""))
            if not valid:
                json.dump(meta, open(os.path.join(src, "rejected_%s.json" % ab), "w"), indent=1)
                rc_all = 1
        finally:
            sh("git -C /repo worktree remove --force " + wt)
            sh("rm -rf " + wt)
    return rc_all


if __name__ == "__main__":
    sys.exit(main())

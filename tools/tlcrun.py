#!/venv/bin/python
"""tools/tlcrun.py Module cfgfile [--workers N] [--simulate S] [--depth D] [--dump P] [--coverage] -- developer aid"""
import sys, os, argparse
sys.path.insert(0, os.path.dirname(os.path.dirname(os.path.abspath(__file__))))
from harness import tlc
ap = argparse.ArgumentParser(); ap.add_argument("module"); ap.add_argument("cfg")
ap.add_argument("--workers", type=int, default=8); ap.add_argument("--simulate"); ap.add_argument("--depth", type=int)
ap.add_argument("--dump"); ap.add_argument("--coverage", action="store_true"); ap.add_argument("--tail", type=int, default=40)
ap.add_argument("--timeout", type=int, default=1800)
a = ap.parse_args()
work = "/verif/.work/tlcrun_%d" % os.getpid()
r = tlc.run(a.module, open(a.cfg).read(), work, workers=a.workers, simulate=a.simulate, depth=a.depth, dump=a.dump, coverage=a.coverage, timeout=a.timeout)
print("\n".join(r.out.splitlines()[-a.tail:])); print(r)
import shutil; shutil.rmtree(work, ignore_errors=True)

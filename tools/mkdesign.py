#!/venv/bin/python
"""Refreshes section 12.8 of DESIGN.md (between its begin / end markers) with the output of tools/mktables.py."""
import os, subprocess, sys
V = os.path.dirname(os.path.dirname(os.path.abspath(__file__)))
out = subprocess.run([sys.executable, os.path.join(V, "tools", "mktables.py")], capture_output=True, text=True, check=True).stdout
p = os.path.join(V, "DESIGN.md")
s = open(p).read()
a, b = "<!-- 12.8 begin -->", "<!-- 12.8 end -->"
i, j = s.index(a) + len(a), s.index(b)
open(p, "w").write(s[:i] + "\n" + out.strip("\n") + "\n" + s[j:])
print("DESIGN.md 12.8 refreshed: %d lines" % len(out.splitlines()))

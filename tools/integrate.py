#!/venv/bin/python
"""tools/integrate.py CNN [--fixed FINDING_ID=commit ...] [--drop FINDING_ID ...]
Merges proposed/CNN.findings.json into known_findings.json, enables the check in the manifest
(checks/ENABLED.txt) and lists its TLA+ modules in tla/REQUIRED.txt."""
import json, os, sys, subprocess
V = os.path.dirname(os.path.dirname(os.path.abspath(__file__)))
prop = sys.argv[1]
fixed, drop = {}, set()
a = sys.argv[2:]
i = 0
while i < len(a):
    if a[i] == "--fixed":
        i += 1
        while i < len(a) and not a[i].startswith("--"):
            k, c = a[i].split("="); fixed[k] = c; i += 1
    elif a[i] == "--drop":
        i += 1
        while i < len(a) and not a[i].startswith("--"):
            drop.add(a[i]); i += 1
    else:
        raise SystemExit("bad arg " + a[i])
kf_path = os.path.join(V, "known_findings.json")
kf = json.load(open(kf_path))
pp = os.path.join(V, "proposed", prop + ".findings.json")
new = json.load(open(pp))["findings"] if os.path.exists(pp) else []
by_id = {f["id"]: f for f in kf["findings"]}
import fnmatch
def _fx(i):
    for pat, c in fixed.items():
        if fnmatch.fnmatchcase(i, pat):
            return c
    return None
for f in new:
    if any(fnmatch.fnmatchcase(f["id"], d) for d in drop):
        continue
    if _fx(f["id"]):
        f = {"id": f["id"], "property": f["property"], "status": "fixed", "commit": _fx(f["id"]), "what": f["what"]}
    if f.get("status") == "fixed" and "match" in f:
        f.pop("match")
    if by_id.get(f["id"], {}).get("status") == "fixed" and f.get("status") != "fixed":
        continue  # already recorded as repaired: a re-merge of the builder's file must not re-open it
    by_id[f["id"]] = f
for k, c in fixed.items():
    if not any(fnmatch.fnmatchcase(i, k) for i in by_id):
        raise SystemExit("fixed id %s not among findings" % k)
kf["findings"] = sorted(by_id.values(), key=lambda f: f["id"])
kf["fixed_log"] = sorted({"fixed: property=%s %s %s" % (f["property"], f["commit"], f["what"]) for f in kf["findings"] if f.get("status") == "fixed"})
json.dump(kf, open(kf_path, "w"), indent=1)
en = os.path.join(V, "checks", "ENABLED.txt")
cur = set(open(en).read().split()) if os.path.exists(en) else set()
cur.add(prop)
open(en, "w").write("\n".join(sorted(cur)) + "\n")
frag = os.path.join(V, "checks", prop.lower() + ".manifest.json")
if os.path.exists(frag):
    mods = json.load(open(frag)).get("modules", [])
    rq = os.path.join(V, "tla", "REQUIRED.txt")
    have = open(rq).read().split()
    for m in mods:
        if m not in have:
            have.append(m)
    open(rq, "w").write("\n".join(have) + "\n")
subprocess.check_call([os.path.join(V, "tools", "mkmanifest.py")])
print("integrated", prop, "known:", [f["id"] for f in kf["findings"] if f["property"] == prop and f.get("status", "known") == "known"], "fixed:", [f["id"] for f in kf["findings"] if f["property"] == prop and f.get("status") == "fixed"])

#!/venv/bin/python
"""Run the repository's pinned test suite guard-off and compare with /root/.vp/BASELINE.json.
Usage: tools/baseline.py [repo_dir]   (exit 0 iff every stable_pass test still passes)"""
import json, os, subprocess, sys, tempfile, xml.etree.ElementTree as ET
repo = sys.argv[1] if len(sys.argv) > 1 else "/repo"
base = json.load(open("/root/.vp/BASELINE.json"))
fd, xml = tempfile.mkstemp(suffix=".xml", dir="/verif/.work" if os.path.isdir("/verif/.work") else None); os.close(fd)
env = dict(os.environ); env.pop("UXARRAY_VERIF", None); env["PYTHONDONTWRITEBYTECODE"]="1"
p = subprocess.run(["/venv/bin/python","-m","pytest","-q","-p","no:cacheprovider","--timeout=900","--continue-on-collection-errors","-x" if False else "-q","--junitxml="+xml], cwd=repo, env=env, capture_output=True, text=True)
passed=set()
for tc in ET.parse(xml).getroot().iter("testcase"):
    if not any(ch.tag in ("failure","error","skipped") for ch in tc):
        passed.add(tc.get("classname")+"::"+tc.get("name"))
os.remove(xml)
missing=[t for t in base["stable_pass"] if t not in passed]
print("passed=%d baseline=%d missing=%d" % (len(passed), len(base["stable_pass"]), len(missing)))
for m in missing: print("  MISSING", m)
sys.exit(1 if missing else 0)

----------------------------- MODULE MeshScope -----------------------------
(***************************************************************************)
(* Exhaustive small scope of face-node tables.  The state is a mesh under  *)
(* construction: Init chooses the first face, Next appends one more face,  *)
(* so every table with 1..MaxFaces faces over NNode nodes and face sizes   *)
(* in Sizes is a reachable state (and TLC's workers share the work).       *)
(*                                                                         *)
(* Used three ways:                                                        *)
(*  - model checking: the L2 algorithms of MeshAlg satisfy the L1          *)
(*    relations of Mesh on every table (invariants L2_xxx),                *)
(*  - generation: `-dump` lists every table for replay into the code,      *)
(*  - Euler: closed manifold tables of the scope that are spheres.         *)
(***************************************************************************)
EXTENDS MeshAlg

CONSTANTS NNode, MaxFaces, Sizes, OnlyManifold

VARIABLE mesh

FacesOfSize(k) == { s \in [1..k -> 0..(NNode - 1)] : \A i, j \in 1..k : i # j => s[i] # s[j] }
ScopeFaces     == UNION { FacesOfSize(k) : k \in Sizes }

Admit(m) == OnlyManifold => Manifold(m)

Init == mesh \in { <<f>> : f \in ScopeFaces }
Next == /\ Len(mesh) < MaxFaces
        /\ \E f \in ScopeFaces : mesh' = Append(mesh, f) /\ Admit(mesh')

W == MaxSize(mesh)
T == Stored(mesh, W)

TypeOK == WellFormed(mesh, NNode)

\* round trip of the storage convention itself
StoreRoundTrip == MeshOf(T) = mesh /\ TableInStandardForm(T, 0, NNode - 1)

L2_NodesPerFace == IsNodesPerFace(mesh, AlgNodesPerFace(T))
L2_Edges        == IsEdgeTable(mesh, AlgEdges(T).edges)
L2_FaceEdges    == IsFaceEdgeTable(mesh, AlgEdges(T).edges, AlgEdges(T).face_edges, W)
L2_NodeFaces    == IsNodeFaceTable(mesh, NNode, AlgNodeFaces(T, NNode))
L2_EdgeFaces    == Manifold(mesh) =>
                     LET a == AlgEdges(T) IN
                     IsEdgeFaceTable(mesh, a.edges,
                        AlgEdgeFaces(a.face_edges, AlgNodesPerFace(T), Len(a.edges)))
L2_FaceFaces    == Manifold(mesh) =>
                     LET a == AlgEdges(T)
                         ef == AlgEdgeFaces(a.face_edges, AlgNodesPerFace(T), Len(a.edges))
                     IN IsFaceFaceTable(mesh, AlgFaceFaces(ef, Len(mesh), W))
\* the edge relation really pins the edge count (sanity of L1 itself)
EdgeCountLaw    == Len(AlgEdges(T).edges) = Cardinality(EdgeSet(mesh))
=============================================================================

---------------------------- MODULE ApiDispatch ----------------------------
(***************************************************************************)
(* X05 (extension) - the API entry points above the readers:               *)
(*   ux.open_grid, ux.open_dataset, ux.open_mfdataset, UxDataset(...).     *)
(*                                                                         *)
(* The readers are specified in Dialects.tla (what a stored source MEANS). *)
(* This module specifies the dispatch layer: an input is a CONTENT (mesh,  *)
(* format, one fixed well-formed dialect of that format: its stored source *)
(* and expected grid come from Dialects) handed over as one of several     *)
(* KINDS of object, with options, optionally together with data files.     *)
(* Contract:                                                               *)
(*  (i)   every kind reaches the route Dialects names for the content and  *)
(*        yields the grid the direct route yields (the judge's equality);  *)
(*  (ii)  open_dataset(grid, data).uxgrid is that grid; every data         *)
(*        variable is a UxDataArray on that one grid object; a data        *)
(*        dimension is renamed n_face / n_node / n_edge when the reader's  *)
(*        dimension map names it, else when its size equals exactly one of *)
(*        the three counts; a size equal to several counts is ambiguous    *)
(*        (any of them is accepted - only what is documented is judged); a *)
(*        size equal to none stays;                                        *)
(*  (iii) source_datasets records what was opened;                         *)
(*  (iv)  open_mfdataset over k files = the files' variables concatenated  *)
(*        along time in coordinate order, whatever order the list has;     *)
(*  (v)   an unsupported layout raises instead of returning a grid;        *)
(*  (vi)  the same in-memory input gives the same grid twice and is left   *)
(*        unchanged (InputKept / DecodeRepeatable of Dialects.tla).        *)
(* TLC enumerates content x kind x options x data kind, checks that the    *)
(* plan is well-formed (PlanOK) and emits every case with what must come   *)
(* out: the grid (through Dialects!Expected), per data variable the set of *)
(* admissible dimension names per axis and the values.                     *)
(***************************************************************************)
EXTENDS Dialects

CONSTANT ApiMeshes          \* subset of 1..Len(MeshList) used as contents

FileFormats == { "ugrid", "mpas", "esmf", "scrip", "exodus" }
Formats == FileFormats \cup { "topology", "verts" }

\* one fixed, plain dialect per format (the dialect lattice itself is C01's business)
FixedD(fmt, m, latlon, box) ==
    CASE fmt = "ugrid"    -> [ start |-> "1", fill |-> IF Uniform(m) THEN "none" ELSE "m1", dtype |-> "int32", names |-> "arbitrary",
                               topo |-> "attr", lon |-> "p360", extras |-> "none", layout |-> "rows", ftype |-> "f64" ]
      [] fmt = "mpas"     -> [ pad |-> IF Uniform(m) THEN "zeros" ELSE "repeat", extras |-> "edges", xyz |-> "no", store |-> "i32f64" ]
      [] fmt = "esmf"     -> [ start |-> "absent", padv |-> "m1", centres |-> "yes", lon |-> "p360", store |-> "i32f64" ]
      [] fmt = "scrip"    -> [ lon |-> "p360", units |-> "degrees", ftype |-> "f64" ]
      [] fmt = "exodus"   -> [ coord |-> "coord", dtype |-> "int32", order |-> "asc", blocks |-> "min", ftype |-> "f64" ]
      [] fmt = "topology" -> [ fill |-> IF Uniform(m) THEN "none" ELSE "m1", start |-> "0", dtype |-> "int64", via |-> "open_grid",
                               extras |-> "none", box |-> "ndarray", dims |-> "no", ftype |-> "f64" ]
      [] fmt = "verts"    -> [ coords |-> IF latlon THEN "lonlat" ELSE "xyz", shape |-> "many", box |-> box, via |-> "open_grid", ftype |-> "f64" ]

(* ---- kinds and options ------------------------------------------------------------- *)
\* how the grid content is handed over
GridKinds(fmt) ==
    CASE fmt \in FileFormats -> { "str", "pathlike", "dataset_disk", "dataset_mem" }
      [] fmt = "topology"    -> { "dict" }
      [] fmt = "verts"       -> { "ndarray", "list", "tuple" }
InMemory(gk) == gk \in { "dataset_mem", "dict", "ndarray", "list", "tuple" }
\* how the data is handed over: none (open_grid only); one file as str / PathLike; the grid file itself (a UGRID
\* file that carries both); k files as a list, as a list in reverse order, as a glob string (open_mfdataset);
\* an xr.Dataset through the UxDataset constructor
DataKinds(fmt, gk) ==
    { "none" } \cup
    (IF fmt \in FileFormats THEN { "path", "pathlike", "list", "list_rev", "glob", "ctor" } ELSE { "path" }) \cup
    (IF fmt = "ugrid" /\ gk \in { "str", "pathlike" } THEN { "same" } ELSE {})
KFiles(dk) == IF dk \in { "list", "list_rev", "glob" } THEN 3 ELSE 1
\* keyword arguments forwarded to xarray when the data is opened
\* chunks: a dict in UGRID names ({"n_face": 2}); chunks_int: chunks = 2 (every dimension) - both are xarray's own forms
KwKinds(dk) == IF dk \in { "path", "list" } THEN { "none", "chunks", "chunks_int", "decode_times", "drop" } ELSE { "none" }

(* ---- what a content is ------------------------------------------------------------------- *)
Content(mi_, fmt, latlon, box) == FixedD(fmt, MeshList[mi_], latlon, box)
RouteOf(fmt, dual) == IF fmt = "mpas" /\ dual THEN "mpas" ELSE fmt          \* the stored source is the primal file either way
\* element counts of the grid the content describes
Counts(m, fmt, dd, dual) ==
    LET ne == Cardinality(EdgeSet(m.faces))
    IN IF fmt = "mpas" /\ dual
       THEN [ face |-> NN(m), node |-> Len(m.faces), edge |-> ne ]           \* the dual: vertices are faces, cells are nodes
       \* routes that rebuild the nodes from positions (SCRIP, face vertices) have no node that no face uses
       ELSE [ face |-> Len(ExpFaces(m, fmt, dd)),
              node |-> IF KeepsNodeIds(fmt) THEN NN(m) ELSE Cardinality(NodesUsed(m.faces)), edge |-> ne ]

(* ---- data files ---------------------------------------------------------------------------- *)
\* the dimension a data file of the format uses for face / node / edge data
DataDim(fmt, el) ==
    CASE fmt = "ugrid"  -> (CASE el = "face" -> "b" [] el = "node" -> "a" [] OTHER -> "nE")
      [] fmt = "mpas"   -> (CASE el = "face" -> "nCells" [] el = "node" -> "nVertices" [] OTHER -> "nEdges")
      [] fmt = "esmf"   -> (CASE el = "face" -> "elementCount" [] el = "node" -> "nodeCount" [] OTHER -> "ne")
      [] fmt = "scrip"  -> (CASE el = "face" -> "grid_size" [] el = "node" -> "nn" [] OTHER -> "ne")
      [] fmt = "exodus" -> (CASE el = "face" -> "num_elem" [] el = "node" -> "num_nodes" [] OTHER -> "ne")
      [] OTHER          -> (CASE el = "face" -> "cells" [] el = "node" -> "points" [] OTHER -> "sides")
\* the reader's own dimension map (source name -> UGRID name): these are renamed BY NAME
NamedDims(fmt, dual) ==
    CASE fmt = "ugrid"  -> [ x \in { "a", "b" } |-> IF x = "a" THEN "n_node" ELSE "n_face" ]
      [] fmt = "mpas"   -> IF dual
                           THEN [ x \in { "nCells", "nVertices", "nEdges" } |-> CASE x = "nCells" -> "n_node" [] x = "nVertices" -> "n_face" [] OTHER -> "n_edge" ]
                           ELSE [ x \in { "nCells", "nVertices", "nEdges" } |-> CASE x = "nCells" -> "n_face" [] x = "nVertices" -> "n_node" [] OTHER -> "n_edge" ]
      [] fmt = "esmf"   -> [ x \in { "elementCount", "nodeCount" } |-> IF x = "nodeCount" THEN "n_node" ELSE "n_face" ]
      [] fmt = "scrip"  -> [ x \in { "grid_size" } |-> "n_face" ]
      [] OTHER          -> EmptyFn
\* the data variables of every file: name, the element kind of its last axis, extra leading axes
Vars == << [ name |-> "vf", el |-> "face", base |-> 10000 ], [ name |-> "vn", el |-> "node", base |-> 20000 ],
           [ name |-> "ve", el |-> "edge", base |-> 30000 ], [ name |-> "vl", el |-> "lev", base |-> 40000 ] >>
LevSize == 5
\* size of the element axis in the FILE: the file is written for the format's own (primal) element sets
FileSize(m, fmt, dd, el) == CASE el = "lev" -> LevSize [] OTHER -> Counts(m, fmt, dd, FALSE)[el]
FileDim(fmt, el) == IF el = "lev" THEN "lev" ELSE DataDim(fmt, el)
\* value of variable v at time t, element i (1-based): an abstract tag
Val(v, t, i) == v.base + 100 * t + i
\* the admissible names of a data dimension after opening (contract (ii))
AllowedNames(dim, size, cnt, named) ==
    IF dim \in DOMAIN named THEN { named[dim] }
    ELSE LET c == { x \in { "n_face", "n_node", "n_edge" } :
                      \/ (x = "n_face" /\ size = cnt.face) \/ (x = "n_node" /\ size = cnt.node) \/ (x = "n_edge" /\ size = cnt.edge) }
         IN IF c = {} THEN { dim } ELSE c
\* what the opened dataset must hold
ExpectedData(m, fmt, dd, dual, dk, kw) ==
    LET cnt == Counts(m, fmt, dd, dual)
        times == IF dk = "none" THEN <<>> ELSE [ t \in 1..KFiles(dk) |-> t ]      \* coordinate order, not list order
        kept == SelectSeq(Vars, LAMBDA v : ~(kw = "drop" /\ v.name = "vl"))
    IN [ k \in 1..Len(kept) |->
           LET v == kept[k]  n == FileSize(m, fmt, dd, v.el)
           IN [ name |-> v.name,
                \* the UxDataset constructor takes the data as it is: dimensions are renamed by open_dataset / open_mfdataset only
                dims |-> << { "time" }, IF dk = "ctor" THEN { FileDim(fmt, v.el) }
                                         ELSE AllowedNames(FileDim(fmt, v.el), n, cnt, NamedDims(fmt, dual)) >>,
                vals |-> [ t \in 1..Len(times) |-> [ i \in 1..n |-> Val(v, times[t], i) ] ] ] ]

(* ---- the cases -------------------------------------------------------------------------------- *)
VARIABLES xfmt, xgk, xdk, xkw, xdual, xlatlon, xbad
apivars == << xfmt, xgk, xdk, xkw, xdual, xlatlon, xbad >>

ApiInit ==
    /\ mi \in ApiMeshes /\ route = "api" /\ d = NoD /\ nd = 0 /\ inp = NoD /\ outs = <<>> /\ ro = "-" /\ bw = NoSweep
    /\ xfmt \in Formats
    /\ xgk \in GridKinds(xfmt)
    /\ xbad \in (IF xfmt = "ugrid" /\ xgk \in { "str", "pathlike", "dataset_mem" } THEN BOOLEAN ELSE { FALSE })
    /\ xlatlon \in (IF xfmt = "verts" THEN BOOLEAN ELSE { FALSE })
    /\ xdual \in (IF xfmt = "mpas" /\ Triangles(MeshList[mi]) /\ ~xbad THEN BOOLEAN ELSE { FALSE })
    /\ xdk \in (IF xbad THEN { "none", "path" } ELSE DataKinds(xfmt, xgk))
    /\ xkw \in KwKinds(xdk)
    \* knobs that are independent of each other are not crossed: options only with the plain kinds
    /\ (xkw # "none" => xgk = "str" /\ ~xdual /\ ~xbad)
    /\ (xdual => xdk \in { "none", "path" })
    /\ (xdk \in { "list_rev", "glob", "pathlike", "ctor" } => xgk = "str")
ApiNext == FALSE /\ UNCHANGED << vars, apivars >>

Mx == MeshList[mi]
Dx == Content(mi, xfmt, xlatlon, IF xfmt = "verts" THEN xgk ELSE "ndarray")
Src == StoredSrc(Mx, xfmt, Dx)

\* the plan is well-formed: the fixed dialect belongs to the format's lattice, the stored source decodes to the
\* expected grid (Dialects' theorem on this content), data axes have the sizes the contract speaks about
PlanOK ==
    /\ Applies(Mx, xfmt)
    /\ Dx \in AllDialectsOf(Mx, xfmt)
    /\ Decode(Src) = Expected(Mx, xfmt, Dx)
    /\ LevSize \notin { Counts(Mx, xfmt, Dx, xdual).face, Counts(Mx, xfmt, Dx, xdual).node, Counts(Mx, xfmt, Dx, xdual).edge }
    /\ KFiles(xdk) \notin { Counts(Mx, xfmt, Dx, xdual).face, Counts(Mx, xfmt, Dx, xdual).node, Counts(Mx, xfmt, Dx, xdual).edge }
    \* a name in the reader's map is never ALSO reachable by size under another name (the contract would clash)
    /\ \A v \in Range(Vars) : v.el # "lev" =>
          LET a == AllowedNames(FileDim(xfmt, v.el), FileSize(Mx, xfmt, Dx, v.el), Counts(Mx, xfmt, Dx, xdual), NamedDims(xfmt, xdual))
          IN a # {} /\ (FileDim(xfmt, v.el) \in DOMAIN NamedDims(xfmt, xdual) => Cardinality(a) = 1)

Ambiguous == LET c == Counts(Mx, xfmt, Dx, xdual) IN c.face = c.node \/ c.face = c.edge \/ c.node = c.edge

EmitApi ==
    PrintT(<< "API", [ mi |-> mi, mesh |-> Mx.id, fmt |-> xfmt, gk |-> xgk, dk |-> xdk, kw |-> xkw, dual |-> xdual, latlon |-> xlatlon, bad |-> xbad,
                       kfiles |-> KFiles(xdk), nodes |-> Mx.nodes, centres |-> CentreDirs(Mx),
                       d |-> Dx, src |-> Src,
                       outcome |-> IF xbad THEN "raises" ELSE "grid",
                       \* the grid: judged as C01 judges it (faces by position), the xdual by its index table
                       mode |-> IF xdual THEN "ids" ELSE "faces",
                       exp |-> IF xdual THEN DecodeAs(Src, "dual") ELSE Expected(Mx, xfmt, Dx),
                       complete |-> IF xdual THEN [ r \in 1..NN(Mx) |-> TRUE ] ELSE Complete(Mx, xfmt, Dx),
                       orient |-> Orientation(xfmt, Dx), keeps_ids |-> KeepsNodeIds(xfmt), nn |-> NN(Mx),
                       counts |-> Counts(Mx, xfmt, Dx, xdual),
                       in_memory |-> InMemory(xgk), closed |-> IsClosed(Mx),
                       ambiguous |-> Ambiguous,
                       data |-> IF xdk = "none" THEN <<>> ELSE ExpectedData(Mx, xfmt, Dx, xdual, xdk, xkw),
                       \* the files to write: per file its time value and per variable the axis name and size
                       files |-> IF xdk \in { "none", "same" } THEN <<>> ELSE
                                 [ t \in 1..KFiles(xdk) |-> [ time |-> t,
                                     vars |-> [ k \in 1..Len(Vars) |-> [ name |-> Vars[k].name, dim |-> FileDim(xfmt, Vars[k].el),
                                                  vals |-> [ i \in 1..FileSize(Mx, xfmt, Dx, Vars[k].el) |-> Val(Vars[k], t, i) ] ] ] ] ],
                       same_vars |-> IF xdk = "same" THEN [ k \in 1..Len(Vars) |-> [ name |-> Vars[k].name, dim |-> FileDim(xfmt, Vars[k].el),
                                                  vals |-> [ i \in 1..FileSize(Mx, xfmt, Dx, Vars[k].el) |-> Val(Vars[k], 1, i) ] ] ] ELSE <<>> ] >>)
=============================================================================

------------------------------ MODULE EdgeOps ------------------------------
(***************************************************************************)
(* C16 - edge distances, differences and gradients follow the edge's own   *)
(* neighbours.                                                             *)
(*                                                                         *)
(* Which pair (L1, from Mesh.tla): the two ends of edge e are the two      *)
(* entries of row e of the grid's own edge table E (numbering and end      *)
(* order are free, E itself must be an edge table of the mesh); the faces  *)
(* sharing e are the faces of the mesh having that side - one of them on a *)
(* boundary edge, two otherwise (manifold meshes).                         *)
(*   difference of node data  d[e] = | x[a] - x[b] |                       *)
(*   difference of face data  d[e] = | y[f] - y[g] |,  0 on a boundary edge*)
(*   gradient                 g[e] = d[e] / dist(centre f, centre g), 0 on *)
(*                            a boundary edge                              *)
(*   normalised gradient      g / ||g||_2 taken along the edge dimension,  *)
(*                            defined when g is not identically zero       *)
(* Data values are v / D (D = common denominator of the record); results   *)
(* are exact rationals <<num, den>> compared by cross-multiplication.      *)
(* Distances are irrational: node-node distances on lattice meshes are     *)
(* emitted as SphereZ.GeoDescr descriptors, centre-centre distances are    *)
(* evaluated by the harness from the face pairs emitted here.              *)
(*                                                                         *)
(* L2 (the code as read): _calculate_edge_face_difference masks on the     *)
(* second slot of edge_face_connectivity only; with the two-slot fill loop *)
(* of _build_edge_face_connectivity (MeshAlg.AlgEdgeFaces) the first slot  *)
(* is always filled first - EdgeScope.tla lets TLC prove L2 = L1.          *)
(***************************************************************************)
EXTENDS SphereZ, MeshAlg

(* ---- which pair ------------------------------------------------------------ *)
\* 0-based ids of the faces sharing the edge whose recorded row is `row`
SharingFaces(mesh, row) == FacesOfEdgeRow(mesh, row)
IsBoundaryRow(mesh, row) == Cardinality(SharingFaces(mesh, row)) = 1
IsInteriorRow(mesh, row) == Cardinality(SharingFaces(mesh, row)) = 2
\* as a sorted pair <<f, g>> (interior) or <<f>> (boundary): what the harness needs to look up centres
FacePairSeq(mesh, row)  == SetToSortSeq(SharingFaces(mesh, row), <)

\* precondition for judging anything per edge: the recorded table really is an edge table
EdgeTableOK(mesh, nNode, E) ==
    /\ \A k \in 1..Len(E) : Len(E[k]) = 2 /\ \A j \in 1..2 : E[k][j] \in 0..(nNode - 1)
    /\ EdgeRowsWellShaped(E) /\ EdgeNoneMissing(mesh, E) /\ EdgeNoneExtra(mesh, E) /\ EdgeNoDuplicates(E)

\* the recorded edge_face table names exactly the sharing faces, padding in the second slot only
EdgeFaceRowOK(mesh, row, efrow) ==
    /\ Len(efrow) = 2
    /\ Range(Unpadded(efrow)) = SharingFaces(mesh, row)
    /\ Len(Unpadded(efrow)) = Cardinality(SharingFaces(mesh, row))
    /\ PadOnlyAtEnd(efrow)

(* ---- differences (exact rationals) --------------------------------------------- *)
NodeDiff(row, x, D) == << Abs(x[row[1] + 1] - x[row[2] + 1]), D >>
FaceDiff(mesh, row, y, D) ==
    LET p == FacePairSeq(mesh, row)
    IN IF Len(p) = 2 THEN << Abs(y[p[1] + 1] - y[p[2] + 1]), D >> ELSE << 0, D >>

SpecNodeDiff(E, x, D)       == [ k \in 1..Len(E) |-> NodeDiff(E[k], x, D) ]
SpecFaceDiff(mesh, E, y, D) == [ k \in 1..Len(E) |-> FaceDiff(mesh, E[k], y, D) ]

\* zero pattern of the gradient = zero pattern of the difference (the distance is positive)
GradIsZero(mesh, row, y) == FaceDiff(mesh, row, y, 1)[1] = 0
\* a row of data for which normalisation is defined
NormDefined(mesh, E, y) == \E k \in 1..Len(E) : ~GradIsZero(mesh, E[k], y)

(* ---- L2: _calculate_edge_face_difference / _calculate_edge_node_difference -------- *)
AlgFaceDiff(EF, y, D) ==
    [ k \in 1..Len(EF) |->
        IF EF[k][2] # PAD                                            \* saddle_mask
        THEN << Abs(y[EF[k][1] + 1] - y[EF[k][2] + 1]), D >>         \* a PAD in slot 1 would index y[0]: TLC stops
        ELSE << 0, D >> ]
AlgNodeDiff(E, x, D) == [ k \in 1..Len(E) |-> << Abs(x[E[k][1] + 1] - x[E[k][2] + 1]), D >> ]

(* ---- laws ------------------------------------------------------------------------ *)
RowSwap(row)  == << row[2], row[1] >>
DiffLaws(mesh, E, x, y) ==
    LET nd == SpecNodeDiff(E, x, 1)
        fd == SpecFaceDiff(mesh, E, y, 1)
        Er == [ k \in 1..Len(E) |-> RowSwap(E[k]) ]
        cx == [ n \in 1..Len(x) |-> 3 ]
        cy == [ f \in 1..Len(y) |-> -2 ]
        nx == [ n \in 1..Len(x) |-> -x[n] ]
        sy == [ f \in 1..Len(y) |-> y[f] + 5 ]
    IN /\ \A k \in 1..Len(E) : nd[k][1] >= 0 /\ fd[k][1] >= 0                    \* absolute values
       /\ SpecNodeDiff(Er, x, 1) = nd /\ SpecFaceDiff(mesh, Er, y, 1) = fd        \* end order is free
       /\ \A k \in 1..Len(E) : IsBoundaryRow(mesh, E[k]) => fd[k][1] = 0          \* zero on boundary edges
       /\ \A k \in 1..Len(E) : SpecNodeDiff(E, cx, 1)[k][1] = 0                   \* constant fields
       /\ \A k \in 1..Len(E) : SpecFaceDiff(mesh, E, cy, 1)[k][1] = 0
       /\ SpecNodeDiff(E, nx, 1) = nd                                              \* |.| : sign of the field is irrelevant
       /\ SpecFaceDiff(mesh, E, sy, 1) = fd                                        \* shift invariance
       /\ \A k \in 1..Len(E) : (nd[k][1] = 0) <=> (x[E[k][1] + 1] = x[E[k][2] + 1])
       \* homogeneity: scaling the field scales the difference (no absolute threshold anywhere)
       /\ \A c \in { 2, 1024 } :
            /\ \A k \in 1..Len(E) : SpecNodeDiff(E, [ n \in 1..Len(x) |-> c * x[n] ], 1)[k][1] = c * nd[k][1]
            /\ \A k \in 1..Len(E) : SpecFaceDiff(mesh, E, [ f \in 1..Len(y) |-> c * y[f] ], 1)[k][1] = c * fd[k][1]

(* ---- magnitudes --------------------------------------------------------------------------- *)
\* Data rows may be scaled by a power of two 2^e (exact in binary floating point), a different e per leading index:
\* the value is v * 2^e / D and, by homogeneity, difference and gradient are the unscaled ones times 2^e.  The
\* exponents the harness may use (about 1e-12, 1e-9, 1e-6, 1, 1e6, 1e12):
ScaleExps == { -40, -30, -20, 0, 20, 40 }

(* ---- distances ---------------------------------------------------------------------- *)
\* node-node geodesic of edge row on integer direction nodes: atan2(sqrt(num), dot)
NodeGeo(nodes, row) == GeoDescr(nodes[row[1] + 1], nodes[row[2] + 1])

(* ---- fine meshes: exact shrink map ------------------------------------------------------ *)
\* Gnomonic homothety about the direction c with factor 1/M, in exact integers (as in C14 / C18):
\* v |-> (M-1)(v.c) c + (c.c) v.  With M = 10^3..10^6 the shrunk coordinates exceed TLC's integers, so the
\* geodesic descriptor of a shrunk edge is emitted in closed form over the BASE vectors (small integers)
\* and evaluated by the harness with M substituted (unbounded integers).  LawShrinkGeo (model-checked in
\* EdgeShrink.tla for M = 1..3 on the lattice) states that the closed form is GeoDescr of the shrunk pair.
ShrinkPt(v, c, M) == LET t == (M - 1) * Dot(v, c)  cc == Dot(c, c)
                     IN << t * c[1] + cc * v[1], t * c[2] + cc * v[2], t * c[3] + cc * v[3] >>
VAdd(u, v)   == << u[1] + v[1], u[2] + v[2], u[3] + v[3] >>
VScale(k, u) == << k * u[1], k * u[2], k * u[3] >>
ShrunkGeoParts(a, b, c) ==
    LET al == Dot(a, c)  be == Dot(b, c)
    IN [ al |-> al, be |-> be, cc |-> Dot(c, c), ab |-> Dot(a, b),
         w1 |-> VAdd(VScale(al, Cross(c, b)), VScale(be, Cross(a, c))), w2 |-> Cross(a, b) ]
\* S(a) x S(b) = cc [ (M-1) w1 + cc w2 ],   S(a) . S(b) = cc [ (M^2 - 1) al be + cc ab ]
ShrunkGeo(p, M) == << p.cc * p.cc * N2(VAdd(VScale(M - 1, p.w1), VScale(p.cc, p.w2))),
                      p.cc * ((M * M - 1) * p.al * p.be + p.cc * p.ab) >>
LawShrinkGeo(a, b, c) == \A M \in 1..3 : GeoDescr(ShrinkPt(a, c, M), ShrinkPt(b, c, M)) = ShrunkGeo(ShrunkGeoParts(a, b, c), M)
\* the shrunk points stay in the open hemisphere of c and keep their order around c (sanity of the map)
LawShrinkKeeps(a, c) == Dot(a, c) > 0 => \A M \in 1..3 : Dot(ShrinkPt(a, c, M), c) > 0 /\ Parallel(Cross(ShrinkPt(a, c, M), c), Cross(a, c))
ShrunkNodeGeoParts(nodes, centre, row) == ShrunkGeoParts(nodes[row[1] + 1], nodes[row[2] + 1], centre)
=============================================================================

------------------------------ MODULE EdgeOps ------------------------------
(***************************************************************************)
(* C16 - edge distances, differences and gradients follow the edge's own   *)
(* neighbours.                                                             *)
(*                                                                         *)
(* Which pair (L1, from Mesh.tla): the two ends of edge e are the two      *)
(* entries of row e of the grid's own edge table E (numbering and end      *)
(* order are free, E itself must be an edge table of the mesh); the faces  *)
(* sharing e are the faces of the mesh having that side - one of them on a *)
(* boundary edge, two otherwise (manifold meshes).                         *)
(*   difference of node data  d[e] = | x[a] - x[b] |                       *)
(*   difference of face data  d[e] = | y[f] - y[g] |,  0 on a boundary edge*)
(*   gradient                 g[e] = d[e] / dist(centre f, centre g), 0 on *)
(*                            a boundary edge                              *)
(*   normalised gradient      g / ||g||_2 taken along the edge dimension,  *)
(*                            defined when g is not identically zero       *)
(* Data values are v / D (D = common denominator of the record); results   *)
(* are exact rationals <<num, den>> compared by cross-multiplication.      *)
(* Distances are irrational: node-node distances on lattice meshes are     *)
(* emitted as SphereZ.GeoDescr descriptors, centre-centre distances are    *)
(* evaluated by the harness from the face pairs emitted here.              *)
(*                                                                         *)
(* L2 (the code as read): _calculate_edge_face_difference masks on the     *)
(* second slot of edge_face_connectivity only; with the two-slot fill loop *)
(* of _build_edge_face_connectivity (MeshAlg.AlgEdgeFaces) the first slot  *)
(* is always filled first - EdgeScope.tla lets TLC prove L2 = L1.          *)
(***************************************************************************)
EXTENDS SphereZ, MeshAlg

(* ---- which pair ------------------------------------------------------------ *)
\* 0-based ids of the faces sharing the edge whose recorded row is `row`
SharingFaces(mesh, row) == FacesOfEdgeRow(mesh, row)
IsBoundaryRow(mesh, row) == Cardinality(SharingFaces(mesh, row)) = 1
IsInteriorRow(mesh, row) == Cardinality(SharingFaces(mesh, row)) = 2
\* as a sorted pair <<f, g>> (interior) or <<f>> (boundary): what the harness needs to look up centres
FacePairSeq(mesh, row)  == SetToSortSeq(SharingFaces(mesh, row), <)

\* precondition for judging anything per edge: the recorded table really is an edge table
EdgeTableOK(mesh, nNode, E) ==
    /\ \A k \in 1..Len(E) : Len(E[k]) = 2 /\ \A j \in 1..2 : E[k][j] \in 0..(nNode - 1)
    /\ EdgeRowsWellShaped(E) /\ EdgeNoneMissing(mesh, E) /\ EdgeNoneExtra(mesh, E) /\ EdgeNoDuplicates(E)

\* the recorded edge_face table names exactly the sharing faces, padding in the second slot only
EdgeFaceRowOK(mesh, row, efrow) ==
    /\ Len(efrow) = 2
    /\ Range(Unpadded(efrow)) = SharingFaces(mesh, row)
    /\ Len(Unpadded(efrow)) = Cardinality(SharingFaces(mesh, row))
    /\ PadOnlyAtEnd(efrow)

(* ---- differences (exact rationals) --------------------------------------------- *)
NodeDiff(row, x, D) == << Abs(x[row[1] + 1] - x[row[2] + 1]), D >>
FaceDiff(mesh, row, y, D) ==
    LET p == FacePairSeq(mesh, row)
    IN IF Len(p) = 2 THEN << Abs(y[p[1] + 1] - y[p[2] + 1]), D >> ELSE << 0, D >>

SpecNodeDiff(E, x, D)       == [ k \in 1..Len(E) |-> NodeDiff(E[k], x, D) ]
SpecFaceDiff(mesh, E, y, D) == [ k \in 1..Len(E) |-> FaceDiff(mesh, E[k], y, D) ]

\* zero pattern of the gradient = zero pattern of the difference (the distance is positive)
GradIsZero(mesh, row, y) == FaceDiff(mesh, row, y, 1)[1] = 0
\* a row of data for which normalisation is defined
NormDefined(mesh, E, y) == \E k \in 1..Len(E) : ~GradIsZero(mesh, E[k], y)

(* ---- L2: _calculate_edge_face_difference / _calculate_edge_node_difference -------- *)
AlgFaceDiff(EF, y, D) ==
    [ k \in 1..Len(EF) |->
        IF EF[k][2] # PAD                                            \* saddle_mask
        THEN << Abs(y[EF[k][1] + 1] - y[EF[k][2] + 1]), D >>         \* a PAD in slot 1 would index y[0]: TLC stops
        ELSE << 0, D >> ]
AlgNodeDiff(E, x, D) == [ k \in 1..Len(E) |-> << Abs(x[E[k][1] + 1] - x[E[k][2] + 1]), D >> ]

(* ---- laws ------------------------------------------------------------------------ *)
RowSwap(row)  == << row[2], row[1] >>
DiffLaws(mesh, E, x, y) ==
    LET nd == SpecNodeDiff(E, x, 1)
        fd == SpecFaceDiff(mesh, E, y, 1)
        Er == [ k \in 1..Len(E) |-> RowSwap(E[k]) ]
        cx == [ n \in 1..Len(x) |-> 3 ]
        cy == [ f \in 1..Len(y) |-> -2 ]
        nx == [ n \in 1..Len(x) |-> -x[n] ]
        sy == [ f \in 1..Len(y) |-> y[f] + 5 ]
    IN /\ \A k \in 1..Len(E) : nd[k][1] >= 0 /\ fd[k][1] >= 0                    \* absolute values
       /\ SpecNodeDiff(Er, x, 1) = nd /\ SpecFaceDiff(mesh, Er, y, 1) = fd        \* end order is free
       /\ \A k \in 1..Len(E) : IsBoundaryRow(mesh, E[k]) => fd[k][1] = 0          \* zero on boundary edges
       /\ \A k \in 1..Len(E) : SpecNodeDiff(E, cx, 1)[k][1] = 0                   \* constant fields
       /\ \A k \in 1..Len(E) : SpecFaceDiff(mesh, E, cy, 1)[k][1] = 0
       /\ SpecNodeDiff(E, nx, 1) = nd                                              \* |.| : sign of the field is irrelevant
       /\ SpecFaceDiff(mesh, E, sy, 1) = fd                                        \* shift invariance
       /\ \A k \in 1..Len(E) : (nd[k][1] = 0) <=> (x[E[k][1] + 1] = x[E[k][2] + 1])

(* ---- distances ---------------------------------------------------------------------- *)
\* node-node geodesic of edge row on integer direction nodes: atan2(sqrt(num), dot)
NodeGeo(nodes, row) == GeoDescr(nodes[row[1] + 1], nodes[row[2] + 1])
=============================================================================

----------------------------- MODULE DualScope -----------------------------
(***************************************************************************)
(* C18 model and generator.  States are (mesh name, cube rotation, cut,    *)
(* renumbering); the catalogue of CatalogGen.tla is extended here with     *)
(* closed polyhedra whose nodes have valence 5, 7 and 8 (hulls of integer  *)
(* vertex sets, proved well-formed by the same ClosedOK / PartialOK).      *)
(*                                                                         *)
(* Invariants (one per clause) are model-checked on every state:           *)
(*   WellFormedD    the entry satisfies the property's side conditions     *)
(*   RingLaws       every surrounded node's ring is one single cycle whose *)
(*                  consecutive faces share a side at the node             *)
(*   RingGeometry   that combinatorial ring is counter-clockwise: exact    *)
(*                  determinant tests on the integer directions            *)
(*   DualityLaws    closed meshes: Euler duality and dual(dual) = mesh     *)
(*   RenumLaw       renumbering nodes/faces/start corners commutes with    *)
(*                  the ring (the verdict cannot depend on numbering)      *)
(*   EmitCase       prints the case with its expected dual table           *)
(***************************************************************************)
EXTENDS CatalogGen, Dual

CONSTANTS NameSet,      \* mesh names explored
          RotSet,       \* rotations 1..24 explored besides 0
          CutSet,       \* cuts explored besides 0
          PermNodes,    \* names whose node renumberings are all explored
          PermFaces     \* names whose face renumberings are all explored (with the node ones)

Ring5 == { <<2, 0>>, <<0, 2>>, <<-2, 1>>, <<-2, -1>>, <<0, -2>> }
Ring8 == { <<3, 1>>, <<1, 3>>, <<-1, 3>>, <<-3, 1>>, <<-3, -1>>, <<-1, -3>>, <<1, -3>>, <<3, -1>> }
Ring7 == Ring8 \ { <<3, -1>> }
\* apex - ring - ring - apex: two k-sided pyramids on a k-sided prism; apex valence k, ring valence 4
Bipyramid(tag, R, K) == HullMesh(tag, { <<0, 0, K>>, <<0, 0, -K>> }
                                      \cup { <<p[1], p[2], 1>> : p \in R } \cup { <<p[1], p[2], -1>> : p \in R })
Pyramid5 == Bipyramid("pyramid5", Ring5, 3)
Pyramid7 == Bipyramid("pyramid7", Ring7, 4)
Pyramid8 == Bipyramid("pyramid8", Ring8, 4)
\* octahedron with a low pyramid on every face: 24 triangles, valence 8 (on the axes, i.e. poles) and 3
Triakis  == HullMesh("triakis_octahedron", SignedPerms(<<0, 0, 5>>) \cup SignedPerms(<<2, 2, 2>>))

XNames == { "pyramid5", "pyramid7", "pyramid8", "triakis_octahedron" }
XBase(n) == CASE n = "pyramid5" -> Pyramid5
              [] n = "pyramid7" -> Pyramid7
              [] n = "pyramid8" -> Pyramid8
              [] n = "triakis_octahedron" -> Triakis
              [] OTHER -> BaseMesh(n)

ASSUME NameSet \subseteq (Names \cup XNames)

VARIABLES np, fp,     \* renumbering of nodes / faces: << >> = none
          m           \* the mesh of this state (explicit tuples), computed once per state
dvars == <<name, rot, cut, np, fp, m>>

\* TLC keeps [x \in S |-> e] unevaluated and re-evaluates e at every application; SubSeq forces
\* an explicit tuple, and the mesh is a state variable so it is computed once per state
Tup(s)  == SubSeq(s, 1, Len(s))
Norm(x) == [ name  |-> x.name,
             nodes |-> Tup([ k \in 1..Len(x.nodes) |-> Tup(x.nodes[k]) ]),
             faces |-> Tup([ f \in 1..Len(x.faces) |-> Tup(x.faces[f]) ]) ]
\* The convex hulls are the expensive part, so a mesh is built once (Load, one step per name, spread
\* over TLC's workers) and its rotations / cuts / renumberings are derived from the explicit value.
Unloaded == -1
Base(n)  == Norm(XBase(n))
CutOf(x, cu) == SubMesh(x, { f \in 1..Len(x.faces) : f % cu # 0 }, x.name)

IdPerm(n) == [ i \in 1..n |-> i ]
DInit == name \in NameSet /\ rot = Unloaded /\ cut = 0 /\ np = << >> /\ fp = << >> /\ m = << >>
DNext == \/ /\ rot = Unloaded
            /\ rot' = 0 /\ m' = Base(name) /\ UNCHANGED <<name, cut, np, fp>>
         \/ /\ rot = 0 /\ cut = 0 /\ np = << >>
            /\ rot' \in RotSet /\ UNCHANGED <<name, cut, np, fp>>
            /\ m' = Norm(Rotated(m, Rots[rot'], m.name))
         \/ /\ rot >= 0 /\ cut = 0 /\ np = << >>
            /\ cut' \in CutSet /\ UNCHANGED <<name, rot, np, fp>>
            /\ m' = Norm(CutOf(m, cut'))
         \/ /\ rot = 0 /\ cut = 0 /\ np = << >> /\ name \in PermNodes
            /\ np' \in PermsOf(Len(m.nodes))
            /\ fp' \in (IF name \in PermFaces THEN PermsOf(Len(m.faces)) ELSE { IdPerm(Len(m.faces)) })
            /\ UNCHANGED <<name, rot, cut>>
            /\ m' = Norm(Renum(m, np', fp'))
Loaded == rot # Unloaded

Surrounded(x) == { v \in 0..(Len(x.nodes) - 1) : Valence(x.faces, v) >= 1 /\ InteriorNode(x.faces, v) }

WellFormedD  == Loaded => IF cut = 0 THEN ClosedOK(m) ELSE PartialOK(m)
RingLaws     == Loaded =>
                /\ (cut = 0 => Surrounded(m) = 0..(Len(m.nodes) - 1))
                /\ \A v \in Surrounded(m) :
                      /\ SingleCycle(m.faces, v)
                      /\ ConsecutiveShareSideAt(m.faces, v, DualRing(m.faces, v))
                      /\ ~DualRingCW(m.faces, v, DualRing(m.faces, v))        \* orientation is decided, valence >= 3
RingGeometry == Loaded =>
                /\ SumInside(m)
                /\ \A v \in Surrounded(m) : RingWedges(m, v) /\ RingCentres(m, v) /\ RingCentresReversedRejected(m, v)
DualityLaws  == Loaded /\ cut = 0 =>
                              /\ EulerDuality(m.faces, Len(m.nodes))
                              /\ DualInvolution(m.faces, Len(m.nodes))
RenumLaw     == np # << >> => RenumCommutes(Base(name), np, fp)

EmitCase == Loaded =>
    PrintT(<<"CASE", [ name |-> name, rot |-> rot, cut |-> cut, np |-> np, fp |-> fp,
                       nodes |-> m.nodes, faces |-> m.faces, closed |-> (cut = 0),
                       expect |-> [ k \in 1..Len(m.nodes) |-> DualRing(m.faces, k - 1) ],
                       qual |-> Qual(m.faces, Len(m.nodes)),
                       surrounded |-> Surrounded(m),
                       valences |-> ValencesOf(m),
                       equal_norm |-> EqualNorm(m),
                       dual_convex |-> (\A v \in Surrounded(m) : DualFaceConvexCCW(m, v)),
                       pole_node |-> (\E k \in 1..Len(m.nodes) : IsPole(m.nodes[k])),
                       antimeridian_node |-> (\E k \in 1..Len(m.nodes) : OnAntimeridian(m.nodes[k])) ]>>)
=============================================================================

--------------------------- MODULE JudgeValidate ---------------------------
(***************************************************************************)
(* Judges what Grid.validate() and the checks of validation.py answered on *)
(* real grids against Validate.tla.  One ndjson line per grid:             *)
(*   id, mesh (pos, alt, faces, cart as in Validate.tla), route,           *)
(*   calls: sequence of [op, out, warned, unchanged]                       *)
(*     op   "conn" | "dup" | "dupidx" | "area" | "norm" | "validate" |     *)
(*          "read" (some derived attribute was read; never judged) |       *)
(*          "normalize" (normalize_cartesian_coordinates; afterwards the    *)
(*          normalisation check must say true)                              *)
(*     out  "true" | "false" | "error" for the checks,                     *)
(*          "true" | "runtime_error" | "other_error" for validate          *)
(*     warned     a RuntimeWarning of validation.py was emitted            *)
(*     unchanged  every variable stored in the grid before the first call  *)
(*                is still there with the same bytes                       *)
(* The expectation is computed here, from the mesh, by the clauses of      *)
(* Validate.tla.  Verdict: <<"V", id, {<<clause, call index, out, reason>>}>>;*)
(* `reason` says, when the code's own notion explains the answer, which    *)
(* one (alias_only: the nodes coincide as points but not as stored         *)
(* numbers; count_coincidence: as many distinct indices as nodes although  *)
(* an index is out of range and a node unused), else "other".              *)
(***************************************************************************)
EXTENDS Validate, Json, IOUtils, TLCExt

Recs    == ndJsonDeserialize(IOEnv.REC_FILE)
Block   == 16
NBlocks == (Len(Recs) + Block - 1) \div Block
VARIABLE i

B(x) == IF x THEN "true" ELSE "false"
AliasOnly(m) == StoredDupFree(m) /\ ~NoDuplicates(m)
CountCoincidence(m) == CodeConnectivity(m) /\ ~Connectivity(m)

CallFails(m, c, k, normd) ==
  LET op == c.op  out == c.out
      f(clause, reason) == { <<clause, k, out, reason>> }
  IN
  (CASE op = "conn"   -> IF out # B(Connectivity(m)) THEN f("Connectivity", IF CountCoincidence(m) THEN "count_coincidence" ELSE "other") ELSE {}
     [] op = "dup"    -> IF out # B(NoDuplicates(m)) THEN f("Duplicates", IF AliasOnly(m) THEN "alias_only" ELSE "other") ELSE {}
     [] op = "dupidx" -> IF out # B(DupIndexUsed(m))
                         THEN f("DupIndex", IF out = B(StoredDupIndexUsed(m)) /\ ~StoredDupIndexUsed(m) THEN "alias_only" ELSE "other") ELSE {}
     [] op = "area"   -> IF AreaDefined(m) /\ out # B(NonZeroArea(m)) THEN f("NonZeroArea", "other") ELSE {}
     [] op = "norm"   -> IF out # B(normd \/ Normalized(m)) THEN f("Normalized", "other") ELSE {}
     [] op = "validate" ->
          IF Validates(m) /\ AreaDefined(m)
          THEN (IF out # "true" THEN f("ValidateAccepts", "other") ELSE {})
          ELSE IF ~Validates(m)
          THEN (IF out = "true"
                THEN f("ValidateRejects",
                       IF CodeConnectivity(m) /\ StoredDupFree(m) /\ (NonZeroArea(m) \/ ~AreaDefined(m))
                       THEN (IF ~Connectivity(m) /\ NoDuplicates(m) THEN "count_coincidence"
                             ELSE IF Connectivity(m) /\ ~NoDuplicates(m) THEN "alias_only"
                             ELSE "count_coincidence+alias")
                       ELSE "other")
                ELSE {})
          ELSE {}
     [] OTHER -> {})
  \cup (IF op \in {"conn", "dup", "area"} /\ out \in {"true", "false"} /\ c.warned # (out = "false")
        THEN { <<"WarnsIffFalse", k, out, "other">> } ELSE {})
  \cup (IF ~c.unchanged THEN { <<"GridUnchanged", k, op, "other">> } ELSE {})

\* the same question gets the same answer whenever it is asked
Repeatable(r) ==
  { <<"Repeatable", k, r.calls[k].out, "other">> :
      k \in { x \in 1..Len(r.calls) : r.calls[x].op \notin {"read", "normalize"} /\
                \E y \in 1..(x - 1) : /\ r.calls[y].op = r.calls[x].op /\ r.calls[y].out # r.calls[x].out
                                       /\ ~\E z \in y..x : r.calls[z].op = "normalize" } }
NormalizedBefore(r, k) == \E j \in 1..(k - 1) : r.calls[j].op = "normalize"

Failed(r) == UNION { CallFails(r.mesh, r.calls[k], k, NormalizedBefore(r, k)) : k \in 1..Len(r.calls) } \cup Repeatable(r)

\* (the generator variables of Validate.tla are idle here)
JInit == i \in { -b : b \in 1..NBlocks } /\ base = "-" /\ first = "-" /\ second = "-"
JNext == /\ i < 0
         /\ i' \in { k \in 1..Len(Recs) : (k - 1) \div Block = (-i) - 1 }
         /\ UNCHANGED vars
Judge == i > 0 => PrintT(<<"V", Recs[i].id, Failed(Recs[i])>>)
=============================================================================

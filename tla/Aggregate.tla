----------------------------- MODULE Aggregate -----------------------------
(***************************************************************************)
(* C17 - topological aggregations.                                         *)
(*                                                                         *)
(* L1 (the property): the aggregation of a node-centred row of data to an  *)
(* element (a face: its real corners, never padding; an edge: its two end  *)
(* nodes) is the chosen reduction of the values gathered on exactly that   *)
(* element's nodes.  Ten reductions are defined here on small integers.    *)
(* A data value is the rational v / D (D = the record's common             *)
(* denominator: 1 for integer and boolean data - TRUE is 1 -, a power of   *)
(* two for float data), and every result is an exact rational <<num, den>> *)
(* with den > 0; std is the square root of the var rational, so it is      *)
(* compared squared.  Rationals are compared by cross-multiplication.      *)
(*                                                                         *)
(* L2 (the code as read): get_face_node_partitions (argsort / unique /     *)
(* cumsum) and the per-partition gather face_nodes[face_inds, 0:size] of   *)
(* _apply_node_to_face_aggregation_numpy, the single gather of the edge    *)
(* variant.  AggScope.tla / AggPart.tla let TLC prove L2 => L1 on          *)
(* exhaustive small scopes.                                                *)
(***************************************************************************)
EXTENDS MeshAlg

Ops == { "mean", "min", "max", "median", "std", "var", "sum", "prod", "all", "any" }
\* results that are exact in binary floating point on small dyadic data (compared exactly);
\* the others are compared to the property's 1e-12
ExactOps == { "min", "max", "sum", "prod", "all", "any" }
Dests == { "face", "edge" }

(* ---- folds -------------------------------------------------------------- *)
RECURSIVE SumSeq(_)
SumSeq(s)  == IF s = <<>> THEN 0 ELSE Head(s) + SumSeq(Tail(s))
RECURSIVE ProdSeq(_)
ProdSeq(s) == IF s = <<>> THEN 1 ELSE Head(s) * ProdSeq(Tail(s))
RECURSIVE Pow(_, _)
Pow(b, n)  == IF n = 0 THEN 1 ELSE b * Pow(b, n - 1)
SqSeq(s)   == [ i \in 1..Len(s) |-> s[i] * s[i] ]
Sorted(s)  == SortSeq(s, LAMBDA a, b : a < b)

(* ---- rationals ------------------------------------------------------------ *)
RatEq(a, b)  == a[2] > 0 /\ b[2] > 0 /\ a[1] * b[2] = b[1] * a[2]
RatLeq(a, b) == a[1] * b[2] <= b[1] * a[2]         \* both denominators positive

(* ---- the ten reductions of a non-empty sequence of values vals[i] / D ------ *)
Reduce(op, vals, D) ==
    LET n == Len(vals)
        S == SumSeq(vals)
        Q == SumSeq(SqSeq(vals))
        t == Sorted(vals)
    IN CASE op = "sum"    -> << S, D >>
         [] op = "prod"   -> << ProdSeq(vals), Pow(D, n) >>
         [] op = "min"    -> << MinOf(Range(vals)), D >>
         [] op = "max"    -> << MaxOf(Range(vals)), D >>
         [] op = "mean"   -> << S, n * D >>
         [] op = "median" -> IF n % 2 = 1 THEN << t[(n + 1) \div 2], D >>
                             ELSE << t[n \div 2] + t[(n \div 2) + 1], 2 * D >>
         [] op = "var"    -> << n * Q - S * S, n * n * D * D >>       \* population variance
         [] op = "std"    -> << n * Q - S * S, n * n * D * D >>       \* ... of which std is the root
         [] op = "all"    -> << IF \A i \in 1..n : vals[i] # 0 THEN 1 ELSE 0, 1 >>
         [] op = "any"    -> << IF \E i \in 1..n : vals[i] # 0 THEN 1 ELSE 0, 1 >>

(* ---- non-finite data (float arrays): NaN, +inf, -inf ------------------------------------ *)
\* A data value is a small integer (meaning v / D) or one of three sentinels; a result is a rational <<num, den>>
\* with den > 0 or <<sentinel, 0>>.  The semantics are those of IEEE arithmetic under the reduction over the
\* element's own corners (what numpy's reductions compute), per reduction:
\*   sum, mean  NaN if a NaN is present or both infinities are; else the infinity present
\*   prod       NaN if a NaN is present, or an infinity together with a zero; else the infinity with the sign of the product
\*   min (max)  NaN if a NaN is present; else -inf (+inf) if present; else the extremum of the finite values, an
\*              infinity of the other sign only if nothing else is there
\*   median     NaN if a NaN is present; else the middle of the sorted values with -inf < finite < +inf, the two
\*              middle ones averaged (-inf and +inf average to NaN)
\*   var, std   NaN as soon as any value is not finite (x - mean is inf - inf or NaN)
\*   all, any   NaN and the infinities are non-zero, hence true
NaNV  == 1000001
PInfV == 1000002
NInfV == 1000003
IsSpecial(v) == v >= NaNV
Special(c)   == << c, 0 >>
SignOf(x)    == IF x > 0 THEN 1 ELSE IF x < 0 THEN -1 ELSE 0
ReduceX(op, vals, D) ==
    LET n    == Len(vals)
        idx  == 1..n
        nan  == \E i \in idx : vals[i] = NaNV
        nP   == Cardinality({ i \in idx : vals[i] = PInfV })
        nN   == Cardinality({ i \in idx : vals[i] = NInfV })
        fin  == SelectSeq(vals, LAMBDA v : ~IsSpecial(v))
        zero == \E i \in 1..Len(fin) : fin[i] = 0
        \* order for the median: -inf < finite < +inf, as keys
        key(v) == IF v = NInfV THEN -1000000 ELSE IF v = PInfV THEN 1000000 ELSE v
        srt  == SortSeq(vals, LAMBDA a, b : key(a) < key(b))
        avg2(a, b) == IF IsSpecial(a) /\ IsSpecial(b) THEN (IF a = b THEN Special(a) ELSE Special(NaNV))
                      ELSE IF IsSpecial(a) THEN Special(a) ELSE IF IsSpecial(b) THEN Special(b) ELSE << a + b, 2 * D >>
        one(a) == IF IsSpecial(a) THEN Special(a) ELSE << a, D >>
    IN IF ~nan /\ nP = 0 /\ nN = 0 THEN Reduce(op, vals, D)
       ELSE CASE op \in { "sum", "mean" } ->
                   IF nan \/ (nP > 0 /\ nN > 0) THEN Special(NaNV) ELSE IF nP > 0 THEN Special(PInfV) ELSE Special(NInfV)
              [] op = "prod" ->
                   IF nan \/ zero THEN Special(NaNV)
                   ELSE LET sg == (IF nN % 2 = 1 THEN -1 ELSE 1) * SignOf(ProdSeq([ i \in 1..Len(fin) |-> SignOf(fin[i]) ]))
                        IN IF sg > 0 THEN Special(PInfV) ELSE Special(NInfV)
              [] op = "min" ->
                   IF nan THEN Special(NaNV) ELSE IF nN > 0 THEN Special(NInfV)
                   ELSE IF fin = << >> THEN Special(PInfV) ELSE << MinOf(Range(fin)), D >>
              [] op = "max" ->
                   IF nan THEN Special(NaNV) ELSE IF nP > 0 THEN Special(PInfV)
                   ELSE IF fin = << >> THEN Special(NInfV) ELSE << MaxOf(Range(fin)), D >>
              [] op = "median" ->
                   IF nan THEN Special(NaNV)
                   ELSE IF n % 2 = 1 THEN one(srt[(n + 1) \div 2]) ELSE avg2(srt[n \div 2], srt[(n \div 2) + 1])
              [] op \in { "var", "std" } -> Special(NaNV)
              [] op = "all" -> << IF zero THEN 0 ELSE 1, 1 >>
              [] op = "any" -> << 1, 1 >>

\* laws of the non-finite semantics on a value sequence with one entry replaced by a sentinel
NonFiniteLaws(vals, D) ==
    \A j \in 1..Len(vals) :
      LET wn == [ vals EXCEPT ![j] = NaNV ]
          wp == [ vals EXCEPT ![j] = PInfV ]
          wm == [ vals EXCEPT ![j] = NInfV ]
          rest == RemoveAt(vals, j)
      IN /\ \A op \in Ops \ { "all", "any" } : ReduceX(op, wn, D) = Special(NaNV)              \* NaN propagates
         /\ ReduceX("any", wn, D) = << 1, 1 >> /\ ReduceX("all", wn, D) = ReduceX("all", wp, D)   \* ... and is truthy
         /\ ReduceX("max", wp, D) = Special(PInfV) /\ ReduceX("min", wm, D) = Special(NInfV)
         /\ ReduceX("sum", wp, D) = Special(PInfV) /\ ReduceX("mean", wm, D) = Special(NInfV)
         /\ (rest # << >> => ReduceX("min", wp, D) = Reduce("min", rest, D) /\ ReduceX("max", wm, D) = Reduce("max", rest, D))
         /\ ReduceX("var", wp, D) = Special(NaNV) /\ ReduceX("std", wm, D) = Special(NaNV)
         /\ \A op \in Ops : ReduceX(op, vals, D) = Reduce(op, vals, D)                             \* finite data: unchanged
         /\ \A op \in Ops : ReduceX(op, Rotate(wp, 1), D) = ReduceX(op, wp, D)                     \* order-free
         \* both infinities: their sum is NaN
         /\ \A i \in 1..Len(vals) : i # j =>
                ReduceX("sum", [ wp EXCEPT ![i] = NInfV ], D) = Special(NaNV)

(* ---- L1: what is gathered -------------------------------------------------- *)
\* values of `row` (a sequence indexed by node id + 1) on the nodes of an element (a sequence of
\* 0-based node ids without padding: a face of the mesh, or the two ends of an edge)
Gather(el, row)   == [ j \in 1..Len(el) |-> row[el[j] + 1] ]
\* elements of a destination: the faces as given / the grid's own recorded edge table
SpecAgg(els, row, op, D) == [ e \in 1..Len(els) |-> Reduce(op, Gather(els[e], row), D) ]

\* outcome classes of the dispatcher: which (source kind, destination) pairs yield numbers
Supported(src, dst) == src = "node" /\ dst \in Dests

(* ---- L2: get_face_node_partitions ------------------------------------------ *)
\* N: n_nodes_per_face; order: what argsort returned (0-based face ids) - numpy's default sort is
\* not stable, so every ascending arrangement is possible and the check quantifies over all of them
AscendingOrders(N) ==
    { [ i \in 1..Len(N) |-> pi[i] - 1 ] : pi \in
        { q \in Permutations(1..Len(N)) : \A i, j \in 1..Len(N) : i < j => N[q[i]] <= N[q[j]] } }
StableOrder(N) == CHOOSE o \in AscendingOrders(N) :
                    \A i, j \in 1..Len(N) : i < j /\ N[o[i] + 1] = N[o[j] + 1] => o[i] < o[j]

AlgPartition(N, order) ==
    LET sizes  == SetToSortSeq(Range(N), <)                                   \* np.unique
        counts == [ i \in 1..Len(sizes) |-> Cardinality({ f \in 1..Len(N) : N[f] = sizes[i] }) ]
        csum[i \in 0..Len(sizes)] == IF i = 0 THEN 0 ELSE csum[i - 1] + counts[i]   \* np.cumsum
        change == [ i \in 1..(Len(sizes) + 1) |-> csum[i - 1] ]
    IN [ order |-> order, sizes |-> sizes, counts |-> counts, change |-> change ]

\* face ids (0-based) of the i-th partition: order[start:end]
PartFaces(p, i) == { p.order[k] : k \in (p.change[i] + 1)..p.change[i + 1] }

\* every face lies in exactly one partition, the one of its own size
PartitionSound(N, p) ==
    \A f \in 1..Len(N) :
        LET hits == { i \in 1..Len(p.sizes) : (f - 1) \in PartFaces(p, i) }
        IN Cardinality(hits) = 1 /\ \A i \in hits : p.sizes[i] = N[f]

(* ---- L2: _apply_node_to_face_aggregation_numpy ------------------------------- *)
\* T: stored face-node table (PAD = -1 at row ends).  A padding entry would index row[0], which does
\* not exist: if the transcription ever touched padding TLC would stop with an error.
\* the gather: for each face the node ids read for it (face_node_conn[face_inds, 0:e] of the last
\* partition containing it), or <<>> if no partition contains it (np.empty slot never written)
AlgFaceGather(T, order) ==
    LET N == AlgNodesPerFace(T)
        p == AlgPartition(N, order)
        partOf(f) == { i \in 1..Len(p.sizes) : (f - 1) \in PartFaces(p, i) }
    IN [ f \in 1..Len(T) |->
           IF partOf(f) = {} THEN << >>
           ELSE LET e == p.sizes[MaxOf(partOf(f))]                 \* the last write wins
                IN [ j \in 1..e |-> T[f][j] ] ]
\* the reduction along the last axis of data[..., face_nodes_par]
AlgFaceAggFrom(g, row, op, D) ==
    [ f \in 1..Len(g) |-> IF g[f] = << >> THEN << 0, 0 >>
                          ELSE Reduce(op, [ j \in 1..Len(g[f]) |-> row[g[f][j] + 1] ], D) ]
AlgFaceAgg(T, order, row, op, D) == AlgFaceAggFrom(AlgFaceGather(T, order), row, op, D)

\* _apply_node_to_edge_aggregation_numpy: one gather with the whole edge table
AlgEdgeAgg(E, row, op, D) == [ k \in 1..Len(E) |-> Reduce(op, << row[E[k][1] + 1], row[E[k][2] + 1] >>, D) ]

(* ---- layouts: where the grid dimension sits inside data of rank 1..4 ---------------- *)
\* A layout is [pos |-> 0-based position of the grid dimension, lead |-> sizes of the OTHER dimensions in
\* their order].  Data are presented canonically as one node row per flattened index of the other dimensions
\* (C order); the array handed to the implementation has the node axis inserted at `pos`.  The result must
\* have the destination dimension at `pos` and, at the C-order offset of (others with element k inserted at
\* pos), the reduction of that row over element k.
InsAt(s, p0, x) == SubSeq(s, 1, p0) \o << x >> \o SubSeq(s, p0 + 1, Len(s))
RemAt(s, p1)    == SubSeq(s, 1, p1 - 1) \o SubSeq(s, p1 + 1, Len(s))                 \* 1-based
LayoutShape(l, n)  == InsAt(l.lead, l.pos, n)
InnerSize(l)       == ProdSeq(SubSeq(l.lead, l.pos + 1, Len(l.lead)))                   \* B: product of the sizes after pos
NRows(l)           == ProdSeq(l.lead)
\* offset in the C-order flattening of an array of shape LayoutShape(l, n), of canonical row rho (0-based) and
\* element k (0-based): rho = a * B + b  |->  (a * n + k) * B + b
FlatOffset(l, n, rho, k) == LET B == InnerSize(l) IN ((rho \div B) * n + k) * B + (rho % B)

\* n-d arrays as functions from index tuples (0-based) - used to model-check the formula above and the
\* moveaxis / gather / moveaxis-back transcription (AggLayout.tla)
RECURSIVE IndexTuples(_)
IndexTuples(shape) == IF shape = << >> THEN { << >> }
                      ELSE { << i >> \o t : i \in 0..(shape[1] - 1), t \in IndexTuples(Tail(shape)) }
RECURSIVE COrder(_, _)
COrder(idx, shape) == IF idx = << >> THEN 0
                      ELSE idx[1] * ProdSeq(Tail(shape)) + COrder(Tail(idx), Tail(shape))
\* np.moveaxis(a, src, dst)[MoveTuple(t, src, dst)] = a[t]   (1-based axis positions)
MoveTuple(t, src, dst) == InsAt(RemAt(t, src), dst - 1, t[src])
SwapTuple(t, i, j)     == [ t EXCEPT ![i] = t[j], ![j] = t[i] ]

(* ---- laws the reductions themselves must obey (sanity of this oracle) ---------- *)
ReduceLaws(vals, D) ==
    LET r(op) == Reduce(op, vals, D)
        n == Len(vals)
    IN /\ \A op \in Ops : r(op)[2] > 0
       /\ RatLeq(r("min"), r("mean")) /\ RatLeq(r("mean"), r("max"))
       /\ RatLeq(r("min"), r("median")) /\ RatLeq(r("median"), r("max"))
       /\ r("var")[1] >= 0
       /\ (r("var")[1] = 0) <=> (\A i, j \in 1..n : vals[i] = vals[j])
       /\ RatEq(<< r("mean")[1] * n, r("mean")[2] >>, r("sum"))
       /\ (r("all")[1] = 1) <=> (r("prod")[1] # 0)
       /\ (r("any")[1] = 0) <=> (\A i \in 1..n : vals[i] = 0)
       /\ (n = 1) => \A op \in { "mean", "min", "max", "median", "sum", "prod" } : RatEq(r(op), << vals[1], D >>)
       /\ (n = 2) => RatEq(r("median"), r("mean"))
       \* every reduction is a function of the multiset: invariant under rotation and reversal
       /\ \A op \in Ops :
            /\ Reduce(op, Rotate(vals, 1), D) = r(op)
            /\ Reduce(op, [ i \in 1..n |-> vals[n + 1 - i] ], D) = r(op)
=============================================================================

------------------------------ MODULE PolyGen ------------------------------
(***************************************************************************)
(* C15 generator: for every mesh of the file IOEnv.MESH_FILE (catalogue    *)
(* entries), every seam position k and every way of signing the nodes that *)
(* lie exactly on the seam, checks the laws of PolyCases and emits the     *)
(* case together with its expected abstract result (crossing set, the      *)
(* faces kept by 'exclude' in order, pole-enclosing faces, ties).          *)
(***************************************************************************)
EXTENDS PolyCases, Json, IOUtils

Meshes == ndJsonDeserialize(IOEnv.MESH_FILE)

VARIABLES mi, k, sv
vars == <<mi, k, sv>>

\* sv = 1: every seam node reported as +180; -1: as -180; 2: alternating by node id
SgnOf(m, kk, s) ==
    [ n \in 1..Len(m.nodes) |->
        IF OnSeam(RotZ(kk, m.nodes[n])) THEN (IF s = 2 THEN (IF n % 2 = 0 THEN 1 ELSE -1) ELSE s) ELSE 0 ]

Init == mi \in 1..Len(Meshes) /\ k = 0 /\ sv = 1
Next == /\ k = 0 /\ sv = 1
        /\ k' \in {0, 2} /\ sv' \in {1, -1, 2}
        /\ UNCHANGED mi

M  == Meshes[mi]
SG == SgnOf(M, k, sv)

LawPartition == KeptPartition(M, k, SG)
LawParity    == ParityLaw(M, k, SG)
LawSigns     == SgnWellFormed(M, k, SG)
\* a closed mesh covers the whole seam, so some face crosses it (or is a tie)
LawClosed    == M.closed => (CrossSet(M, k, SG) \cup TieSet(M, k, SG)) # {}
\* the sign of a seam node matters only to the faces that have it as a corner
LawSignLocal == \A f \in FaceIds(M) : ~HasSeamNode(M, k, f) =>
                   (CrossesAM(M, k, SG, f) <=> CrossesAM(M, k, SgnOf(M, k, -1), f))

LawWellFormed == WellFormedMesh(M)
Centres == { <<3, 0, 1>>, <<-3, 0, -1>>, <<-1, 0, 3>>, <<1, 0, -3>>, <<1, 0, 3>>, <<-3, 0, 1>>, <<2, 0, 1>>, <<-2, 0, -1>> }
LawVisibility == \A c \in Centres : VisLaws(M, c)

PoleCorner == \E f \in FaceIds(M) : CornerAtPole(FaceDirs(M, f))

Emit == PrintT(<<"CASE", [ mi |-> mi, k |-> k, sv |-> sv, sgn |-> SG,
                           cross |-> CrossSet(M, k, SG), tie |-> TieSet(M, k, SG),
                           kept |-> Kept(M, k, SG),
                           polein |-> PoleInSet(M), poletouch |-> PoleTouchSet(M),
                           polecorner |-> PoleCorner,
                           flat |-> { f \in FaceIds(M) : FlatFace(M, f) },
                           seam |-> SeamNodes(M, k) ]>>)
=============================================================================

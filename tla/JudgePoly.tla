----------------------------- MODULE JudgePoly -----------------------------
(***************************************************************************)
(* C15 judge: one ndjson line per conversion recorded from the             *)
(* implementation:                                                         *)
(*   id, nodes, faces, k, sgn, kind in {"gdf","poly","line","am"}, pe,      *)
(*   rows  : Seq(row), row = Seq(piece), piece = Seq(<<n, s>>)             *)
(*   data  : Seq(Int) (value attached to row j; tracer of face f is        *)
(*           1000 + f) -- optional                                         *)
(*   owner : Seq(Int) (poly: the returned corrected_to_original_faces)     *)
(*   am    : Seq(Int) (kind "am": Grid.antimeridian_face_indices)          *)
(*   crs_ok: the CRS the object declares is the requested one              *)
(* Verdict: <<"V", id, failed clause names, facts>>; records on which the  *)
(* property leaves the answer open print <<"N", id, reason>>.              *)
(***************************************************************************)
EXTENDS PolyCases, Json, IOUtils

Recs  == ndJsonDeserialize(IOEnv.REC_FILE)
Block == 16
NBlocks == (Len(Recs) + Block - 1) \div Block

VARIABLE i

Has(r, f) == f \in DOMAIN r
Mesh(r)   == [ nodes |-> r.nodes, faces |-> r.faces ]
Tracer(f) == 1000 + f

Unjudged(r) ==
    LET m == Mesh(r) IN
    IF ~SgnWellFormed(m, r.k, r.sgn) THEN "bad-sign-input"
    ELSE IF \E f \in FaceIds(m) : CornerAtPole(FaceDirs(m, f)) THEN "pole-corner"
    ELSE IF TieSet(m, r.k, r.sgn) # {} THEN "tie"
    ELSE "judged"

\* ---- which face is row j (exclude / ignore / gdf split), or group of rows of face f
RowFace(r, j) == IF r.pe = "exclude" THEN Kept(Mesh(r), r.k, r.sgn)[j] ELSE j - 1
NExpected(r)  == IF r.pe = "exclude" THEN Len(Kept(Mesh(r), r.k, r.sgn)) ELSE NF(Mesh(r))

\* all pieces exported for face f under 'split'
PiecesOf(r, f) ==
    IF r.kind = "gdf" THEN r.rows[f + 1]
    ELSE LET idx == { j \in 1..Len(r.rows) : r.owner[j] = f }
         IN [ q \in 1..Cardinality(idx) |->
                r.rows[CHOOSE j \in idx : Cardinality({ x \in idx : x <= j }) = q][1] ]

\* line collections carry no owner table: rows are grouped greedily, in face order;
\* Feasible(j, f) = rows j.. can be distributed over faces f.. (each face >= 1 consecutive rows)
GroupOK(r, f, ps) ==
    LET m == Mesh(r) IN
    /\ PiecesOwned(m, f, ps) /\ PiecesCover(m, f, ps) /\ PiecesNoSpan(m, r.k, ps)
    /\ PiecesSpecialOK(m, r.k, r.sgn, f, ps) /\ PiecesWhole(m, r.k, r.sgn, f, ps)
RECURSIVE Feasible(_, _, _)
Feasible(r, j, f) ==
    IF f = NF(Mesh(r)) THEN j = Len(r.rows) + 1
    ELSE \E len \in 1..(IF CrossesAM(Mesh(r), r.k, r.sgn, f) THEN 4 ELSE 1) :
            /\ j + len - 1 <= Len(r.rows)
            /\ GroupOK(r, f, [ q \in 1..len |-> r.rows[j + q - 1][1] ])
            /\ Feasible(r, j + len, f + 1)

SplitWithOwners(r) == r.kind = "gdf" \/ Has(r, "owner")
OwnerShapeOK(r) == /\ Len(r.owner) = Len(r.rows)
                   /\ \A j \in 1..Len(r.owner) : r.owner[j] \in FaceIds(Mesh(r))
                   /\ \A j \in 1..(Len(r.owner) - 1) : r.owner[j] <= r.owner[j + 1]
                   /\ { r.owner[j] : j \in 1..Len(r.owner) } = FaceIds(Mesh(r))

Clauses(r) ==
  LET m  == Mesh(r)
      k  == r.k
      sg == r.sgn
      geo == r.kind \in {"gdf", "poly", "line"}
      split == r.pe = "split"
      rowsOK == Len(r.rows) = NExpected(r)
      ownOK == IF r.kind = "gdf" THEN Len(r.rows) = NF(m) ELSE OwnerShapeOK(r)
  IN
  [ AmIndices      |-> r.kind = "am" =>
                          /\ \A j \in 1..(Len(r.am) - 1) : r.am[j] < r.am[j + 1]
                          /\ { r.am[j] : j \in 1..Len(r.am) } = CrossSet(m, k, sg),
    DeclaredCRS    |-> (geo /\ Has(r, "crs_ok")) => r.crs_ok,
    VerticesAreCorners |-> geo => \A j \in 1..Len(r.rows) : \A q \in 1..Len(r.rows[j]) : AllMatched(r.rows[j][q]),
    \* exclude: dropped set = crossing set, polygon j <-> j-th non-crossing face; ignore: polygon i <-> face i
    RowCount       |-> (geo /\ ~split) => rowsOK,
    OnePiecePerRow |-> (geo /\ ~split) => \A j \in 1..Len(r.rows) : Len(r.rows[j]) = 1,
    RingIsFace     |-> (geo /\ ~split /\ rowsOK) =>
                          \A j \in 1..Len(r.rows) : Len(r.rows[j]) >= 1 /\ RingIsFace(m, r.rows[j][1], RowFace(r, j)),
    LineClosed     |-> r.kind = "line" => \A j \in 1..Len(r.rows) : \A q \in 1..Len(r.rows[j]) : ClosedRing(r.rows[j][q]),
    \* split
    SplitRowsPerFace |-> (geo /\ split /\ SplitWithOwners(r)) => ownOK,
    SplitOwnership |-> (geo /\ split /\ SplitWithOwners(r) /\ ownOK) => \A f \in FaceIds(m) : PiecesOwned(m, f, PiecesOf(r, f)),
    SplitCover     |-> (geo /\ split /\ SplitWithOwners(r) /\ ownOK) => \A f \in FaceIds(m) : PiecesCover(m, f, PiecesOf(r, f)),
    SplitNoSpan    |-> (geo /\ split /\ SplitWithOwners(r) /\ ownOK) => \A f \in FaceIds(m) : PiecesNoSpan(m, k, PiecesOf(r, f)),
    SplitSpecial   |-> (geo /\ split /\ SplitWithOwners(r) /\ ownOK) => \A f \in FaceIds(m) : PiecesSpecialOK(m, k, sg, f, PiecesOf(r, f)),
    SplitWhole     |-> (geo /\ split /\ SplitWithOwners(r) /\ ownOK) => \A f \in FaceIds(m) : PiecesWhole(m, k, sg, f, PiecesOf(r, f)),
    SplitLines     |-> (geo /\ split /\ ~SplitWithOwners(r)) =>
                          /\ \A j \in 1..Len(r.rows) : Len(r.rows[j]) = 1
                          /\ Feasible(r, 1, 0),
    \* the returned index table of a PolyCollection ('exclude': the kept faces)
    OwnerTable     |-> (r.kind = "poly" /\ r.pe = "exclude" /\ Has(r, "owner")) => r.owner = Kept(m, k, sg),
    \* data
    DataLength     |-> (geo /\ Has(r, "data")) => Len(r.data) = Len(r.rows),
    DataFollowsFaces |-> (geo /\ Has(r, "data") /\ Len(r.data) = Len(r.rows)) =>
                          IF ~split THEN (rowsOK => \A j \in 1..Len(r.rows) : r.data[j] = Tracer(RowFace(r, j)))
                          ELSE IF r.kind = "gdf" THEN (Len(r.rows) = NF(m) => \A j \in 1..Len(r.rows) : r.data[j] = Tracer(j - 1))
                          ELSE (Has(r, "owner") /\ OwnerShapeOK(r)) => \A j \in 1..Len(r.rows) : r.data[j] = Tracer(r.owner[j])
  ]

Failed(r) == LET c == Clauses(r) IN { n \in DOMAIN c : ~c[n] }
Facts(r)  == [ crossers |-> Cardinality(CrossSet(Mesh(r), r.k, r.sgn)),
               polein   |-> Cardinality(PoleInSet(Mesh(r)) \cap CrossSet(Mesh(r), r.k, r.sgn)) ]

Init == i \in { -b : b \in 1..NBlocks }
Next == /\ i < 0
        /\ i' \in { j \in 1..Len(Recs) : (j - 1) \div Block = (-i) - 1 }

Judge == i > 0 =>
           LET r == Recs[i]
               u == Unjudged(r)
           IN IF u # "judged" THEN PrintT(<<"N", r.id, u>>)
              ELSE LET f == Failed(r) IN (f = {} \/ PrintT(<<"V", r.id, f, Facts(r)>>))
=============================================================================

----------------------------- MODULE JudgePoly -----------------------------
(***************************************************************************)
(* C15 judge: one ndjson line per conversion recorded from the             *)
(* implementation:                                                         *)
(*   id, nodes, faces, k, sgn, kind in {"gdf","poly","line","am"}, pe,      *)
(*   rows  : Seq(row), row = Seq(piece), piece = Seq(<<n, s>>)             *)
(*   data  : Seq(Int) (value attached to row j; tracer of face f is        *)
(*           1000 + f) -- optional                                         *)
(*   owner : Seq(Int) (poly: the returned corrected_to_original_faces)     *)
(*   am    : Seq(Int) (kind "am": Grid.antimeridian_face_indices)          *)
(*   crs_ok: the CRS the object declares is the requested one              *)
(*   closed: Seq(BOOLEAN) (kind "line": line j ends where it starts)       *)
(*   pc, pk, nanmode, nodenan, nn: partial projections (see HasNan)        *)
(*   frame_ok: (kind "gdf") the frame's class belongs to the requested     *)
(*           engine's package                                              *)
(* Verdict: <<"V", id, failed clause names, facts>>; records on which the  *)
(* property leaves the answer open print <<"N", id, reason>>.              *)
(***************************************************************************)
EXTENDS PolyCases, Json, IOUtils

Recs  == ndJsonDeserialize(IOEnv.REC_FILE)
Block == 16
NBlocks == (Len(Recs) + Block - 1) \div Block

VARIABLE i

Has(r, f) == f \in DOMAIN r
Mesh(r)   == [ nodes |-> r.nodes, faces |-> r.faces ]
Tracer(f) == 1000 + f

\* the record comes from a projection that shows only part of the sphere: pc = centre direction, pk = kind,
\* nanmode = "drop" (polygons with a NaN vertex are left out) or "keep" (exclude_nan_polygons=False),
\* nodenan = cartopy's NaN pattern per node, nn = the returned non_nan_polygon_indices (optional)
HasNan(r) == Has(r, "pc")
Unjudged(r) ==
    LET m == Mesh(r) IN
    IF ~SgnWellFormed(m, r.k, r.sgn) THEN "bad-sign-input"
    ELSE IF \E f \in FaceIds(m) : CornerAtPole(FaceDirs(m, f)) THEN "pole-corner"
    ELSE IF TieSet(m, r.k, r.sgn) # {} THEN "tie"
    ELSE IF HasNan(r) /\ ~OracleAgrees(m, r.pc, r.pk, r.nodenan) THEN "oracle-mismatch"
    ELSE IF HasNan(r) /\ \E f \in FaceIds(m) : FaceVis(m, f, r.pc, r.pk) = "unclear" THEN "limb"
    ELSE "judged"

\* ---- which face is row j (exclude / ignore / gdf split), or group of rows of face f
RowFace(r, j) == IF r.pe = "exclude" THEN Kept(Mesh(r), r.k, r.sgn)[j] ELSE j - 1
NExpected(r)  == IF r.pe = "exclude" THEN Len(Kept(Mesh(r), r.k, r.sgn)) ELSE NF(Mesh(r))
\* the same with the kept list computed once (kp)
RowFaceK(r, kp, j) == IF r.pe = "exclude" THEN kp[j] ELSE j - 1
NExpectedK(r, kp)  == IF r.pe = "exclude" THEN Len(kp) ELSE NF(Mesh(r))

\* ---- with a partial projection: Base = the faces before NaN filtering, Expected = the rows that must be there
AllFaces(m)   == [ j \in 1..NF(m) |-> j - 1 ]
BaseSeq(r, kp) == IF r.pe = "exclude" THEN kp ELSE AllFaces(Mesh(r))
Vis(r, f)     == ~HasNan(r) \/ FaceVis(Mesh(r), f, r.pc, r.pk) = "vis"
ExpSeq(r, kp) == IF HasNan(r) /\ r.nanmode = "drop" THEN SelectSeq(BaseSeq(r, kp), LAMBDA f : Vis(r, f)) ELSE BaseSeq(r, kp)
\* 0-based positions, in Base, of the polygons without NaN
NnExpected(r, kp) == LET b == BaseSeq(r, kp) IN SelectSeq([ j \in 1..Len(b) |-> j - 1 ], LAMBDA j : Vis(r, b[j + 1]))

\* all pieces exported for face f under 'split'
PiecesOf(r, f) ==
    IF r.kind = "gdf" THEN r.rows[f + 1]
    ELSE LET idx == { j \in 1..Len(r.rows) : r.owner[j] = f }
         IN [ q \in 1..Cardinality(idx) |->
                r.rows[CHOOSE j \in idx : Cardinality({ x \in idx : x <= j }) = q][1] ]

\* line collections carry no owner table: rows are grouped greedily, in face order;
\* Feasible(j, f) = rows j.. can be distributed over faces f.. (each face >= 1 consecutive rows)
GroupOK(r, f, ps) ==
    LET m == Mesh(r) IN
    /\ PiecesOwned(m, f, ps) /\ PiecesCover(m, f, ps) /\ PiecesNoSpan(m, r.k, ps)
    /\ PiecesSpecialOK(m, r.k, r.sgn, f, ps) /\ PiecesWhole(m, r.k, r.sgn, f, ps)
RECURSIVE Feasible(_, _, _)
Feasible(r, j, f) ==
    IF f = NF(Mesh(r)) THEN j = Len(r.rows) + 1
    ELSE \E len \in 1..(IF CrossesAM(Mesh(r), r.k, r.sgn, f) THEN 4 ELSE 1) :
            /\ j + len - 1 <= Len(r.rows)
            /\ GroupOK(r, f, [ q \in 1..len |-> r.rows[j + q - 1][1] ])
            /\ Feasible(r, j + len, f + 1)

SplitWithOwners(r) == r.kind = "gdf" \/ Has(r, "owner")
OwnerShapeOK(r) == /\ Len(r.owner) = Len(r.rows)
                   /\ \A j \in 1..Len(r.owner) : r.owner[j] \in FaceIds(Mesh(r))
                   /\ \A j \in 1..(Len(r.owner) - 1) : r.owner[j] <= r.owner[j + 1]
                   /\ { r.owner[j] : j \in 1..Len(r.owner) } = FaceIds(Mesh(r))

Clauses(r) ==
  LET m  == Mesh(r)
      k  == r.k
      sg == r.sgn
      geo == r.kind \in {"gdf", "poly", "line"}
      split == r.pe = "split"
      kp == Kept(m, k, sg)
      ex == ExpSeq(r, kp)
      rowsOK == Len(r.rows) = Len(ex)
      judged(j) == Vis(r, ex[j])          \* rows of hidden faces kept on request carry NaN and are not compared
      ownOK == IF r.kind = "gdf" THEN Len(r.rows) = NF(m) ELSE OwnerShapeOK(r)
  IN
  [ AmIndices      |-> r.kind = "am" =>
                          /\ \A j \in 1..(Len(r.am) - 1) : r.am[j] < r.am[j + 1]
                          /\ { r.am[j] : j \in 1..Len(r.am) } = CrossSet(m, k, sg),
    \* the frame is one of the requested engine
    FrameOfEngine  |-> (r.kind = "gdf" /\ Has(r, "frame_ok")) => r.frame_ok,
    \* the record was obtained through a plotting accessor, which passed on exactly the requested arguments
    AccessorArguments |-> Has(r, "args_ok") => r.args_ok,
    DeclaredCRS    |-> (geo /\ Has(r, "crs_ok")) => r.crs_ok,
    VerticesAreCorners |-> geo => \A j \in 1..Len(r.rows) : ((split \/ ~rowsOK \/ judged(j)) => \A q \in 1..Len(r.rows[j]) : AllMatched(r.rows[j][q])),
    \* partial projections: the returned non_nan_polygon_indices are the positions of the visible polygons
    NonNanTable    |-> (geo /\ ~split /\ Has(r, "nn")) => r.nn = NnExpected(r, kp),
    \* exclude: dropped set = crossing set, polygon j <-> j-th non-crossing face; ignore: polygon i <-> face i
    RowCount       |-> (geo /\ ~split) => rowsOK,
    OnePiecePerRow |-> (geo /\ ~split) => \A j \in 1..Len(r.rows) : Len(r.rows[j]) = 1,
    RingIsFace     |-> (geo /\ ~split /\ rowsOK) =>
                          \A j \in 1..Len(r.rows) : judged(j) => (Len(r.rows[j]) >= 1 /\ RingIsFace(m, r.rows[j][1], ex[j])),
    \* every exported line is a closed ring (closed[j]: first and last coordinates of line j coincide)
    LineClosed     |-> r.kind = "line" => /\ \A j \in 1..Len(r.rows) : \A q \in 1..Len(r.rows[j]) : ClosedRing(r.rows[j][q])
                                          /\ Has(r, "closed") => (Len(r.closed) = Len(r.rows) /\ \A j \in 1..Len(r.closed) : r.closed[j]),
    \* split
    SplitRowsPerFace |-> (geo /\ split /\ SplitWithOwners(r)) => ownOK,
    SplitOwnership |-> (geo /\ split /\ SplitWithOwners(r) /\ ownOK) => \A f \in FaceIds(m) : PiecesOwned(m, f, PiecesOf(r, f)),
    SplitCover     |-> (geo /\ split /\ SplitWithOwners(r) /\ ownOK) => \A f \in FaceIds(m) : PiecesCover(m, f, PiecesOf(r, f)),
    SplitNoSpan    |-> (geo /\ split /\ SplitWithOwners(r) /\ ownOK) => \A f \in FaceIds(m) : PiecesNoSpan(m, k, PiecesOf(r, f)),
    SplitSpecial   |-> (geo /\ split /\ SplitWithOwners(r) /\ ownOK) => \A f \in FaceIds(m) : PiecesSpecialOK(m, k, sg, f, PiecesOf(r, f)),
    SplitWhole     |-> (geo /\ split /\ SplitWithOwners(r) /\ ownOK) => \A f \in FaceIds(m) : PiecesWhole(m, k, sg, f, PiecesOf(r, f)),
    SplitLines     |-> (geo /\ split /\ ~SplitWithOwners(r)) =>
                          /\ \A j \in 1..Len(r.rows) : Len(r.rows[j]) = 1
                          /\ Feasible(r, 1, 0),
    \* the returned index table of a PolyCollection ('exclude': the kept faces)
    OwnerTable     |-> (r.kind = "poly" /\ r.pe = "exclude" /\ Has(r, "owner")) => r.owner = kp,
    \* data
    DataLength     |-> (geo /\ Has(r, "data")) => Len(r.data) = Len(r.rows),
    DataFollowsFaces |-> (geo /\ Has(r, "data") /\ Len(r.data) = Len(r.rows)) =>
                          IF ~split THEN (rowsOK => \A j \in 1..Len(r.rows) : r.data[j] = Tracer(ex[j]))
                          ELSE IF r.kind = "gdf" THEN (Len(r.rows) = NF(m) => \A j \in 1..Len(r.rows) : r.data[j] = Tracer(j - 1))
                          ELSE (Has(r, "owner") /\ OwnerShapeOK(r)) => \A j \in 1..Len(r.rows) : r.data[j] = Tracer(r.owner[j])
  ]

Failed(r) == LET c == Clauses(r) IN { n \in DOMAIN c : ~c[n] }

(* ---- recognisable shapes of a failure (facts for narrow known-finding signatures) ---- *)
\* face expected at position j when only the faces kept by 'exclude' are counted
Slot(r, j) == IF r.pe = "exclude" THEN Kept(Mesh(r), r.k, r.sgn)[j] ELSE j - 1
NKept(r)   == Len(Kept(Mesh(r), r.k, r.sgn))
RowIs(r, rows, j, f) == Len(rows[j]) = 1 /\ RingIsFace(Mesh(r), rows[j][1], f)
\* every polygon appears twice in a row (over the kept faces)
Doubled(r) == /\ Len(r.rows) = 2 * NKept(r)
              /\ \A j \in 1..NKept(r) : RowIs(r, r.rows, 2 * j - 1, Slot(r, j)) /\ RowIs(r, r.rows, 2 * j, Slot(r, j))
              /\ Has(r, "data") => /\ Len(r.data) = Len(r.rows)
                                   /\ \A j \in 1..NKept(r) : r.data[2 * j - 1] = Tracer(Slot(r, j)) /\ r.data[2 * j] = Tracer(Slot(r, j))
\* 'ignore': only the first n - (number of crossing faces) polygons are present
Truncated(r) == /\ r.pe = "ignore" /\ NKept(r) < NF(Mesh(r)) /\ Len(r.rows) = NKept(r)
                /\ \A j \in 1..Len(r.rows) : RowIs(r, r.rows, j, j - 1)
                /\ Has(r, "data") => (Len(r.data) = Len(r.rows) /\ \A j \in 1..Len(r.rows) : r.data[j] = Tracer(j - 1))
\* 'ignore': all polygons present, the data array stops n_cross values early
DataTruncated(r) == /\ r.pe = "ignore" /\ Has(r, "data") /\ NKept(r) < NF(Mesh(r))
                    /\ Len(r.rows) = NF(Mesh(r)) /\ Len(r.data) = NKept(r)
                    /\ \A j \in 1..Len(r.data) : r.data[j] = Tracer(j - 1)
\* vertices are the corners in (seam-shifted) lon/lat although the object declares the projection
Unprojected(r) == /\ Has(r, "rows_ll") /\ Len(r.rows_ll) = NExpected(r)
                  /\ \A j \in 1..Len(r.rows_ll) : RowIs(r, r.rows_ll, j, RowFace(r, j))
Pattern(r) == IF r.kind = "am" \/ HasNan(r) THEN "none"
              ELSE IF Unprojected(r) THEN (IF DataTruncated(r) THEN "unprojected+data_truncated" ELSE "unprojected")
              ELSE IF r.pe # "split" /\ Doubled(r) THEN "doubled"
              ELSE IF Truncated(r) THEN "truncated"
              ELSE IF DataTruncated(r) THEN "data_truncated"
              ELSE "none"
Facts(r)  == [ crossers |-> Cardinality(CrossSet(Mesh(r), r.k, r.sgn)),
               polein   |-> Cardinality(PoleInSet(Mesh(r)) \cap CrossSet(Mesh(r), r.k, r.sgn)),
               partial  |-> HasNan(r),
               pattern  |-> Pattern(r) ]

Init == i \in { -b : b \in 1..NBlocks }
Next == /\ i < 0
        /\ i' \in { j \in 1..Len(Recs) : (j - 1) \div Block = (-i) - 1 }

Judge == i > 0 =>
           LET r == Recs[i]
               u == Unjudged(r)
           IN IF u # "judged" THEN PrintT(<<"N", r.id, u>>)
              ELSE LET f == Failed(r) IN (f = {} \/ PrintT(<<"V", r.id, f, Facts(r)>>))
=============================================================================

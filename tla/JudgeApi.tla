------------------------------ MODULE JudgeApi ------------------------------
(***************************************************************************)
(* X05 - judges what the API entry points return (cases of ApiDispatch).   *)
(* One ndjson line per case (kind = "api"): what ApiDispatch emitted with  *)
(* the case (outcome, mode, exp, complete, orient, counts, exp_data) and   *)
(* the projection of the real objects: got (the Grid of open_grid, as C01  *)
(* projects it), later / kept (second opening of the same in-memory input  *)
(* and its fingerprints), ds (the UxDataset: its grid, per variable class, *)
(* grid identity, dimension names, values; source_datasets; to_array,      *)
(* info, get_dual).  The grid clauses are those of JudgeReaders.tla.       *)
(***************************************************************************)
EXTENDS JudgeReaders

HasDs(r) == Has(r, "ds")
Names(seq) == { seq[k].name : k \in 1..Len(seq) }
ExpOf(r, n) == LET k == CHOOSE j \in 1..Len(r.exp_data) : r.exp_data[j].name = n IN r.exp_data[k]
SeqToSet(s) == { s[k] : k \in 1..Len(s) }

\* (v) an unsupported layout raises; a supported one yields a grid
Outcome(r) == IF r.outcome = "raises" THEN r.raised /\ (Has(r, "ds_raised") => r.ds_raised)
              ELSE ~r.raised /\ (Has(r, "ds_raised") => ~r.ds_raised)
\* (i) the grid is the one the direct route yields: faces by position, or the dual's index table
GridIs(r, g) == IF r.mode = "faces"
                THEN LET r2 == [ r EXCEPT !.got = g ] IN FaceCount(r2) /\ FacesMatch(r2) /\ InRange(g) /\ PadAtEnd(g) /\ StdDtype(g) /\ StdFill(g)
                ELSE g.tbl = r.exp /\ StdDtype(g) /\ StdFill(g)
GridRight(r)  == Has(r, "got") => GridIs(r, r.got)
GridCounts(r) == Has(r, "got") => r.got.n_face = r.counts.face /\ r.got.n_node = r.counts.node /\ r.got.n_edge = r.counts.edge
LonLat(r)     == Has(r, "got") => r.got.lon_ok /\ r.got.lat_ok
\* (ii) the dataset's grid is that grid; every variable is a UxDataArray on that one grid object
DsGrid(r)     == HasDs(r) => r.ds.is_uxds /\ r.ds.has_grid /\ Has(r.ds, "grid") /\ GridIs(r, r.ds.grid)
\* (a file that carries grid and data also shows its grid variables as data variables: not judged)
DsVarSet(r)   == HasDs(r) => IF r.dk = "same" THEN Names(r.exp_data) \subseteq SeqToSet(r.ds.vars)
                             ELSE SeqToSet(r.ds.vars) = Names(r.exp_data)
\* chunks given for the face dimension (in UGRID names, or for every dimension) chunk the face data
ChunksApplied(r) == (HasDs(r) /\ r.kw \in { "chunks", "chunks_int" }) => (r.ds.chunk_face >= 1 /\ r.ds.chunk_face <= 2)
DsVarsOnGrid(r) == HasDs(r) => \A n \in SeqToSet(r.ds.vars) : r.ds.is_ux[n] /\ r.ds.same_grid[n]
\* ... data dimensions renamed as the contract says (an admissible name per axis)
DsDims(r)     == HasDs(r) => \A n \in SeqToSet(r.ds.vars) \cap Names(r.exp_data) :
                    LET e == ExpOf(r, n)  got == r.ds.dims[n]
                    IN Len(got) = Len(e.dims) /\ \A a \in 1..Len(got) : got[a] \in SeqToSet(e.dims[a])
\* ... and hold the files' values ((iv): for several files, concatenated along time in coordinate order)
DsValues(r)   == HasDs(r) => \A n \in SeqToSet(r.ds.vars) \cap Names(r.exp_data) : r.ds.vals[n] = ExpOf(r, n).vals
\* (iii)
SourceRecorded(r) == HasDs(r) => r.ds.source_ok
\* converters keep type and grid
ToArray(r)    == HasDs(r) => r.ds.to_array
Info(r)       == HasDs(r) => r.ds.info_n_face /\ SeqToSet(r.ds.info_vars) = SeqToSet(r.ds.vars)
\* get_dual: faces and nodes change places, face data becomes node data and vice versa, values kept
GetDual(r)    == (HasDs(r) /\ Has(r.ds, "dual")) =>
                   /\ ~Has(r.ds.dual, "error")
                   /\ r.ds.dual.is_uxds /\ r.ds.dual.same_grid
                   /\ r.ds.dual.n_face = r.counts.node /\ r.ds.dual.n_node = r.counts.face
                   /\ \A n \in DOMAIN r.ds.dual.dims :
                        LET was == r.ds.dims[n]  is == r.ds.dual.dims[n]
                        IN Len(is) = Len(was) /\ \A a \in 1..Len(was) :
                             is[a] = (CASE was[a] = "n_face" -> "n_node" [] was[a] = "n_node" -> "n_face" [] OTHER -> was[a])
                   /\ \A n \in DOMAIN r.ds.dual.vals : r.ds.dual.vals[n] = r.ds.vals[n]
\* (vi)
OptionsKept(r) == HasDs(r) => r.ds.kw_kept

ApiClauses(r) ==
  [ Outcome |-> Outcome(r), GridRight |-> GridRight(r), GridCounts |-> GridCounts(r), LonLatRange |-> LonLat(r),
    DsGrid |-> DsGrid(r), DsVarSet |-> DsVarSet(r), DsVarsOnGrid |-> DsVarsOnGrid(r), DsDims |-> DsDims(r), DsValues |-> DsValues(r),
    SourceRecorded |-> SourceRecorded(r), ToArray |-> ToArray(r), Info |-> Info(r), GetDual |-> GetDual(r),
    InputKept |-> InputKept(r), OptionsKept |-> OptionsKept(r), ChunksApplied |-> ChunksApplied(r),
    OpenRepeatable |-> Has(r, "later") => \A n \in 1..Len(r.later) : GridIs(r, r.later[n]) ]

\* UxDataset.from_dict / from_dataframe keep the type
MiscClauses(r) ==
  [ FromDict |-> r.from_dict.is_uxds /\ r.from_dict.is_ux /\ r.from_dict.vars = << "a", "b" >> /\ r.from_dict.vals = << <<1, 2, 3>>, <<4, 5, 6>> >>,
    FromDataframe |-> r.from_dataframe.is_uxds /\ r.from_dataframe.is_ux /\ r.from_dataframe.vars = << "a", "b" >>
                      /\ r.from_dataframe.vals = << <<1, 2, 3>>, <<4, 5, 6>> >> ]

ApiFailed(r) == LET c == IF r.kind = "misc" THEN MiscClauses(r) ELSE ApiClauses(r) IN { k \in DOMAIN c : ~c[k] }

JudgeApiRec == i > 0 => LET r == Recs[i]  f == ApiFailed(r) IN (f = {} \/ PrintT(<< "V", r.id, f >>))
=============================================================================

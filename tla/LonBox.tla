------------------------------- MODULE LonBox -------------------------------
(***************************************************************************)
(* C13 -- the greedy periodic growth of a longitude interval, as a state   *)
(* machine on a cyclic integer longitude 0..M-1 (M even).                  *)
(*                                                                         *)
(* L2 (implementation-shaped, transcribed from _insert_pt_in_latlonbox and *)
(* _get_latlonbox_width): a box <<lo, hi>> that runs eastward from lo to   *)
(* hi, wrapping through 0 when lo > hi.  A new longitude that is not in    *)
(* the box replaces lo or hi, whichever gives the narrower box (either on  *)
(* a tie).  Points arrive one at a time, in ANY order, repeats allowed.    *)
(*                                                                         *)
(* L1 (declarative): the shortest eastward interval with ends in the set   *)
(* that covers the set.                                                    *)
(*                                                                         *)
(* TLC proves, for every set of at most NMax longitudes and every order    *)
(* of insertion (hence every start corner and both traversal directions    *)
(* of a face):                                                             *)
(*   Covers                     the box always covers what was inserted    *)
(*   L2MatchesL1Step            the membership test of the code is cyclic- *)
(*                              interval membership                        *)
(*   GreedyIsShortestBelowHalf  extent < half circle => box = the unique   *)
(*                              shortest cover                             *)
(* and refutes GreedyIsShortestAlways (the result depends on the order     *)
(* once the extent reaches half a circle), which is why the property's     *)
(* quantifier bounds the longitude extent.                                 *)
(***************************************************************************)
EXTENDS Integers, FiniteSets, Sequences

CONSTANTS M, NMax
ASSUME M % 2 = 0 /\ M >= 4 /\ NMax >= 1

VARIABLES ins, box

Lon   == 0..(M - 1)
Empty == <<-1, -1>>
Half  == M \div 2

(* ---- L2 ------------------------------------------------------------------ *)
Width(lo, hi) == IF lo <= hi THEN hi - lo ELSE M - lo + hi
NeedsGrowth(lo, hi, p) == \/ (lo > hi /\ (p < lo /\ p > hi))
                          \/ (lo <= hi /\ ~(lo <= p /\ p <= hi))
\* the set of boxes one insertion may produce: the code compares two float widths with "<", so an exact
\* tie (possible only at half a circle and beyond) is broken by rounding -- either end may move
Insert(b, p) ==
    IF b = Empty THEN { <<p, p>> }
    ELSE IF ~NeedsGrowth(b[1], b[2], p) THEN { b }
    ELSE LET wa == Width(p, b[2])
             wb == Width(b[1], p)
         IN IF wa < wb THEN { <<p, b[2]>> }
            ELSE IF wb < wa THEN { <<b[1], p>> }
            ELSE { <<p, b[2]>>, <<b[1], p>> }

(* ---- L1 ------------------------------------------------------------------ *)
East(a, b)        == (b - a + M) % M                 \* eastward distance from a to b
Inside(lo, hi, p) == East(lo, p) <= East(lo, hi)
CoversSet(b, S)   == \A p \in S : Inside(b[1], b[2], p)
CoverBoxes(S)     == { b \in S \X S : CoversSet(b, S) }
Shortest(S)       == { b \in CoverBoxes(S) : \A c \in CoverBoxes(S) : East(b[1], b[2]) <= East(c[1], c[2]) }
Extent(S)         == East((CHOOSE b \in Shortest(S) : TRUE)[1], (CHOOSE b \in Shortest(S) : TRUE)[2])

(* ---- machine --------------------------------------------------------------- *)
Init == ins = {} /\ box = Empty
Next == \E p \in Lon : /\ Cardinality(ins \cup {p}) <= NMax
                       /\ ins' = ins \cup {p}
                       /\ box' \in Insert(box, p)

TypeOK == /\ ins \subseteq Lon
          /\ (box = Empty /\ ins = {}) \/ (box \in ins \X ins)
Covers == ins # {} => CoversSet(box, ins)
L2MatchesL1Step == box # Empty => \A p \in Lon : ~NeedsGrowth(box[1], box[2], p) <=> Inside(box[1], box[2], p)
GreedyIsShortestBelowHalf ==
    (ins # {} /\ Extent(ins) < Half) => (Shortest(ins) = {box})
GreedyIsShortestAlways == ins # {} => box \in Shortest(ins)
=============================================================================

----------------------------- MODULE GridEqHist -----------------------------
(***************************************************************************)
(* C20 over histories.  GridEq.tla states what == means for two grids as   *)
(* values; this module states that the answer of == / != is a function of  *)
(* the two operands' CURRENT contents only - whatever either object went   *)
(* through before: lazily derived attributes that were read on one operand *)
(* only (they add dimensions and variables to its dataset), earlier        *)
(* comparisons, contents changed afterwards through a property setter or   *)
(* in place, copies taken before or after such a change.                   *)
(*                                                                         *)
(* Objects 1 and 2 are live Grid objects.  `cont[o]` is the abstract       *)
(* content that matters for equality: format, one distinguished longitude, *)
(* latitude and connectivity entry (each toggling between two values), one *)
(* optional extra node and extra face.  `derived[o]`, `cmp[o]` and         *)
(* `memo[o]` are the parts of an object's history an implementation could  *)
(* (wrongly) let leak into the answer; the mechanism constant Mech selects *)
(* what == looks at, and only Mech.eq = "content" satisfies Refines.       *)
(***************************************************************************)
EXTENDS Naturals, Sequences, FiniteSets, TLC

CONSTANTS Mech,      \* [eq |-> "content" | "dims" | "memo" | "latfirst" | "coords"]
          RouteSel,  \* which construction routes are explored (subset of Routes)
          MaxLen,    \* histories of at most this many steps
          Inits      \* which initial contents of object 2 are explored (subset of InitKinds)

Objs == {1, 2}

\* content-preserving things a caller may do to one operand before comparing
\* (lazy derivations add variables and dimensions to the object's dataset)
Touches == { "n_edge", "face_edge_connectivity", "bounds", "face_areas", "node_x", "face_lon",
             "n_nodes_per_face", "normalize", "face_centers", "to_gdf", "node_lon", "node_lat" }
\* how both grids were constructed: from longitudes / latitudes, or from Cartesian corner coordinates only
\* (longitudes and latitudes are then themselves derived lazily, on the first read of either)
Routes == { "lonlat", "xyz" }
\* those that add a dimension to the dataset (Grid.sizes grows)
DimAdding == { "n_edge", "face_edge_connectivity", "bounds", "n_nodes_per_face" }

Fields    == { "lon", "lat", "conn" }
Hows      == { "setter", "inplace" }
\* "isel_all": the grid obtained by selecting every face, in order (a derived grid with the same content
\* except that nodes no face uses are gone)
CopyHows  == { "copy", "deepcopy", "isel_all" }
InitKinds == { "same", "lon", "lat", "conn", "spec", "n_node", "n_face" }

Content == [ spec : {"A", "B"}, lon : 0..1, lat : 0..1, conn : 0..1, nn : 0..1, nf : 0..1 ]
C0 == [ spec |-> "A", lon |-> 0, lat |-> 0, conn |-> 0, nn |-> 0, nf |-> 0 ]

InitContent(k) ==
  CASE k = "same"   -> C0
    [] k = "lon"    -> [ C0 EXCEPT !.lon = 1 ]
    [] k = "lat"    -> [ C0 EXCEPT !.lat = 1 ]
    [] k = "conn"   -> [ C0 EXCEPT !.conn = 1 ]
    [] k = "spec"   -> [ C0 EXCEPT !.spec = "B" ]
    [] k = "n_node" -> [ C0 EXCEPT !.nn = 1 ]
    [] k = "n_face" -> [ C0 EXCEPT !.nf = 1 ]

\* what == means (GridEq.Eq on the abstract content)
Eq(a, b) == a = b

VARIABLES cont,     \* [Objs -> Content]
          derived,  \* [Objs -> SUBSET Touches]   what was read / done on the object
          cmp,      \* [Objs -> BOOLEAN]          took part in a comparison
          memo,     \* [Objs -> Content \cup {<<>>}]  content at the time of the first comparison (a cached digest)
          last,     \* the last step: [act, args, want, ans]
          hist,     \* the steps so far (for generation)
          init2,    \* how object 2 started (an element of InitKinds)
          route,    \* how both objects were constructed (an element of Routes)
          prov      \* [Objs -> [latFirst, sliced, edited : BOOLEAN]]  provenance an implementation could let leak

vars == << cont, derived, cmp, memo, last, hist, init2, route, prov >>

NoMemo == <<>>

Step(act, args, want, ans) == [ act |-> act, args |-> args, want |-> want, ans |-> ans ]

Init ==
  /\ init2 \in Inits
  /\ route \in RouteSel
  \* the corner-coordinate constructor numbers the nodes itself, by position: only grids that start with the
  \* same content are numbered alike, so that route starts from an equal pair
  /\ (route = "xyz") => (init2 = "same")
  /\ prov = [ o \in Objs |-> [ latFirst |-> FALSE, sliced |-> FALSE, edited |-> FALSE ] ]
  /\ cont = [ o \in Objs |-> IF o = 1 THEN C0 ELSE InitContent(init2) ]
  /\ derived = [ o \in Objs |-> {} ]
  /\ cmp = [ o \in Objs |-> FALSE ]
  /\ memo = [ o \in Objs |-> NoMemo ]
  /\ last = Step("Init", <<>>, TRUE, TRUE)
  /\ hist = <<>>

Log(act, args, want, ans) ==
  /\ last' = Step(act, args, want, ans)
  /\ hist' = Append(hist, << act, args, want >>)
  /\ init2' = init2
  /\ route' = route

\* content-preserving operation on one operand
Touch(o, t) ==
  /\ derived' = [ derived EXCEPT ![o] = @ \cup {t} ]
  /\ prov' = [ prov EXCEPT ![o].latFirst = @ \/ (route = "xyz" /\ t = "node_lat" /\ ~cmp[o]
                                                   /\ derived[o] \cap { "node_lon", "node_lat", "bounds", "face_areas", "to_gdf" } = {}) ]
  /\ Log("Touch", << o, t >>, TRUE, TRUE)
  /\ UNCHANGED << cont, cmp, memo >>

\* one coordinate / connectivity entry of one operand is changed, through the property setter
\* (a new array is assigned) or in place (the stored array is written to)
Edit(o, f, how) ==
  /\ cont' = [ cont EXCEPT ![o] = CASE f = "lon"  -> [ @ EXCEPT !.lon  = 1 - @ ]
                                     [] f = "lat"  -> [ @ EXCEPT !.lat  = 1 - @ ]
                                     [] f = "conn" -> [ @ EXCEPT !.conn = 1 - @ ] ]
  /\ prov' = [ prov EXCEPT ![o].edited = TRUE ]
  /\ Log("Edit", << o, f, how >>, TRUE, TRUE)
  /\ UNCHANGED << derived, cmp, memo >>

\* the other object is replaced by a copy of `o`
CopyOf(o, how) ==
  LET p == 3 - o IN
  \* what a grid derives after a coordinate or connectivity entry was overwritten is outside this property
  \* (stale derived tables): a selection is only taken from a grid that was never edited
  /\ (how = "isel_all") => ~prov[o].edited
  /\ cont' = [ cont EXCEPT ![p] = IF how = "isel_all" THEN [ cont[o] EXCEPT !.nn = 0 ] ELSE cont[o] ]
  /\ derived' = [ derived EXCEPT ![p] = IF how = "isel_all" THEN {} ELSE derived[o] ]
  /\ prov' = [ prov EXCEPT ![p] = [ latFirst |-> prov[o].latFirst, sliced |-> (how = "isel_all") \/ prov[o].sliced, edited |-> prov[o].edited ] ]
  /\ cmp' = [ cmp EXCEPT ![p] = FALSE ]
  \* a deep copy of the object carries whatever the object cached
  /\ memo' = [ memo EXCEPT ![p] = IF how = "deepcopy" THEN memo[o] ELSE NoMemo ]
  /\ Log("Copy", << o, how >>, TRUE, TRUE)

\* what the implementation answers under the mechanism
Answer(x, y, m) ==
  CASE Mech.eq = "content" -> Eq(cont[x], cont[y])
    [] Mech.eq = "dims"    -> /\ (derived[x] \cap DimAdding) = (derived[y] \cap DimAdding)
                              /\ Eq(cont[x], cont[y])
    [] Mech.eq = "memo"    -> IF m[x] # NoMemo /\ m[x] = m[y] THEN TRUE ELSE Eq(cont[x], cont[y])
    \* longitudes derived from Cartesian coordinates are left unfolded when the latitude is read first
    [] Mech.eq = "latfirst" -> Eq(cont[x], cont[y]) /\ prov[x].latFirst = prov[y].latFirst
    \* a sliced grid's variables carry extra coordinates, and the comparison looks at them
    [] Mech.eq = "coords"   -> Eq(cont[x], cont[y]) /\ prov[x].sliced = prov[y].sliced

Compare(x, y) ==
  LET m == [ o \in Objs |-> IF o \in {x, y} /\ memo[o] = NoMemo THEN cont[o] ELSE memo[o] ] IN
  /\ memo' = m
  /\ cmp' = [ o \in Objs |-> cmp[o] \/ o \in {x, y} ]
  /\ Log("Compare", << x, y >>, Eq(cont[x], cont[y]), Answer(x, y, m))
  /\ UNCHANGED << cont, derived, prov >>

Next ==
  /\ Len(hist) < MaxLen
  /\ \/ \E o \in Objs, t \in Touches : Touch(o, t)
     \/ \E o \in Objs, f \in Fields, how \in Hows : Edit(o, f, how)
     \/ \E o \in Objs, how \in CopyHows : CopyOf(o, how)
     \/ \E x \in Objs, y \in Objs : Compare(x, y)

Spec == Init /\ [][Next]_vars

(* ---- properties -------------------------------------------------------- *)
TypeOK ==
  /\ cont \in [Objs -> Content]
  /\ derived \in [Objs -> SUBSET Touches]
  /\ cmp \in [Objs -> BOOLEAN]

\* the answer is the equality of the current contents, whatever the history
Refines == last.ans = last.want

\* laws that follow: reflexive whatever was done to the object, symmetric, a fresh copy is equal
Reflexive == \A o \in Objs : Answer(o, o, memo)
Symmetric == Answer(1, 2, memo) = Answer(2, 1, memo)
CopyEqual == (last.act = "Copy" /\ last.args[2] # "isel_all") => Answer(1, 2, memo)
\* selecting every face gives an equal grid unless a node was unused
SliceAllEqual == (last.act = "Copy" /\ last.args[2] = "isel_all") => (Answer(1, 2, memo) = (cont[last.args[1]].nn = 0))

\* an edit of one operand of an equal pair makes the pair unequal
EditFlips == [][ (last'.act = "Edit" /\ Eq(cont[1], cont[2])) => ~Eq(cont'[1], cont'[2]) ]_vars

\* generation: complete histories that end in a comparison are printed with their expected answers
Emit ==
  (Len(hist) = MaxLen /\ hist[Len(hist)][1] = "Compare") => PrintT(<< "H", init2, route, hist >>)

\* for -simulate: every behaviour of full length, whatever its last step
EmitAny == (Len(hist) = MaxLen) => PrintT(<< "H", init2, route, hist >>)

MechIntended == [ eq |-> "content" ]
MechDims     == [ eq |-> "dims" ]
MechMemo     == [ eq |-> "memo" ]
MechLatFirst == [ eq |-> "latfirst" ]
MechCoords   == [ eq |-> "coords" ]
AllRoutes    == Routes
AllInits     == InitKinds
=============================================================================

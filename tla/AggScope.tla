----------------------------- MODULE AggScope -----------------------------
(***************************************************************************)
(* Exhaustive small scope for C17: every face-node table with 1..MaxFaces  *)
(* faces over NNode nodes and sizes in Sizes (all node orders inside a     *)
(* face unless Canon, all face orderings), each with NPat data patterns of *)
(* four node-centred rows.  On every state TLC proves that the             *)
(* implementation-shaped partition-and-gather (Aggregate.AlgFaceAgg, for   *)
(* EVERY argsort outcome) and the edge gather produce exactly the L1       *)
(* reductions over each element's real nodes, for all ten reductions, and  *)
(* that padding width does not matter.  `-dump` lists the states: they are *)
(* the generated cases replayed into UxDataArray.topological_*.            *)
(***************************************************************************)
EXTENDS Aggregate

CONSTANTS NNode, MaxFaces, Sizes, Canon, NPat, Salt, Pads

VARIABLES mesh, rows

FacesOfSize(k) == { s \in [1..k -> 0..(NNode - 1)] :
                      /\ \A i, j \in 1..k : i # j => s[i] # s[j]
                      /\ Canon => \A i, j \in 1..k : i < j => s[i] < s[j] }
ScopeFaces     == UNION { FacesOfSize(k) : k \in Sizes }

\* data patterns: row 1 is a tracer (2^node: a sum names the set of gathered nodes, a repeated or a
\* missing node changes it), rows 2..4 small signed values with zeros and repeats
Tracer       == [ n \in 1..NNode |-> Pow(2, n - 1) ]
Mod8(k, r)   == [ n \in 1..NNode |-> ((n * n * (k + r) + n * (2 * k + 1) + r + Salt) % 8) - 3 ]
Pattern(k)   == << Tracer, Mod8(k, 1), Mod8(k, 2), Mod8(k, 3) >>

Init == /\ mesh \in { <<f>> : f \in ScopeFaces }
        /\ rows \in { Pattern(k) : k \in 1..NPat }
Next == /\ Len(mesh) < MaxFaces
        /\ \E f \in ScopeFaces : mesh' = Append(mesh, f)
        /\ UNCHANGED rows

W == MaxSize(mesh)
T == Stored(mesh, W)
N == AlgNodesPerFace(T)

TypeOK == WellFormed(mesh, NNode) /\ Len(rows) = 4 /\ \A r \in 1..4 : Len(rows[r]) = NNode

\* the partition: every argsort outcome gives a partition in which each face appears exactly once,
\* under its own size; and it satisfies the shared relation of MeshAlg
L2_Partition ==
    \A o \in AscendingOrders(N) :
        LET p == AlgPartition(N, o)
        IN PartitionSound(N, p) /\ IsSizePartition(N, p.order, p.sizes, p.counts, p.change)

\* face aggregation: L2 = L1 for every argsort outcome, reduction, row and denominator
L2_FaceAgg ==
    /\ \A o \in AscendingOrders(N) :
          LET g == AlgFaceGather(T, o)                  \* gathered once per partitioning, as in the code
          IN \A op \in Ops : \A r \in 1..4 : AlgFaceAggFrom(g, rows[r], op, 1) = SpecAgg(mesh, rows[r], op, 1)
    /\ LET g == AlgFaceGather(T, StableOrder(N))
       IN \A op \in Ops : \A r \in 1..4 : AlgFaceAggFrom(g, rows[r], op, 2) = SpecAgg(mesh, rows[r], op, 2)

\* a wider table (more padding) changes nothing
\* table layouts: the stored table may be wider than its widest face (every row padded), with uniform and with
\* mixed sizes; Pads = the extra widths the harness also replays.  Nothing changes, for every argsort outcome.
PaddingIrrelevant ==
    \A x \in Pads \ { 0 } :
        LET T2 == Stored(mesh, W + x)
            N2 == AlgNodesPerFace(T2)
        IN /\ N2 = N
           /\ \A o \in AscendingOrders(N2) :
                LET g == AlgFaceGather(T2, o)
                IN \A op \in Ops : \A r \in 1..4 : AlgFaceAggFrom(g, rows[r], op, 1) = SpecAgg(mesh, rows[r], op, 1)
\* the shortcut "all faces have one size: gather the whole table" is wrong exactly on such a wider table
WholeTableIsWrong ==
    (Cardinality(Range(N)) = 1 /\ Pads \ { 0 } # {}) =>
        \A x \in Pads \ { 0 } : \E f \in 1..Len(mesh) : PAD \in Range(Stored(mesh, W + x)[f])

\* edge aggregation on the derived edge table, and independence of the order of the two ends
L2_EdgeAgg ==
    LET E  == AlgEdges(T).edges
        Er == [ k \in 1..Len(E) |-> << E[k][2], E[k][1] >> ]
    IN \A op \in Ops : \A r \in 1..4 :
        /\ AlgEdgeAgg(E, rows[r], op, 1) = SpecAgg(E, rows[r], op, 1)
        /\ SpecAgg(Er, rows[r], op, 1) = SpecAgg(E, rows[r], op, 1)

\* the oracle's own laws, on every gathered value sequence of the scope
Laws == \A f \in 1..Len(mesh) : \A r \in 1..4 : ReduceLaws(Gather(mesh[f], rows[r]), 1)

\* the non-finite semantics (NaN, +inf, -inf) obey their laws on every gathered value sequence of the scope
NonFinite == \A f \in 1..Len(mesh) : \A r \in 2..4 : NonFiniteLaws(Gather(mesh[f], rows[r]), 1)

\* the tracer row really identifies the gathered node set
TracerReadable ==
    \A f, g \in 1..Len(mesh) :
        (Reduce("sum", Gather(mesh[f], rows[1]), 1) = Reduce("sum", Gather(mesh[g], rows[1]), 1))
            <=> (Corners(mesh[f]) = Corners(mesh[g]))
=============================================================================

------------------------------ MODULE ArcScope ------------------------------
(***************************************************************************)
(* C14: the exhaustive scope.  Every minor arc (a, b) between primitive    *)
(* lattice directions |c| <= K is an initial state; from it one step       *)
(* reaches every query point p (stage "T": a triple) and every second arc  *)
(* (c, d) of the lattice |c| <= KP (stage "P": a pair).  The invariants    *)
(* are the laws of the oracle (ArcZ.tla) -- TLC model-checks them on the   *)
(* whole scope -- and the emitters: the same run prints the cases for the  *)
(* implementation *with their exact classification*:                       *)
(*   <<"A", a, b, kind, <<LatOf a, LatOf b, Top, Bottom>>, maxWhich,       *)
(*           minWhich, class-of-every-lattice-index>>                      *)
(*   <<"P", a, b, c, d, class, x>>   (judged pairs only; the others are    *)
(*           counted as boundary)                                          *)
(* Initial-state enumeration is single-threaded, so the initial states are *)
(* only the first endpoints (stage "V"); every further axis is a Next step  *)
(* shared by all workers.                                                  *)
(***************************************************************************)
EXTENDS ArcZ

CONSTANTS K,          \* lattice bound of the first arc and of the query points
          KP,         \* lattice bound of the second arc of a pair
          Stages,     \* subset of {"T", "P"}
          FirstCanon, \* TRUE: first arcs only up to endpoint swap (a < b)
          PairCanon,  \* TRUE: pairs only up to endpoint swaps and arc swap (needs KP = K)
          PairStride, \* 1: every first arc enters stage "P"; n > 1: a fixed pseudo-random 1/n of them
          EmitArcs, EmitClasses, EmitPairs, WithRot24

ASSUME GeneratorsGenerateRot24

VARIABLES st, a, b, p, c, d
vars == <<st, a, b, p, c, d>>

\* zero-arity constant definitions: TLC evaluates each once
Points     == PVec(K)
AllArcs1   == Arcs(K)
AllArcs2   == Arcs(KP)
CanonArcs1 == { e \in AllArcs1 : CanonArc(e) }
CanonArcs2 == { e \in AllArcs2 : CanonArc(e) }
FirstArcs  == IF FirstCanon THEN CanonArcs1 ELSE AllArcs1
SecondArcs(e) == IF PairCanon THEN { f \in CanonArcs2 : ArcLess(e, f) } ELSE AllArcs2

Init == /\ st = "V" /\ a \in Points
        /\ b = Zero3 /\ p = Zero3 /\ c = Zero3 /\ d = Zero3
Next == \/ /\ st = "V"
           /\ st' = "A" /\ UNCHANGED <<a, p, c, d>>
           /\ \E e \in FirstArcs : e[1] = a /\ b' = e[2]
        \/ /\ st = "A"
           /\ \/ /\ "T" \in Stages
                 /\ st' = "T" /\ p' \in Points /\ UNCHANGED <<a, b, c, d>>
              \/ /\ "P" \in Stages
                 /\ PairCanon => CanonArc(<<a, b>>)
                 /\ (a[1] + 2 * a[2] + 3 * a[3] + 5 * b[1] + 7 * b[2] + 11 * b[3]) % PairStride = 0
                 /\ st' = "P" /\ UNCHANGED <<a, b, p>>
                 /\ \E f \in SecondArcs(<<a, b>>) : c' = f[1] /\ d' = f[2]
Spec == Init /\ [][Next]_vars

TypeOK == /\ st \in {"V", "A", "T", "P"}
          /\ (st # "V") => IsArc(a, b)
          /\ (st = "T") => p \in Points
          /\ (st = "P") => IsArc(c, d)

(* ---- laws, one invariant per law so that a failure names it ---------------------- *)
T == st = "T"
P == st = "P" /\ DifferentCircles(a, b, c, d)
InvSwapEnds     == T => LawSwapEnds(a, b, p)
InvRotZ         == T => LawRotZ(a, b, p)
InvRot24        == (T /\ WithRot24) => LawRot24(a, b, p)
InvPartition    == T => LawPartition(a, b, p)
InvAntipode     == T => LawAntipode(a, b, p)
InvCone         == T => LawCone(a, b, p)
InvTripleMargin == T => LawTripleMargin(a, b, p)
InvShrinkTriple == T => LawShrinkTriple(a, b, p, Points)
InvShrinkLat    == T => LawShrinkLat(a, b, p)

InvSignIsDefinitional == P => LawSignIsDefinitional(a, b, c, d)
InvPairSwapArcs == P => LawPairSwapArcs(a, b, c, d)
InvPairSwapEnds == P => LawPairSwapEnds(a, b, c, d)
InvPairRotZ     == P => LawPairRotZ(a, b, c, d)
InvPairRot24    == (P /\ WithRot24) => LawPairRot24(a, b, c, d)
InvPairMargin   == P => LawPairMargin(a, b, c, d)
InvShrinkPair   == P => LawShrinkPair(a, b, c, d)       \* K = KP = 1 only (x is of degree 4 in K)

A == st = "A"
InvLatSwap      == A => LawLatSwap(a, b)
InvLatRotZ      == A => LawLatRotZ(a, b)
InvLatFlip      == A => LawLatFlip(a, b)
InvTopWithin    == A => LawTopWithin(a, b)
InvLatDominates == A => LawLatDominates(a, b, Points)
InvLatOrder     == A => LawLatOrder(a, b)
InvArcMargin    == A => ArcMargin(a, b)

(* ---- emitters ------------------------------------------------------------------------ *)
ClassCode(k) == CASE k = "Interior" -> 1 [] k = "OnCircleOutside" -> 2 [] k = "Off" -> 3 [] k = "Endpoint" -> 4
NIndex == (2 * K + 1) * (2 * K + 1) * (2 * K + 1)
\* class of every lattice index: 0 = not a query point (zero vector or non-primitive), 4 = endpoint
\* (boundary, not judged), 1 / 2 / 3 = judged with that exact class, 5 = inside the margin (not judged)
\* the vector as a string of digits (divide and conquer keeps the recursion shallow)
RECURSIVE Digits(_, _, _)
Digits(f, lo, hi) == IF lo = hi THEN ToString(f[lo])
                     ELSE LET m == (lo + hi) \div 2 IN Digits(f, lo, m) \o Digits(f, m + 1, hi)
ClassVector == [ i \in 1..NIndex |->
                   LET v == VecOfIndex(i - 1, K) IN
                   IF ~Judgeable(v) THEN 0
                   ELSE IF ArcClass(a, b, v) = "Endpoint" THEN 4
                   ELSE IF ~TripleJudged(a, b, v) THEN 5
                   ELSE ClassCode(ArcClass(a, b, v)) ]
EmitArc == (A /\ EmitArcs) =>
             PrintT(<<"A", a, b, ArcKind(a, b),
                      << LatOf(a), LatOf(b), TopOf(a, b), BottomOf(a, b) >>,
                      MaxLatWhich(a, b), MinLatWhich(a, b),
                      IF EmitClasses THEN Digits(ClassVector, 1, NIndex) ELSE "">>)
EmitPair == (P /\ EmitPairs /\ PairJudged(a, b, c, d)) =>
             PrintT(<<"P", a, b, c, d, ArcPairClass(a, b, c, d), CrossX(a, b, c, d)>>)
=============================================================================

----------------------------- MODULE CatalogGen -----------------------------
(***************************************************************************)
(* Enumerates the catalogue (base polyhedron x cube rotation x cut) as     *)
(* states, proves each entry well-formed (invariants), and prints each     *)
(* entry for the harness.  Cut c > 0 drops every c-th face, giving partial *)
(* meshes with holes, boundary edges and (for small c) isolated regions.   *)
(***************************************************************************)
EXTENDS Catalog, TLC

FirstFaceOfSize(m, k) == CHOOSE f \in 1..Len(m.faces) : Len(m.faces[f]) = k /\ \A g \in 1..(f - 1) : Len(m.faces[g]) # k
TruncOctaSplit == SplitFace(TruncOcta, FirstFaceOfSize(TruncOcta, 6), 1, 3, "truncated_octahedron_split")   \* 3 + 5
TruncCubeSplit == SplitFace(TruncCube, FirstFaceOfSize(TruncCube, 8), 1, 3, "truncated_cube_split")         \* 3 + 7

Names == ClosedNames \cup { "truncated_octahedron_split", "truncated_cube_split" }
BaseMesh(n) == IF n = "truncated_octahedron_split" THEN TruncOctaSplit
               ELSE IF n = "truncated_cube_split" THEN TruncCubeSplit
               ELSE ClosedMesh(n)

Identity == << <<1, 2, 3>>, <<1, 1, 1>> >>
Rots == SetToSortSeq(Rot24, LAMBDA r, s : SeqLess(r[1] \o r[2], s[1] \o s[2]))
Cuts == { 0, 2, 3, 5 }

VARIABLES name, rot, cut
vars == <<name, rot, cut>>

Init == name \in Names /\ rot = 0 /\ cut = 0
Next == \/ (rot = 0 /\ cut = 0 /\ rot' \in 1..Len(Rots) /\ UNCHANGED <<name, cut>>)
        \/ (cut = 0 /\ cut' \in Cuts \ {0} /\ UNCHANGED <<name, rot>>)

Entry == LET b == BaseMesh(name)
             r == IF rot = 0 THEN b ELSE Rotated(b, Rots[rot], b.name)
             keep == { f \in 1..Len(r.faces) : cut = 0 \/ f % cut # 0 }
         IN IF cut = 0 THEN r ELSE SubMesh(r, keep, r.name)

WellFormedEntry ==
    IF cut = 0 THEN ClosedOK(Entry) ELSE PartialOK(Entry)

RotIsIdentityAt0 == Identity \in Rot24 /\ Cardinality(Rot24) = 24

Emit == PrintT(<<"MESH", [ name |-> name, rot |-> rot, cut |-> cut,
                           nodes |-> Entry.nodes, faces |-> Entry.faces,
                           closed |-> (cut = 0),
                           sizes |-> SizesOf(Entry), valences |-> ValencesOf(Entry),
                           sides_below_90 |-> SidesBelow90(Entry),
                           n_edge |-> Cardinality(EdgeSet(Entry.faces)) ]>>)
=============================================================================

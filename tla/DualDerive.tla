----------------------------- MODULE DualDerive -----------------------------
(***************************************************************************)
(* C18 on DERIVED primal grids: the dual of a grid obtained by             *)
(* Grid.isel(n_face | n_node | n_edge = ...) from a parent on which some   *)
(* set of things was read first.  A scenario is                            *)
(*   ops  : subset of ParentOps read on the parent before slicing, in the  *)
(*          fixed order node_faces, get_dual, centres, edges               *)
(*   kind : the dimension the selection is made on                         *)
(*   pat  : which selection pattern (the harness turns it into indices)    *)
(* Normative: the result is the combinatorial dual of the derived grid's   *)
(* OWN faces (Dual.tla relations on its face table) - Result takes the     *)
(* derived mesh only, neither the parent nor its history.                  *)
(* Descriptive signature: whether the parent held node_face_connectivity   *)
(* when it was sliced (the table a slice may wrongly carry over).          *)
(***************************************************************************)
EXTENDS Integers, FiniteSets, TLC

CONSTANTS ParentOps, Kinds, Patterns

VARIABLES ops, kind, pat, stage
vars == <<ops, kind, pat, stage>>

Init == ops \in SUBSET ParentOps /\ kind \in Kinds /\ pat \in Patterns /\ stage = "parent"
Next == \/ (stage = "parent" /\ stage' = "sliced" /\ UNCHANGED <<ops, kind, pat>>)
        \/ (stage = "sliced" /\ stage' = "dual"   /\ UNCHANGED <<ops, kind, pat>>)

Result(derived_mesh_rings) == derived_mesh_rings       \* no parent, no history argument

\* node-based selection reads the parent's node_face_connectivity itself; so does the parent's dual
ParentHeldNodeFaces == "node_faces" \in ops \/ "get_dual" \in ops \/ kind = "n_node"
TypeOK == ops \subseteq ParentOps /\ stage \in { "parent", "sliced", "dual" }
HeldIsMonotone == ("node_faces" \in ops) => ParentHeldNodeFaces

Emit == stage = "dual" => PrintT(<<"DERIVE", [ ops |-> ops, kind |-> kind, pat |-> pat,
                                               parent_held_node_faces |-> ParentHeldNodeFaces ]>>)
=============================================================================

---------------------------- MODULE JudgeSubset ----------------------------
(***************************************************************************)
(* C09: judges subset / cross-section operations recorded from the         *)
(* implementation.  One ndjson line per operation:                         *)
(*   id, mesh (source faces; node id = position id), prov, kind, sel, op,  *)
(*   err, and either                                                       *)
(*     res   : what the result grid reports (recorded source indices, the  *)
(*             position every result node sits on, its own face-node rows, *)
(*             every derived table requested on it, names of the variables *)
(*             whose access raised, tolerance flags of float comparisons), *)
(*     data  : tracer data sliced with the grid, or                        *)
(*     faces / runs : the face list of get_faces_at_constant_latitude for  *)
(*             each numba thread count.                                    *)
(*   nodes  : integer directions of the source positions (lattice sources) *)
(*   latint / sel.pint : integer latitude classes (lat-lon sources)        *)
(* The expected selection is computed HERE, exactly, from sel (Subset.tla, *)
(* SphereZ.tla).  Coordinate regions are given by gaps: pairs of reference *)
(* elements in consecutive exact classes between which the harness put the *)
(* float bound; the gap is verified exactly (else <<"M", ...>>: machinery).*)
(* Output: <<"V", id, failed clauses, tag per clause>>, <<"M", id, what>>, *)
(* <<"S", id, why>> (not judged: exact tie), <<"D", id, drift>>.           *)
(***************************************************************************)
EXTENDS Subset, SliceMech, Json, IOUtils, TLCExt

Recs  == ndJsonDeserialize(IOEnv.REC_FILE)
Block == 16
NBlocks == (Len(Recs) + Block - 1) \div Block

VARIABLE i

Has(r, f) == f \in DOMAIN r
Lattice(r) == Has(r, "nodes")

(* ---- reference elements of the selection kind --------------------------------- *)
NRef(r) == CASE r.kind = "node" -> (IF Lattice(r) THEN Len(r.nodes) ELSE Len(r.latint))
             [] r.kind = "face" -> Len(r.mesh)
             [] r.kind = "edge" -> Len(r.srcE)
\* r.refs: lattice points the SOURCE supplies as its face / edge centres (then they are the reference points)
Dirs(r) == [ e \in 1..NRef(r) |->
               CASE r.kind = "node" -> r.nodes[e]
                 [] Has(r, "refs")  -> Prim(r.refs[e])
                 [] r.kind = "face" -> FaceCentreDir(r.nodes, r.mesh[e])
                 [] r.kind = "edge" -> EdgeCentreDir(r.nodes, r.srcE[e]) ]
\* computed centres are exact only when the corners have equal norms
CentresExact(r) == r.kind = "node" \/ Has(r, "refs") \/ UniformNorm(r.nodes, 0..(Len(r.nodes) - 1))
\* r.fine: the source is the image of the lattice mesh under the shrink map about this centre (Subset!Shrink).
\* Classes decided on the lattice carry over only where the map keeps them (SubsetGen!ShrinkLaws): latitude and
\* longitude classes for a centre at a pole, distance classes from the centre itself; index selections always.
FineOK(r) == ~Has(r, "fine") \/ r.sel.t = "idx"
             \/ (r.sel.t \in { "box", "lat" } /\ IsPole(r.fine))
             \/ (r.sel.t \in { "circle", "knn" } /\ SameDir(r.sel.c, r.fine))
G(d, x) == IF x = -1 THEN NONE ELSE d[x + 1]
DirSet(d) == { d[e] : e \in 1..Len(d) }

(* ---- preconditions of the exact decision (machinery, not verdicts) ------------- *)
Pre(r, d) ==
  LET s == r.sel  P == DirSet(d) IN
  (IF FineOK(r) THEN {} ELSE { "fine_not_scale_free" }) \cup
  CASE s.t = "idx" -> {}
    [] s.t = "box" ->
         (IF CentresExact(r) THEN {} ELSE { "centres_not_exact" })
         \cup (IF IsLonGap(P, G(d, s.lonL[1]), G(d, s.lonL[2])) /\ IsLonGap(P, G(d, s.lonR[1]), G(d, s.lonR[2]))
                  /\ ~SameLon(G(d, s.lonL[1]), G(d, s.lonR[1]))
               THEN {} ELSE { "lon_gap" })
         \cup (IF IsLatGap(P, G(d, s.latB[1]), G(d, s.latB[2])) /\ IsLatGap(P, G(d, s.latT[1]), G(d, s.latT[2]))
                  /\ s.latB[2] # -1 /\ s.latT[1] # -1
               THEN {} ELSE { "lat_gap" })
         \cup (IF \E p \in P : IsPole(p) /\ InLatRange(p, << G(d, s.latB[1]), G(d, s.latB[2]) >>, << G(d, s.latT[1]), G(d, s.latT[2]) >>)
               THEN { "pole_in_box" } ELSE {})
    [] s.t = "circle" ->
         (IF CentresExact(r) THEN {} ELSE { "centres_not_exact" })
         \cup (IF IsDistGap(P, s.c, G(d, s.gap[1]), G(d, s.gap[2])) THEN {} ELSE { "dist_gap" })
    [] s.t = "knn" -> (IF CentresExact(r) THEN {} ELSE { "centres_not_exact" })
    [] s.t = "lat" -> IF ~Lattice(r) THEN {}
                      ELSE IF Has(s, "at") THEN {}
                      ELSE (IF IsLatGap({ r.nodes[n] : n \in 1..Len(r.nodes) }, G(r.nodes, s.gap[1]), G(r.nodes, s.gap[2]))
                            THEN {} ELSE { "lat_gap" })
                           \* s.band: the harness aimed at the thin band between a node row and the top of a great-circle
                           \* edge joining two nodes of that row (the edge bulges polewards over the parallel)
                           \cup (IF ~Has(s, "band") THEN {}
                                 ELSE LET a == r.nodes[s.band[1] + 1]  b == r.nodes[s.band[2] + 1]
                                      IN IF LatCmp(a, b) = 0 /\ (BulgesNorth(a, b) \/ BulgesSouth(a, b)) THEN {} ELSE { "not_a_bulging_edge" })

(* ---- the expected selection, exact ------------------------------------------------ *)
NearerIds(d, c, e) == { q \in 1..Len(d) : NearCmp(c, d[q], d[e]) > 0 }
KnnSet(d, c, k)    == { e \in 1..Len(d) : Cardinality(NearerIds(d, c, e)) < k }
\* 0-based element ids selected by a coordinate / index selection
SelectedElems(r, d) ==
  LET s == r.sel IN
  CASE s.t = "idx" -> Range(s.idx)
    [] s.t = "box" -> { e - 1 : e \in { x \in 1..Len(d) :
                          InBox(d[x], << G(d, s.lonL[1]), G(d, s.lonL[2]) >>, << G(d, s.lonR[1]), G(d, s.lonR[2]) >>,
                                      << G(d, s.latB[1]), G(d, s.latB[2]) >>, << G(d, s.latT[1]), G(d, s.latT[2]) >>) } }
    [] s.t = "circle" -> { e - 1 : e \in { x \in 1..Len(d) : InCircle(s.c, d[x], G(d, s.gap[1])) } }
    [] s.t = "knn" -> { e - 1 : e \in KnnSet(d, s.c, s.k) }
KnnTie(r, d) == r.sel.t = "knn" /\ Cardinality(KnnSet(d, r.sel.c, r.sel.k)) # r.sel.k

NodeSides(r) ==
  LET s == r.sel IN
  IF Lattice(r)
  THEN [ n \in 1..Len(r.nodes) |-> IF Has(s, "at") THEN SideOfAt(r.nodes[n], r.nodes[s.at + 1])
                                   ELSE SideOfGap(r.nodes[n], G(r.nodes, s.gap[1]), G(r.nodes, s.gap[2])) ]
  ELSE [ n \in 1..Len(r.latint) |-> Sgn(r.latint[n] - s.pint) ]

FacesOfElems(r, S) ==
  CASE r.kind = "face" -> S
    [] r.kind = "node" -> FacesTouchingNodes(r.mesh, S)
    [] r.kind = "edge" -> FacesTouchingEdges(r.mesh, r.srcE, S)
ExpectedFaces(r, d) ==
  IF r.sel.t = "lat" THEN StraddlingFaces(r.mesh, NodeSides(r)) ELSE FacesOfElems(r, SelectedElems(r, d))

(* ---- descriptive: the selection one known defect would produce -------------------- *)
\* reference points the implementation reports at longitude exactly +180 fail `lon < 180` in a box that
\* spans the antimeridian (sel.am180: their ids, sel.span: lon_bounds[0] > lon_bounds[1])
Am180Faces(r, d) ==
  IF r.sel.t = "box" /\ Has(r.sel, "span") /\ r.sel.span
  THEN FacesOfElems(r, SelectedElems(r, d) \ Range(r.sel.am180))
  ELSE ExpectedFaces(r, d)

(* ---- clauses ------------------------------------------------------------------------- *)
ResOf(r) == [ src |-> r.res.src, npos |-> r.res.npos, faces |-> MeshOf(r.res.fn) ]
ShapeOf(r) == LET src == r.res.src  n == Len(r.mesh) IN
              IF src = [ k \in 1..n |-> k - 1 ] THEN "identity"
              ELSE IF Len(src) = n /\ Range(src) = 0..(n - 1) THEN "perm" ELSE "proper"

\* r.data: one sliced UxDataArray; r.datas: the variables of one sliced UxDataset (face-, node- and edge-centred
\* together): every variable follows the elements of ITS OWN kind that the result grid kept
DataList(r) == (IF Has(r, "data") THEN << r.data >> ELSE << >>) \o (IF Has(r, "datas") THEN r.datas ELSE << >>)
DataAlignedOne(r, rr, dt) ==
  CASE dt.kind = "face" -> FaceDataAligned(r.mesh, rr, dt.vals)
    [] dt.kind = "node" -> NodeDataAligned(rr, dt.vals)
    [] dt.kind = "edge" -> Has(r.res, "edges") /\ EdgeDataAligned(r.srcE, rr, r.res.edges, dt.vals)
DataClauses(r, rr) ==
  LET L == DataList(r) IN
  [ DataFlags   |-> \A k \in 1..Len(L) : \A f \in DOMAIN L[k].flags : L[k].flags[f],
    DataInner   |-> \A k \in 1..Len(L) : InnerOK(L[k].vals, L[k].L) /\ OneSource(L[k].vals),
    DataAligned |-> \A k \in 1..Len(L) : DataAlignedOne(r, rr, L[k]) ]

GridClauses(r, d) ==
  LET x  == r.res
      rr == ResOf(r)
      m  == rr.faces
      n2 == Len(x.npos)
      E  == x.edges
      he == Has(x, "edges")
  IN
  [ SelExact          |-> SelExact(ExpectedFaces(r, d), rr),
    SelNoDuplicates   |-> SelNoDuplicates(rr),
    SrcInRange        |-> SrcInRange(r.mesh, rr),
    CornersUnchanged  |-> CornersUnchanged(r.mesh, rr),
    NodesDistinct     |-> NodesDistinct(rr),
    NodesAtSourcePositions |-> NodesAtSourcePositions(rr),
    NodeIndexFaithful |-> NodeIndexFaithful(rr, x.snode),
    FaceNodePadding   |-> TableInStandardForm(x.fn, 0, n2 - 1) /\ \A f \in 1..Len(m) : SimpleFace(m[f]),
    EdgeIndexFaithful |-> he => EdgeIndexFaithful(r.srcE, rr, E, x.sedge),
    NodesPerFace      |-> Has(x, "npf") => IsNodesPerFace(m, x.npf),
    EdgeRowsWellShaped |-> he => EdgeRowsWellShaped(E),
    EdgeNoneMissing   |-> he => EdgeNoneMissing(m, E),
    EdgeNoneExtra     |-> he => EdgeNoneExtra(m, E),
    EdgeNoDuplicates  |-> he => EdgeNoDuplicates(E),
    EdgeCount         |-> Has(x, "n_edge") => x.n_edge = Cardinality(EdgeSet(m)),
    FaceEdgeShape     |-> Has(x, "face_edges") => Len(x.face_edges) = Len(m),
    FaceEdgePadding   |-> Has(x, "face_edges") => FaceEdgePadding(m, x.face_edges),
    FaceEdgeJoins     |-> Has(x, "face_edges") /\ he => FaceEdgeJoins(m, E, x.face_edges),
    NodeFaceMembers   |-> Has(x, "node_faces") => Len(x.node_faces) = n2 /\ NodeFaceMembers(m, n2, x.node_faces),
    NodeFacePadding   |-> Has(x, "node_faces") => NodeFacePadding(x.node_faces),
    EdgeFaceShape     |-> Has(x, "edge_faces") /\ he => EdgeFaceShape(E, x.edge_faces),
    EdgeFaceMembers   |-> Has(x, "edge_faces") /\ he => EdgeFaceMembers(m, E, x.edge_faces),
    EdgeFacePadding   |-> Has(x, "edge_faces") => EdgeFacePadding(x.edge_faces),
    FaceFaceCounts    |-> Has(x, "face_faces") => FaceFaceCounts(m, x.face_faces),
    FaceFacePadding   |-> Has(x, "face_faces") => FaceFacePadding(m, x.face_faces),
    HoleEdges         |-> Has(x, "holes") /\ he => IsHoleEdgeList(m, E, x.holes),
    \* edge_face_distances is zero exactly on the edges that have a single face IN THE RESULT
    EdgeFaceDistBoundary |-> Has(x, "efd_zero") /\ he =>
                               /\ Len(x.efd_zero) = Len(E)
                               /\ \A k \in 1..Len(E) : k <= Len(x.efd_zero) /\ RowOK2(E[k]) =>
                                     LET single == Cardinality(FacesOfSide(m, RowAsSide(E[k]))) = 1 IN
                                     /\ single => x.efd_zero[k]
                                     \* on fine meshes the arccos form may round a tiny distance to 0.0: accuracy
                                     \* of the distance itself is C16's subject, not judged here
                                     /\ (~single /\ ~Has(r, "fine")) => ~x.efd_zero[k],
    AccessRaises      |-> x.raised = << >>,
    ScheduleIndependent |-> Has(r, "runs") => \A k \in 1..Len(r.runs) : r.runs[k] = x.src ]

\* sides (as node-id pairs) whose end nodes lie strictly on opposite sides of the parallel
StraddlingSides(r) == LET sd == NodeSides(r) IN { s \in EdgeSet(r.mesh) : \A a, b \in s : a # b => sd[a + 1] * sd[b + 1] = -1 }
FacesClauses(r, d) ==
  [ FacesExact          |-> Range(r.faces) = ExpectedFaces(r, d) /\ IsInjective(r.faces),
    \* get_edges_at_constant_latitude: exactly the straddling edges (ids of the source's own edge table)
    EdgesExact          |-> Has(r, "edges_at") =>
                              /\ IsInjective(r.edges_at)
                              /\ \A k \in 1..Len(r.edges_at) : r.edges_at[k] \in 0..(Len(r.srcE) - 1)
                              /\ { RowAsSide(r.srcE[r.edges_at[k] + 1]) : k \in 1..Len(r.edges_at) } = StraddlingSides(r),
    \* the same query on a pristine grid gives the same faces, whatever was read on this one before
    FreshEqual          |-> Has(r, "fresh_faces") => Range(r.fresh_faces) = Range(r.faces) /\ Len(r.fresh_faces) = Len(r.faces),
    ScheduleIndependent |-> \A k \in 1..Len(r.runs) : Range(r.runs[k]) = Range(r.faces) /\ Len(r.runs[k]) = Len(r.faces) ]

FalseKeys(c) == { k \in DOMAIN c : ~c[k] }
FlagFailures(r) == IF Has(r, "res") /\ Has(r.res, "flags") THEN { k \in DOMAIN r.res.flags : ~r.res.flags[k] } ELSE {}

Failed(r, d) ==
  IF r.err = "select"
  THEN (IF ExpectedFaces(r, d) # {} THEN { "SelectRaises" } ELSE {})
  ELSE IF r.op = "faces" THEN FalseKeys(FacesClauses(r, d))
  ELSE FalseKeys(GridClauses(r, d)) \cup FalseKeys(DataClauses(r, ResOf(r))) \cup FlagFailures(r)

(* ---- outcome per variable, and what the transcribed mechanism predicts -------------- *)
ClausesOfVar(v) ==
  CASE v = "npf" -> { "NodesPerFace" }
    [] v = "edge_node" -> { "EdgeRowsWellShaped", "EdgeNoneMissing", "EdgeNoneExtra", "EdgeNoDuplicates", "EdgeCount", "EdgeIndexFaithful" }
    [] v = "face_edge" -> { "FaceEdgeShape", "FaceEdgePadding", "FaceEdgeJoins" }
    [] v = "edge_face" -> { "EdgeFaceShape", "EdgeFaceMembers", "EdgeFacePadding" }
    [] v = "node_face" -> { "NodeFaceMembers", "NodeFacePadding" }
    [] v = "face_face" -> { "FaceFaceCounts", "FaceFacePadding" }
    [] v = "holes" -> { "HoleEdges" }
    [] v = "edge_face_dist" -> { "EdgeFaceDistBoundary", "eq_edge_face_dist" }
    [] OTHER -> { "eq_" \o v }
Outcome(r, failed, v) == IF \E k \in 1..Len(r.res.raised) : r.res.raised[k] = v THEN "raises"
                         ELSE IF ClausesOfVar(v) \cap failed # {} THEN "wrong" ELSE "ok"
\* the failure a clause reports is the one Mech_prefix transcribes (stale side tables of the source's edge
\* construction on the result's edge table) -- and nothing else
StaleExplains(r, failed, c) ==
  /\ r.prov = "derived" /\ r.err = "" /\ r.op = "grid"
  /\ LET p == OwnOutcome("face_edge", AttrsAfterSlice(Mech_prefix, r.prov), ShapeOf(r)) IN
       /\ p # "ok"
       /\ Outcome(r, failed, "face_edge") = p
       /\ \/ c \in UNION { ClausesOfVar(v) : v \in DependsOnFaceEdge \ { "holes" } }
          \/ (c = "HoleEdges" /\ ~(Has(r, "pre") /\ \E k \in 1..Len(r.pre) : r.pre[k] = "holes"))
          \/ (c = "AccessRaises" /\ p = "raises" /\ \A k \in 1..Len(r.res.raised) : r.res.raised[k] \in DependsOnFaceEdge)
\* hole_edge_indices materialised on the source is copied to the result as it is
HolesExplains(r, failed, c) ==
  /\ c = "HoleEdges" /\ r.err = "" /\ r.op = "grid"
  /\ Has(r, "pre") /\ (\E k \in 1..Len(r.pre) : r.pre[k] = "holes")
  /\ Has(r, "srcholes") /\ Has(r.res, "holes") /\ r.res.holes = r.srcholes
\* a per-edge value whose meaning depends on the faces present was copied from the source (SliceMech!Neighbourhood)
NeighbourExplains(r, c) ==
  /\ c \in { "EdgeFaceDistBoundary", "eq_edge_face_dist" } /\ r.err = "" /\ r.op = "grid"
  /\ Has(r, "pre") /\ (\E k \in 1..Len(r.pre) : r.pre[k] = "edge_face_dist")
  /\ Has(r.res, "efd_carried") /\ r.res.efd_carried /\ ShapeOf(r) = "proper"
Am180Explains(r, d, c) ==
  /\ r.sel.t = "box" /\ Has(r.sel, "span") /\ r.sel.span /\ r.sel.am180 # << >>
  /\ Am180Faces(r, d) # ExpectedFaces(r, d)
  /\ \/ (c = "SelectRaises" /\ r.err = "select" /\ Am180Faces(r, d) = {})
     \/ (c = "SelExact" /\ r.err = "" /\ r.op = "grid" /\ Range(r.res.src) = Am180Faces(r, d))
TagOf(r, d, failed, c) ==
  IF r.sel.t # "lat" /\ Am180Explains(r, d, c) THEN "am180_excluded"
  ELSE IF HolesExplains(r, failed, c) THEN "stale_hole_edges"
  ELSE IF NeighbourExplains(r, c) THEN "neighbour_value_carried"
  ELSE IF StaleExplains(r, failed, c) THEN "stale_edge_side_tables"
  ELSE "none"

Drift(r, failed) ==
  IF Has(r, "pred") /\ r.err = "" /\ r.op = "grid"
  THEN { << v, r.pred[v], Outcome(r, failed, v) >> : v \in { w \in DOMAIN r.pred : r.pred[w] # Outcome(r, failed, w) } }
  ELSE {}

Init == i \in { -b : b \in 1..NBlocks }
Next == /\ i < 0
        /\ i' \in { k \in 1..Len(Recs) : (k - 1) \div Block = (-i) - 1 }

NeedsDirs(r) == r.sel.t \in { "box", "circle", "knn" }
Judge == i > 0 =>
  LET r == Recs[i]
      d == IF NeedsDirs(r) THEN Dirs(r) ELSE << >>
      pre == Pre(r, d)
  IN \* the source's own edge table is the premise of every edge-related decision below (and C02's subject)
     IF ~IsEdgeTable(r.mesh, r.srcE) THEN PrintT(<< "V", r.id, { "SourceEdgeTable" }, [ c \in { "SourceEdgeTable" } |-> "none" ] >>)
     ELSE IF pre # {} THEN PrintT(<< "M", r.id, pre >>)
     ELSE IF NeedsDirs(r) /\ KnnTie(r, d) THEN PrintT(<< "S", r.id, "tie" >>)
     ELSE LET f == Failed(r, d)
              dr == Drift(r, f)
          IN /\ (f = {} \/ PrintT(<< "V", r.id, f, [ c \in f |-> TagOf(r, d, f, c) ] >>))
             /\ (dr = {} \/ PrintT(<< "D", r.id, dr >>))
=============================================================================

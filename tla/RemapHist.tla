----------------------------- MODULE RemapHist -----------------------------
(***************************************************************************)
(* C12, histories: a remap result is a function of the call (data, source  *)
(* grid, destination grid, remap_to, coord_type, method, k, power) -- not  *)
(* of the remap calls made before on the same pair of grid objects.        *)
(*                                                                         *)
(* A call needs one neighbour SEARCH, identified by                        *)
(*    [kind (elements the data live on), dest (destination grid object),   *)
(*     coord, remapTo, k]                                                  *)
(* and the abstract result of a call is the search its values were         *)
(* actually computed from (`used`).  The mechanism (constant Mech) may     *)
(* keep the most recent search of the source grid in a memo and reuse it   *)
(* when the fields in Mech.key agree with the search needed now:           *)
(*   MechIntended / MechObserved   no memo (remap/utils.py as read: every  *)
(*                                 call builds and queries its own tree)   *)
(*   MechMemoFull     memo keyed by all five fields (a sound memo)         *)
(*   MechMemoNoKind   memo keyed without the element kind  (in-model       *)
(*   MechMemoNoDest   ... without the destination          mutants: TLC    *)
(*   MechMemoNoK      ... without k                        must refute)    *)
(* Invariant Independent: used = needed, for every call of every history.  *)
(*                                                                         *)
(* A dataset-level call remaps one variable per element kind, in the order *)
(* nodes, faces, edges: three searches in one call.                        *)
(*                                                                         *)
(* Generation: every history of MaxLen calls in which consecutive calls    *)
(* differ in at most MaxDiff fields (interference needs calls that agree   *)
(* on most of the key), each step carrying the set of fields in which it   *)
(* differs from the previous call.  The harness replays a history on ONE   *)
(* source grid object and fixed destination grid objects and compares each *)
(* result with the result of the same call on freshly built grids; the     *)
(* records are judged here (JInit / JNext / Judge).                        *)
(***************************************************************************)
EXTENDS Naturals, Sequences, FiniteSets, TLC, Json, IOUtils

CONSTANTS Kinds, Coords, Meths, Levels, Dests,   \* the call alphabet
          MaxLen, MaxDiff, Mech

VARIABLES memo, hist, n, last

vars == <<memo, hist, n, last>>

KindsDefault == { "nodes", "face centers", "edge centers" }
KindOrder    == << "nodes", "face centers", "edge centers" >>
\* method names: "nn" (k = 1), "idw2", "idw3" (k = 2, 3; power 2)
KOf(m) == CASE m = "nn" -> 1 [] m = "idw2" -> 2 [] m = "idw3" -> 3 [] OTHER -> 0

Fields == { "kind", "dest", "coord", "remapTo", "k" }
MechIntended   == [ memo |-> FALSE, key |-> Fields ]
MechObserved   == [ memo |-> FALSE, key |-> Fields ]
MechMemoFull   == [ memo |-> TRUE,  key |-> Fields ]
MechMemoNoKind == [ memo |-> TRUE,  key |-> Fields \ {"kind"} ]
MechMemoNoDest == [ memo |-> TRUE,  key |-> Fields \ {"dest"} ]
MechMemoNoK    == [ memo |-> TRUE,  key |-> Fields \ {"k"} ]

None == [ kind |-> "none", dest |-> 0, coord |-> "none", remapTo |-> "none", k |-> 0 ]

\* a dataset-level call does not name a kind: canonical value "nodes"
Calls == { c \in [ kind : Kinds, remapTo : Kinds, coord : Coords, meth : Meths, level : Levels, dest : Dests ] :
             c.level = "ds" => c.kind = "nodes" }
CallFields == { "kind", "remapTo", "coord", "meth", "level", "dest" }
Diff(a, b) == { f \in CallFields : a[f] # b[f] }

Need(c, kind) == [ kind |-> kind, dest |-> c.dest, coord |-> c.coord, remapTo |-> c.remapTo, k |-> KOf(c.meth) ]
Needs(c) == IF c.level = "da" THEN << Need(c, c.kind) >>
            ELSE [ i \in 1..3 |-> Need(c, KindOrder[i]) ]

Hit(m, need) == Mech.memo /\ m # None /\ \A f \in Mech.key : m[f] = need[f]
\* one search: what is used, and the memo afterwards
UsedOf(m, need) == IF Hit(m, need) THEN m ELSE need
MemoOf(m, need) == IF ~Mech.memo THEN None ELSE IF Hit(m, need) THEN m ELSE need

RECURSIVE Run(_, _, _)
Run(m, needs, acc) == IF needs = <<>> THEN << acc, m >>
                      ELSE Run(MemoOf(m, Head(needs)), Tail(needs), Append(acc, UsedOf(m, Head(needs))))

Do(c) == LET r == Run(memo, Needs(c), <<>>) IN
         /\ n < MaxLen
         /\ (hist # <<>> => Cardinality(Diff(hist[Len(hist)].call, c)) <= MaxDiff)
         /\ n' = n + 1
         /\ memo' = r[2]
         /\ last' = [ need |-> Needs(c), used |-> r[1] ]
         /\ hist' = Append(hist, [ call |-> c,
                                   diff |-> IF hist = <<>> THEN {} ELSE Diff(hist[Len(hist)].call, c) ])

Init == memo = None /\ hist = <<>> /\ n = 0 /\ last = [ need |-> <<>>, used |-> <<>> ]
Next == \E c \in Calls : Do(c)
Spec == Init /\ [][Next]_vars

Independent == last.used = last.need
Emit == n = MaxLen => PrintT(<<"H", hist>>)

(* ---- judging recorded histories ----------------------------------------------------------- *)
\* one ndjson line per history: [ id, steps : Seq([ same : BOOLEAN ] or [ err : STRING ]) ]
Recs == ndJsonDeserialize(IOEnv.REC_FILE)
JInit == /\ n \in 1..Len(Recs) /\ memo = None /\ hist = <<>> /\ last = [ need |-> <<>>, used |-> <<>> ]
JNext == UNCHANGED vars
StepFailed(s) == IF "err" \in DOMAIN s THEN {"Raises"}
                 ELSE IF s.same THEN {} ELSE {"HistoryIndependent"}
Judge == LET r == Recs[n]
             f == UNION { { <<i, cl>> : cl \in StepFailed(r.steps[i]) } : i \in 1..Len(r.steps) }
         IN f = {} \/ PrintT(<<"V", r.id, f>>)
=============================================================================

----------------------------- MODULE RemapHist -----------------------------
(***************************************************************************)
(* C12, histories: a remap result is a function of the call (data, source  *)
(* grid, destination grid, remap_to, coord_type, method, k, power) -- not  *)
(* of the remap calls made before on the same pair of grid objects.        *)
(*                                                                         *)
(* A call needs one neighbour SEARCH, identified by                        *)
(*    [kind (elements the data live on), dest (destination grid object),   *)
(*     coord, remapTo, k]                                                  *)
(* and the abstract result of a call is the search its values were         *)
(* actually computed from (`used`).  The mechanism (constant Mech) may     *)
(* keep the most recent search of the source grid in a memo and reuse it   *)
(* when the fields in Mech.key agree with the search needed now:           *)
(*   MechIntended / MechObserved   no memo (remap/utils.py as read: every  *)
(*                                 call builds and queries its own tree)   *)
(*   MechMemoFull     memo keyed by all five fields (a sound memo)         *)
(*   MechMemoNoKind   memo keyed without the element kind  (in-model       *)
(*   MechMemoNoDest   ... without the destination          mutants: TLC    *)
(*   MechMemoNoK      ... without k                        must refute)    *)
(*   MechMemoNoCv     ... without the version of the source's face centres *)
(*   MechTreeReuse    no memo, but the tree in the grid's slot is reused   *)
(*                    when kind and coordinate type agree (reconstruct     *)
(*                    ignored): stale after Recentre                       *)
(* Recentre = Grid.construct_face_centers on the source grid between calls *)
(* (its face centres were supplied by the source and differ from the       *)
(* recomputed ones).                                                       *)
(* Invariant Independent: used = needed, for every call of every history.  *)
(*                                                                         *)
(* A dataset-level call remaps one variable per element kind, in the order *)
(* nodes, faces, edges: three searches in one call.                        *)
(*                                                                         *)
(* Generation: every history of MaxLen calls in which consecutive calls    *)
(* differ in at most MaxDiff fields (interference needs calls that agree   *)
(* on most of the key), each step carrying the set of fields in which it   *)
(* differs from the previous call.  The harness replays a history on ONE   *)
(* source grid object and fixed destination grid objects and compares each *)
(* result with the result of the same call on freshly built grids; the     *)
(* records are judged here (JInit / JNext / Judge).                        *)
(***************************************************************************)
EXTENDS Naturals, Sequences, FiniteSets, TLC, Json, IOUtils

CONSTANTS Kinds, Coords, Meths, Levels, Dests,   \* the call alphabet
          MaxLen, MaxDiff, Mech,
          Shape        \* "calls": remap calls only; "any": also Recentre anywhere;
                       \* "recentre_mid": call, Recentre, call

VARIABLES memo,   \* the memoised search (or None)
          tree,   \* what the source grid's ball-tree slot was built for: [kind, coord, cv]
          cv,     \* version of the source grid's face centres (0 = as supplied, 1 = recomputed)
          hist, n, last

vars == <<memo, tree, cv, hist, n, last>>

KindsDefault == { "nodes", "face centers", "edge centers" }
KindOrder    == << "nodes", "face centers", "edge centers" >>
\* method names: "nn" (k = 1), "idw2", "idw3" (k = 2, 3; power 2)
KOf(m) == CASE m = "nn" -> 1 [] m = "idw2" -> 2 [] m = "idw3" -> 3 [] OTHER -> 0

Fields == { "kind", "dest", "coord", "remapTo", "k", "cv" }
\* memo: keep the last search and reuse it when the key fields agree;
\* reuseTree: reuse the tree in the grid's slot when kind and coordinate type agree (i.e. ignore
\* reconstruct = TRUE) instead of building it from the coordinates the grid reports now
MechIntended   == [ memo |-> FALSE, key |-> Fields, reuseTree |-> FALSE ]
MechObserved   == [ memo |-> FALSE, key |-> Fields, reuseTree |-> FALSE ]
MechMemoFull   == [ memo |-> TRUE,  key |-> Fields, reuseTree |-> FALSE ]
MechMemoNoKind == [ memo |-> TRUE,  key |-> Fields \ {"kind"}, reuseTree |-> FALSE ]
MechMemoNoDest == [ memo |-> TRUE,  key |-> Fields \ {"dest"}, reuseTree |-> FALSE ]
MechMemoNoK    == [ memo |-> TRUE,  key |-> Fields \ {"k"}, reuseTree |-> FALSE ]
MechMemoNoCv   == [ memo |-> TRUE,  key |-> Fields \ {"cv"}, reuseTree |-> FALSE ]
MechTreeReuse  == [ memo |-> FALSE, key |-> Fields, reuseTree |-> TRUE ]

None   == [ kind |-> "none", dest |-> 0, coord |-> "none", remapTo |-> "none", k |-> 0, cv |-> 0 ]
NoTree == [ kind |-> "none", coord |-> "none", cv |-> 0 ]

\* a dataset-level call does not name a kind: canonical value "nodes"
Calls == { c \in [ kind : Kinds, remapTo : Kinds, coord : Coords, meth : Meths, level : Levels, dest : Dests ] :
             c.level = "ds" => c.kind = "nodes" }
CallFields == { "kind", "remapTo", "coord", "meth", "level", "dest" }
Diff(a, b) == { f \in CallFields : a[f] # b[f] }

\* only the face centres have versions
Need(c, kind) == [ kind |-> kind, dest |-> c.dest, coord |-> c.coord, remapTo |-> c.remapTo, k |-> KOf(c.meth),
                   cv |-> IF kind = "face centers" THEN cv ELSE 0 ]
Needs(c) == IF c.level = "da" THEN << Need(c, c.kind) >>
            ELSE [ i \in 1..3 |-> Need(c, KindOrder[i]) ]

Hit(m, need)     == Mech.memo /\ m # None /\ \A f \in Mech.key : m[f] = need[f]
TreeHit(t, need) == Mech.reuseTree /\ t.kind = need.kind /\ t.coord = need.coord
\* one search: what its values come from, and memo / tree slot afterwards
UsedOf(m, t, need) == IF Hit(m, need) THEN m
                      ELSE IF TreeHit(t, need) THEN [ need EXCEPT !.cv = t.cv ] ELSE need
MemoOf(m, t, need) == IF ~Mech.memo THEN None ELSE UsedOf(m, t, need)
TreeOf(m, t, need) == IF Hit(m, need) \/ TreeHit(t, need) THEN t
                      ELSE [ kind |-> need.kind, coord |-> need.coord, cv |-> need.cv ]

RECURSIVE Run(_, _, _, _)
Run(m, t, needs, acc) ==
    IF needs = <<>> THEN << acc, m, t >>
    ELSE Run(MemoOf(m, t, Head(needs)), TreeOf(m, t, Head(needs)), Tail(needs), Append(acc, UsedOf(m, t, Head(needs))))

PrevCalls == SelectSeq(hist, LAMBDA s : s.op = "remap")

Do(c) == LET r  == Run(memo, tree, Needs(c), <<>>)
             pc == PrevCalls
         IN
         /\ n < MaxLen
         /\ (Shape = "recentre_mid" => n \in {0, 2})
         /\ (pc # <<>> => Cardinality(Diff(pc[Len(pc)].call, c)) <= MaxDiff)
         /\ n' = n + 1
         /\ memo' = r[2]
         /\ tree' = r[3]
         /\ cv' = cv
         /\ last' = [ need |-> Needs(c), used |-> r[1] ]
         /\ hist' = Append(hist, [ op |-> "remap", call |-> c,
                                   diff |-> IF pc = <<>> THEN {} ELSE Diff(pc[Len(pc)].call, c) ])

\* Grid.construct_face_centers on the SOURCE grid: the face centres it reports change
Recentre == /\ Shape \in {"any", "recentre_mid"}
            /\ n < MaxLen
            /\ (Shape = "recentre_mid" => n = 1)
            /\ cv = 0
            /\ cv' = 1
            /\ n' = n + 1
            /\ UNCHANGED <<memo, tree>>
            /\ last' = [ need |-> <<>>, used |-> <<>> ]
            /\ hist' = Append(hist, [ op |-> "recentre" ])

Init == memo = None /\ tree = NoTree /\ cv = 0 /\ hist = <<>> /\ n = 0 /\ last = [ need |-> <<>>, used |-> <<>> ]
Next == (\E c \in Calls : Do(c)) \/ Recentre
Spec == Init /\ [][Next]_vars

Independent == last.used = last.need
Emit == n = MaxLen => PrintT(<<"H", hist>>)

(* ---- judging recorded histories ----------------------------------------------------------- *)
\* one ndjson line per history: [ id, steps : Seq([ same : BOOLEAN, kept : BOOLEAN ] or [ err : STRING ]) ]
\* same: the result equals the same call on freshly built grids (with the same centre version);
\* kept: the data arrays and every coordinate / connectivity table of the source and destination
\*       grids have the values they had before the call
Recs == ndJsonDeserialize(IOEnv.REC_FILE)
JInit == /\ n \in 1..Len(Recs) /\ memo = None /\ tree = NoTree /\ cv = 0 /\ hist = <<>> /\ last = [ need |-> <<>>, used |-> <<>> ]
JNext == UNCHANGED vars
StepFailed(s) == IF "err" \in DOMAIN s THEN {"Raises"}
                 ELSE (IF s.same THEN {} ELSE {"HistoryIndependent"}) \cup (IF s.kept THEN {} ELSE {"ArgsKept"})
Judge == LET r == Recs[n]
             f == UNION { { <<i, cl>> : cl \in StepFailed(r.steps[i]) } : i \in 1..Len(r.steps) }
         IN f = {} \/ PrintT(<<"V", r.id, f>>)
=============================================================================

------------------------------ MODULE JudgeEdge ------------------------------
(***************************************************************************)
(* C16: emits what the harness must evaluate numerically, and judges the   *)
(* recorded edge distances / differences / gradients against EdgeOps.tla.  *)
(*                                                                         *)
(* MODE = "emit": per record (mesh, n_node, edges = the grid's own         *)
(* edge_node table, optional nodes = integer direction vectors) print      *)
(*    <<"P", i, face pair of every edge>>   (<<f>> boundary, <<f, g>>)     *)
(*    <<"G", i, GeoDescr of every edge>>    (lattice meshes)               *)
(*    <<"X", i>>  the recorded edge table is not an edge table of the mesh *)
(*                                                                         *)
(* MODE = "judge": per record print <<"V", i, clause>> for every failed    *)
(* clause and <<"S", i, tag>> for signatures of known defect shapes.       *)
(* Values x arrive as <<p, q, flags>> = the rational nearest to x with     *)
(* q <= 4096 (q = 0: not finite); bit 0 exact, bit 1 within tolerance.     *)
(* Numeric comparisons against irrational references (distances, norms)    *)
(* arrive as booleans computed by the harness with the stated tolerance;   *)
(* which edge, which pair, which zero pattern, which rows are judged is    *)
(* decided here.                                                           *)
(***************************************************************************)
EXTENDS EdgeOps, Aggregate, Json, IOUtils, TLCExt

Recs  == ndJsonDeserialize(IOEnv.REC_FILE)
Mode  == IOEnv.MODE
Block == 8
NBlocks == (Len(Recs) + Block - 1) \div Block

VARIABLE i

Has(r, f) == f \in DOMAIN r
Bit(x, k) == (x \div (IF k = 0 THEN 1 ELSE IF k = 1 THEN 2 ELSE 4)) % 2 = 1

(* ---- emit ---------------------------------------------------------------- *)
IsDP(r) == Has(r, "kind") /\ r.kind = "dualpartial"
Emit(r) ==
    IF IsDP(r) THEN PrintT(<<"P", i, [ k \in 1..Len(r.src_ef) |-> SetToSortSeq(Range(r.src_ef[k]) \ { PAD }, <) ]>>)
    ELSE IF ~EdgeTableOK(r.mesh, r.n_node, r.edges) THEN PrintT(<<"X", i>>)
    ELSE /\ PrintT(<<"P", i, [ k \in 1..Len(r.edges) |-> FacePairSeq(r.mesh, r.edges[k]) ]>>)
         /\ ((Has(r, "nodes") /\ ~Has(r, "centre")) =>
                PrintT(<<"G", i, [ k \in 1..Len(r.edges) |-> NodeGeo(r.nodes, r.edges[k]) ]>>))
         \* fine mesh: the recorded grid is the base mesh shrunk about `centre`; closed-form parts per edge
         /\ (Has(r, "centre") =>
                PrintT(<<"H", i, [ k \in 1..Len(r.edges) |->
                          LET p == ShrunkNodeGeoParts(r.nodes, r.centre, r.edges[k])
                          IN << p.al, p.be, p.cc, p.ab, p.w1, p.w2 >> ]>>))

(* ---- judge ----------------------------------------------------------------- *)
\* an interior edge whose two faces have the same corner set: their centres coincide, the centre
\* distance is zero and the gradient undefined - outside the property, not judged
DegenerateRow(mesh, row) ==
    LET p == FacePairSeq(mesh, row)
    IN Len(p) = 2 /\ Corners(mesh[p[1] + 1]) = Corners(mesh[p[2] + 1])
\* ... or one of whose faces has its centre inside the library's pole-snapping zone (|z| > 1 - 1e-8, a cap of
\* 1.4e-4 rad: the reported centre is the pole itself, which is C04's tolerance, not C16's subject); the harness
\* marks such edges from its reference centres (snap)
Excluded(r, k)   == DegenerateRow(r.mesh, r.edges[k]) \/ (Has(r, "snap") /\ r.snap[k])
HasDegenerate(r) == \E k \in 1..Len(r.edges) : Excluded(r, k)

\* got = <<p, q, flags>> or <<p, q, flags, k>>: the value p / q * 2^k;  exp = <<n, d>> at binary exponent e: the
\* value n / d * 2^e.  Equality by integer cross-multiplication with the power of two on the proper side.
RECURSIVE P2(_)
P2(n) == IF n = 0 THEN 1 ELSE 2 * P2(n - 1)
MatchS(got, exp, e, exact) ==
    LET k == IF Len(got) = 4 THEN got[4] ELSE 0 IN
    /\ got[2] > 0
    /\ Bit(got[3], 1)
    /\ (exact => Bit(got[3], 0))
    /\ IF exp[1] = 0 \/ got[1] = 0 THEN exp[1] = 0 /\ got[1] = 0
       ELSE /\ k - e <= 8 /\ e - k <= 20 /\ got[2] <= 4 /\ got[1] < 1048576 /\ got[1] > -1048576      \* keeps the products below 2^31
            /\ IF k >= e THEN got[1] * exp[2] * P2(k - e) = exp[1] * got[2]
                         ELSE got[1] * exp[2] = exp[1] * got[2] * P2(e - k)
Match(got, exp, exact) == MatchS(got, exp, 0, exact)
\* binary exponent of a canonical data row (0 if the record is not scaled)
SExp(r, row) == IF Has(r, "sexp") THEN r.sexp[row] ELSE 0

\* layout of the record: the grid dimension sits at 0-based position r.pos among the dims, the other dims have
\* the sizes r.lead / names r.lead_dims; the edge dimension must take that position in the result
Lay(r) == [ pos |-> r.pos, lead |-> r.lead ]
ShapeOK(r, e) ==
    /\ e.dims = InsAt(r.lead_dims, r.pos, "n_edge")
    /\ e.shape = LayoutShape(Lay(r), Len(r.edges))
    /\ e.cls = "UxDataArray"
    /\ e.same

\* values: e.flat is the result in its own C order; canonical row (C-order index of the other dims) and edge k are
\* looked up at Aggregate.FlatOffset (proved to be the C-order offset in AggLayout.tla)
ValuesOK(r, e, rows, Exp(_, _), exact) ==
    LET n == Len(r.edges)
        l == Lay(r)
    IN /\ Len(rows) = NRows(l)
       /\ Len(e.flat) = Len(rows) * n
       /\ \A row \in 1..Len(rows) : \A k \in 1..n :
            LET o == FlatOffset(l, n, row - 1, k - 1) + 1
            IN o <= Len(e.flat) => MatchS(e.flat[o], Exp(row, k), SExp(r, row), exact)
\* a per-entry boolean of the result (exact zero) at canonical row / edge
FlagAt(r, zf, row, k) == LET o == FlatOffset(Lay(r), Len(r.edges), row - 1, k - 1) + 1
                         IN o <= Len(zf) /\ zf[o]

Clauses(r) ==
    LET m == r.mesh
        E == r.edges
        D == r.den
        deg == HasDegenerate(r)
        nodeExp(row, k) == NodeDiff(E[k], r.xrows[row], D)
        faceExp(row, k) == FaceDiff(m, E[k], r.yrows[row], D)
        defined(row)    == NormDefined(m, E, r.yrows[row])
        ok(f)           == Has(r, f) /\ Has(r[f], "flat")
    IN
    [ EdgeFacePairs  |-> Has(r, "edge_faces") =>
                           /\ Len(r.edge_faces) = Len(E)
                           /\ \A k \in 1..Len(E) : k <= Len(r.edge_faces) => EdgeFaceRowOK(m, E[k], r.edge_faces[k]),
      NodeDistances  |-> Has(r, "nd_ok") => Len(r.nd_ok) = Len(E) /\ \A k \in 1..Len(E) : r.nd_ok[k],
      FaceDistances  |-> Has(r, "fd_ok") =>
                           /\ Len(r.fd_ok) = Len(E)
                           /\ \A k \in 1..Len(E) : Excluded(r, k) \/ r.fd_ok[k],
      FaceDistanceZeroOnBoundary |->
                         Has(r, "fd_zero") => \A k \in 1..Len(E) :
                            Excluded(r, k) \/ (r.fd_zero[k] <=> IsBoundaryRow(m, E[k])),
      ScaleInSpec    |-> Has(r, "sexp") => \A row \in 1..Len(r.sexp) : r.sexp[row] \in ScaleExps,
      DistanceDims   |-> Has(r, "dist_dims") => \A j \in 1..Len(r.dist_dims) : r.dist_dims[j] = << "n_edge" >>,
      SuppliedNodeDistances |->
                         Has(r, "supplied_dv") =>
                            /\ Len(r.nd) = Len(r.supplied_dv)
                            /\ \A k \in 1..Len(r.supplied_dv) : Match(r.nd[k], << r.supplied_dv[k], 1 >>, TRUE)
                            /\ \A k \in 1..Len(E) : RowAsSide(E[k]) = RowAsSide(r.src_edges[k]),
      SuppliedFaceDistances |->
                         Has(r, "supplied_dc") =>
                            /\ Len(r.fd) = Len(r.supplied_dc)
                            /\ \A k \in 1..Len(r.supplied_dc) : Match(r.fd[k], << r.supplied_dc[k], 1 >>, TRUE),
      NodeDiffValue  |-> ok("ndiff") => ValuesOK(r, r.ndiff, r.xrows, nodeExp, TRUE),
      FaceDiffValue  |-> ok("fdiff") => ValuesOK(r, r.fdiff, r.yrows, faceExp, TRUE),
      \* recorded: gradient times the reference centre distance (the gradient itself on boundary edges)
      GradValue      |-> (ok("grad") /\ ~deg) => ValuesOK(r, r.grad, r.yrows, faceExp, FALSE),
      GradZeroOnBoundary |->
                         (ok("grad") /\ ~deg) => \A row \in 1..Len(r.yrows) : \A k \in 1..Len(E) :
                            IsBoundaryRow(m, E[k]) =>
                               LET o == FlatOffset(Lay(r), Len(E), row - 1, k - 1) + 1
                               IN o <= Len(r.grad.flat) => r.grad.flat[o][1] = 0 /\ Bit(r.grad.flat[o][3], 0),
      NormUnit       |-> (ok("gradn") /\ ~deg) => \A row \in 1..Len(r.yrows) : defined(row) => r.gradn.unit[row],
      NormZeroPattern |-> (ok("gradn") /\ ~deg) => \A row \in 1..Len(r.yrows) : defined(row) =>
                            \A k \in 1..Len(E) : FlagAt(r, r.gradn.zeroflat, row, k) <=> GradIsZero(m, E[k], r.yrows[row]),
      NormProportional |-> (ok("gradn") /\ ~deg) => \A row \in 1..Len(r.yrows) : defined(row) => r.gradn.prop[row],
      NormIndependent |-> (ok("gradn") /\ ~deg) => \A row \in 1..Len(r.yrows) : defined(row) => r.gradn.indep[row],
      Shape_ndiff |-> ok("ndiff") => ShapeOK(r, r.ndiff),
      Shape_fdiff |-> ok("fdiff") => ShapeOK(r, r.fdiff),
      Shape_grad |-> ok("grad") => ShapeOK(r, r.grad),
      Shape_gradn |-> ok("gradn") => ShapeOK(r, r.gradn),
      Accepts        |-> \A f \in { "ndiff", "fdiff", "grad", "gradn" } : Has(r, f) => Has(r[f], "flat"),
      \* histories (EdgeHist.tla): after any history each table read on this handle is the table a freshly built
      \* grid of the same source / selection reports, and each operator result is what the fresh grid gives
      Fresh_edge_face_distances    |-> Has(r, "fresh") => r.fresh.efd,
      Fresh_edge_node_distances    |-> Has(r, "fresh") => r.fresh.end,
      Fresh_edge_face_connectivity |-> Has(r, "fresh") => r.fresh.efc,
      Fresh_edge_node_connectivity |-> Has(r, "fresh") => r.fresh.enc,
      OpResultFresh  |-> Has(r, "ops") => \A k \in 1..Len(r.ops) : r.ops[k].same
    ]

\* MPAS dual of a PARTIAL mesh: the source describes open fans (faces with 1-2 nodes) and one-ended edges, so
\* the grid is not a mesh in the sense of Mesh.tla.  What the property still fixes: the edge's nodes / faces are
\* the ones the source names (cellsOnEdge / verticesOnEdge), distances where both ends exist, face differences
\* and gradients over the source's pairs.
DPClauses(r) ==
    LET E == r.edges
        two(k)  == PAD \notin Range(r.src_ef[k]) /\ Len(r.src_ef[k]) = 2
        fexp(row, k) == IF two(k) THEN << Abs(r.yrows[row][r.src_ef[k][1] + 1] - r.yrows[row][r.src_ef[k][2] + 1]), r.den >>
                        ELSE << 0, r.den >>
        ok(f) == Has(r, f) /\ Has(r[f], "flat")
    IN
    [ DualPartialPairs |-> /\ Len(E) = Len(r.src_en) /\ Len(r.edge_faces) = Len(r.src_ef)
                           /\ \A k \in 1..Len(E) : Range(E[k]) = Range(r.src_en[k])
                           /\ \A k \in 1..Len(r.edge_faces) : Range(r.edge_faces[k]) = Range(r.src_ef[k]),
      DualPartialNodeDistances |-> Len(r.nd_ok) = Len(r.src_en) /\
                           \A k \in 1..Len(r.src_en) : (PAD \notin Range(r.src_en[k])) => r.nd_ok[k],
      DualPartialFaceDistances |-> Len(r.fd_ok) = Len(r.src_ef) /\ \A k \in 1..Len(r.src_ef) : two(k) => r.fd_ok[k],
      DualPartialFaceDiff |-> ok("fdiff") => ValuesOK(r, r.fdiff, r.yrows, fexp, TRUE),
      DualPartialGrad     |-> ok("grad")  => ValuesOK(r, r.grad, r.yrows, fexp, FALSE),
      Shape_fdiff |-> ok("fdiff") => ShapeOK(r, r.fdiff),
      Shape_grad |-> ok("grad") => ShapeOK(r, r.grad),
      Accepts        |-> \A f \in { "fdiff", "grad" } : Has(r, f) => Has(r[f], "flat")
    ]

Failed(r) == IF IsDP(r) THEN LET c == DPClauses(r) IN { k \in DOMAIN c : ~c[k] }
             ELSE IF ~EdgeTableOK(r.mesh, r.n_node, r.edges) THEN { "EdgeTable" }
             ELSE LET c == Clauses(r) IN { k \in DOMAIN c : ~c[k] }

\* signature of a known defect shape: the whole array, not each leading index, has unit norm
WholeArrayNorm(r) ==
    /\ ~IsDP(r) /\ Has(r, "gradn") /\ Has(r.gradn, "flat") /\ ~HasDegenerate(r)
    /\ r.gradn.whole
    /\ Cardinality({ row \in 1..Len(r.yrows) : NormDefined(r.mesh, r.edges, r.yrows[row]) }) >= 2

\* signature: every reported node distance is the centre distance and vice versa (roles exchanged)
DistancesSwapped(r) ==
    /\ Has(r, "nd_sw") /\ Has(r, "fd_sw") /\ Len(r.edges) > 0
    /\ \A k \in 1..Len(r.nd_sw) : r.nd_sw[k]
    /\ \A k \in 1..Len(r.fd_sw) : r.fd_sw[k]

\* signature: the grid dimension is not last and every operator either raised or kept the grid dimension and
\* relabelled the LAST dimension as n_edge (the computation ran along the last axis)
GridDimOf(f) == IF f = "ndiff" THEN "n_node" ELSE "n_face"
LastReplaced(r, f) == LET d == InsAt(r.lead_dims, r.pos, GridDimOf(f)) IN [ d EXCEPT ![Len(d)] = "n_edge" ]
GridAxisNotLast(r) ==
    /\ r.pos < Len(r.lead)
    /\ \A f \in { "ndiff", "fdiff", "grad", "gradn" } \cap DOMAIN r :
          Has(r[f], "err") \/ r[f].dims = LastReplaced(r, f)

\* coverage facts about a history record, decided here: the subset leaves out a LOWER-indexed neighbour of a
\* kept face (the parent's slot-0 face of a shared edge); the handle has boundary edges
DropsLowerNeighbour(r) ==
    Has(r, "parent_mesh") /\
    \E f \in Range(r.sel_faces) : \E g \in 0..(Len(r.parent_mesh) - 1) :
        g < f /\ g \notin Range(r.sel_faces) /\ Sides(r.parent_mesh[f + 1]) \cap Sides(r.parent_mesh[g + 1]) # {}
HasBoundary(r) == \E k \in 1..Len(r.edges) : IsBoundaryRow(r.mesh, r.edges[k])

Init == i \in { -b : b \in 1..NBlocks }
Next == /\ i < 0
        /\ i' \in { k \in 1..Len(Recs) : (k - 1) \div Block = (-i) - 1 }

Judge == i > 0 =>
           LET r == Recs[i]
           IN IF Mode = "emit" THEN Emit(r)
              ELSE LET f == Failed(r)
                   IN /\ (Has(r, "fresh") /\ ~IsDP(r) /\ EdgeTableOK(r.mesh, r.n_node, r.edges)) =>
                           /\ (DropsLowerNeighbour(r) => PrintT(<<"C", i, "DropsLowerNeighbour">>))
                           /\ (HasBoundary(r) => PrintT(<<"C", i, "HasBoundary">>))
                      /\ \A c \in f : PrintT(<<"V", i, c>>)
                      /\ (("NormUnit" \in f \/ "NormIndependent" \in f \/ "NormProportional" \in f) /\ WholeArrayNorm(r))
                            => PrintT(<<"S", i, "WholeArrayNorm">>)
                      /\ ((f # {} /\ Has(r, "pos") /\ GridAxisNotLast(r)) => PrintT(<<"S", i, "GridAxisNotLast">>))
                      /\ (({ "NodeDistances", "FaceDistances" } \cap f # {} /\ DistancesSwapped(r))
                            => PrintT(<<"S", i, "DistancesSwapped">>))
=============================================================================

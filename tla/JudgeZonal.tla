----------------------------- MODULE JudgeZonal -----------------------------
(***************************************************************************)
(* X02 judge.  One ndjson line per call of the implementation.             *)
(*                                                                         *)
(* kind = "sweep": _process_overlapped_intervals was handed the rows       *)
(*   <<a, b, face>> (integer cell boundaries, scaled by a unit u by the    *)
(*   harness, rows possibly shuffled, faces possibly relabelled):          *)
(*     got[f]  = round(12 * contribution[f] / u), exact = every            *)
(*     contribution and the total are within 1e-12 * u of those integers,  *)
(*     tot = round(total / u), raised.                                     *)
(* kind = "weights": _get_zonal_faces_weight_at_constLat on faces whose    *)
(*   exact arcs on the latitude circle are the rows (lat-lon rectangles on *)
(*   the cell grid): got[f] = round(12 * T * weight[f]) with T the number  *)
(*   of covered cells supplied by the generator; exact as above.           *)
(* kind = "mesh": the same function on a lattice mesh at a latitude given  *)
(*   by its position among the mesh's exact critical latitudes (lam =      *)
(*   <<"at", k>> or <<"gap", k>> = strictly between the k-th and k+1-th).  *)
(*   Per face f: lo[f], hi[f] = positions of its exact lat_min / lat_max   *)
(*   (BoundsSpec, emitted by ZonalMesh), onpar[f] = an edge lies on the    *)
(*   parallel, pole[f] = encloses a pole; cand = faces selected by the     *)
(*   bounds the implementation reports (Grid.bounds); pos[f] = weight > 0, *)
(*   sum1 = weights sum to 1, orc[f] = weight equals the float oracle,     *)
(*   sym = equal under the replayed symmetries, raised.                    *)
(* The harness only measures; which faces must carry weight, what the      *)
(* weights must be (rationals), and what is outside the code's documented  *)
(* domain is decided here.                                                 *)
(***************************************************************************)
EXTENDS ZonalOps, Json, IOUtils, TLC, TLCExt

Recs  == ndJsonDeserialize(IOEnv.REC_FILE)
Block == 64
NBlocks == (Len(Recs) + Block - 1) \div Block
VARIABLE i

Ran(s) == { s[k] : k \in DOMAIN s }

SweepClauses(r) ==
    IF r.raised THEN [ NoRaise |-> FALSE ]
    ELSE LET w == W1Rows(r.m, r.rows, r.n)
         IN [ NoRaise       |-> TRUE,
              Contributions |-> \A f \in 1..r.n : r.got[f] = w[f],
              Total         |-> r.tot = Cardinality(CoveredRows(r.m, r.rows, r.n)),
              Exact         |-> r.exact ]

WeightClauses(r) ==
    IF r.raised THEN [ NoRaise |-> FALSE ]
    ELSE LET w == W1Rows(r.m, r.rows, r.n)
             t == Cardinality(CoveredRows(r.m, r.rows, r.n))
         IN [ NoRaise  |-> TRUE,
              Weights  |-> \A f \in 1..r.n : r.got[f] = w[f],
              SumToOne |-> SumSeq(r.got) = D * t,
              Exact    |-> r.exact ]

(* ---- meshes ----------------------------------------------------------------------- *)
Crosses(r, f) == IF r.lam[1] = "gap" THEN r.lo[f] <= r.lam[2] /\ r.lam[2] + 1 <= r.hi[f]
                 ELSE r.lo[f] < r.lam[2] /\ r.lam[2] < r.hi[f]
Touches(r, f) == r.lam[1] = "at" /\ ~Crosses(r, f) /\ (r.lo[f] = r.lam[2] \/ r.hi[f] = r.lam[2])
Selected(r)   == { f \in 1..r.n : Crosses(r, f) \/ Touches(r, f) }
\* the documented domain of _get_zonal_face_interval: "the span of the face in longitude should be less than pi"
\* (a face that encloses a pole spans the whole circle); the pole latitudes themselves are the hard-coded special case
\* Also not judged: a latitude that is exactly the interior extreme of an edge and no corner's latitude -- the parallel
\* is tangent to that edge, the touched faces meet it in a single point that floating point cannot hit, and when only
\* such faces are selected the weights are 0 / 0.
Claimed(r)    == r.atpole \/ ( /\ \A f \in Selected(r) : ~r.pole[f]
                              /\ (r.lam[1] = "at" => r.lam[2] \in Ran(r.nodepos)) )
MeshClauses(r) ==
    IF ~Claimed(r) THEN [ Unclaimed |-> TRUE ]
    ELSE IF Ran(r.cand) # Selected(r) THEN [ BoundsSelect |-> FALSE ]
    ELSE IF r.raised THEN [ NoRaise |-> FALSE ]
    ELSE [ NoRaise  |-> TRUE,
           SumToOne |-> r.sum1,
           CrossedGetsWeight   |-> \A f \in Selected(r) : (Crosses(r, f) /\ ~r.atpole) => r.pos[f],
           TouchedGetsNothing  |-> \A f \in Selected(r) : (Touches(r, f) /\ ~r.onpar[f] /\ ~r.atpole) => ~r.pos[f],
           PoleSharedEvenly    |-> r.atpole => r.even,
           Oracle   |-> \A f \in Selected(r) : r.orc[f],
           Symmetry |-> r.sym ]

\* abstract signature of a failing mesh record (decided here from the exact facts; used to match known findings)
MeshSig(r) ==
    LET at == r.lam[1] = "at"
        p  == r.lam[2]
    IN [ lam_kind |-> r.lam[1], at_pole |-> r.atpole,
         lam_is_corner_latitude |-> at /\ p \in Ran(r.nodepos),
         \* a selected face that the parallel only touches, in the two end points of one of its edges
         touched_in_two_corners |-> at /\ \E f \in Selected(r) : Touches(r, f) /\ p \in Ran(r.flat[f]),
         \* a selected face that the parallel only touches, at the interior extreme of an edge (tangency)
         touched_by_tangency |-> at /\ \E f \in Selected(r) : Touches(r, f) /\ p \notin Ran(r.corners[f]),
         \* a selected face with a bulging edge whose poleward end is exactly on the parallel (the edge is crossed once more)
         end_on_parallel_of_bulging_edge |-> at /\ \E f \in Selected(r) : p \in Ran(r.reenter[f]),
         \* a face that is crossed AND has a corner or a tangency exactly on the parallel
         crossed_with_extra_contact |-> at /\ \E f \in Selected(r) : Crosses(r, f) /\ (p \in Ran(r.corners[f]) \/ p \in Ran(r.tops[f])) ]

Clauses(r) == CASE r.kind = "sweep" -> SweepClauses(r)
                [] r.kind = "weights" -> WeightClauses(r)
                [] r.kind = "mesh" -> MeshClauses(r)
Failed(r) == LET c == Clauses(r) IN { k \in DOMAIN c : ~c[k] }

Init == i \in { -b : b \in 1..NBlocks }
Next == /\ i < 0
        /\ i' \in { k \in 1..Len(Recs) : (k - 1) \div Block = (-i) - 1 }
Judge == i > 0 => LET r == Recs[i]
                      fl == Failed(r)
                  IN /\ (fl = {} \/ PrintT(<<"V", r.id, fl, IF r.kind = "mesh" THEN MeshSig(r) ELSE [ kind |-> r.kind ]>>))
                     /\ (r.kind # "mesh" \/ Claimed(r) \/ PrintT(<<"U", r.id>>))
=============================================================================

------------------------------ MODULE ZonalMesh ------------------------------
(***************************************************************************)
(* X02 generator for the end-to-end part: exact latitude structure of a    *)
(* lattice mesh (faces = convex CCW sequences of integer directions,       *)
(* BoundsSpec).  For every mesh read from ndjson TLC emits                 *)
(*   crit    the distinct exact latitudes <<s, N, D>> (s asin sqrt(N/D))   *)
(*           at which the set of faces / edges met by a parallel changes:  *)
(*           every corner, every interior extreme of a bulging edge, every *)
(*           enclosed pole -- in ascending order;                          *)
(*   lo, hi  per face, the positions in crit of its exact lat_min, lat_max *)
(*           (C13's BoundsSpec): a parallel strictly inside a gap k..k+1   *)
(*           crosses face f iff lo[f] <= k and k+1 <= hi[f];               *)
(*   pole    per face, encloses a pole (its longitude span is the circle:  *)
(*           outside the documented domain of the zonal helpers);          *)
(*   eqedge  per face, has an edge lying on the equator;                   *)
(*   nodepos, flat, corners: which critical latitudes are corner           *)
(*           latitudes, which are shared by both ends of an edge of the    *)
(*           face, which are corners of the face (signatures of findings). *)
(* Meshes with a face outside C13's quantifier are reported and skipped.   *)
(***************************************************************************)
EXTENDS BoundsSpec, Json, IOUtils, TLC

Meshes == ndJsonDeserialize(IOEnv.MESH_FILE)
VARIABLE k
Init == k = 0
Next == k = 0 /\ k' \in 1..Len(Meshes)

FaceOf(m, j) == [ i \in 1..Len(m.faces[j]) |-> m.nodes[m.faces[j][i] + 1] ]
FacesOf(m)   == [ j \in 1..Len(m.faces) |-> FaceOf(m, j) ]

\* every exact latitude that matters, as a set of <<s, N, D>> values (possibly equal values in different form)
RawCrit(F) ==
    UNION { { LatOfCorner(F[j][i]) : i \in 1..Len(F[j]) }
            \cup { LatOfTop(EdgeA(F[j], i), EdgeB(F[j], i)) : i \in { e \in 1..Len(F[j]) : BulgeN(F[j], e) } }
            \cup { LatOfBottom(EdgeA(F[j], i), EdgeB(F[j], i)) : i \in { e \in 1..Len(F[j]) : BulgeS(F[j], e) } }
            \cup { LatMaxVal(F[j]), LatMinVal(F[j]) } : j \in 1..Len(F) }
RECURSIVE SortCrit(_)
SortCrit(S) == IF S = {} THEN <<>>
               ELSE LET x == CHOOSE y \in S : \A z \in S : LatValCmp(y, z) <= 0
                    IN <<x>> \o SortCrit({ z \in S : LatValCmp(z, x) # 0 })
PosOf(crit, v) == CHOOSE p \in 1..Len(crit) : LatValCmp(crit[p], v) = 0

Facts(m) ==
    LET F == FacesOf(m)
        crit == SortCrit(RawCrit(F))
    IN [ id |-> m.id, n |-> Len(F), crit |-> crit,
         lo |-> [ j \in 1..Len(F) |-> PosOf(crit, LatMinVal(F[j])) ],
         hi |-> [ j \in 1..Len(F) |-> PosOf(crit, LatMaxVal(F[j])) ],
         pole |-> [ j \in 1..Len(F) |-> EnclosesPole(F[j]) ],
         eqedge |-> [ j \in 1..Len(F) |-> \E i \in 1..Len(F[j]) : EquatorArc(EdgeA(F[j], i), EdgeB(F[j], i)) ],
         \* positions that are the latitude of some corner (the others are interior extremes of edges only)
         nodepos |-> UNION { { PosOf(crit, LatOfCorner(F[j][i])) : i \in 1..Len(F[j]) } : j \in 1..Len(F) },
         \* per face: positions p such that an edge off the equator has BOTH ends at latitude crit[p] (the parallel
         \* then meets that edge in its two end points only: the arc bulges poleward between them)
         flat |-> [ j \in 1..Len(F) |-> { PosOf(crit, LatOfCorner(EdgeA(F[j], i))) :
                        i \in { e \in 1..Len(F[j]) : LatCmp(EdgeA(F[j], e), EdgeB(F[j], e)) = 0 /\ EdgeA(F[j], e)[3] # 0 } } ],
         \* per face: positions p such that a bulging edge of the face has exactly its poleward end at latitude crit[p]:
         \* the parallel through that end crosses the same edge once more (between its extreme and its other end)
         reenter |-> [ j \in 1..Len(F) |->
                        { PosOf(crit, LatOfCorner(IF LatCmp(EdgeA(F[j], i), EdgeB(F[j], i)) > 0 THEN EdgeA(F[j], i) ELSE EdgeB(F[j], i))) :
                              i \in { e \in 1..Len(F[j]) : BulgeN(F[j], e) /\ LatCmp(EdgeA(F[j], e), EdgeB(F[j], e)) # 0 } }
                        \cup { PosOf(crit, LatOfCorner(IF LatCmp(EdgeA(F[j], i), EdgeB(F[j], i)) < 0 THEN EdgeA(F[j], i) ELSE EdgeB(F[j], i))) :
                              i \in { e \in 1..Len(F[j]) : BulgeS(F[j], e) /\ LatCmp(EdgeA(F[j], e), EdgeB(F[j], e)) # 0 } } ],
         \* per face: positions of the interior extremes of its bulging edges
         tops |-> [ j \in 1..Len(F) |-> { PosOf(crit, LatOfTop(EdgeA(F[j], i), EdgeB(F[j], i))) : i \in { e \in 1..Len(F[j]) : BulgeN(F[j], e) } }
                                        \cup { PosOf(crit, LatOfBottom(EdgeA(F[j], i), EdgeB(F[j], i))) : i \in { e \in 1..Len(F[j]) : BulgeS(F[j], e) } } ],
         \* per face: positions of the latitudes of its corners
         corners |-> [ j \in 1..Len(F) |-> { PosOf(crit, LatOfCorner(F[j][i])) : i \in 1..Len(F[j]) } ] ]

\* sanity of the structure: positions are ordered, and a face's range contains every one of its corners
Sane == k > 0 =>
    LET m == Meshes[k]
        F == FacesOf(m)
    IN (\A j \in 1..Len(F) : InQuantifier(F[j])) =>
          LET x == Facts(m)
          IN /\ \A p \in 1..(Len(x.crit) - 1) : LatValCmp(x.crit[p], x.crit[p + 1]) < 0
             /\ \A j \in 1..Len(F) : x.lo[j] < x.hi[j]
Emit == k > 0 =>
    LET m == Meshes[k]
        F == FacesOf(m)
    IN IF \A j \in 1..Len(F) : InQuantifier(F[j]) THEN PrintT(<<"ZMESH", Facts(m)>>) ELSE PrintT(<<"ZSKIP", m.id>>)
=============================================================================

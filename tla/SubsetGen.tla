------------------------------ MODULE SubsetGen ------------------------------
(***************************************************************************)
(* C09: model theorems about Subset.tla on small catalogue meshes, and     *)
(* generation of index selections.                                         *)
(*                                                                         *)
(* Stage 0 picks a catalogue mesh (the hull is computed once per mesh),    *)
(* stage 1 picks an element kind and an index sequence without repeats     *)
(* (length <= MaxLen, plus "all in order" and "all reversed").  On every   *)
(* case TLC checks that the canonical witness satisfies the relation the   *)
(* implementation is judged by, that wrong witnesses (exclusive rule,      *)
(* sorted source indices with faces in the given order) are rejected, and  *)
(* prints the case for the replay harness.  Stage 2 (per mesh and kind)    *)
(* checks the exact latitude / longitude / distance class machinery used   *)
(* for coordinate selections for internal consistency.                     *)
(***************************************************************************)
EXTENDS Catalog, Subset

CONSTANTS Names, MaxLen

VARIABLES m, stage, kind, idx

Elems(mm, k) == CASE k = "face" -> 0..(Len(mm.faces) - 1)
                  [] k = "node" -> 0..(Len(mm.nodes) - 1)
                  [] k = "edge" -> EdgeSet(mm.faces)           \* sides: the implementation's edge numbering is free
InjSeqs(S, n) == { s \in UNION { [1..l -> S] : l \in 1..n } : IsInjective(s) }
AllSeqs(mm, k) == IF k = "edge" THEN {}
                  ELSE LET n == Cardinality(Elems(mm, k))
                       IN { [ j \in 1..n |-> j - 1 ], [ j \in 1..n |-> n - j ] }

Init == /\ m \in { ClosedMesh(n) : n \in Names }
        /\ stage = 0 /\ kind = "none" /\ idx = << >>
Next == \/ /\ stage = 0 /\ stage' = 1 /\ m' = m
           /\ kind' \in { "face", "node", "edge" }
           /\ idx' \in InjSeqs(Elems(m, kind'), MaxLen) \cup AllSeqs(m, kind')
        \/ /\ stage = 0 /\ stage' = 2 /\ m' = m /\ idx' = << >>
           /\ kind' \in { "face", "node", "edge" }

SelectedFaces == CASE kind = "face" -> Range(idx)
                   [] kind = "node" -> FacesTouchingNodes(m.faces, Range(idx))
                   [] kind = "edge" -> FacesTouchingSides(m.faces, Range(idx))
Witness == CASE kind = "face" -> SubsetByFaces(m.faces, idx)
             [] kind = "node" -> SubsetByNodes(m.faces, Range(idx))
             [] kind = "edge" -> SubsetBySides(m.faces, Range(idx))

(* ---- theorems on index selections -------------------------------------------------- *)
WitnessIsSubset == stage = 1 => IsSubsetOf(m.faces, SelectedFaces, Witness)
OrderIsTheGivenOne == stage = 1 /\ kind = "face" => Witness.src = idx
\* re-indexing is faithful: mapping the result's corners back gives the source rows, start corner included
ReindexFaithful == stage = 1 => \A f \in 1..Len(Witness.src) : PosFace(Witness, f) = m.faces[Witness.src[f] + 1]
InclusiveIsUnion == stage = 1 /\ kind = "node" =>
    SelectedFaces = UNION { FacesTouchingNodes(m.faces, { idx[j] }) : j \in 1..Len(idx) }
\* a face touching a selected side also touches both its end nodes
EdgeImpliesNode == stage = 1 /\ kind = "edge" =>
    SelectedFaces \subseteq FacesTouchingNodes(m.faces, UNION Range(idx))
\* wrong results are rejected by the relation
ExclusiveRejected == stage = 1 /\ kind = "node" =>
    LET X == FacesInsideNodes(m.faces, Range(idx))
    IN X # SelectedFaces => ~SelExact(SelectedFaces, SubsetByFaces(m.faces, SortedSeq(X)))
SortedIndicesRejected == stage = 1 /\ kind = "face" /\ idx # SortedSeq(Range(idx)) =>
    LET w == Witness IN ~CornersUnchanged(m.faces, [ w EXCEPT !.src = SortedSeq(Range(idx)) ])
DuplicateRejected == stage = 1 /\ kind = "face" =>
    LET w == SubsetByFaces(m.faces, idx \o << idx[1] >>) IN ~SelNoDuplicates(w)

(* ---- theorems on the exact class machinery ------------------------------------------ *)
EdgeDir(s) == LET a == MinOf(s)  b == MaxOf(s) IN EdgeCentreDir(m.nodes, << a, b >>)
P == CASE kind = "node" -> { m.nodes[n] : n \in 1..Len(m.nodes) }
       [] kind = "face" -> { FaceCentreDir(m.nodes, m.faces[f]) : f \in 1..Len(m.faces) }
       [] kind = "edge" -> { EdgeDir(s) : s \in EdgeSet(m.faces) }
NonPoles == { p \in P : ~IsPole(p) }
ClassesOK == stage = 2 =>
    /\ UniformNorm(m.nodes, 0..(Len(m.nodes) - 1))
    /\ \A u, v \in NonPoles : LonCmp(u, v) = -LonCmp(v, u) /\ (LonCmp(u, v) = 0 <=> SameLon(u, v))
    /\ \A u, v, w \in NonPoles : LonCmp(u, v) <= 0 /\ LonCmp(v, w) <= 0 => LonCmp(u, w) <= 0
    \* a non-wrapping longitude gap is a pair of LonCmp-consecutive classes, and conversely
    /\ \A a, b \in NonPoles : LonCmp(a, b) < 0 =>
          (IsLonGap(P, a, b) <=> ~\E x \in NonPoles : LonCmp(a, x) < 0 /\ LonCmp(x, b) < 0)
    \* every longitude class has exactly one next class to the east
    /\ \A a \in NonPoles : \E b \in NonPoles : IsLonGap(P, a, b) /\ \A c \in NonPoles : IsLonGap(P, a, c) => SameLon(b, c)
    \* a point is inside a box spanning everything east of gap L up to gap R iff LonCmp says so (non-wrapping box)
    /\ \A a, b, c, e \in NonPoles : IsLonGap(P, a, b) /\ IsLonGap(P, c, e) /\ LonCmp(a, b) < 0 /\ LonCmp(c, e) < 0 /\ LonCmp(a, c) < 0 =>
          \A p \in NonPoles : InLonRange(p, << a, b >>, << c, e >>) <=> (LonCmp(p, b) >= 0 /\ LonCmp(p, c) <= 0)
    \* and for a box spanning the antimeridian: east of L or west of R
    /\ \A a, b, c, e \in NonPoles : IsLonGap(P, a, b) /\ IsLonGap(P, c, e) /\ LonCmp(a, b) < 0 /\ LonCmp(c, e) < 0 /\ LonCmp(c, a) < 0 =>
          \A p \in NonPoles : InLonRange(p, << a, b >>, << c, e >>) <=> (LonCmp(p, b) >= 0 \/ LonCmp(p, c) <= 0)
    \* latitude gaps are LatCmp-consecutive classes
    /\ \A a, b \in P : LatCmp(a, b) < 0 => (IsLatGap(P, a, b) <=> ~\E x \in P : LatCmp(a, x) < 0 /\ LatCmp(x, b) < 0)
    \* quarter turns about the axis keep latitude classes and shift longitude classes
    /\ \A a, b \in P : LatCmp(RotZ(1, a), RotZ(1, b)) = LatCmp(a, b)
    /\ \A a, b \in NonPoles : SameLon(RotZ(1, a), RotZ(1, b)) <=> SameLon(a, b)
    \* distance classes from a node: nearer-than is a strict weak order
    /\ \A c \in { m.nodes[1], m.nodes[Len(m.nodes)] } : \A u, v \in P : NearCmp(c, u, v) = -NearCmp(c, v, u)

\* the shrink map keeps what the judge relies on for fine meshes (points in the open hemisphere of the centre)
ShrinkLaws == stage = 2 =>
    \A M \in { 2, 3 } :
      /\ \A pole \in { << 0, 0, 1 >>, << 0, 0, -1 >> } :
           LET H == { p \in P : Dot(p, pole) > 0 } IN
           /\ \A a, b \in H : LatCmp(Shrink(pole, M, a), Shrink(pole, M, b)) = LatCmp(a, b)
           /\ \A a \in H : ~IsPole(a) => SameLon(Shrink(pole, M, a), a)
      /\ \A c \in { m.nodes[1], << 1, 0, 0 >>, << 0, 0, 1 >> } :
           LET H == { p \in P : Dot(p, c) > 0 } IN
           \A a, b \in H : NearCmp(c, Shrink(c, M, a), Shrink(c, M, b)) = NearCmp(c, a, b)

(* ---- emission ------------------------------------------------------------------------ *)
SideAsPair(s) == LET a == MinOf(s) IN << a, MaxOf(s) >>
Emit == stage = 1 =>
    PrintT(<< "IDX", m.name, kind,
              IF kind = "edge" THEN [ j \in 1..Len(idx) |-> SideAsPair(idx[j]) ] ELSE idx,
              SortedSeq(SelectedFaces) >>)
=============================================================================

------------------------------ MODULE ArcCalls ------------------------------
(***************************************************************************)
(* C14: the arc predicates are FUNCTIONS OF VALUES.  The answer of a call  *)
(* must not depend on earlier calls, nor on the identity or memory layout  *)
(* of the arguments.                                                       *)
(*                                                                         *)
(* State: the contents of a few caller-owned (2, 3) buffers (indices into  *)
(* a pool of lattice arcs).  Actions:                                      *)
(*   Overwrite(k, e)     the caller writes arc e into buffer k IN PLACE    *)
(*   Call(k, form, j)    a predicate is called on buffer k's current       *)
(*                       contents, passed as                               *)
(*        "buffer"  the buffer object itself                               *)
(*        "alias"   one persistent view object of the buffer (same memory) *)
(*        "copy"    a fresh copy          "list"    a Python list [v0, v1] *)
(*        "strided" a fresh non-contiguous view of a wider array           *)
(*        "fortran" a fresh Fortran-ordered copy                           *)
(*        "f32"     a fresh float64 copy of a float32 rounding             *)
(*     with argument j (a query point / second arc / parallel).            *)
(* `hist` records the steps, so that the states of a bounded exploration   *)
(* are exactly the histories; TLC emits them for replay on real arrays.    *)
(*                                                                         *)
(* Mechanism knob Memo: what a one-slot cache of "the arc asked about      *)
(* last" inside the implementation may be keyed by.                        *)
(*   "none", "by_value": ValueSemantics is an invariant (TLC proves it);   *)
(*   "by_identity": keyed by the identity of the array object -- TLC       *)
(*   REFUTES ValueSemantics (Call; Overwrite; Call on the same object).    *)
(* The intended specification is Memo \in {"none", "by_value"}.            *)
(***************************************************************************)
EXTENDS ArcZ

CONSTANTS Pool,       \* sequence of arcs <<a, b>>
          Probe,      \* set of query points used to compare mechanism and value-level answers
          NArg,       \* number of argument slots (points / second arcs / parallels) a call can name
          NBuf, MaxSteps, Forms, Memo, Emit

VARIABLES buf,        \* buffer -> index into Pool (current contents)
          memoId,     \* identity the cache remembers: k = buffer k, NBuf + k = its alias view, 0 = nothing / a dead object
          memoArc,    \* pool index of the arc whose lon/lat the cache holds
          hist,       \* the steps so far
          ok          \* the last call answered for the current contents
vars == <<buf, memoId, memoArc, hist, ok>>

ArcOf(e) == Pool[e]
ValueAnswer(e, q)      == OnArcExpected(ArcOf(e)[1], ArcOf(e)[2], q)
\* what an implementation answers whose plane test sees the current end points but whose interval logic
\* uses the (possibly remembered) end points `used`
MechAnswer(cur, used, q) == OnCircle(ArcOf(cur)[1], ArcOf(cur)[2], q) /\ ValueAnswer(used, q)

Identity(k, form) == CASE form = "buffer" -> k [] form = "alias" -> NBuf + k [] OTHER -> 0
IsArrayForm(form) == form # "list"

Init == /\ buf = [ k \in 1..NBuf |-> 1 ]
        /\ memoId = 0 /\ memoArc = 0 /\ hist = <<>> /\ ok = TRUE

Overwrite(k, e) ==
    /\ Len(hist) < MaxSteps /\ e # buf[k]
    /\ buf' = [ buf EXCEPT ![k] = e ]
    /\ hist' = Append(hist, <<"O", k, e>>)
    /\ UNCHANGED <<memoId, memoArc, ok>>       \* writing into the caller's array tells the implementation nothing

Call(k, form, j) ==
    LET id   == Identity(k, form)
        hit  == \/ (Memo = "by_identity" /\ id # 0 /\ memoId = id)
                \/ (Memo = "by_value" /\ memoArc = buf[k])
        used == IF hit THEN memoArc ELSE buf[k]
    IN /\ Len(hist) < MaxSteps
       /\ hist' = Append(hist, <<"C", k, form, j>>)
       /\ ok' = \A q \in Probe : MechAnswer(buf[k], used, q) = ValueAnswer(buf[k], q)
       /\ IF Memo = "none" \/ ~IsArrayForm(form)
          THEN UNCHANGED <<memoId, memoArc>>
          ELSE memoId' = id /\ memoArc' = used
       /\ UNCHANGED buf

Next == \/ \E k \in 1..NBuf, e \in 1..Len(Pool) : Overwrite(k, e)
        \/ \E k \in 1..NBuf, form \in Forms, j \in 1..NArg : Call(k, form, j)
Spec == Init /\ [][Next]_vars

TypeOK == /\ buf \in [1..NBuf -> 1..Len(Pool)]
          /\ memoId \in 0..(2 * NBuf) /\ memoArc \in 0..Len(Pool)
          /\ Len(hist) <= MaxSteps
\* every call answers for the CURRENT contents of what it was given
ValueSemantics == ok
\* the pool distinguishes the arcs: some probe point is on one arc's circle and inside another (otherwise a stale
\* cache could not show)
PoolDistinguishes ==
    \E e, f \in 1..Len(Pool), q \in Probe : e # f /\ MechAnswer(e, f, q) # ValueAnswer(e, q)

HasCall == \E s \in 1..Len(hist) : hist[s][1] = "C"
EmitHist == (Emit /\ Len(hist) = MaxSteps /\ HasCall /\ hist[MaxSteps][1] = "C") => PrintT(<<"H", hist>>)
=============================================================================

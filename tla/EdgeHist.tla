------------------------------ MODULE EdgeHist ------------------------------
(***************************************************************************)
(* C16 - a small history machine around the edge operators.                *)
(*                                                                         *)
(* The property quantifies over ALL grids, derived ones included, and the  *)
(* tables it speaks about are lazily materialised, cached, carried into    *)
(* subsets and copies.  Whatever was done before, a table that is read     *)
(* must be the table of THAT grid (what a freshly built grid of the same   *)
(* source / selection reports), and the operators are read-only on the     *)
(* grid.  The abstract state per grid handle is, for each of the four      *)
(* tables, whether it is absent or what the stored value is:               *)
(*    fresh        the value a fresh grid computes for this grid           *)
(*    op_wrote     an operator wrote into the cached array                 *)
(*    parent_kept  a subset holds values computed for its parent           *)
(* Mechanism choices are data (three BOOLEAN constants):                   *)
(*    opWritesTable    gradient prepares its divisor inside the cached     *)
(*                     edge_face_distances array                           *)
(*    sliceKeepsTable  a subset keeps the parent's edge_face_distances     *)
(*    copyAliases      a copy shares the stored arrays with its original   *)
(* With every choice FALSE TLC proves ReadsFresh and OpsReadOnly (the      *)
(* design the code is bound to) and `-dump` lists every history of at most *)
(* MaxLen steps: they are replayed into real grids.  With a choice TRUE    *)
(* TLC must REFUTE ReadsFresh; each counterexample is a directed history   *)
(* that is replayed as well.                                               *)
(***************************************************************************)
EXTENDS Naturals, Sequences, FiniteSets, TLC

CONSTANTS OpWritesTable, SliceKeepsTable, CopyAliases, MaxLen, MaxHandles

VARIABLES grids, hist

Tables  == { "edge_face_distances", "edge_node_distances", "edge_face_connectivity", "edge_node_connectivity" }
OpNames == { "gradient", "gradient_norm", "diff_node", "diff_face" }
Sels    == { "low", "high", "mid" }      \* first faces / last faces (drops lower-indexed neighbours) / inner block
Vals    == { "absent", "fresh", "op_wrote", "parent_kept" }

Needs(o) == IF o \in { "gradient", "gradient_norm" } THEN { "edge_face_connectivity", "edge_face_distances" }
            ELSE IF o = "diff_face" THEN { "edge_face_connectivity" }
            ELSE { "edge_node_connectivity" }
Empty       == [ t \in Tables |-> "absent" ]
Touch(st, T) == [ t \in Tables |-> IF t \in T /\ st[t] = "absent" THEN "fresh" ELSE st[t] ]
\* what a subset starts with: edge_node tables are sliced (they stay the subset's own), the rest is rebuilt
SliceStore(st) ==
    [ t \in Tables |->
        IF t \in { "edge_node_connectivity", "edge_node_distances" } THEN st[t]
        ELSE IF t = "edge_face_distances" /\ SliceKeepsTable /\ st[t] # "absent" THEN "parent_kept"
        ELSE "absent" ]

IsRoot(h) == grids[h].src[1] = "root"

Init == /\ grids = << [ src |-> << "root" >>, store |-> Empty, alias |-> 0 ] >>
        /\ hist = << >>

Write(h, st) == \* a write to the stored arrays of h reaches every handle aliased with it
    [ g \in 1..Len(grids) |->
        IF g = h \/ (grids[g].alias # 0 /\ (grids[g].alias = h \/ grids[h].alias = g)) THEN [ grids[g] EXCEPT !.store = st ]
        ELSE grids[g] ]

ReadTable(h, t) == /\ grids' = [ grids EXCEPT ![h].store = Touch(@, { t }) ]
                   /\ hist' = Append(hist, << "read", h, t >>)
Op(h, o) == LET st1 == Touch(grids[h].store, Needs(o))
                st2 == IF OpWritesTable /\ o \in { "gradient", "gradient_norm" }
                       THEN [ st1 EXCEPT !["edge_face_distances"] = "op_wrote" ] ELSE st1
            IN /\ grids' = (IF st2 # st1 THEN Write(h, st2) ELSE [ grids EXCEPT ![h].store = st1 ])
               /\ hist' = Append(hist, << "op", h, o >>)
Slice(h, s) == /\ IsRoot(h) /\ Len(grids) < MaxHandles
               /\ LET st0 == Touch(grids[h].store, { "edge_node_connectivity" })    \* slicing reads the parent's tables
                  IN grids' = Append([ grids EXCEPT ![h].store = st0 ],
                                     [ src |-> << "slice", h, s >>, store |-> SliceStore(st0), alias |-> 0 ])
               /\ hist' = Append(hist, << "slice", h, s >>)
Copy(h) == /\ IsRoot(h) /\ Len(grids) < MaxHandles
           /\ grids' = Append(grids, [ src |-> << "copy", h >>, store |-> grids[h].store,
                                       alias |-> IF CopyAliases THEN h ELSE 0 ])
           /\ hist' = Append(hist, << "copy", h >>)

Next == /\ Len(hist) < MaxLen
        /\ \E h \in 1..Len(grids) :
             \/ \E t \in Tables : ReadTable(h, t)
             \/ \E o \in OpNames : Op(h, o)
             \/ \E s \in Sels : Slice(h, s)
             \/ Copy(h)

TypeOK == \A h \in 1..Len(grids) : \A t \in Tables : grids[h].store[t] \in Vals

\* whatever the history, every table a read can return is the grid's own fresh table
ReadsFresh == \A h \in 1..Len(grids) : \A t \in Tables : grids[h].store[t] \in { "absent", "fresh" }

\* operators (and reads) are read-only on the grid: a stored table never changes, an absent one may be materialised
OpsReadOnly == [][ \A h \in 1..Len(grids) : \A t \in Tables :
                     grids[h].store[t] # "absent" => grids'[h].store[t] = grids[h].store[t] ]_<< grids, hist >>
Spec == Init /\ [][Next]_<< grids, hist >>
=============================================================================

----------------------------- MODULE AreaCases -----------------------------
(***************************************************************************)
(* C05: the area of a face is the spherical excess of the polygon bounded  *)
(* by the great-circle arcs through its corners.                           *)
(*                                                                         *)
(* This module is the case generator and the exact oracle.  It has three   *)
(* independent uses (chosen by INIT/NEXT in the configuration):            *)
(*                                                                         *)
(*  Gen    enumerates EVERY convex counter-clockwise face with 3..MaxN     *)
(*         corners and sides < 90 degrees whose corners are points of a    *)
(*         named lattice patch (a state is a convex chain; a chain that    *)
(*         closes convexly is a face).  For each face TLC emits the exact  *)
(*         excess descriptor (one integer triple per corner, SphereZ) and  *)
(*         the diameter bucket, decided exactly by integer comparisons     *)
(*         against rational bounds of cos^2.                               *)
(*  Orbit  for faces selected by the harness: start-corner shifts, the 24  *)
(*         cube rotations, and subdivisions (fans from every corner,       *)
(*         diagonal splits, fans from a lattice point on a side and from   *)
(*         an interior lattice point).  TLC PROVES that every subdivision  *)
(*         tiles the face (Tiles): pieces convex and counter-clockwise,    *)
(*         inside the face, interior sides cancel in pairs, the remaining  *)
(*         sides chain along the sides of the face in its orientation.     *)
(*  Closed closed meshes (gnomonic cubed spheres CS(N), defined here, and  *)
(*         the closed catalogue meshes): proved closed, manifold, Euler 2, *)
(*         convex; emitted with per-face descriptors and buckets; their    *)
(*         areas must add up to 4 pi.                                      *)
(*                                                                         *)
(* Model facts proved on every generated face: convexity in the sense of   *)
(* SphereZ!ConvexCCW, every corner determinant positive (hence every       *)
(* interior angle in (0, pi): the area is positive), the descriptor is     *)
(* invariant under the 24 rotations and is cyclically shifted by a shift   *)
(* of the start corner (so "same area" for orbit members is a theorem of   *)
(* the specification, not an expectation computed by the harness).         *)
(***************************************************************************)
EXTENDS Catalog, TLC, Json, IOUtils

CONSTANTS PatchName,    \* which lattice patch Gen enumerates
          MaxN,         \* largest number of corners
          MaxDiam       \* "le10" | "le30" | "le65" | "any": Gen keeps only chains within this diameter

(* ---- diameter buckets, decided exactly ---------------------------------------- *)
\* cos^2(angle(a, b)) >= num/den, with a.b > 0: the angle is at most acos(sqrt(num/den))
CosSqGE(a, b, num, den) == /\ Dot(a, b) > 0
                           /\ Dot(a, b) * Dot(a, b) * den >= num * N2(a) * N2(b)
\* rational bounds: 97/100 >= cos^2(10 deg) = .96985 (angle <= 9.98 deg); 3/4 = cos^2(30 deg) exactly;
\* 9/50 = .18 >= cos^2(65 deg) = .17861 (angle <= 64.9 deg).  A face is put in a bucket only if it
\* provably is at most that wide; a face just below a limit may land in the next (weaker) bucket.
PairWithin(a, b, bk) == CASE bk = "le10" -> CosSqGE(a, b, 97, 100)
                          [] bk = "le30" -> CosSqGE(a, b, 3, 4)
                          [] bk = "le65" -> CosSqGE(a, b, 9, 50)
                          [] OTHER       -> TRUE
FaceWithin(F, bk) == \A i, j \in 1..Len(F) : i < j => PairWithin(F[i], F[j], bk)
Bucket(F) == IF FaceWithin(F, "le10") THEN "le10"
             ELSE IF FaceWithin(F, "le30") THEN "le30"
             ELSE IF FaceWithin(F, "le65") THEN "le65" ELSE "gt65"

(* ---- lattice patches ------------------------------------------------------------ *)
Box(lo, hi) == [1..3 -> lo..hi]
\* one representative (the longest) of every direction of a set of vectors
Directions(S) == { v \in S : v # Zero3 /\ \A w \in S : SameDir(v, w) => N2(w) <= N2(v) }
PatchSet(n) ==
    CASE n = "L1"  -> Directions(Vec(1))                                      \* 26 directions, sides 45..90 deg
      [] n = "L2"  -> Directions({ v \in Vec(2) : Primitive(v) })             \* 98 directions, poles, antimeridian
      [] n = "X3"  -> { <<3, i, j>> : i, j \in (-2)..2 }                      \* spacing 18 deg
      [] n = "X6"  -> { <<6, i, j>> : i, j \in (-2)..2 }                      \* spacing 9.5 deg
      [] n = "X12" -> { <<12, i, j>> : i, j \in (-2)..2 }                     \* spacing 4.8 deg
      \* offset patches: the axis point <<N, 0, 0>> is not the centre of the patch, so it is a corner of lattice
      \* octagons (a lattice octagon surrounds the centre of a centred 5 x 5 patch and never has it as a corner);
      \* the 24 rotations carry that corner onto the poles and onto the antimeridian point
      [] n = "X6o"  -> { <<6, i, j>> : i \in 0..4, j \in (-3)..1 }
      [] n = "X12o" -> { <<12, i, j>> : i \in 0..4, j \in (-3)..1 }
      [] n = "D12" -> Directions(Box(10, 12))                                 \* 25 directions within 10 deg of (1,1,1)
      [] n = "D9"  -> Directions(Box(7, 9))                                   \* 25 directions within 14 deg of (1,1,1)
Pts == SetToSortSeq(PatchSet(PatchName), Lex3)
NPts == Len(Pts)
D(i) == Pts[i]
Dirs(g) == [ k \in 1..Len(g) |-> Pts[g[k]] ]

(* ---- Gen: convex chains ----------------------------------------------------------- *)
VARIABLE f          \* Gen: sequence of point indices (a convex chain); Orbit/Closed: a record index

\* what the last corner of chain g adds: its side is short, everything else is strictly to the left of
\* the new side, the new corner is strictly to the left of every older side, and the diameter bound holds
NewOK(g) ==
    LET n == Len(g)  a == D(g[n - 1])  b == D(g[n]) IN
    /\ Dot(a, b) > 0
    /\ \A k \in 1..(n - 1) : PairWithin(D(g[k]), b, MaxDiam)
    /\ \A k \in 1..(n - 2) : Det(a, b, D(g[k])) > 0
    /\ \A k \in 1..(n - 2) : Det(D(g[k]), D(g[k + 1]), b) > 0
\* the chain closes to a face: the closing side is short and everything else is to its left
IsFace(g) ==
    LET n == Len(g) IN
    /\ n >= 3
    /\ Dot(D(g[n]), D(g[1])) > 0
    /\ \A k \in 2..(n - 1) : Det(D(g[n]), D(g[1]), D(g[k])) > 0

GenInit == f \in { <<i>> : i \in 1..NPts }
\* the first corner has the smallest index: every face is generated once (start corners are an orbit axis)
GenNext == /\ Len(f) < MaxN
           /\ \E j \in (f[1] + 1)..NPts :
                 /\ \A k \in 1..Len(f) : f[k] # j
                 /\ NewOK(Append(f, j))
                 /\ f' = Append(f, j)

Shift(F, k) == [ j \in 1..Len(F) |-> F[((j - 1 + k) % Len(F)) + 1] ]
RotFace(r, F) == [ j \in 1..Len(F) |-> ApplyRot(r, F[j]) ]
RotSeq == SetToSortSeq(Rot24, LAMBDA r, s : SeqLess(r[1] \o r[2], s[1] \o s[2]))

\* model facts about every generated face
GenFaceConvex   == IsFace(f) => ConvexCCW(Dirs(f)) /\ SidesShorterThan90(Dirs(f))
GenCornersPos   == IsFace(f) => \A i \in 1..Len(f) : ExcessDescr(Dirs(f))[i][2] > 0 /\ ExcessDescr(Dirs(f))[i][1] > 0
GenRotInvariant == IsFace(f) => \A r \in Rot24 :
                       LET G == RotFace(r, Dirs(f)) IN
                       /\ ExcessDescr(G) = ExcessDescr(Dirs(f))
                       /\ ConvexCCW(G) /\ Bucket(G) = Bucket(Dirs(f))
GenShiftLaw     == IsFace(f) => \A k \in 1..(Len(f) - 1) :
                       LET F == Dirs(f) IN
                       /\ ExcessDescr(Shift(F, k)) = Shift(ExcessDescr(F), k)
                       /\ ConvexCCW(Shift(F, k))
\* completeness of the chain enumeration on triangles (evaluated once, in the first initial state):
\* the triangles reachable by Gen are exactly the convex CCW triangles of the patch with short sides
GenComplete ==
    f = <<1>> =>
      { t \in (1..NPts) \X (1..NPts) \X (1..NPts) :
            /\ t[1] < t[2] /\ t[1] < t[3] /\ t[2] # t[3]
            /\ ConvexCCW(Dirs(t)) /\ SidesShorterThan90(Dirs(t)) /\ FaceWithin(Dirs(t), MaxDiam) }
      = { t \in (1..NPts) \X (1..NPts) \X (1..NPts) :
            /\ t[1] < t[2] /\ t[1] < t[3] /\ t[2] # t[3]
            /\ NewOK(<<t[1], t[2]>>) /\ NewOK(t) /\ IsFace(t) }
GenEmit == IsFace(f) => PrintT(<<"F", f, Dirs(f), ExcessDescr(Dirs(f)), Bucket(Dirs(f))>>)

(* ---- subdivisions and the tiling proof ---------------------------------------------- *)
Add3(a, b) == << a[1] + b[1], a[2] + b[2], a[3] + b[3] >>
RECURSIVE SumTo(_, _)
SumTo(F, n) == IF n = 0 THEN Zero3 ELSE Add3(SumTo(F, n - 1), F[n])
Centre(F) == SumTo(F, Len(F))                    \* a positive combination of the corners: strictly inside
At(F, i) == F[((i - 1) % Len(F)) + 1]            \* cyclic indexing, i >= 1

\* triangles v_c, v_{c+i}, v_{c+i+1}
Fan(F, c) == [ i \in 1..(Len(F) - 2) |-> << At(F, c), At(F, c + i), At(F, c + i + 1) >> ]
\* the chord between corners i < j (not neighbours)
DiagSplit(F, i, j) == << [ k \in 1..(j - i + 1) |-> F[i + k - 1] ],
                        [ k \in 1..(Len(F) - (j - i) + 1) |-> IF k <= i THEN F[k] ELSE F[j + (k - i) - 1] ] >>
\* p = v_e + v_{e+1} lies on side e strictly between its ends; fan from p
SideFan(F, e) == LET p == Add3(At(F, e), At(F, e + 1)) IN
                 [ i \in 1..(Len(F) - 1) |-> << p, At(F, e + i), At(F, e + i + 1) >> ]
\* fan from the interior lattice point Centre(F)
CentreFan(F) == [ i \in 1..Len(F) |-> << Centre(F), At(F, i), At(F, i + 1) >> ]

\* on wide faces a chord can reach 90 degrees: such pieces are outside the property's quantifier and are not offered
ShortSided(s) == \A k \in 1..Len(s.pieces) : SidesShorterThan90(s.pieces[k])
SubdivAll(F) ==
    LET n == Len(F) IN
    (IF n >= 4 THEN { [ kind |-> "fan", a |-> c, b |-> 0, pieces |-> Fan(F, c) ] : c \in 1..n } ELSE {})
    \cup { [ kind |-> "diag", a |-> ij[1], b |-> ij[2], pieces |-> DiagSplit(F, ij[1], ij[2]) ] :
             ij \in { p \in (1..n) \X (1..n) : p[1] + 1 < p[2] /\ ~(p[1] = 1 /\ p[2] = n) } }
    \cup { [ kind |-> "side", a |-> e, b |-> 0, pieces |-> SideFan(F, e) ] : e \in 1..n }
    \cup { [ kind |-> "centre", a |-> 0, b |-> 0, pieces |-> CentreFan(F) ] }
SubdivSet(F) == { s \in SubdivAll(F) : ShortSided(s) }

\* directed sides of a polygon
DirSides(P) == { << P[i], P[NextI(P, i)] >> : i \in 1..Len(P) }
\* p lies on the closed arc (u, w)
OnClosedArc(u, w, p) == ArcClass(u, w, p) \in {"Interior", "Endpoint"}
\* a -> b runs in the direction u -> w along the arc (a, b both on it, a # b)
SameSense(u, w, a, b) == Dot(Cross(a, b), Cross(u, w)) > 0

Tiles(F, P) ==
    LET sides  == UNION { DirSides(P[k]) : k \in 1..Len(P) }
        nsides == LET RECURSIVE cnt(_) cnt(k) == IF k = 0 THEN 0 ELSE cnt(k - 1) + Len(P[k]) IN cnt(Len(P))
        inner  == { s \in sides : << s[2], s[1] >> \in sides }
        outer  == sides \ inner
    IN
    \* every piece is a convex counter-clockwise polygon with short sides, inside the face
    /\ \A k \in 1..Len(P) : ConvexCCW(P[k]) /\ SidesShorterThan90(P[k])
    /\ \A k \in 1..Len(P) : \A i \in 1..Len(P[k]) : PointClass(F, P[k][i]) \in {"Inside", "OnBoundary"}
    \* no directed side is used by two pieces (the pieces' directed sides are pairwise distinct)
    /\ Cardinality(sides) = nsides
    \* a side that is not cancelled by its reverse lies on exactly one side of the face, in its sense
    /\ \A s \in outer : Cardinality({ i \in 1..Len(F) :
                              /\ OnClosedArc(F[i], F[NextI(F, i)], s[1])
                              /\ OnClosedArc(F[i], F[NextI(F, i)], s[2])
                              /\ SameSense(F[i], F[NextI(F, i)], s[1], s[2]) }) = 1
    \* and on every side of the face the uncancelled sides chain from its first corner to its second
    /\ \A i \in 1..Len(F) :
          LET u  == F[i]  w == F[NextI(F, i)]
              on == { s \in outer : OnClosedArc(u, w, s[1]) /\ OnClosedArc(u, w, s[2]) /\ SameSense(u, w, s[1], s[2]) }
          IN /\ on # {}
             /\ { s[1] : s \in on } = ({ s[2] : s \in on } \ {w}) \cup {u}
             /\ Cardinality({ s[1] : s \in on }) = Cardinality(on)

(* ---- Orbit: per selected face ---------------------------------------------------------- *)
Sel == ndJsonDeserialize(IOEnv.SEL_FILE)       \* records [ id, dirs, full ]; full: also shifts and subdivisions
\* initial states are block markers (-b); their successors are the record indices of the block, so
\* that TLC's workers share the records (initial states are enumerated by a single thread)
OrbBlock == 8
OrbInit == f \in { -b : b \in 1..((Len(Sel) + OrbBlock - 1) \div OrbBlock) }
OrbNext == /\ f < 0
           /\ f' \in { k \in 1..Len(Sel) : (k - 1) \div OrbBlock = (-f) - 1 }
OrbFace == Sel[f].dirs
OrbPremise == f > 0 => ConvexCCW(OrbFace) /\ SidesShorterThan90(OrbFace)
OrbSubs    == IF Sel[f].full THEN SubdivSet(OrbFace) ELSE {}
OrbTiles   == f > 0 => \A s \in OrbSubs : Tiles(OrbFace, s.pieces)
\* the tiling relation is not vacuous: dropping a piece, or reversing one, breaks it
Reverse3(P) == [ j \in 1..Len(P) |-> P[Len(P) + 1 - j] ]
OrbTilesSensitive == f > 0 =>
    \A s \in OrbSubs :
        /\ ~Tiles(OrbFace, Tail(s.pieces))
        /\ ~Tiles(OrbFace, [ s.pieces EXCEPT ![1] = Reverse3(@) ])
        /\ ~Tiles(OrbFace, Append(s.pieces, s.pieces[1]))
OrbLaws    == f > 0 =>
              /\ \A k \in 0..(Len(OrbFace) - 1) : ExcessDescr(Shift(OrbFace, k)) = Shift(ExcessDescr(OrbFace), k)
              /\ \A r \in Rot24 : ExcessDescr(RotFace(r, OrbFace)) = ExcessDescr(OrbFace)
OrbEmit == f > 0 => PrintT(<<"O", Sel[f].id,
              [ ex     |-> ExcessDescr(OrbFace),
                bucket |-> Bucket(OrbFace),
                shifts |-> IF Sel[f].full THEN [ k \in 1..(Len(OrbFace) - 1) |-> Shift(OrbFace, k) ] ELSE <<>>,
                rots   |-> [ r \in 1..Len(RotSeq) |-> RotFace(RotSeq[r], OrbFace) ],
                subs   |-> { [ kind |-> s.kind, a |-> s.a, b |-> s.b, pieces |-> s.pieces,
                               ex |-> [ k \in 1..Len(s.pieces) |-> ExcessDescr(s.pieces[k]) ] ] : s \in OrbSubs } ]>>)


(* ---- Tiny: the exact shrink map and a cancellation-free descriptor ------------------------ *)
\* v -> (M - 1)(v.c) c + (c.c) v keeps the component of v across c and multiplies the component along c
\* by M: the angle between v and c shrinks by about 1/M, exactly, on the integer lattice.  With c the
\* x axis it is v -> <<M x, y, z>>.  The harness applies it with M up to 10^5 in unbounded integers
\* (TLC's integers are 32 bit); TLC proves here, for small M, what the harness relies on: the map is
\* the stated one, convexity / orientation / side bound survive it, and the harness's integer
\* evaluation of the descriptor below is the specification's (the emitted values are compared).
Scale3(k, v) == << k * v[1], k * v[2], k * v[3] >>
Shrink(M, c, v) == Add3(Scale3((M - 1) * Dot(v, c), c), Scale3(N2(c), v))
ShrinkX(M, v) == << M * v[1], v[2], v[3] >>
ShrinkFace(M, F) == [ k \in 1..Len(F) |-> ShrinkX(M, F[k]) ]
\* excess of the triangle a, b, c (Van Oosterom - Strackee): tan(E/2) = det / (|a||b||c| + (a.b)|c| + (a.c)|b| + (b.c)|a|);
\* no cancellation for small triangles.  A convex face is the fan of triangles from its first corner.
TriDescr(a, b, c) == << Det(a, b, c), N2(a), N2(b), N2(c), Dot(a, b), Dot(a, c), Dot(b, c) >>
FanDescr(F) == [ k \in 1..(Len(F) - 2) |-> TriDescr(F[1], F[k + 1], F[k + 2]) ]
TinyMs == {1, 2, 5}
TinyInit == OrbInit
TinyNext == OrbNext
TinyFace == Sel[f].dirs
TinyPremise == f > 0 => \A M \in TinyMs :
                   LET G == ShrinkFace(M, TinyFace) IN
                   /\ \A k \in 1..Len(G) : G[k] = Shrink(M, <<1, 0, 0>>, TinyFace[k])
                   /\ ConvexCCW(G) /\ SidesShorterThan90(G)
                   /\ \A k \in 1..(Len(G) - 2) : FanDescr(G)[k][1] > 0          \* every fan triangle is positively oriented
                   /\ \A r \in Rot24 : FanDescr(RotFace(r, G)) = FanDescr(G)      \* and the descriptor is rotation invariant
TinyEmit == f > 0 => PrintT(<<"T", Sel[f].id,
                [ ex  |-> ExcessDescr(TinyFace),
                  fan |-> [ M \in TinyMs |-> FanDescr(ShrinkFace(M, TinyFace)) ],
                  rots |-> RotSeq ]>>)

(* ---- renumberings of a mesh with n nodes and m faces: bijections, emitted by TLC -------- *)
Stride(n, s, o) == [ i \in 1..n |-> ((i - 1) * s + o) % n ]        \* 0-based image of position i
IsPerm0(p, n) == { p[i] : i \in 1..n } = 0..(n - 1)
Renumberings(n) == { [ s |-> so[1], o |-> so[2], perm |-> Stride(n, so[1], so[2]) ] :
                       so \in { x \in (1..7) \X (0..3) : Gcd(x[1], n) = 1 } }

(* ---- Closed: gnomonic cubed spheres and the closed catalogue meshes ---------------------- *)
MaxAbs(v) == LET a == Abs(v[1]) b == Abs(v[2]) c == Abs(v[3]) IN
             IF a >= b /\ a >= c THEN a ELSE IF b >= c THEN b ELSE c
CSNodes(N) == SetToSortSeq({ v \in Vec(N) : MaxAbs(v) = N }, Lex3)
\* one rotation carrying +x to each of the six axis directions (proper rotations keep the orientation)
AxisRot(t) == CHOOSE r \in Rot24 : ApplyRot(r, <<1, 0, 0>>) = t /\
                 \A s \in Rot24 : ApplyRot(s, <<1, 0, 0>>) = t => ~SeqLess(s[1] \o s[2], r[1] \o r[2])
Axes == << <<1, 0, 0>>, <<-1, 0, 0>>, <<0, 1, 0>>, <<0, -1, 0>>, <<0, 0, 1>>, <<0, 0, -1>> >>
\* the cell (i, j) of the +x panel, counter-clockwise seen from outside (y to the right, z up)
CellX(N, i, j) == << <<N, i, j>>, <<N, i + 1, j>>, <<N, i + 1, j + 1>>, <<N, i, j + 1>> >>
CSMesh(N) ==
    LET nodes == CSNodes(N)
        id(v) == (CHOOSE k \in 1..Len(nodes) : nodes[k] = v) - 1
        cells == [ k \in 1..(6 * 4 * N * N) |->
                     LET a  == (k - 1) \div (4 * N * N)
                         ij == (k - 1) % (4 * N * N)
                         i  == (ij \div (2 * N)) - N
                         j  == (ij % (2 * N)) - N
                         c  == RotFace(AxisRot(Axes[a + 1]), CellX(N, i, j))
                     IN [ q \in 1..4 |-> id(c[q]) ] ]
    IN [ name |-> "cubed_sphere", nodes |-> nodes, faces |-> cells ]

CONSTANT ClosedPick       \* names of the closed meshes of this run: "cs2" "cs3" "cs4" "cs9" or a name of Catalog!ClosedNames
ClosedEntry(k) == CASE k = "cs2" -> CSMesh(2) [] k = "cs3" -> CSMesh(3) [] k = "cs4" -> CSMesh(4)
                    [] k = "cs6" -> CSMesh(6) [] k = "cs9" -> CSMesh(9) [] OTHER -> ClosedMesh(k)
ClInit == f \in ClosedPick
ClNext == FALSE /\ f' = f
ClOK   == ClosedOK(ClosedEntry(f)) /\ SidesBelow90(ClosedEntry(f))
\* the accuracy class of a mesh is that of its widest face
Worst(bs) == IF \A k \in 1..Len(bs) : bs[k] = "le10" THEN "le10"
             ELSE IF \A k \in 1..Len(bs) : bs[k] \in {"le10", "le30"} THEN "le30"
             ELSE IF \A k \in 1..Len(bs) : bs[k] # "gt65" THEN "le65" ELSE "gt65"
\* node and face renumberings offered to the harness are bijections
ClRenumOK == LET m == ClosedEntry(f) IN
             /\ \A p \in Renumberings(Len(m.nodes)) : IsPerm0(p.perm, Len(m.nodes))
             /\ \A p \in Renumberings(Len(m.faces)) : IsPerm0(p.perm, Len(m.faces))
             /\ Renumberings(Len(m.nodes)) # {} /\ Renumberings(Len(m.faces)) # {}
ClEmit == LET m  == ClosedEntry(f)
              bs == [ g \in 1..Len(m.faces) |-> Bucket(FaceDirs(m, g)) ]
          IN
          PrintT(<<"C", f, [ nodes |-> m.nodes, faces |-> m.faces,
                             ex |-> [ g \in 1..Len(m.faces) |-> ExcessDescr(FaceDirs(m, g)) ],
                             buckets |-> bs, worst |-> Worst(bs),
                             node_perms |-> { p.perm : p \in { q \in Renumberings(Len(m.nodes)) : q.s \in {3, 5, 7} /\ q.o = 1 } },
                             face_perms |-> { p.perm : p \in { q \in Renumberings(Len(m.faces)) : q.s \in {3, 5, 7} /\ q.o = 2 } } ]>>)
=============================================================================

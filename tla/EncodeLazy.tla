------------------------------ MODULE EncodeLazy ------------------------------
(***************************************************************************)
(* C07: encoding a grid and reading it back preserves the grid, for every  *)
(* grid AND every history.                                                 *)
(*                                                                         *)
(* Two grid handles live in one process.  A grid is a lazily growing store *)
(* of variables; some variables carry helper attributes that cannot be     *)
(* serialised; two module-level attribute templates are global state.      *)
(* Every public call is one action.  What a call *does* is a record `o`    *)
(* (its outcome): in model checking `o` is computed from the mechanism     *)
(* record Mech (Out* operators below); in trace validation (TraceEncode)   *)
(* `o` is what was observed on the real objects.  The same invariants      *)
(* judge both.                                                             *)
(*                                                                         *)
(* Mech_intended: every choice made so that the invariants hold (TLC       *)
(* proves it, bounded).  Mech_observed: transcribed from the code as it    *)
(* is; TLC produces the violating histories, which are replayed.           *)
(***************************************************************************)
EXTENDS EncodeRel

CONSTANTS MechName,      \* which mechanism record (see MechOf)
          MaxOps,        \* bound on the length of a history
          MaxExports,    \* bound on the number of encodings in a history
          Routes1, Shapes1, Routes2, Shapes2,   \* scenario space: provenance x size mix per handle
          WithIO         \* TRUE: WriteNetcdf / Reopen are actions (FALSE: generation of prefixes)

VARIABLES desc,      \* [g -> [route, shape]]  constant along a behaviour
          mesh,      \* [g -> faces]           constant along a behaviour
          grid,      \* [g -> [open, store, helper, chunked, src]]  (src: what the source supplied)
          exports,   \* sequence of export records
          tmplTopo,  \* keys added to BASE_GRID_TOPOLOGY_ATTRS since import
          tmplEdge,  \* keys added to EDGE_NODE_CONNECTIVITY_ATTRS since import
          ops,       \* number of calls so far
          bad,       \* violations introduced by the last call: {<<clause, export index, detail>>}
          hist       \* the calls so far (bookkeeping for generation; never part of a VIEW)

vars == <<desc, mesh, grid, exports, tmplTopo, tmplEdge, ops, bad, hist>>

Grids == { "g1", "g2" }
Fmts  == { "ugrid", "exodus", "scrip" }

(* ---- mechanism choices as data -------------------------------------------- *)
Mech_intended ==
  [ topoTemplate     |-> "copied",        \* _encode_ugrid works on a copy of BASE_GRID_TOPOLOGY_ATTRS
    edgeNodeTemplate |-> "copied",        \* derived edges get a copy of EDGE_NODE_CONNECTIVITY_ATTRS
    ugridExport      |-> "new_dataset",   \* to_xarray("ugrid") returns a dataset of its own
    helperAttrs      |-> "serialisable",  \* nothing reachable from an export is a non-scalar helper object
    ugridNodeCoords  |-> "ensured",       \* the node coordinates the topology names are in the export
    scripPad         |-> "repeat_last",   \* short cells repeat their last corner
    exoFillTest      |-> "fill_value",
    exoBlockStart    |-> "accumulate",
    exoUnits         |-> "converted",
    exoChunked       |-> "values",
    exoReader        |-> "all_blocks",
    scripReader      |-> "trailing_run",
    fileFill         |-> "encoding_dropped" ]  \* a grid read from a file does not keep the file's fill value in the variable's encoding

\* as read in /repo now (d3a60c34, ef0ca9d1, e3484517, ea0c8869, 7ad7d162, b64583c9 and the five
\* C07 repairs 85394185, 755d0493, 6b5a0114, 5f78d30f, e9051200 are in)
Mech_observed ==
  [ topoTemplate     |-> "copied",
    edgeNodeTemplate |-> "copied",
    ugridExport      |-> "new_dataset",         \* 7ad7d162: _encode_ugrid works on a deep copy
    helperAttrs      |-> "stripped_on_export",  \* 85394185: Grid._ds still keeps the side tables in attrs, the encoder drops them from its copy
    ugridNodeCoords  |-> "ensured",             \* 755d0493: to_xarray / encode_as touch node_lon, node_lat first
    scripPad         |-> "repeat_last",         \* 6b5a0114
    exoFillTest      |-> "fill_value",          \* 5f78d30f
    exoBlockStart    |-> "accumulate",          \* 5f78d30f
    exoUnits         |-> "converted",
    exoChunked       |-> "values",
    exoReader        |-> "all_blocks",          \* b64583c9
    scripReader      |-> "trailing_run",        \* 168c59f3
    fileFill         |-> "encoding_dropped" ]   \* e9051200

\* the code as it was when this check was built (before the five C07 repairs): kept so that the
\* "model tells the difference" runs always have a mechanism to refute
Mech_before_c07_repairs ==
  [ Mech_observed EXCEPT !.helperAttrs = "in_attrs",           \* ndarray side tables / IntervalIndex + DataFrame reach the export
                         !.ugridNodeCoords = "as_present",     \* names node_lon node_lat whether or not they were ever materialised
                         !.scripPad = "index_with_fill",
                         !.exoFillTest = "minus_one", !.exoBlockStart = "assign",
                         !.fileFill = "attrs_and_encoding" ]   \* attrs["_FillValue"] set, the source's stays in .encoding

MechOf(n) ==
  CASE n = "intended"     -> Mech_intended
    [] n = "observed"     -> Mech_observed
    [] n = "rev_d3a60c34" -> [ Mech_observed EXCEPT !.edgeNodeTemplate = "shared" ]
    [] n = "rev_ef0ca9d1" -> [ Mech_observed EXCEPT !.topoTemplate = "shared" ]
    [] n = "rev_e3484517" -> [ Mech_observed EXCEPT !.exoUnits = "raw" ]
    [] n = "rev_ea0c8869" -> [ Mech_observed EXCEPT !.exoChunked = "data" ]
    [] n = "rev_85394185" -> [ Mech_observed EXCEPT !.helperAttrs = "in_attrs" ]
    [] n = "rev_755d0493" -> [ Mech_observed EXCEPT !.ugridNodeCoords = "as_present" ]
    [] n = "rev_6b5a0114" -> [ Mech_observed EXCEPT !.scripPad = "index_with_fill" ]
    [] n = "rev_5f78d30f" -> [ Mech_observed EXCEPT !.exoFillTest = "minus_one", !.exoBlockStart = "assign" ]
    [] n = "rev_e9051200" -> [ Mech_observed EXCEPT !.fileFill = "attrs_and_encoding" ]
    [] n = "before_c07_repairs" -> Mech_before_c07_repairs
    \* single departures from the intended mechanism: each must break an invariant (model sensitivity)
    [] n = "only_alias"     -> [ Mech_intended EXCEPT !.ugridExport = "internal_dataset", !.helperAttrs = "in_attrs" ]
    [] n = "only_helper"    -> [ Mech_intended EXCEPT !.helperAttrs = "in_attrs" ]
    [] n = "only_coords"    -> [ Mech_intended EXCEPT !.ugridNodeCoords = "as_present" ]
    [] n = "only_scrip"     -> [ Mech_intended EXCEPT !.scripPad = "index_with_fill" ]
    [] n = "only_exofill"   -> [ Mech_intended EXCEPT !.exoFillTest = "minus_one" ]
    [] n = "only_exostart"  -> [ Mech_intended EXCEPT !.exoBlockStart = "assign" ]
    [] n = "only_exoreader" -> [ Mech_intended EXCEPT !.exoReader = "last_block" ]
    [] n = "only_scripreader" -> [ Mech_intended EXCEPT !.scripReader = "last_column_only" ]
    [] n = "only_scripkeep"   -> [ Mech_intended EXCEPT !.scripReader = "keep" ]
    [] n = "only_filefill"  -> [ Mech_intended EXCEPT !.fileFill = "attrs_and_encoding" ]
Mech == MechOf(MechName)

(* ---- vocabulary -------------------------------------------------------------- *)
ENC == "edge_node_connectivity"
FEC == "face_edge_connectivity"
EFC == "edge_face_connectivity"
NFC == "node_face_connectivity"
FFC == "face_face_connectivity"
FNC == "face_node_connectivity"
NPF == "n_nodes_per_face"
TOPO == "grid_topology"
NodeLL  == { "node_lon", "node_lat" }
NodeXYZ == { "node_x", "node_y", "node_z" }
FaceC   == { "face_lon", "face_lat", "face_x", "face_y", "face_z" }
EdgeC   == { "edge_lon", "edge_lat", "edge_x", "edge_y", "edge_z" }
ConnNames == { FNC, FEC, FFC, ENC, EFC, "node_edge_connectivity", NFC }
EdgeDimVars == { ENC, EFC, "edge_node_distances", "edge_face_distances", "edge_node_z" } \cup EdgeC

\* the lazily derived attributes a caller can touch
Attr == { NPF, ENC, FEC, EFC, NFC, FFC, "node_x", "node_lon", "face_lon", "face_x", "edge_lon", "edge_x",
          "face_areas", "bounds", "edge_node_distances", "edge_face_distances", "hole_edge_indices",
          "edge_node_z" }

\* DESCRIPTIVE: what the first access of an attribute materialises (differences are drift, not violations)
Need(a) ==
  CASE a = NPF -> { NPF }
    [] a = ENC -> { ENC }
    [] a = FEC -> { ENC, FEC }
    [] a = EFC -> { ENC, FEC, NPF, EFC }
    [] a = NFC -> { NFC }
    [] a = FFC -> { ENC, FEC, NPF, EFC, FFC }
    [] a = "node_x"   -> NodeXYZ
    [] a = "node_lon" -> NodeLL
    [] a \in { "face_lon", "face_x" } -> FaceC \cup { NPF } \cup NodeXYZ
    [] a \in { "edge_lon", "edge_x" } -> EdgeC \cup { ENC } \cup NodeXYZ
    [] a = "face_areas" -> { "face_areas", NPF } \cup NodeLL
    [] a = "bounds"     -> { "bounds", ENC, FEC } \cup NodeXYZ \cup NodeLL
    [] a = "edge_node_distances" -> { "edge_node_distances", ENC } \cup NodeLL
    [] a = "edge_face_distances" -> { "edge_face_distances", ENC, FEC, NPF, EFC } \cup FaceC \cup NodeXYZ
    [] a = "hole_edge_indices"   -> { "hole_edge_indices", ENC, FEC, NPF, EFC }
    [] a = "edge_node_z"         -> { "edge_node_z", ENC } \cup NodeXYZ

SrcStore(route) ==
  CASE route = "topo"  -> { FNC } \cup NodeLL
    [] route = "topoE" -> { FNC, ENC } \cup NodeLL           \* the source supplies an edge table
    [] route = "fv"    -> { FNC } \cup NodeXYZ                \* Cartesian face vertices only
    [] route \in { "ugrid", "ufile" } -> { FNC, TOPO } \cup NodeLL \cup NodeXYZ   \* UGRID dataset in memory / in a NetCDF file

WithDims(store) == store \cup { "n_face", "n_node", "n_max_face_nodes" }
                         \cup (IF store \cap EdgeDimVars # {} THEN { "n_edge" } ELSE {})

UgridBase == { FNC, "node_lon", "node_lat", "n_face", "n_node" }
\* what _encode_ugrid writes into the topology variable, given what the dataset holds
UgridNames(vs) == UgridBase
                  \cup (IF "n_edge" \in vs THEN { "n_edge" } ELSE {})
                  \cup (IF "face_lon" \in vs THEN { "face_lon", "face_lat" } ELSE {})
                  \cup (IF "edge_lon" \in vs THEN { "edge_lon", "edge_lat" } ELSE {})
                  \cup (vs \cap ConnNames)

\* abstract meshes of the model: a strip of faces whose SIZE SEQUENCE is the scenario's parameter
\* (desc[g].shape, e.g. <<3, 6>>, <<5, 6, 7>>, <<3, 4, 3, 5>>), so TLC enumerates the size spreads
MeshOf(g, shape) == StripMesh(shape)

\* WHERE on the sphere the mesh sits is a generated parameter too: node 0 of the strip is put at a
\* distance `off` (micro-degrees) from an anchor - a pole, or the antimeridian (approached from the
\* east or the west side) - or somewhere unremarkable.  The library documents that a direction with
\* |z| > 1 - 1e-8 is the pole (ERROR_TOLERANCE; C04: "the library's 1e-8 pole-snapping tolerance"),
\* i.e. 1 - cos(d) <= 1e-8, d <= 0.0081 degrees: non-zero pole distances inside that zone are
\* not positions the library distinguishes and are not generated.
PoleSnapMicroDeg == 8100
Offsets == { 0, 1000, 10000, 100000, 200000, 300000, 1000000 }       \* 0, 1e-3, 0.01, 0.1, 0.2, 0.3, 1 degree
Places == { [ anchor |-> "mid", off |-> 0 ] }
          \cup { [ anchor |-> a, off |-> o ] : a \in { "npole", "spole" }, o \in { x \in Offsets : x = 0 \/ x > PoleSnapMicroDeg } }
          \cup { [ anchor |-> a, off |-> o ] : a \in { "amer_east", "amer_west" }, o \in Offsets }

NoBack == [ st |-> "none", ok |-> TRUE, closed |-> FALSE ]

(* ---- judging one export when it is produced --------------------------------- *)
\* a dataset whose metadata names something absent is incomplete: the clauses about its
\* content (WellFormed, EncodedFaces, RoundTrip, HistoryIndependent) are consequences and are
\* not reported a second time
Closed(e) == e.names \subseteq e.vars
NameClass(n) == IF n \in NodeLL THEN "node_coordinates" ELSE n
SameCore(a, b) ==
  /\ WellFormed(a.enc) = WellFormed(b.enc)
  /\ (WellFormed(a.enc) /\ WellFormed(b.enc)) => FacesMatch(a.fmt, Decoded(a.enc), Decoded(b.enc))
  /\ a.names \cap UgridBase = b.names \cap UgridBase
\* e: the new export; ex: the exports before it
JudgeExport(e, ex) ==
  IF e.status # "ok" THEN { <<"Encodes", "">> }
  ELSE IF ~Closed(e) THEN { <<"MetadataClosed", NameClass(n)>> : n \in e.names \ e.vars }
  ELSE (IF ~WellFormed(e.enc) THEN { <<"WellFormed", WhyIllFormed(e.enc)>> }
        ELSE IF ~FacesMatch(e.fmt, mesh[e.g], Decoded(e.enc)) THEN { <<"EncodedFaces", "">> } ELSE {})
       \cup (IF \E j \in DOMAIN ex : ex[j].g = e.g /\ ex[j].fmt = e.fmt /\ ex[j].status = "ok" /\ Closed(ex[j]) /\ ~SameCore(ex[j], e)
             THEN { <<"HistoryIndependent", "">> } ELSE {})

(* ---- actions, parameterised by their outcome ------------------------------- *)
\* exports that ARE the grid's own dataset follow the grid
Follow(ex, g, store, helper) ==
  [ k \in DOMAIN ex |-> IF ex[k].alias /\ ex[k].g = g
                        THEN [ ex[k] EXCEPT !.vars = WithDims(store), !.helper = helper ]
                        ELSE ex[k] ]

\* o = [store, helper, tT, tE]
Open(g, o) ==
  /\ ~grid[g].open
  /\ grid' = [ grid EXCEPT ![g] = [ open |-> TRUE, store |-> o.store, helper |-> o.helper, chunked |-> FALSE, src |-> o.store ] ]
  /\ tmplTopo' = o.tT /\ tmplEdge' = o.tE
  /\ exports' = exports

\* o = [store, helper, tT, tE, ex]   (ex: the exports as they are after the call)
Access(g, a, o) ==
  /\ grid[g].open
  /\ grid' = [ grid EXCEPT ![g].store = o.store, ![g].helper = o.helper ]
  /\ tmplTopo' = o.tT /\ tmplEdge' = o.tE
  /\ exports' = o.ex

Chunk(g, o) ==
  /\ grid[g].open
  /\ grid' = [ grid EXCEPT ![g].store = o.store, ![g].helper = o.helper, ![g].chunked = TRUE ]
  /\ tmplTopo' = o.tT /\ tmplEdge' = o.tE
  /\ exports' = o.ex

\* o = [status, vars, names, helper, alias, enc, store, gh, tT, tE, ex]
ToXarray(g, fmt, o) ==
  /\ grid[g].open
  /\ Len(exports) < MaxExports
  /\ grid' = [ grid EXCEPT ![g].store = o.store, ![g].helper = o.gh ]
  /\ tmplTopo' = o.tT /\ tmplEdge' = o.tE
  /\ exports' = LET e == [ g |-> g, fmt |-> fmt, status |-> o.status, vars |-> o.vars, names |-> o.names,
                            helper |-> o.helper, alias |-> o.alias, enc |-> o.enc, jud |-> {},
                            written |-> "no", mem |-> NoBack, file |-> NoBack ]
                 IN Append(o.ex, [ e EXCEPT !.jud = JudgeExport(e, o.ex) ])

\* o = [ok, enc]   (enc: the E-record of the file as written)
WriteNetcdf(k, o) ==
  /\ k \in DOMAIN exports /\ exports[k].status = "ok"
  /\ exports' = [ exports EXCEPT
        ![k].written = IF ~o.ok THEN (IF exports[k].helper # {} THEN "fail_helper_attrs" ELSE "fail")
                       ELSE IF @ \in { "no", "ok" } THEN "ok" ELSE @,
        ![k].jud = @ \cup (IF ~o.ok \/ exports[k].jud # {} THEN {}
                           ELSE IF ~WellFormed(o.enc) THEN { <<"WellFormed", "file:" \o WhyIllFormed(o.enc)>> }
                           ELSE IF ~FacesMatch(exports[k].fmt, mesh[exports[k].g], Decoded(o.enc)) THEN { <<"EncodedFaces", "file">> }
                           ELSE {}) ]
  /\ UNCHANGED <<grid, tmplTopo, tmplEdge>>

\* o = [st, faces]
Reopen(k, via, o) ==
  /\ k \in DOMAIN exports /\ exports[k].status = "ok"
  /\ via = "file" => exports[k].written = "ok"
  /\ LET r == [ st |-> o.st, ok |-> o.st = "ok" /\ FacesMatch(exports[k].fmt, mesh[exports[k].g], o.faces),
                closed |-> Closed(exports[k]) ]   \* judged on the dataset as it was when it was reopened
     IN exports' = IF via = "mem" THEN [ exports EXCEPT ![k].mem = r ] ELSE [ exports EXCEPT ![k].file = r ]
  /\ UNCHANGED <<grid, tmplTopo, tmplEdge>>

(* ---- the invariants, as the set of <<clause, export, detail>> that are false ---- *)
Violated ==
  { <<"TemplatesConstant", 0, t>> : t \in tmplTopo \cup tmplEdge }
  \cup UNION { LET e == exports[k] IN
      { <<v[1], k, v[2]>> : v \in e.jud }
      \* a helper-carrying variable that the SOURCE supplied got its helper attrs from somewhere else
      \cup { <<"Serialisable", k, IF v \in grid[e.g].src THEN v \o ":supplied_by_source" ELSE v>> : v \in e.helper }
      \cup (IF e.written = "fail" THEN { <<"Serialisable", k, "to_netcdf">> } ELSE {})
      \cup (IF e.written = "fail_helper_attrs" THEN { <<"Serialisable", k, "to_netcdf_with_helper_attrs">> } ELSE {})
      \cup (IF e.mem.closed /\ (e.mem.st = "raise" \/ ~e.mem.ok) THEN { <<"RoundTrip", k, "mem">> } ELSE {})
      \cup (IF e.file.closed /\ (e.file.st = "raise" \/ ~e.file.ok) THEN { <<"RoundTrip", k, "file">> } ELSE {})
    : k \in DOMAIN exports }

Clause(c) == \A v \in Violated : v[1] # c
TemplatesConstant  == Clause("TemplatesConstant")
Encodes            == Clause("Encodes")
MetadataClosed     == Clause("MetadataClosed")
Serialisable       == Clause("Serialisable")
WellFormedOutput   == Clause("WellFormed")
EncodedFaces       == Clause("EncodedFaces")
RoundTrip          == Clause("RoundTrip")
HistoryIndependent == Clause("HistoryIndependent")
\* the encoders' results are functions of the source: whatever the history, an export equals
\* the export of a freshly opened grid up to names of derived variables that are present
FreshEnc(g, fmt) ==
  CASE fmt = "ugrid"  -> EncUgrid(mesh[g], TRUE)
    [] fmt = "exodus" -> EncExodus(mesh[g], [ fillTest |-> "fill_value", blockStart |-> "accumulate", units |-> "converted" ], FALSE)
    [] fmt = "scrip"  -> EncScrip(mesh[g])
FunctionOfSource == \A k \in DOMAIN exports : exports[k].status = "ok" /\ exports[k].enc = FreshEnc(exports[k].g, exports[k].fmt)
\* the dialect theorem: the intended writers produce well-formed output that both the format's
\* conventions and the library's (intended) readers decode to the source faces
DialectRoundTrip ==
  ops = 0 => \A g \in Grids, fmt \in Fmts :
     LET E == FreshEnc(g, fmt) IN
       /\ WellFormed(E) /\ FacesMatch(fmt, mesh[g], Decoded(E))
       /\ LET R == [ exoReader |-> "all_blocks", scripReader |-> "trailing_run" ]
          IN ReadBack(E, R).st = "ok" /\ FacesMatch(fmt, mesh[g], ReadBack(E, R).faces)

TypeOK ==
  /\ \A g \in Grids : grid[g].open \/ grid[g].store = {}
  /\ Len(exports) <= MaxExports /\ ops <= MaxOps

(* ---- outcomes under Mech (model checking and generation) -------------------- *)
Derives(g, a, what) == what \in Need(a) /\ what \notin grid[g].store
HelperAfter(g, a) ==
  grid[g].helper \cup (IF Mech.helperAttrs \in { "in_attrs", "stripped_on_export" }
                       THEN { v \in { ENC, "bounds" } : Derives(g, a, v) } ELSE {})
OutOpen(g) ==
  [ store  |-> SrcStore(desc[g].route),
    helper |-> (IF desc[g].route = "topoE" /\ tmplEdge # {} THEN { ENC } ELSE {})
               \cup (IF desc[g].route = "ufile" /\ Mech.fileFill = "attrs_and_encoding"
                     THEN { "face_node_connectivity:_FillValue_in_attrs_and_encoding" } ELSE {}),
    tT |-> tmplTopo, tE |-> tmplEdge ]
OutAccess(g, a) ==
  LET st == grid[g].store \cup Need(a)
      h  == HelperAfter(g, a)
  IN [ store |-> st, helper |-> h, tT |-> tmplTopo,
       tE |-> IF Mech.edgeNodeTemplate = "shared" /\ Derives(g, a, ENC)
              THEN { "inverse_indices", "fill_value_mask" } ELSE tmplEdge,
       ex |-> Follow(exports, g, st, h) ]
OutChunk(g) ==
  [ store |-> grid[g].store, helper |-> grid[g].helper, tT |-> tmplTopo, tE |-> tmplEdge, ex |-> exports ]

\* what of the grid's unstorable attributes reaches a UGRID export
ExportedHelper(h) == IF Mech.helperAttrs = "stripped_on_export" THEN h \ { ENC, "bounds" } ELSE h
OutUgrid(g) ==
  LET st0   == grid[g].store
      st1   == st0 \cup (IF Mech.ugridNodeCoords = "ensured" THEN NodeLL ELSE {})
      alias == Mech.ugridExport = "internal_dataset" /\ TOPO \notin st0
      vs    == WithDims(st1 \cup { TOPO })
      own   == UgridNames(vs)
      sh    == Mech.topoTemplate = "shared"
      st2   == IF alias THEN st1 \cup { TOPO } ELSE st1
  IN [ status |-> "ok", vars |-> vs,
       names  |-> own \cup (IF sh THEN tmplTopo ELSE {}),
       helper |-> ExportedHelper(grid[g].helper), alias |-> alias,
       enc    |-> EncUgrid(mesh[g], NodeLL \subseteq st1),
       store  |-> st2, gh |-> grid[g].helper,
       tT |-> IF sh THEN tmplTopo \cup (own \ UgridBase) ELSE tmplTopo, tE |-> tmplEdge,
       ex |-> Follow(exports, g, st2, grid[g].helper) ]
OutExodus(g) ==
  LET K == [ fillTest |-> Mech.exoFillTest, blockStart |-> Mech.exoBlockStart, units |-> Mech.exoUnits ]
      E == EncExodus(mesh[g], K, "node_x" \notin grid[g].store)
      raises == (Mech.exoChunked = "data" /\ grid[g].chunked) \/ ExoRagged(E.blocks)
  IN [ status |-> IF raises THEN "raise" ELSE "ok", vars |-> {}, names |-> {}, helper |-> {}, alias |-> FALSE,
       enc |-> IF raises THEN NoEnc ELSE E, store |-> grid[g].store, gh |-> grid[g].helper,
       tT |-> tmplTopo, tE |-> tmplEdge, ex |-> exports ]
OutScrip(g) ==
  LET raises == ScripRaises(mesh[g], Mech.scripPad)
      st == grid[g].store \cup NodeLL \cup { "face_areas", NPF }
  IN [ status |-> IF raises THEN "raise" ELSE "ok", vars |-> {}, names |-> {}, helper |-> {}, alias |-> FALSE,
       enc |-> IF raises THEN NoEnc ELSE EncScrip(mesh[g]), store |-> st, gh |-> grid[g].helper,
       tT |-> tmplTopo, tE |-> tmplEdge, ex |-> Follow(exports, g, st, grid[g].helper) ]
OutToXarray(g, fmt) == CASE fmt = "ugrid" -> OutUgrid(g) [] fmt = "exodus" -> OutExodus(g) [] fmt = "scrip" -> OutScrip(g)
OutWrite(k)  == [ ok |-> exports[k].helper = {}, enc |-> exports[k].enc ]
OutReopen(k) == ReadBack(exports[k].enc, [ exoReader |-> Mech.exoReader, scripReader |-> Mech.scripReader ])

(* ---- the machine ---------------------------------------------------------------- *)
Init ==
  /\ desc \in [ Grids -> [ route : Routes1 \cup Routes2, shape : Shapes1 \cup Shapes2 ] ]
  /\ desc["g1"].route \in Routes1 /\ desc["g1"].shape \in Shapes1
  /\ desc["g2"].route \in Routes2 /\ desc["g2"].shape \in Shapes2
  /\ mesh = [ g \in Grids |-> MeshOf(g, desc[g].shape) ]
  /\ grid = [ g \in Grids |-> [ open |-> FALSE, store |-> {}, helper |-> {}, chunked |-> FALSE, src |-> {} ] ]
  /\ exports = <<>> /\ tmplTopo = {} /\ tmplEdge = {} /\ ops = 0 /\ bad = {} /\ hist = <<>>

Tick(call) == /\ ops < MaxOps /\ ops' = ops + 1 /\ UNCHANGED <<desc, mesh>> /\ bad' = Violated' \ Violated
              /\ hist' = Append(hist, call)

DoOpen(g)          == Open(g, OutOpen(g)) /\ Tick(<<"Open", g>>)
DoAccess(g, a)     == Access(g, a, OutAccess(g, a)) /\ Tick(<<"Access", g, a>>)
DoChunk(g)         == Chunk(g, OutChunk(g)) /\ Tick(<<"Chunk", g>>)
DoToXarray(g, fmt) == ToXarray(g, fmt, OutToXarray(g, fmt)) /\ Tick(<<"ToXarray", g, fmt>>)
DoWrite(k)         == WithIO /\ WriteNetcdf(k, OutWrite(k)) /\ Tick(<<"Write", k>>)
DoReopen(k, via)   == WithIO /\ Reopen(k, via, OutReopen(k)) /\ Tick(<<"Reopen", k, via>>)

Next == \/ \E g \in Grids : DoOpen(g)
        \/ \E g \in Grids, a \in Attr : DoAccess(g, a)
        \/ \E g \in Grids : DoChunk(g)
        \/ \E g \in Grids, fmt \in Fmts : DoToXarray(g, fmt)
        \/ \E k \in 1..MaxExports : DoWrite(k)
        \/ \E k \in 1..MaxExports, via \in { "mem", "file" } : DoReopen(k, via)

Spec == Init /\ [][Next]_vars

\* generation: states that agree on what the encoders can see are one state
Feature(g) == [ open |-> grid[g].open, chunked |-> grid[g].chunked, helper |-> grid[g].helper,
                see |-> grid[g].store \cap ({ TOPO, "node_lon", "node_x", "face_lon", "edge_lon", "face_areas" } \cup ConnNames),
                edim |-> grid[g].store \cap EdgeDimVars # {} ]
\* everything but the bookkeeping
NoHist == <<desc, mesh, grid, exports, tmplTopo, tmplEdge, ops, bad>>
\* one line per violating state class, with a shortest history reaching it (generation of
\* directed tests from Mech_observed)
CexView == << desc, [ g \in Grids |-> Feature(g) ],
              [ k \in DOMAIN exports |-> << exports[k].g, exports[k].fmt, exports[k].status, exports[k].alias,
                                             exports[k].jud, exports[k].helper, exports[k].written,
                                             exports[k].mem, exports[k].file >> ],
              tmplTopo, tmplEdge, ops, bad >>
EmitCex == bad = {} \/ PrintT(<<"CEX", desc, hist, bad, mesh>>)
GenView == << desc, [ g \in Grids |-> Feature(g) ],
              [ k \in DOMAIN exports |-> << exports[k].g, exports[k].fmt, exports[k].status, exports[k].alias >> ],
              tmplTopo, tmplEdge, ops >>
=============================================================================

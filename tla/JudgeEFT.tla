------------------------------ MODULE JudgeEFT ------------------------------
(***************************************************************************)
(* X04: judges records of the real float64 functions of                    *)
(* uxarray/utils/computing.py.  Every verdict is an EXACT statement about  *)
(* integers: the harness converts the floats it put in and got back to     *)
(* integers at a common power-of-two scale (they are dyadic rationals) and *)
(* writes them as sign + limbs in base 2^11, least significant first; this *)
(* module evaluates polynomial identities and inequalities on them with    *)
(* its own multi-limb arithmetic (TLC's integers are 32 bit: a limb        *)
(* product is below 2^22 and a coefficient sum stays below 2^30).          *)
(*                                                                         *)
(* A record: [ id, fn, clause, rel \in {"eq","le","lt"}, lhs, rhs, scope ] *)
(* with lhs, rhs sequences of monomials [ c : small integer, f : 1 or 2    *)
(* big integers ]; the statement is   SUM lhs  rel  SUM rhs.  A record     *)
(* with scope = FALSE is outside the stated premises (underflow, a         *)
(* violated precondition) and only counted.  "flag" records carry a        *)
(* boolean decided by an exact comparison in the harness (wrapper = numpy, *)
(* raised / did not raise).                                                *)
(***************************************************************************)
EXTENDS Integers, Sequences, FiniteSets, TLC, Json, IOUtils, SequencesExt

Recs  == ndJsonDeserialize(IOEnv.REC_FILE)
Block == 64
VARIABLE i
Init == i \in { -b : b \in 1..((Len(Recs) + Block - 1) \div Block) }
Next == i < 0 /\ i' \in { k \in 1..Len(Recs) : (k - 1) \div Block = (-i) - 1 }

B == 2048
Limb(n, k) == IF k >= 0 /\ k < Len(n.l) THEN n.l[k + 1] ELSE 0          \* k-th limb (k from 0) of the magnitude
\* sums are folds over index sequences (SequencesExt!FoldLeft is evaluated iteratively: TLC's stack stays flat)
Idx(lo, hi) == [ k \in 1..(hi - lo + 1) |-> lo + k - 1 ]
\* coefficient of B^k in a monomial (before carrying)
Conv(x, y, k) == LET top == IF k < Len(x.l) THEN k ELSE Len(x.l) - 1 IN
                 FoldLeft(LAMBDA acc, j : acc + Limb(x, j) * Limb(y, k - j), 0, Idx(0, top))
Coef(m, k) == IF Len(m.f) = 1 THEN m.c * m.f[1].s * Limb(m.f[1], k)
              ELSE m.c * m.f[1].s * m.f[2].s * Conv(m.f[1], m.f[2], k)
SumCoef(ms, k) == FoldLeft(LAMBDA acc, m : acc + Coef(m, k), 0, ms)
Deg(m) == IF Len(m.f) = 1 THEN Len(m.f[1].l) ELSE Len(m.f[1].l) + Len(m.f[2].l)
MaxDeg(ms) == FoldLeft(LAMBDA acc, m : IF Deg(m) > acc THEN Deg(m) ELSE acc, 0, ms)
\* carry-normalise rhs - lhs: <<final carry, all remainders zero>>
Carry(r, n) == FoldLeft(LAMBDA st, k : LET t == SumCoef(r.rhs, k) - SumCoef(r.lhs, k) + st[1]
                                       IN <<t \div B, st[2] /\ (t % B = 0)>>,
                        <<0, TRUE>>, Idx(0, n))
SignOfDiff(r) ==            \* sign of SUM rhs - SUM lhs
    LET n  == (IF MaxDeg(r.lhs) > MaxDeg(r.rhs) THEN MaxDeg(r.lhs) ELSE MaxDeg(r.rhs)) + 1
        cz == Carry(r, n)
    IN IF cz[1] > 0 THEN 1 ELSE IF cz[1] < 0 THEN -1 ELSE IF cz[2] THEN 0 ELSE 1
Holds(r) == CASE r.rel = "eq" -> SignOfDiff(r) = 0
              [] r.rel = "le" -> SignOfDiff(r) >= 0
              [] r.rel = "lt" -> SignOfDiff(r) > 0
              [] r.rel = "flag" -> r.ok

Judge == i > 0 => LET r == Recs[i] IN
                  (~r.scope \/ Holds(r)) \/ PrintT(<<"V", r.id, r.clause>>)

(* ---- the multi-limb arithmetic is itself checked on literal cases ------------------------- *)
N(s, l) == [ s |-> s, l |-> l ]
M1(c, x) == [ c |-> c, f |-> <<x>> ]
M2(c, x, y) == [ c |-> c, f |-> <<x, y>> ]
R(rel, lhs, rhs) == [ rel |-> rel, lhs |-> lhs, rhs |-> rhs ]
SelfTest ==
    LET a == N(1, <<2047, 2047, 5>>)           \* 5*2^22 + 2047*2^11 + 2047
        one == N(1, <<1>>)
        b == N(-1, <<3, 1>>)                   \* -(2048 + 3)
        \* a * b = -(a*2048 + 3a):  a*2048 = <<0,2047,2047,5>>, 3a = 6141 + 6141*2^11 + 15*2^22 = <<2045, 2047+2 carry..>>
    IN /\ Holds(R("eq", <<M1(1, a), M1(1, one)>>, <<M1(1, N(1, <<0, 0, 6>>))>>))                 \* a + 1 = 6 * 2^22
       /\ ~Holds(R("eq", <<M1(1, a)>>, <<M1(1, N(1, <<0, 0, 6>>))>>))
       /\ Holds(R("lt", <<M1(1, a)>>, <<M1(1, N(1, <<0, 0, 6>>))>>))
       /\ Holds(R("le", <<M1(1, b)>>, <<M1(1, a)>>)) /\ ~Holds(R("le", <<M1(1, a)>>, <<M1(1, b)>>))
       /\ Holds(R("eq", <<M2(1, a, b)>>, <<M1(-2048, a), M1(-3, a)>>))                            \* a*b = -2048a - 3a
       /\ Holds(R("eq", <<M2(1, b, b)>>, <<M1(1, N(1, <<9, 6, 1>>))>>))                           \* (2048+3)^2 = 2^22 + 6*2^11 + 9
       /\ ~Holds(R("eq", <<M2(1, b, b)>>, <<M1(1, N(1, <<9, 6, 2>>))>>))
       /\ Holds(R("eq", <<M1(1, N(0, <<>>))>>, <<M1(1, a), M1(-1, a)>>))
ASSUME SelfTest
=============================================================================

----------------------------- MODULE TreeCache -----------------------------
(***************************************************************************)
(* C11, history clause: "the tree handed back always reflects the element  *)
(* kind, coordinate system and metric requested in that call", for every   *)
(* order in which differently parameterised trees were requested before.   *)
(*                                                                         *)
(* One grid owns two cache slots (ball tree, k-d tree).  A slot refers to  *)
(* a wrapper object; a wrapper has a current element kind (`coords`), the  *)
(* system and metric it was constructed with, the `reconstruct` flag it    *)
(* was constructed with, and one sub-slot per element kind holding the     *)
(* underlying search tree built for that kind (tagged here with the        *)
(* system and metric it was built from).  What a query on a wrapper        *)
(* answers is decided by the sub-slot selected by `coords`.                *)
(*                                                                         *)
(* Objects are kept in a sequence `objs`; handles given to the caller are  *)
(* indices into it, so aliasing (the handle IS the cached wrapper) is      *)
(* part of the state.  Actions:                                            *)
(*   Get(tree, kind, system, metric, reconstruct)   Grid.get_ball_tree /   *)
(*                                                  Grid.get_kd_tree       *)
(*   SetCoordinates(handle, kind)   the `coordinates` setter on a handle   *)
(*   Query(handle)                  observation only                       *)
(*   RemapUse(kind, coord)          a remap call whose data live on `kind`: *)
(*                                  it rebuilds the ball-tree slot          *)
(*                                                                         *)
(* The mechanism is data (constant Mech):                                  *)
(*   cmp    which of {"system", "metric"} are compared with the request    *)
(*          before the cached wrapper is reused (the kind is always        *)
(*          honoured, through the setter)                                  *)
(*   alias  TRUE: the cached wrapper itself is handed back;                *)
(*          FALSE: a private copy is handed back                           *)
(* MechIntended  = all compared, no aliasing: every invariant holds.       *)
(* MechObserved  = transcription of grid.py / neighbors.py as of           *)
(*                 93ddb0c5: system and metric compared, cached object     *)
(*                 returned.                                               *)
(* MechKindOnly  = the mechanism before 93ddb0c5 (nothing compared);       *)
(*                 kept as the in-model mutant: TLC must refute HandBack.  *)
(*                                                                         *)
(* Invariants:                                                             *)
(*   HandBack      the wrapper handed back by a Get (or changed by a       *)
(*                 SetCoordinates) has exactly the requested kind, system  *)
(*                 and metric -- as attributes and as what it answers      *)
(*   Coherent      attributes and answers of every wrapper agree           *)
(*   Rebuilt       a request with reconstruct = TRUE is answered from the   *)
(*                 coordinates the grid reports now (Recentre = Grid.       *)
(*                 construct_face_centers changes the face centres)         *)
(*   StableHandle  every promise made earlier still holds: a handle keeps  *)
(*                 answering for what was requested when it was handed     *)
(*                 out, until its holder sets its coordinates.  Stronger   *)
(*                 than the property's clause (which speaks of the moment  *)
(*                 of handing back); reported as an observation.           *)
(*                                                                         *)
(* With Record = TRUE the history and, per step, the handle returned and   *)
(* the predicted answer of every live handle are state variables, so       *)
(* `-dump` emits every history of length <= MaxLen with its expectations.  *)
(***************************************************************************)
EXTENDS Naturals, Sequences, FiniteSets, TLC

CONSTANTS Kinds,       \* element kinds
          BallCombos,  \* admissible <<system, metric>> pairs of a ball tree (strings "system/metric")
          KdCombos,    \* same for a k-d tree
          Trees,       \* subset of {"ball", "kd"} exercised
          Recs,        \* values of the reconstruct flag exercised
          Mech,        \* mechanism record, see above
          MaxLen,      \* history length bound (generation)
          Record,      \* BOOLEAN: keep history in the state
          WithSet,     \* BOOLEAN: include SetCoordinates actions
          WithRemap,   \* BOOLEAN: include remap calls (they use the grid's ball-tree slot internally)
          WithRecentre, \* BOOLEAN: include Grid.construct_face_centers (the face centres the grid reports change)
          Shape        \* "any", or "recentre_mid": the second action (and only it) is Recentre

VARIABLES objs,      \* Seq of wrapper records
          ref,       \* [ball |-> handle or 0, kd |-> handle or 0]
          promises,  \* Seq of [h, want]: what each handed-out handle was requested to be
          last,      \* [op, h, want]: the most recent action, its handle, what it must reflect
          n,         \* number of actions so far
          hist,      \* Seq of [act, ret, pred] (only when Record)
          cv         \* version of the grid's face centres (0 = as first reported, 1 = recomputed)

vars == <<objs, ref, promises, last, n, hist, cv>>

None == "none"

\* honourRec: reconstruct = TRUE always builds a new wrapper from the coordinates the grid reports now
MechIntended == [ cmp |-> {"system", "metric"}, alias |-> FALSE, honourRec |-> TRUE ]
MechObserved == [ cmp |-> {"system", "metric"}, alias |-> TRUE, honourRec |-> TRUE ]
MechKindOnly == [ cmp |-> {}, alias |-> TRUE, honourRec |-> TRUE ]
MechNoMetric == [ cmp |-> {"system"}, alias |-> TRUE, honourRec |-> TRUE ]
\* in-model mutant: reconstruct only sets the wrapper's flag; a request for the kind the wrapper already
\* shows is handed the old tree
MechRecFlagOnly == [ cmp |-> {"system", "metric"}, alias |-> TRUE, honourRec |-> FALSE ]

\* default alphabets (cfg files cannot write sets of tuples)
BallCombosDefault == { <<"spherical", "haversine">>, <<"cartesian", "minkowski">>, <<"cartesian", "manhattan">> }
KdCombosDefault   == { <<"cartesian", "minkowski">>, <<"cartesian", "manhattan">>,
                       <<"spherical", "minkowski">>, <<"spherical", "manhattan">> }
KindsDefault      == { "nodes", "face centers", "edge centers" }

Combos(t) == IF t = "ball" THEN BallCombos ELSE KdCombos

\* only the face centres have versions
SlotCv(kind) == IF kind = "face centers" THEN cv ELSE 0
NoSlot == <<None, None, 0>>

NewWrapper(t, kind, sys, met, rec) ==
    [ tree |-> t, coords |-> kind, sys |-> sys, met |-> met, rec |-> rec,
      slots |-> [ k \in Kinds |-> IF k = kind THEN <<sys, met, SlotCv(kind)>> ELSE NoSlot ] ]

\* the `coordinates` setter (neighbors.py): select the sub-slot, building it -- from the
\* wrapper's own system and metric -- when it is empty or the wrapper was made with reconstruct
SetCoord(o, kind) ==
    [ o EXCEPT !.coords = kind,
               !.slots[kind] = IF @ = NoSlot \/ o.rec THEN <<o.sys, o.met, SlotCv(kind)>> ELSE @ ]

\* what a query on wrapper o answers for / what its attributes say
Effective(o) == << o.coords, o.slots[o.coords][1], o.slots[o.coords][2] >>
Attr(o)      == << o.coords, o.sys, o.met >>
EffCv(o)     == o.slots[o.coords][3]     \* the centre version its answers are computed from

Pred(os) == [ i \in 1..Len(os) |-> Effective(os[i]) \o << EffCv(os[i]) >> ]

Log(act, ret, os) == IF Record THEN Append(hist, [ act |-> act, ret |-> ret, pred |-> Pred(os) ]) ELSE hist

Get(t, kind, sys, met, rec) ==
    LET c       == ref[t]
        rebuild == \/ c = 0
                   \/ (rec /\ Mech.honourRec)
                   \/ ("system" \in Mech.cmp /\ objs[c].sys # sys)
                   \/ ("metric" \in Mech.cmp /\ objs[c].met # met)
        want    == << kind, sys, met >>
    IN
    /\ n < MaxLen
    /\ n' = n + 1
    /\ cv' = cv
    /\ IF rebuild
       THEN LET o  == NewWrapper(t, kind, sys, met, rec)
                os == IF Mech.alias THEN Append(objs, o) ELSE Append(Append(objs, o), o)
                cached == Len(objs) + 1
                h  == Len(os)
            IN /\ objs' = os
               /\ ref' = [ ref EXCEPT ![t] = cached ]
               /\ promises' = Append(promises, [ h |-> h, want |-> want ])
               /\ last' = [ op |-> "get", h |-> h, want |-> want, rec |-> rec ]
               /\ hist' = Log(<<"get", t, kind, sys, met, rec>>, h, os)
       ELSE LET o1 == IF Mech.honourRec THEN objs[c] ELSE [ objs[c] EXCEPT !.rec = rec ]
                o  == IF kind # o1.coords THEN SetCoord(o1, kind) ELSE o1
                os == IF Mech.alias THEN [ objs EXCEPT ![c] = o ]
                      ELSE Append([ objs EXCEPT ![c] = o ], o)
                h  == IF Mech.alias THEN c ELSE Len(os)
            IN /\ objs' = os
               /\ ref' = ref
               /\ promises' = Append(promises, [ h |-> h, want |-> want ])
               /\ last' = [ op |-> "get", h |-> h, want |-> want, rec |-> rec ]
               /\ hist' = Log(<<"get", t, kind, sys, met, rec>>, h, os)

\* the caller assigns `handle.coordinates = kind`; earlier promises about that handle lapse
SetCoordinates(h, kind) ==
    LET o    == SetCoord(objs[h], kind)
        os   == [ objs EXCEPT ![h] = o ]
        want == << kind, objs[h].sys, objs[h].met >>
        keep == SelectSeq(promises, LAMBDA p : p.h # h)
    IN
    /\ WithSet
    /\ n < MaxLen
    /\ n' = n + 1
    /\ cv' = cv
    /\ objs' = os
    /\ ref' = ref
    /\ promises' = Append(keep, [ h |-> h, want |-> want ])
    /\ last' = [ op |-> "set", h |-> h, want |-> want, rec |-> FALSE ]
    /\ hist' = Log(<<"set", h, kind>>, h, os)

\* A remap call from this grid (remap/utils.py): get_ball_tree(coordinates = kind of the data,
\* spherical/haversine or cartesian/minkowski, reconstruct = TRUE).  The new wrapper replaces the
\* cached one; it is not handed to the caller (no promise), but later requests may be given it.
RemapUse(kind, coord) ==
    LET sys == coord
        met == IF coord = "spherical" THEN "haversine" ELSE "minkowski"
        os  == Append(objs, NewWrapper("ball", kind, sys, met, TRUE))
    IN
    /\ WithRemap
    /\ "ball" \in Trees
    /\ n < MaxLen
    /\ n' = n + 1
    /\ cv' = cv
    /\ objs' = os
    /\ ref' = [ ref EXCEPT !["ball"] = Len(os) ]
    /\ promises' = promises
    /\ last' = [ op |-> "remap", h |-> 0, want |-> << kind, sys, met >>, rec |-> TRUE ]
    /\ hist' = Log(<<"remap", kind, coord>>, 0, os)

\* Grid.construct_face_centers: the face centres the grid reports are recomputed (they were supplied
\* by the source and differ).  Trees built earlier are not touched.
Recentre ==
    /\ WithRecentre
    /\ n < MaxLen
    /\ cv = 0
    /\ cv' = 1
    /\ n' = n + 1
    /\ UNCHANGED <<objs, ref, promises>>
    /\ last' = [ op |-> "recentre", h |-> 0, want |-> <<None, None, None>>, rec |-> FALSE ]
    /\ hist' = Log(<<"recentre">>, 0, objs)

\* handles the caller holds (only these can be assigned to)
Handles == { promises[i].h : i \in 1..Len(promises) }

Init == /\ objs = <<>>
        /\ ref = [ ball |-> 0, kd |-> 0 ]
        /\ promises = <<>>
        /\ last = [ op |-> "init", h |-> 0, want |-> <<None, None, None>>, rec |-> FALSE ]
        /\ n = 0
        /\ hist = <<>>
        /\ cv = 0

Requests == \/ \E t \in Trees : \E kind \in Kinds : \E c \in Combos(t) : \E rec \in Recs :
                  Get(t, kind, c[1], c[2], rec)
            \/ \E h \in Handles : \E kind \in Kinds : SetCoordinates(h, kind)
            \/ \E kind \in Kinds : \E coord \in {"spherical", "cartesian"} : RemapUse(kind, coord)
Next == \/ (Shape = "any" \/ n # 1) /\ Requests
        \/ (Shape = "any" \/ n = 1) /\ Recentre

Spec == Init /\ [][Next]_vars

(* ---- invariants ----------------------------------------------------------------------- *)
TypeOK == /\ \A i \in 1..Len(objs) : objs[i].coords \in Kinds /\ objs[i].slots[objs[i].coords] # NoSlot
          /\ \A t \in {"ball", "kd"} : ref[t] \in 0..Len(objs) /\ (ref[t] > 0 => objs[ref[t]].tree = t)

HandBack == last.op \in {"get", "set"} =>
              /\ Effective(objs[last.h]) = last.want
              /\ Attr(objs[last.h]) = last.want

\* reconstruct = TRUE: the tree handed back is built from the coordinates the grid reports NOW
Rebuilt == (last.op = "get" /\ last.rec) => EffCv(objs[last.h]) = SlotCv(objs[last.h].coords)

Coherent == \A i \in 1..Len(objs) : Effective(objs[i]) = Attr(objs[i])

StableHandle == \A i \in 1..Len(promises) : Effective(objs[promises[i].h]) = promises[i].want

\* generation: every complete history (its prefixes are the shorter ones), with the handle
\* returned and the predicted answer of every live handle after each step
Emit == (Record /\ n = MaxLen) => PrintT(<<"H", hist>>)
=============================================================================

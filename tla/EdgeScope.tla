----------------------------- MODULE EdgeScope -----------------------------
(***************************************************************************)
(* Exhaustive small scope for C16: every MANIFOLD face-node table with     *)
(* 1..MaxFaces faces over NNode nodes, sizes in Sizes (edge_face and the   *)
(* face difference are only defined for manifold meshes), each with NPat   *)
(* patterns of four node rows and four face rows.  On every state TLC      *)
(* proves: the transcribed difference kernels on the transcribed edge and  *)
(* edge_face tables (MeshAlg) equal the declarative pairings of EdgeOps;   *)
(* the laws of the difference; the tracer rows identify the pair.          *)
(* `-dump` lists the states = generated cases for difference / gradient.   *)
(***************************************************************************)
EXTENDS EdgeOps

CONSTANTS NNode, MaxFaces, Sizes, NPat, Salt

VARIABLES mesh, xrows, yrows

FacesOfSize(k) == { s \in [1..k -> 0..(NNode - 1)] : \A i, j \in 1..k : i # j => s[i] # s[j] }
ScopeFaces     == UNION { FacesOfSize(k) : k \in Sizes }

RECURSIVE P2(_)
P2(n) == IF n = 0 THEN 1 ELSE 2 * P2(n - 1)
Pat(len, k, r) == [ n \in 1..len |-> ((n * n * (k + r) + n * (2 * k + 1) + r + Salt) % 8) - 3 ]
XPattern(k) == << [ n \in 1..NNode |-> P2(n - 1) ], Pat(NNode, k, 1), Pat(NNode, k, 2), Pat(NNode, k, 3) >>
YPattern(k) == << [ f \in 1..MaxFaces |-> P2(f - 1) ], Pat(MaxFaces, k, 4), Pat(MaxFaces, k, 5), Pat(MaxFaces, k, 6) >>

Init == /\ mesh \in { <<f>> : f \in ScopeFaces }
        /\ \E k \in 1..NPat : xrows = XPattern(k) /\ yrows = YPattern(k)
Next == /\ Len(mesh) < MaxFaces
        /\ \E f \in ScopeFaces : mesh' = Append(mesh, f) /\ Manifold(mesh')
        /\ UNCHANGED << xrows, yrows >>

W  == MaxSize(mesh)
T  == Stored(mesh, W)
Y(r) == SubSeq(yrows[r], 1, Len(mesh))
\* the transcribed tables, computed once per use (LET values are cached by TLC)
Tables == LET a == AlgEdges(T)
          IN [ E |-> a.edges, EF |-> AlgEdgeFaces(a.face_edges, AlgNodesPerFace(T), Len(a.edges)) ]

TypeOK == WellFormed(mesh, NNode) /\ Manifold(mesh)

EdgeTables == LET t == Tables  E == t.E  EF == t.EF
              IN /\ EdgeTableOK(mesh, NNode, E)
                 /\ Len(EF) = Len(E)
                 /\ \A k \in 1..Len(E) : EdgeFaceRowOK(mesh, E[k], EF[k])

L2_FaceDiff == LET t == Tables  E == t.E  EF == t.EF
               IN \A r \in 1..4 : \A D \in { 1, 2 } : AlgFaceDiff(EF, Y(r), D) = SpecFaceDiff(mesh, E, Y(r), D)
L2_NodeDiff == LET E == Tables.E
               IN \A r \in 1..4 : AlgNodeDiff(E, xrows[r], 1) = SpecNodeDiff(E, xrows[r], 1)

Laws == LET E == Tables.E IN \A r \in 1..4 : DiffLaws(mesh, E, xrows[r], Y(r))

\* with the tracer rows the result names the pair: distinct edges have distinct node differences,
\* and a face difference is zero exactly on boundary edges
TracerReadable ==
    LET E  == Tables.E
        nd == SpecNodeDiff(E, xrows[1], 1)
        fd == SpecFaceDiff(mesh, E, Y(1), 1)
    IN /\ \A k, l \in 1..Len(E) : k # l => nd[k] # nd[l]
       /\ \A k \in 1..Len(E) : (fd[k][1] = 0) <=> IsBoundaryRow(mesh, E[k])

\* boundary and interior edges both occur in the scope (not vacuous): checked by the harness from the dump
=============================================================================

------------------------------ MODULE CoordCap ------------------------------
(***************************************************************************)
(* A mesh with nodes close to, but not at, the poles, for C04.             *)
(*                                                                         *)
(* The catalogue (Catalog.tla) keeps |coordinates| <= 3, so its nodes are  *)
(* either exactly at a pole or more than 18 degrees away: a pole-snapping  *)
(* tolerance much larger than the documented 1e-8 would go unnoticed.      *)
(* CapMesh(K) is a closed 16-face mesh whose two rings of four nodes       *)
(* (+-1, 0, +-K), (0, +-1, +-K) sit atan(1/K) from the poles; it also has   *)
(* nodes at both poles, on the antimeridian, on the prime meridian, and    *)
(* triangles and quadrilaterals.  TLC proves it well-formed (distinct      *)
(* directions, every face convex and counter-clockwise, closed: every      *)
(* directed side has its opposite, Euler) and prints it, for every K in    *)
(* the constant set Ks.                                                    *)
(*                                                                         *)
(* Large K (rings 0.003 .. 0.2 degrees from the poles: K = 286, 573, 2865, *)
(* 19099) overflow TLC's 32-bit integers in the determinants, so they are  *)
(* covered by the scaled twin K = 1: CapMesh(K) is the image of CapMesh(1) *)
(* under the linear map T = diag(1, 1, K) up to positive rescaling of      *)
(* single vectors ((0,0,+-1) -> (0,0,+-K)).  det T = K > 0, so             *)
(* Det(Ta, Tb, Tc) = K Det(a, b, c): every determinant sign in ConvexCCW   *)
(* is the same; T is invertible, so distinct directions stay distinct; the *)
(* face lists (hence closedness and Euler) do not depend on K.  Hence      *)
(* WellFormed(1) <=> WellFormed(K) for every K >= 1.  TLC checks K = 1 and,*)
(* directly, every K of Ks small enough (12, 57, 286, 573).  The harness   *)
(* builds the large-K meshes from the printed K = 1 twin by applying T;    *)
(* TLC only carries node ids.                                              *)
(***************************************************************************)
EXTENDS SphereZ, TLC

CONSTANT Ks
VARIABLE K          \* 0 before a twin is chosen

\* 0: north pole, 1..4 north ring, 5..8 equator, 9..12 south ring, 13: south pole
CapNodes == << <<0, 0, 1>>,
               <<1, 0, K>>, <<0, 1, K>>, <<-1, 0, K>>, <<0, -1, K>>,
               <<1, 0, 0>>, <<0, 1, 0>>, <<-1, 0, 0>>, <<0, -1, 0>>,
               <<1, 0, -K>>, <<0, 1, -K>>, <<-1, 0, -K>>, <<0, -1, -K>>,
               <<0, 0, -1>> >>
Nx(j) == IF j = 4 THEN 1 ELSE j + 1
\* faces as 0-based node lists, counter-clockwise seen from outside
CapFaces ==
  [j \in 1..4 |-> <<0, j, Nx(j)>>] \o
  [j \in 1..4 |-> <<j, 4 + j, 4 + Nx(j), Nx(j)>>] \o
  [j \in 1..4 |-> <<4 + j, 8 + j, 8 + Nx(j), 4 + Nx(j)>>] \o
  [j \in 1..4 |-> <<13, 8 + Nx(j), 8 + j>>]

Dirs(f) == [c \in 1..Len(f) |-> CapNodes[f[c] + 1]]
Sides(f) == { <<f[c], f[NextI(f, c)]>> : c \in 1..Len(f) }
AllSides == UNION { Sides(CapFaces[j]) : j \in 1..Len(CapFaces) }

WellFormed ==
  /\ \A a, b \in 1..Len(CapNodes) : a # b => ~SameDir(CapNodes[a], CapNodes[b])
  /\ \A j \in 1..Len(CapFaces) : ConvexCCW(Dirs(CapFaces[j]))
  /\ \A s \in AllSides : <<s[2], s[1]>> \in AllSides
  /\ \A j, l \in 1..Len(CapFaces) : j # l => Sides(CapFaces[j]) \cap Sides(CapFaces[l]) = {}
  /\ Len(CapNodes) - Cardinality(AllSides) \div 2 + Len(CapFaces) = 2

Init == K = 0
Next == K = 0 /\ K' \in Ks
Checked == K > 0 => WellFormed
Emit == K > 0 => PrintT(<<"CAP", [nodes |-> CapNodes, faces |-> CapFaces, k |-> K]>>)
=============================================================================

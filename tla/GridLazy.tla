------------------------------ MODULE GridLazy ------------------------------
(***************************************************************************)
(* A uxarray Grid as what it is operationally: a lazily evaluated,         *)
(* caching, aliasing state machine.                                        *)
(*                                                                         *)
(*  - every Grid handle h points at a dataset object ds[h]; the dataset    *)
(*    grows as derived variables are first read (`store`);                 *)
(*  - five caches per handle (ball tree, k-d tree, GeoDataFrame,           *)
(*    PolyCollection, LineCollection) hold an object together with the     *)
(*    key fields that were *stored* for it; a request compares a subset    *)
(*    of its own arguments with that key to decide about reuse;            *)
(*  - copy() and to_xarray("ugrid") may hand out the dataset object        *)
(*    itself; export calls may hand out the cached object itself;          *)
(*  - module-level attribute dictionaries serve as templates and can be    *)
(*    polluted;                                                            *)
(*  - mutators (normalize, construct_face_centers, setters, caller edits   *)
(*    of returned objects) change the version of what an object holds.     *)
(*                                                                         *)
(* Each such *mechanism choice* is data in the record Mech.  The machine   *)
(* is checked against the ideal "a grid is an immutable value and every    *)
(* observation is a function of the source and the call's arguments"       *)
(* (properties C08, C19, history clauses of C05 C07 C11 C15) by the         *)
(* invariants at the end:  Refines, TemplatesConstant, CachesTruthful,     *)
(* NoSharedDatasets, ExportsDetached.                                      *)
(*                                                                         *)
(* MechIntended makes every choice so that the invariants hold (TLC        *)
(* proves it, bounded).  MechObserved is transcribed from the code as      *)
(* read; TLC's counterexamples under it are short histories which the      *)
(* harness replays against the real code.                                  *)
(***************************************************************************)
EXTENDS Integers, Sequences, FiniteSets, TLC

CONSTANTS Handles,     \* all grid handles (numbers 1..N); Base \subseteq Handles exist initially
          Base,
          Mech,        \* mechanism record, see MechIntended / MechObserved
          MaxMut,      \* bound on version numbers (mutations)
          Focus        \* families of actions enabled in this configuration

(* ---- alphabets ---------------------------------------------------------- *)
Kinds   == { "nodes", "faces", "edges" }
Systems == { "spherical", "cartesian" }
BallMetrics(s) == IF s = "spherical" THEN { "haversine" } ELSE { "minkowski", "chebyshev" }
KdMetrics(s)   == { "minkowski", "chebyshev" }
PEs     == { "exclude", "split", "ignore" }
Projs   == { "none", "robinson", "robinson180" }   \* the last one moves the seam (central longitude 180)
Engs    == { "spatialpandas", "geopandas" }
Fmts    == { "ugrid", "exodus", "scrip" }
AreaArgs == { <<"triangular", 4, TRUE>>, <<"triangular", 1, TRUE>>, <<"gaussian", 4, TRUE>>,
              <<"gaussian", 8, TRUE>>, <<"triangular", 8, FALSE>>, <<"gaussian", 2, FALSE>> }
DefaultArea == <<"triangular", 4, TRUE>>

\* names a caller can read lazily (properties of Grid)
VarNames == { "n_nodes_per_face", "edge_node_connectivity", "n_edge", "face_edge_connectivity",
              "edge_face_connectivity", "face_face_connectivity", "node_face_connectivity",
              "hole_edge_indices", "node_lon", "node_lat", "node_x", "node_z", "face_lon", "face_lat",
              "face_x", "face_z", "edge_lon", "edge_x", "edge_node_z", "face_areas", "face_jacobian",
              "bounds", "edge_node_distances", "edge_face_distances", "antimeridian_face_indices",
              "n_max_face_edges", "n_max_node_faces", "n_max_face_faces", "face_node_connectivity",
              "n_max_face_nodes" }

\* variables a dataset can hold
Stored == { "face_node_connectivity", "node_lon", "node_lat", "node_x", "node_y", "node_z",
            "n_nodes_per_face", "edge_node_connectivity", "face_edge_connectivity",
            "edge_face_connectivity", "face_face_connectivity", "node_face_connectivity",
            "hole_edge_indices", "face_lon", "face_lat", "face_x", "face_y", "face_z",
            "edge_lon", "edge_lat", "edge_x", "edge_y", "edge_z", "edge_node_z", "face_areas",
            "bounds", "edge_node_distances", "edge_face_distances", "grid_topology" }

\* ---- descriptive part: which first read materialises which variables ------
\* (used to reach the right abstract states and for MODEL-DRIFT diagnostics; a
\*  refactor that materialises one more helper is not a violation)
NodeLL  == { "node_lon", "node_lat" }
NodeXYZ == { "node_x", "node_y", "node_z" }
FaceLL  == { "face_lon", "face_lat" }
FaceXYZ == { "face_x", "face_y", "face_z" }
EdgeLL  == { "edge_lon", "edge_lat" }
EdgeXYZ == { "edge_x", "edge_y", "edge_z" }
Edges   == { "edge_node_connectivity" }
FaceEdges == Edges \cup { "face_edge_connectivity" }
EdgeFaces == FaceEdges \cup { "edge_face_connectivity", "n_nodes_per_face" }

Needs(v) ==
  CASE v = "n_nodes_per_face"        -> { "n_nodes_per_face" }
    [] v = "edge_node_connectivity"  -> Edges
    [] v = "n_edge"                  -> Edges
    [] v = "face_edge_connectivity"  -> FaceEdges
    [] v = "n_max_face_edges"        -> FaceEdges
    [] v = "edge_face_connectivity"  -> EdgeFaces
    [] v = "face_face_connectivity"  -> EdgeFaces \cup { "face_face_connectivity" }
    [] v = "n_max_face_faces"        -> EdgeFaces \cup { "face_face_connectivity" }
    [] v = "node_face_connectivity"  -> { "node_face_connectivity" }
    [] v = "n_max_node_faces"        -> { "node_face_connectivity" }
    [] v = "hole_edge_indices"       -> EdgeFaces \cup { "hole_edge_indices" }
    [] v \in NodeLL                  -> NodeLL
    [] v \in { "node_x", "node_z" }  -> NodeXYZ
    [] v \in FaceLL                  -> FaceLL \cup FaceXYZ \cup NodeXYZ \cup { "n_nodes_per_face" }
    [] v \in { "face_x", "face_z" }  -> FaceLL \cup FaceXYZ \cup NodeXYZ \cup { "n_nodes_per_face" }
    [] v = "edge_lon"                -> EdgeLL \cup EdgeXYZ \cup NodeXYZ \cup Edges
    [] v = "edge_x"                  -> EdgeLL \cup EdgeXYZ \cup NodeXYZ \cup Edges
    [] v = "edge_node_z"             -> NodeXYZ \cup Edges \cup { "edge_node_z" }
    [] v = "face_areas"              -> NodeLL \cup { "face_areas", "n_nodes_per_face" }
    [] v = "face_jacobian"           -> NodeLL \cup { "face_areas", "n_nodes_per_face" }
    [] v = "bounds"                  -> FaceEdges \cup NodeXYZ \cup NodeLL \cup { "bounds" }
    [] v = "edge_node_distances"     -> Edges \cup NodeLL \cup { "edge_node_distances" }
    [] v = "edge_face_distances"     -> EdgeFaces \cup FaceLL \cup FaceXYZ \cup NodeXYZ \cup { "edge_face_distances" }
    [] v = "antimeridian_face_indices" -> NodeLL \cup { "n_nodes_per_face" }
    [] OTHER                         -> {}

\* polygons / lines are built from node longitudes and latitudes
PlotNeeds == NodeLL \cup { "n_nodes_per_face" }

(* ---- state -------------------------------------------------------------- *)
VARIABLES
  ds,        \* [Handles -> DsId \cup {0}]   0 = handle not in use; dataset object ids are 1..
  store,     \* [DsIds -> SUBSET Stored]     variables materialised in a dataset object
  ver,       \* [DsIds -> Nat]               how often the dataset's contents were *mutated*
  ideal,     \* [Handles -> Nat]             how often this handle was mutated (the ideal's view)
  ball, kd,  \* [Handles -> tree record or NoObj]
  gdf, poly, line,  \* [Handles -> cache record or NoObj]
  jac,       \* [Handles -> AreaArgs \cup {NoObj}]  arguments behind what face_jacobian returns
  tmpl,      \* set of <<template, handle>>: template polluted with this handle's names
  exports,   \* set of export records [h, fmt, alias, ver]
  last       \* the last call and what it returned (abstract)

vars == << ds, store, ver, ideal, ball, kd, gdf, poly, line, jac, tmpl, exports, last >>

NoObj == [none |-> TRUE]
DsIds == Handles

Live(h) == ds[h] # 0
D(h)    == ds[h]
FreeDs  == { d \in DsIds : \A h \in Handles : ds[h] # d }

TreeRec(k, s, m) == [kind |-> k, sys |-> s, metric |-> m]
\* a plotting cache entry: the arguments the object was BUILT with, the key fields that
\* were STORED next to it, extra data columns written into the object, caller edits
CacheRec(built, key) == [built |-> built, key |-> key, cols |-> {}, edited |-> FALSE]

\* what a source supplies: lon/lat nodes (most readers) or Cartesian nodes only (face-vertex arrays)
SrcLonLat == { "face_node_connectivity" } \cup NodeLL
SrcXYZ    == { "face_node_connectivity" } \cup NodeXYZ

InitWith(S) ==
  /\ ds = [h \in Handles |-> IF h \in Base THEN h ELSE 0]
  /\ store = [d \in DsIds |-> IF d \in Base THEN S[d] ELSE {}]
  /\ ver   = [d \in DsIds |-> 0]
  /\ ideal = [h \in Handles |-> 0]
  /\ ball = [h \in Handles |-> NoObj] /\ kd = [h \in Handles |-> NoObj]
  /\ gdf = [h \in Handles |-> NoObj] /\ poly = [h \in Handles |-> NoObj] /\ line = [h \in Handles |-> NoObj]
  /\ jac = [h \in Handles |-> NoObj]
  /\ tmpl = {}
  /\ exports = {}
  /\ last = [act |-> "Open", h |-> 0, args |-> <<>>, obs |-> <<>>, want |-> <<>>]

\* handle 1 opened from a lon/lat source, every other base handle from an xyz-only source
Init == InitWith([d \in DsIds |-> IF d = 1 THEN SrcLonLat ELSE SrcXYZ])

Materialise(h, S) == store' = [store EXCEPT ![D(h)] = @ \cup S]

Obs(act, h, args, obs, want) == last' = [act |-> act, h |-> h, args |-> args, obs |-> obs, want |-> want]

(* ---- read-only operations (alphabet of C08) ----------------------------- *)
\* reading a lazily derived attribute
Access(h, v) ==
  /\ Live(h)
  /\ Materialise(h, Needs(v))
  /\ jac' = IF v \in { "face_areas", "face_jacobian" } /\ "face_areas" \notin store[D(h)]
            THEN [jac EXCEPT ![h] = DefaultArea] ELSE jac
  /\ Obs("Access", h, <<v>>,
         \* what comes back: the dataset's version of the value; for face_jacobian the
         \* arguments behind the slot
         IF v = "face_jacobian"
           THEN <<ver[D(h)], IF jac[h] = NoObj \/ "face_areas" \notin store[D(h)] THEN DefaultArea ELSE jac[h]>>
           ELSE <<ver[D(h)]>>,
         IF v = "face_jacobian" THEN <<ideal[h], DefaultArea>> ELSE <<ideal[h]>>)
  /\ UNCHANGED << ds, ver, ideal, ball, kd, gdf, poly, line, tmpl, exports >>

ComputeAreas(h, a) ==
  /\ Live(h)
  /\ Materialise(h, { "n_nodes_per_face" } \cup (IF a[3] THEN NodeLL ELSE NodeXYZ))
  /\ jac' = IF Mech.jacSlot = "last_compute" THEN [jac EXCEPT ![h] = a] ELSE jac
  /\ Obs("ComputeAreas", h, a, <<ver[D(h)], a>>, <<ideal[h], a>>)
  /\ UNCHANGED << ds, ver, ideal, ball, kd, gdf, poly, line, tmpl, exports >>

\* trees: one cached wrapper per handle and tree type; the wrapper is re-used when the
\* compared fields agree, and its element kind is switched in place
TreeReuse(cur, s, m, rec) ==
  /\ cur # NoObj
  /\ ~rec
  /\ ("sys" \in Mech.treeCmp => cur.sys = s)
  /\ ("metric" \in Mech.treeCmp => cur.metric = m)

GetTree(which, h, k, s, m, rec) ==
  LET cur == IF which = "ball" THEN ball[h] ELSE kd[h]
      new == IF TreeReuse(cur, s, m, rec)
               THEN [cur EXCEPT !.kind = IF "kind" \in Mech.treeSwitch THEN k ELSE @]
               ELSE TreeRec(k, s, m)
  IN /\ Live(h)
     /\ Materialise(h, CASE k = "nodes" -> IF s = "cartesian" THEN NodeXYZ ELSE NodeLL
                         [] k = "faces" -> Needs("face_lon")
                         [] k = "edges" -> Needs("edge_lon"))
     /\ IF which = "ball" THEN ball' = [ball EXCEPT ![h] = new] /\ kd' = kd
                          ELSE kd' = [kd EXCEPT ![h] = new] /\ ball' = ball
     /\ Obs(IF which = "ball" THEN "GetBallTree" ELSE "GetKdTree", h, <<k, s, m, rec>>,
            <<ver[D(h)], new>>, <<ideal[h], TreeRec(k, s, m)>>)
     /\ UNCHANGED << ds, ver, ideal, gdf, poly, line, jac, tmpl, exports >>

\* plotting caches.  req: the call's arguments as a record; cmp/sto: the fields compared / stored
KeyOf(req, fields) == [f \in fields |-> req[f]]
Hit(cur, req, cmp, override) ==
  /\ cur # NoObj
  /\ ~override
  /\ \A f \in cmp \cap DOMAIN cur.key : cur.key[f] = req[f]

ToGdf(h, pe, pr, en, cache, override) ==
  LET req == [pe |-> pe, proj |-> pr, eng |-> en]
      hit == Hit(gdf[h], req, Mech.gdfCmp, override)
      ret == IF hit THEN gdf[h] ELSE CacheRec(req, KeyOf(req, Mech.gdfStore))
  IN /\ Live(h) /\ (pe = "split" => pr = "none")
     /\ Materialise(h, PlotNeeds)
     /\ gdf' = IF ~hit /\ cache THEN [gdf EXCEPT ![h] = ret] ELSE gdf
     /\ Obs("ToGdf", h, <<pe, pr, en, cache, override>>,
            <<ver[D(h)], ret.built, ret.cols, ret.edited>>, <<ideal[h], req, {}, FALSE>>)
     /\ UNCHANGED << ds, ver, ideal, ball, kd, poly, line, jac, tmpl, exports >>

\* UxDataArray.to_geodataframe: the grid's frame plus one data column named after the variable
DataToGdf(h, pe, en, col, cache) ==
  LET req == [pe |-> pe, proj |-> "none", eng |-> en]
      hit == Hit(gdf[h], req, Mech.gdfCmp, FALSE)
      base == IF hit THEN gdf[h] ELSE CacheRec(req, KeyOf(req, Mech.gdfStore))
      withcol == [base EXCEPT !.cols = @ \cup { col }]
      kept == IF Mech.dataColInto = "cached" THEN withcol ELSE base
  IN /\ Live(h) /\ pe # "split"
     /\ Materialise(h, PlotNeeds)
     \* on a hit the grid hands out its cached frame whatever `cache` says; a new frame is kept only if asked to
     /\ gdf' = IF hit \/ cache THEN [gdf EXCEPT ![h] = kept] ELSE gdf
     /\ Obs("DataToGdf", h, <<pe, en, col, cache>>,
            <<ver[D(h)], base.built, withcol.cols, base.edited>>, <<ideal[h], req, { col }, FALSE>>)
     /\ UNCHANGED << ds, ver, ideal, ball, kd, poly, line, jac, tmpl, exports >>

ToPoly(h, pe, pr, cache, override) ==
  LET req == [pe |-> pe, proj |-> pr]
      hit == Hit(poly[h], req, Mech.polyCmp, override)
      ret == IF hit THEN poly[h] ELSE CacheRec(req, KeyOf(req, Mech.polyStore))
  IN /\ Live(h) /\ (pe = "split" => pr = "none")
     /\ Materialise(h, PlotNeeds)
     /\ poly' = IF ~hit /\ cache THEN [poly EXCEPT ![h] = ret] ELSE poly
     /\ Obs("ToPoly", h, <<pe, pr, cache, override>>,
            <<ver[D(h)], ret.built, ret.edited>>, <<ideal[h], req, FALSE>>)
     /\ UNCHANGED << ds, ver, ideal, ball, kd, gdf, line, jac, tmpl, exports >>

ToLine(h, pe, pr, cache, override) ==
  LET req == [pe |-> pe, proj |-> pr]
      hit == Hit(line[h], req, Mech.lineCmp, override)
      ret == IF hit THEN line[h] ELSE CacheRec(req, KeyOf(req, Mech.lineStore))
  IN /\ Live(h) /\ (pe = "split" => pr = "none")
     /\ Materialise(h, PlotNeeds)
     /\ line' = IF ~hit /\ cache THEN [line EXCEPT ![h] = ret] ELSE line
     /\ Obs("ToLine", h, <<pe, pr, cache, override>>,
            <<ver[D(h)], ret.built, ret.edited>>, <<ideal[h], req, FALSE>>)
     /\ UNCHANGED << ds, ver, ideal, ball, kd, gdf, poly, jac, tmpl, exports >>

\* exports.  The UGRID encoder names in its topology metadata what the dataset holds --
\* plus whatever pollutes the template.
TopoNames(h) == { v \in store[D(h)] : v \in { "edge_node_connectivity", "face_edge_connectivity",
                      "edge_face_connectivity", "face_face_connectivity", "node_face_connectivity",
                      "face_lon", "edge_lon" } }
Pollution(t) == UNION { TopoNames(g) : g \in { x \in Handles : <<t, x>> \in tmpl /\ Live(x) } }

ToXarray(h, f) ==
  LET alias == IF f = "ugrid" /\ Mech.ugridExport = "internal" /\ "grid_topology" \notin store[D(h)]
                 THEN D(h) ELSE 0
      named == IF f = "ugrid" THEN TopoNames(h) \cup Pollution("topo") ELSE {}
  IN /\ Live(h)
     /\ Materialise(h, (IF f = "scrip" THEN Needs("face_areas") ELSE IF f = "ugrid" THEN NodeLL ELSE {})
                        \cup (IF alias # 0 THEN { "grid_topology" } ELSE {}))
     /\ tmpl' = IF f = "ugrid" /\ Mech.topoTmpl = "shared" THEN tmpl \cup { <<"topo", h>> } ELSE tmpl
     /\ exports' = exports \cup { [h |-> h, fmt |-> f, alias |-> alias] }
     /\ jac' = IF f = "scrip" /\ "face_areas" \notin store[D(h)] THEN [jac EXCEPT ![h] = DefaultArea] ELSE jac
     /\ Obs("ToXarray", h, <<f>>, <<ver[D(h)], named>>, <<ideal[h], IF f = "ugrid" THEN TopoNames(h) ELSE {}>>)
     /\ UNCHANGED << ds, ver, ideal, ball, kd, gdf, poly, line >>

\* operations that return a new grid (subset, dual, cross-section): here only their effect
\* on the source matters (Subset.tla / Dual.tla specify the result)
Derive(h, how) ==
  /\ Live(h)
  /\ Materialise(h, CASE how = "isel_face" -> FaceEdges
                      [] how = "isel_node" -> FaceEdges \cup { "node_face_connectivity" }
                      [] how = "isel_edge" -> EdgeFaces
                      [] how = "xsec"      -> EdgeFaces \cup NodeXYZ \cup { "edge_node_z" }
                      [] how = "dual"      -> Needs("face_lon") \cup NodeLL \cup { "node_face_connectivity" }
                      [] how = "bbox"      -> FaceEdges \cup NodeLL \cup { "node_face_connectivity" }
                      [] OTHER             -> {})
  /\ Obs("Derive", h, <<how>>, <<ver[D(h)]>>, <<ideal[h]>>)
  /\ UNCHANGED << ds, ver, ideal, ball, kd, gdf, poly, line, jac, tmpl, exports >>

Chunk(h) ==
  /\ Live(h)
  /\ Obs("Chunk", h, <<>>, <<ver[D(h)]>>, <<ideal[h]>>)
  /\ UNCHANGED << ds, store, ver, ideal, ball, kd, gdf, poly, line, jac, tmpl, exports >>

\* every way of asking for a deep copy: Grid.copy(), copy.deepcopy(grid), and the grid that comes with a
\* deep copy of a data array / dataset holding it (with and without replacement data)
CopyRoutes == { "grid", "deepcopy", "uxda_deep", "uxda_deep_data", "uxds_deep", "uxds_deep_data" }

Copy(h, c, route) ==
  /\ Live(h) /\ ~Live(c)
  /\ IF Mech.copyDs = "shared" \/ route \in Mech.copyShares
       THEN ds' = [ds EXCEPT ![c] = D(h)] /\ UNCHANGED << store, ver >>
       ELSE \E d \in FreeDs : /\ d = CHOOSE x \in FreeDs : \A y \in FreeDs : x <= y
                              /\ ds' = [ds EXCEPT ![c] = d]
                              /\ store' = [store EXCEPT ![d] = store[D(h)]]
                              /\ ver' = [ver EXCEPT ![d] = ver[D(h)]]
  /\ ideal' = [ideal EXCEPT ![c] = ideal[h]]
  /\ Obs("Copy", h, <<c, route>>, <<ver[D(h)]>>, <<ideal[h]>>)
  /\ UNCHANGED << ball, kd, gdf, poly, line, jac, tmpl, exports >>

(* ---- mutators (alphabet of C19) ----------------------------------------- *)
\* any public mutator of the grid: normalize_cartesian_coordinates, construct_face_centers,
\* a property setter, an in-place edit of the array behind a property ("inplace").  It changes what THIS handle reports, and nothing else.
Mutate(h, how) ==
  /\ Live(h) /\ ver[D(h)] < MaxMut
  /\ ver' = [ver EXCEPT ![D(h)] = @ + 1]
  /\ ideal' = [ideal EXCEPT ![h] = @ + 1]
  /\ Materialise(h, IF how = "face_centers" THEN Needs("face_lon") \cup NodeLL
                     ELSE IF how \in { "setter", "inplace" } THEN NodeLL ELSE {})
  /\ Obs("Mutate", h, <<how>>, <<>>, <<>>)
  /\ UNCHANGED << ds, ball, kd, gdf, poly, line, jac, tmpl, exports >>

\* the caller edits a dataset it got from to_xarray
EditExport(e) ==
  /\ e \in exports
  /\ e.alias # 0 => ver[e.alias] < MaxMut
  /\ ver' = IF e.alias # 0 THEN [ver EXCEPT ![e.alias] = @ + 1] ELSE ver
  /\ Obs("EditExport", e.h, <<e.fmt>>, <<>>, <<>>)
  /\ UNCHANGED << ds, store, ideal, ball, kd, gdf, poly, line, jac, tmpl, exports >>

\* the caller edits a frame / collection it got from an export call
EditReturned(h, what) ==
  /\ Live(h)
  /\ CASE what = "gdf"  -> /\ gdf[h] # NoObj
                           /\ gdf' = IF Mech.gdfReturn = "cached" THEN [gdf EXCEPT ![h].edited = TRUE] ELSE gdf
                           /\ UNCHANGED << poly, line >>
       [] what = "poly" -> /\ poly[h] # NoObj
                           /\ poly' = IF Mech.polyReturn = "cached" THEN [poly EXCEPT ![h].edited = TRUE] ELSE poly
                           /\ UNCHANGED << gdf, line >>
       [] what = "line" -> /\ line[h] # NoObj
                           /\ line' = IF Mech.lineReturn = "cached" THEN [line EXCEPT ![h].edited = TRUE] ELSE line
                           /\ UNCHANGED << gdf, poly >>
  /\ Obs("EditReturned", h, <<what>>, <<>>, <<>>)
  /\ UNCHANGED << ds, store, ver, ideal, ball, kd, jac, tmpl, exports >>

\* the caller goes on using what it handed to the constructor: it overwrites, in place, the arrays (coordinate
\* arrays, connectivity, the variables of its dataset) the grid on handle h was built from.  What the grid reports
\* must not change; a mechanism that keeps the caller's buffers (Mech.inputShares) changes behind the handle's back
EditInput(h) ==
  /\ Live(h) /\ h \in Base
  /\ ver[D(h)] < MaxMut
  /\ ver' = IF Mech.inputShares THEN [ver EXCEPT ![D(h)] = @ + 1] ELSE ver
  /\ Obs("EditInput", h, <<>>, <<>>, <<>>)
  /\ UNCHANGED << ds, store, ideal, ball, kd, gdf, poly, line, jac, tmpl, exports >>

(* ---- next-state relations ------------------------------------------------ *)
Families == { "access", "access1", "plot1", "areas", "trees", "plot", "data", "export", "derive", "chunk", "mutate", "edit", "copy",
              "flags", "metrics", "norec", "all" }   \* "flags": cache/override variants; "metrics": non-default metrics
On(f) == f \in Focus \/ "all" \in Focus
FlagVals(dflt) == IF On("flags") THEN BOOLEAN ELSE { dflt }
MetricsOn(S) == IF On("metrics") THEN S ELSE S \ { "chebyshev" }

\* reduced alphabets for configurations that concentrate on aliasing (C19)
AccessVars == IF On("access") THEN VarNames
              ELSE IF On("access1") THEN { "node_lat", "node_x", "face_lon", "edge_node_connectivity", "face_areas" }
              ELSE {}
PlotOne(pe, pr, en) == On("plot") \/ (pe = "exclude" /\ pr = "none" /\ en = "geopandas")

ReadOnly ==
  \E h \in Handles :
    \/ \E v \in AccessVars : Access(h, v)
    \/ On("areas") /\ \E a \in AreaArgs : ComputeAreas(h, a)
    \/ On("trees") /\ \E k \in Kinds, s \in Systems, rec \in (IF "norec" \in Focus THEN { FALSE } ELSE BOOLEAN) :
         \/ \E m \in MetricsOn(BallMetrics(s)) : GetTree("ball", h, k, s, m, rec)
         \/ \E m \in MetricsOn(KdMetrics(s)) : GetTree("kd", h, k, s, m, rec)
    \/ (On("plot") \/ On("plot1")) /\ \E pe \in PEs, pr \in Projs, cache \in FlagVals(TRUE), override \in FlagVals(FALSE) :
         \/ \E en \in Engs : PlotOne(pe, pr, en) /\ ToGdf(h, pe, pr, en, cache, override)
         \/ PlotOne(pe, pr, "geopandas") /\ ToPoly(h, pe, pr, cache, override)
         \/ PlotOne(pe, pr, "geopandas") /\ ToLine(h, pe, pr, cache, override)
    \/ On("data") /\ \E pe \in PEs, en \in Engs, col \in { "a", "b" }, cache \in FlagVals(TRUE) : DataToGdf(h, pe, en, col, cache)
    \/ On("export") /\ \E f \in Fmts : ToXarray(h, f)
    \/ On("derive") /\ \E how \in { "isel_face", "isel_node", "isel_edge", "xsec", "dual", "bbox" } : Derive(h, how)
    \/ On("chunk") /\ Chunk(h)

Mutators ==
  \/ On("mutate") /\ \E h \in Handles, how \in { "normalize", "face_centers", "setter", "inplace" } : Mutate(h, how)
  \/ On("edit") /\ \E h \in Handles : EditInput(h)
  \/ On("edit") /\ \E e \in exports : EditExport(e)
  \/ On("edit") /\ \E h \in Handles, what \in { "gdf", "poly", "line" } : EditReturned(h, what)
  \/ On("copy") /\ \E h \in Handles, c \in Handles \ Base, route \in CopyRoutes : Copy(h, c, route)

Next     == ReadOnly \/ Mutators
NextRead == ReadOnly

Spec == Init /\ [][Next]_vars

(* ---- the ideal, and the invariants --------------------------------------- *)
\* C08 / C15 / C11 (history clauses): what a call returns is what the ideal returns
Refines == last.obs = last.want

\* C08: no call alters the library's module-level constants
TemplatesConstant == tmpl = {}

\* every cache says the truth about the object it holds (a lie is a leak waiting for the
\* next request that compares only the stored fields)
Truthful(c) == \/ c = NoObj
               \/ /\ \A f \in DOMAIN c.key : c.key[f] = c.built[f]
                  /\ c.cols = {}
                  /\ ~c.edited
CachesTruthful == \A h \in Handles : Truthful(gdf[h]) /\ Truthful(poly[h]) /\ Truthful(line[h])
CacheKeysComplete ==
  \A h \in Handles : /\ gdf[h] # NoObj  => DOMAIN gdf[h].key  = { "pe", "proj", "eng" }
                     /\ poly[h] # NoObj => DOMAIN poly[h].key = { "pe", "proj" }
                     /\ line[h] # NoObj => DOMAIN line[h].key = { "pe", "proj" }

\* C19: a grid shares no dataset object with another grid, nor with an export
NoSharedDatasets == \A h, g \in Handles : h # g /\ Live(h) /\ Live(g) => D(h) # D(g)
ExportsDetached  == \A e \in exports : e.alias = 0
\* C19, stated on values: what every handle reports is its own history of mutations
HandleSeesOwnVersion == \A h \in Handles : Live(h) => ver[D(h)] = ideal[h]

TypeOK ==
  /\ ds \in [Handles -> DsIds \cup { 0 }]
  /\ \A d \in DsIds : store[d] \subseteq Stored
  /\ \A h \in Handles : jac[h] = NoObj \/ jac[h] \in AreaArgs

\* depth bounds for configurations whose full state space is too large
Depth3 == TLCGet("level") <= 3
Depth4 == TLCGet("level") <= 4
Depth5 == TLCGet("level") <= 5
Depth6 == TLCGet("level") <= 6

(* ---- mechanisms ----------------------------------------------------------- *)
MechIntended ==
  [ treeCmp |-> { "sys", "metric" }, treeSwitch |-> { "kind" },
    gdfCmp |-> { "pe", "proj", "eng" }, gdfStore |-> { "pe", "proj", "eng" },
    polyCmp |-> { "pe", "proj" }, polyStore |-> { "pe", "proj" },
    lineCmp |-> { "pe", "proj" }, lineStore |-> { "pe", "proj" },
    gdfReturn |-> "copy", polyReturn |-> "copy", lineReturn |-> "copy", dataColInto |-> "copy",
    copyDs |-> "deep", copyShares |-> {}, inputShares |-> FALSE, ugridExport |-> "new", topoTmpl |-> "copied", jacSlot |-> "default_only" ]

\* the code as it is now (pinned commit plus the fix: commits recorded in known_findings.json): the
\* only remaining deviation from the intended mechanism is that to_geodataframe hands out its cached
\* frame (known finding C19-F6 / C15-F7: a pinned test asserts that identity)
MechObserved ==
  [ treeCmp |-> { "sys", "metric" }, treeSwitch |-> { "kind" },
    gdfCmp |-> { "pe", "proj", "eng" }, gdfStore |-> { "pe", "proj", "eng" },
    polyCmp |-> { "pe", "proj" }, polyStore |-> { "pe", "proj" },
    lineCmp |-> { "pe", "proj" }, lineStore |-> { "pe", "proj" },
    gdfReturn |-> "cached", polyReturn |-> "copy", lineReturn |-> "copy", dataColInto |-> "copy",
    copyDs |-> "deep", copyShares |-> {}, inputShares |-> FALSE, ugridExport |-> "new", topoTmpl |-> "copied", jacSlot |-> "default_only" ]

\* the code as it was before the fix: commits (kept to show that the model finds each defect)
MechPinned ==
  [ treeCmp |-> {}, treeSwitch |-> { "kind" },
    gdfCmp |-> { "pe", "proj", "eng" }, gdfStore |-> { "pe", "proj", "eng" },
    polyCmp |-> { "pe", "proj" }, polyStore |-> { "pe", "proj" },
    lineCmp |-> { "pe", "proj" }, lineStore |-> { "pe" },
    gdfReturn |-> "cached", polyReturn |-> "copy", lineReturn |-> "cached", dataColInto |-> "cached",
    copyDs |-> "shared", copyShares |-> {}, inputShares |-> FALSE, ugridExport |-> "internal", topoTmpl |-> "shared", jacSlot |-> "last_compute" ]

\* a deep copy of a data array / dataset made with replacement data keeps the original's Grid
\* (kept to show that the model tells the copy routes apart)
MechCopyDataShares == [ MechIntended EXCEPT !.copyShares = { "uxda_deep_data", "uxds_deep_data" } ]

\* the grid keeps the caller's own buffers (kept to show that EditInput is not vacuous)
MechInputShares == [ MechIntended EXCEPT !.inputShares = TRUE ]
=============================================================================

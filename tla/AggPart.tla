------------------------------ MODULE AggPart ------------------------------
(***************************************************************************)
(* The size partition depends only on n_nodes_per_face.  Scope: every      *)
(* vector of 1..MaxF face sizes drawn from Sizes (any mix, any face        *)
(* ordering) and EVERY arrangement argsort may return for it.  Invariant:  *)
(* the transcribed argsort / unique / cumsum partition puts each face in   *)
(* exactly one slice, the slice of its own size, and the slices tile       *)
(* order[0:n_face].                                                        *)
(***************************************************************************)
EXTENDS Aggregate

CONSTANTS MaxF, Sizes

VARIABLE N

Init == N \in { <<s>> : s \in Sizes }
Next == Len(N) < MaxF /\ \E s \in Sizes : N' = Append(N, s)

PartitionOK ==
    \A o \in AscendingOrders(N) :
        LET p == AlgPartition(N, o)
        IN /\ PartitionSound(N, p)
           /\ IsSizePartition(N, p.order, p.sizes, p.counts, p.change)
           /\ p.change[Len(p.change)] = Len(N)
           /\ \A i \in 1..Len(p.sizes) : Cardinality(PartFaces(p, i)) = p.counts[i]

\* a transcription with an off-by-one in the slice must be distinguishable: the check is not vacuous
ShiftedIsWrong ==
    Cardinality(Range(N)) >= 2 =>
        \E o \in AscendingOrders(N) :
            LET p == AlgPartition(N, o)
                q == [ p EXCEPT !.change = [ i \in 1..Len(p.change) |-> IF i = 1 THEN 0 ELSE p.change[i] - 1 ] ]
            IN ~PartitionSound(N, q)
=============================================================================

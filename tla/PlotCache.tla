----------------------------- MODULE PlotCache -----------------------------
(***************************************************************************)
(* C15, history part: the state machine of the three plotting caches of    *)
(* one grid (operators and mechanism records in PlotMech.tla).             *)
(*                                                                         *)
(* Model checking:  Mech <- MechIntended, invariants NoBad, EntryCoherent, *)
(*   NoAliasing: the lazy design CAN meet the property.                    *)
(* Generation:      Mech <- MechObserved, KeepHist: every history up to    *)
(*   MaxLen over the alphabet is emitted with the clauses the observed     *)
(*   mechanism is predicted to break at each step (directed tests).        *)
(* hist holds indices into Alpha (emitted once as <<"E", Alpha>>); an      *)
(* edit of the caller's object j is the index -j.                          *)
(***************************************************************************)
EXTENDS PlotMech, Integers, SequencesExt

CONSTANTS PE, PROJ, ENG, PROJECTS, FLAGS, VARS, KINDS, MaxLen, Mech, AllowEdit, KeepHist, EmitFrom, EmitMod, RIS

\* <<cache, override>> pairs (the configuration file cannot hold tuples: FLAGS <- one of these)
FlagsTwo   == { <<TRUE, FALSE>>, <<FALSE, FALSE>> }
FlagsThree == FlagsTwo \cup { <<TRUE, TRUE>> }
FlagsAll   == FlagsThree \cup { <<FALSE, TRUE>> }

Events ==
    { [ act |-> "ToGdf", pe |-> pe, proj |-> pj, eng |-> en, project |-> pr, cache |-> fl[1], override |-> fl[2], var |-> "-", target |-> 0, ri |-> FALSE ] :
        pe \in PE, pj \in PROJ, en \in ENG, pr \in PROJECTS, fl \in FLAGS }
    \cup { [ act |-> "DataToGdf", pe |-> pe, proj |-> pj, eng |-> en, project |-> pr, cache |-> fl[1], override |-> fl[2], var |-> v, target |-> 0, ri |-> FALSE ] :
        pe \in PE, pj \in PROJ, en \in ENG, pr \in PROJECTS, fl \in FLAGS, v \in VARS }
EventsPoly ==
    { [ act |-> "ToPoly", pe |-> pe, proj |-> pj, eng |-> "-", project |-> TRUE, cache |-> fl[1], override |-> fl[2], var |-> "-", target |-> 0, ri |-> ri ] :
        pe \in PE, pj \in PROJ, fl \in FLAGS, ri \in RIS }
    \cup { [ act |-> "DataToPoly", pe |-> pe, proj |-> pj, eng |-> "-", project |-> TRUE, cache |-> fl[1], override |-> fl[2], var |-> v, target |-> 0, ri |-> TRUE ] :
        pe \in PE, pj \in PROJ, fl \in FLAGS, v \in VARS }
EventsLine ==
    { [ act |-> "ToLine", pe |-> pe, proj |-> pj, eng |-> "-", project |-> TRUE, cache |-> fl[1], override |-> fl[2], var |-> "-", target |-> 0, ri |-> FALSE ] :
        pe \in PE, pj \in PROJ, fl \in FLAGS }
EditEvents(s) ==
    IF AllowEdit THEN { [ act |-> "Edit", pe |-> "-", proj |-> "-", eng |-> "-", project |-> TRUE, cache |-> FALSE, override |-> FALSE, var |-> "-", target |-> j, ri |-> FALSE ] :
                           j \in { x \in 1..Len(s.heap) : ~s.heap[x].edited } }
    ELSE {}
\* a conversion of a projected GeoDataFrame without `project` only makes sense with a projection
Sensible(ev) == ev.project \/ ev.proj # "none"
Alphabet == { ev \in (IF "gdf" \in KINDS THEN Events ELSE {}) \cup (IF "poly" \in KINDS THEN EventsPoly ELSE {})
                      \cup (IF "line" \in KINDS THEN EventsLine ELSE {}) : Sensible(ev) }

Alpha == SetToSeq(Alphabet)
ASSUME KeepHist => PrintT(<<"E", Alpha>>)

VARIABLES st, hist, bads
vars == <<st, hist, bads>>

Init == st = St0 /\ hist = <<>> /\ bads = <<>>
Next == /\ st.n < MaxLen
        /\ \/ \E i \in 1..Len(Alpha) :
                /\ st' = Step(st, Alpha[i], Mech)
                /\ hist' = IF KeepHist THEN Append(hist, i) ELSE hist
                /\ bads' = IF KeepHist THEN Append(bads, st'.bad) ELSE bads
           \/ \E ev \in EditEvents(st) :
                /\ st' = Step(st, ev, Mech)
                /\ hist' = IF KeepHist THEN Append(hist, 0 - ev.target) ELSE hist
                /\ bads' = IF KeepHist THEN Append(bads, st'.bad) ELSE bads
Spec == Init /\ [][Next]_vars

(* ---- invariants --------------------------------------------------------------------- *)
NoBad == st.bad = {}
\* the side tables a cache entry carries belong to the arguments in its key (cache_entry mechanism)
EntryCoherent ==
    /\ st.gdf.present => ( /\ st.gdf.val.geom = [ kind |-> "gdf", pe |-> st.gdf.key.pe, proj |-> st.gdf.key.proj, eng |-> st.gdf.key.eng, project |-> st.gdf.key.project ]
                           /\ st.gdf.am = Cl(st.gdf.key.proj) )
    /\ st.poly.present => ( /\ st.poly.val.geom.pe = st.poly.key.pe /\ st.poly.val.geom.proj = st.poly.key.proj
                            /\ st.poly.am = Cl(st.poly.key.proj) )
    /\ st.line.present => ( st.line.val.geom.pe = st.line.key.pe /\ st.line.val.geom.proj = st.line.key.proj )
\* under the intended mechanism the caches never hold an object the caller can reach
NoAliasing == st.gdf.obj = 0 /\ st.line.obj = 0 /\ st.poly.obj = 0
TypeOK == /\ st.n \in 0..MaxLen /\ st.ret \in 0..Len(st.heap) /\ Len(st.snap) = Len(st.heap)
          /\ st.bad \subseteq {"GeometryOfThisCall", "DataOfThisCall", "ReturnedNotMutated", "FreshObject"}

\* generation: every history of the wanted length, with the clauses the mechanism is predicted to break at each step
\* histories in which nothing is ranked bad are thinned deterministically (every EmitMod-th by a checksum of the indices)
Checksum(h) == LET n == Len(h) IN (IF n >= 1 THEN 7 * h[1] ELSE 0) + (IF n >= 2 THEN 3 * h[2] ELSE 0) + (IF n >= 3 THEN h[3] ELSE 0)
Emit == (KeepHist /\ Len(hist) >= EmitFrom /\ (bads[Len(bads)] # {} \/ EmitMod = 1 \/ (Checksum(hist) + 100000) % EmitMod = 0))
            => PrintT(<<"H", hist, bads>>)
=============================================================================

----------------------------- MODULE TraceEncode -----------------------------
(***************************************************************************)
(* Validates recorded executions of the real library against               *)
(* EncodeLazy(Mech_intended).  IOEnv.TRACE_FILE: ndjson, one line per      *)
(* call, many traces in one file; IOEnv.INDEX_FILE: ndjson, one line per   *)
(* trace [t, first, last, desc, mesh] (absolute line numbers).             *)
(*                                                                         *)
(* Every trace step is  IsEvent(line) /\ Action(args, outcome bound from   *)
(* the line); the machine's own invariants are evaluated after every       *)
(* step.  A step whose precondition fails (a line the machine cannot       *)
(* consume) stops the trace: <<"STUCK", t, line>>.  Acceptance = all lines *)
(* consumed and no clause false: <<"ACC", t>>.  Every clause that becomes  *)
(* false at a line is printed as <<"V", t, line, {<<clause, export,        *)
(* detail>>}>>; the trace goes on, so that one known defect cannot hide a  *)
(* different one later in the same trace.                                  *)
(* Differences between the logged store and the descriptive dependency     *)
(* graph are drift: <<"D", t, line, attr, extra, absent>>.                 *)
(***************************************************************************)
EXTENDS EncodeLazy, Json, IOUtils

Lines == ndJsonDeserialize(IOEnv.TRACE_FILE)
Index == ndJsonDeserialize(IOEnv.INDEX_FILE)

VARIABLES tr,      \* index of the trace being validated
          ln,      \* absolute number of the last line consumed
          stuck

tvars == <<desc, mesh, grid, exports, tmplTopo, tmplEdge, ops, bad, hist, tr, ln, stuck>>

S(seq) == { seq[i] : i \in DOMAIN seq }
Back(b) == [ st |-> b.st, faces |-> b.faces ]
Enc(e) == [ kind |-> e.kind, conn |-> e.conn, start |-> e.start, hasfill |-> e.hasfill, blocks |-> e.blocks,
            corners |-> e.corners, nnode |-> e.nnode, pos |-> e.pos, has |-> S(e.has) ]
\* the exports as they are after the call: the logged variable / helper sets of every live export
BindEx(L) == [ k \in DOMAIN exports |->
                 IF k \in DOMAIN L.ex THEN [ exports[k] EXCEPT !.vars = S(L.ex[k].vars), !.helper = S(L.ex[k].helper) ]
                 ELSE exports[k] ]

TraceInit ==
  /\ tr \in DOMAIN Index
  /\ ln = Index[tr].first - 1
  /\ stuck = FALSE
  /\ desc = [ g \in Grids |-> [ route |-> Index[tr].desc[g].route, shape |-> Index[tr].desc[g].shape ] ]
  /\ mesh = [ g \in Grids |-> Index[tr].mesh[g] ]
  /\ grid = [ g \in Grids |-> [ open |-> FALSE, store |-> {}, helper |-> {}, chunked |-> FALSE, src |-> {} ] ]
  /\ exports = <<>> /\ tmplTopo = {} /\ tmplEdge = {} /\ ops = 0 /\ bad = {} /\ hist = <<>>

IsEvent(L, ev) == L.ev = ev

StepOpen(L) ==
  /\ IsEvent(L, "Open")
  /\ Open(L.g, [ store |-> S(L.store), helper |-> S(L.helper), tT |-> S(L.tT), tE |-> S(L.tE) ])
StepAccess(L) ==
  /\ IsEvent(L, "Access")
  /\ Access(L.g, L.a, [ store |-> S(L.store), helper |-> S(L.helper), tT |-> S(L.tT), tE |-> S(L.tE), ex |-> BindEx(L) ])
StepChunk(L) ==
  /\ IsEvent(L, "Chunk")
  /\ Chunk(L.g, [ store |-> S(L.store), helper |-> S(L.helper), tT |-> S(L.tT), tE |-> S(L.tE), ex |-> BindEx(L) ])
StepToXarray(L) ==
  /\ IsEvent(L, "ToXarray")
  /\ ToXarray(L.g, L.fmt, [ status |-> L.status, vars |-> S(L.vars), names |-> S(L.names), helper |-> S(L.xhelper),
                            alias |-> L.alias, enc |-> Enc(L.enc), store |-> S(L.store), gh |-> S(L.helper),
                            tT |-> S(L.tT), tE |-> S(L.tE), ex |-> BindEx(L) ])
StepWrite(L) ==
  /\ IsEvent(L, "Write")
  /\ WriteNetcdf(L.k, [ ok |-> L.ok, enc |-> Enc(L.enc) ])
StepReopen(L) ==
  /\ IsEvent(L, "Reopen")
  /\ Reopen(L.k, L.via, Back(L))

\* the enabling conditions of the machine's actions, as state predicates (for STUCK)
CanConsume(L) ==
  CASE L.ev = "Open"     -> ~grid[L.g].open
    [] L.ev = "Access"   -> grid[L.g].open
    [] L.ev = "Chunk"    -> grid[L.g].open
    [] L.ev = "ToXarray" -> grid[L.g].open /\ Len(exports) < MaxExports
    [] L.ev = "Write"    -> L.k \in DOMAIN exports /\ exports[L.k].status = "ok"
    [] L.ev = "Reopen"   -> L.k \in DOMAIN exports /\ exports[L.k].status = "ok"
                            /\ (L.via = "file" => exports[L.k].written = "ok")
    [] OTHER -> FALSE

TraceNext ==
  /\ ~stuck
  /\ ln < Index[tr].last
  /\ LET L == Lines[ln + 1] IN
       \/ /\ CanConsume(L)
          /\ \/ StepOpen(L) \/ StepAccess(L) \/ StepChunk(L) \/ StepToXarray(L) \/ StepWrite(L) \/ StepReopen(L)
          /\ ln' = ln + 1 /\ stuck' = FALSE
          /\ bad' = Violated' \ Violated
          /\ UNCHANGED <<desc, mesh, ops, hist, tr>>
       \/ /\ ~CanConsume(L)
          /\ stuck' = TRUE
          /\ UNCHANGED <<desc, mesh, grid, exports, tmplTopo, tmplEdge, ops, bad, hist, tr, ln>>

\* ---- reporting (evaluated on every state) -----------------------------------
Drifted ==
  IF ln >= Index[tr].first /\ ~stuck /\ Lines[ln].ev = "Access" /\ Lines[ln].status = "ok"
  THEN LET L == Lines[ln]
           \* an attribute the store already holds (e.g. supplied by the source) derives nothing
           pred == IF L.a \in S(L.before) THEN S(L.before) ELSE S(L.before) \cup Need(L.a)
       IN IF S(L.store) = pred THEN {} ELSE { <<L.a, S(L.store) \ pred, pred \ S(L.store)>> }
  ELSE {}

Report ==
  /\ bad = {} \/ stuck \/ PrintT(<<"V", Index[tr].t, ln, bad>>)
  /\ ~stuck \/ PrintT(<<"STUCK", Index[tr].t, ln + 1>>)
  /\ Drifted = {} \/ PrintT(<<"D", Index[tr].t, ln, Drifted>>)
  /\ (ln = Index[tr].last /\ ~stuck) => PrintT(<<"ACC", Index[tr].t, Violated = {}>>)
=============================================================================

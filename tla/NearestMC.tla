----------------------------- MODULE NearestMC -----------------------------
(***************************************************************************)
(* Model checking of Nearest.tla on a small lattice: every query q of the  *)
(* pool against every set of NS distinct pool points.  Init chooses q,     *)
(* Next chooses the element sequence, so TLC's workers share the scope.    *)
(* The laws are what the judge modules rely on:                            *)
(*   OrderLaws   NearCmp is a total preorder on directions, invariant      *)
(*               under positive scaling, agrees with the plain comparison  *)
(*               of dot products for vectors of equal length, puts q       *)
(*               itself first and -q last                                  *)
(*   RankForm    the rank form used by the judges (IsKNearestLt) is the    *)
(*               definition (IsKNearest), for every k and every candidate  *)
(*               answer                                                    *)
(*   Prefix      a k-nearest answer cut to k-1 is a (k-1)-nearest answer   *)
(*   Exists      the canonical witness is an answer, for every k           *)
(*   Symmetric   answers are invariant under the rotations generating the  *)
(*               cube group (a quarter turn about z, the 3-cycle of axes)  *)
(*   RadiusLaws  class -1 is empty, the last class is everything, classes  *)
(*               are nested, each class set is the range of a k-nearest    *)
(*               answer of its size                                        *)
(***************************************************************************)
EXTENDS Nearest, TLC

CONSTANTS K,        \* lattice bound of the pool
          Extra,    \* extra pool points (scaled copies: coincident directions)
          NS,       \* number of elements
          QSet      \* the query points (QAll or QFew)

VARIABLES q, S

\* scaled copies and longer vectors: coincident directions, unequal lengths
ExtraPts == { <<2, 0, 0>>, <<0, -2, 2>>, <<1, 2, 2>>, <<-2, 1, 0>> }

Pool == Vec(K) \cup Extra
Lex(a, b) == \/ a[1] < b[1]
             \/ (a[1] = b[1] /\ a[2] < b[2])
             \/ (a[1] = b[1] /\ a[2] = b[2] /\ a[3] < b[3])

QAll == Pool
\* a pole, a point on the antimeridian, generic points either side of it, a long vector
QFew == { <<0, 0, 1>>, <<-1, 0, 0>>, <<-1, 1, 1>>, <<-1, -1, 0>>, <<1, 2, 2>>, <<1, 0, -1>> }

\* thorough tier: twice as many, more unequal lengths and both poles
QMid == QFew \cup { <<0, 0, -1>>, <<1, 1, 1>>, <<0, -2, 2>>, <<-2, 1, 0>>, <<1, -1, 0>>, <<0, 1, 0>> }

QPole == { <<0, 0, 1>> }

Init == q \in QSet /\ S = <<>>
Next == /\ S = <<>>
        /\ S' \in { s \in [1..NS -> Pool] : \A i \in 1..(NS - 1) : Lex(s[i], s[i + 1]) }
        /\ q' = q

Cands(n, k) == { r \in [1..k -> 0..(n - 1)] : \A i, j \in 1..k : i # j => r[i] # r[j] }
Twice(v)    == << 2 * v[1], 2 * v[2], 2 * v[3] >>
Cyc(v)      == << v[2], v[3], v[1] >>
Gens        == { "z", "c" }
Rot(g, v)   == IF g = "z" THEN RotZ(1, v) ELSE Cyc(v)
RotS(g, s)  == [ i \in 1..Len(s) |-> Rot(g, s[i]) ]

\* generation of the polar-cap family (printed once)
EmitCap == (S = <<>> /\ q = <<0, 0, 1>>) => PrintT(<<"CAP", CapPlan>>)

OrderLaws == S # <<>> =>
    \A i, j, l \in 1..Len(S) :
      LET a == S[i]  b == S[j]  c == S[l] IN
      /\ NearCmp(q, a, b) = -NearCmp(q, b, a)
      /\ (NearCmp(q, a, b) >= 0 /\ NearCmp(q, b, c) >= 0) => NearCmp(q, a, c) >= 0
      /\ NearCmp(q, Twice(a), b) = NearCmp(q, a, b)
      /\ NearCmp(Twice(q), a, b) = NearCmp(q, a, b)
      /\ (N2(a) = N2(b)) => NearCmp(q, a, b) = Sgn(Dot(a, q) - Dot(b, q))
      /\ NearCmp(q, q, a) >= 0
      /\ (NearCmp(q, q, a) = 0) <=> SameDir(q, a)
      /\ NearCmp(q, a, Neg(q)) >= 0
      /\ (NearCmp(q, a, b) = 0 /\ i # j) => Lt(q, S, i) = Lt(q, S, j)

RankForm == S # <<>> =>
    LET lt == LtVec(q, S) IN
    \A k \in 1..Len(S) : \A r \in Cands(Len(S), k) :
        IsKNearest(q, S, k, r) <=> IsKNearestLt(lt, k, r)

Prefix == S # <<>> =>
    \A k \in 2..Len(S) : \A r \in Cands(Len(S), k) :
        IsKNearest(q, S, k, r) => IsKNearest(q, S, k - 1, SubSeq(r, 1, k - 1))

Exists == S # <<>> => \A k \in 1..Len(S) : IsKNearest(q, S, k, Witness(q, S, k))

Symmetric == S # <<>> =>
    \A g \in Gens : \A k \in 1..Len(S) : \A r \in Cands(Len(S), k) :
        IsKNearest(q, S, k, r) <=> IsKNearest(Rot(g, q), RotS(g, S), k, r)

RadiusLaws == S # <<>> =>
    LET lt == LtVec(q, S)
        nc == NClasses(lt)
    IN /\ WithinClass(lt, -1) = {}
       /\ WithinClass(lt, nc - 1) = 0..(Len(S) - 1)
       /\ \A c \in 0..(nc - 1) :
            LET W == WithinClass(lt, c) IN
            /\ WithinClass(lt, c - 1) \subseteq W /\ WithinClass(lt, c - 1) # W
            /\ SeqRange(Witness(q, S, Cardinality(W))) = W
            /\ \A r \in Cands(Len(S), Cardinality(W)) :
                  IsKNearestLt(lt, Cardinality(W), r) => SeqRange(r) = W
       /\ UNION TieGroups(lt) = DOMAIN lt
       \* the radius cases generated for the implementation: boundary radii included, bounds nested
       /\ LET z == ZeroSet(q, S)  all == 0..(Len(S) - 1)  plan == RadiusPlan(lt) IN
          /\ Len(plan) = nc + 4 /\ plan[1].t = "zero" /\ plan[2].t = "tiny" /\ plan[Len(plan)].t = "beyond"
          /\ z \subseteq WithinClass(lt, 0) /\ (z # {} => z = WithinClass(lt, 0))
          /\ \A i \in 1..Len(plan) :
                LET rk == plan[i].t  c == IF rk = "between" THEN plan[i].c ELSE 0 IN
                /\ RadLo(lt, z, all, rk, c, FALSE) \subseteq RadLo(lt, z, all, rk, c, TRUE)
                /\ RadLo(lt, z, all, rk, c, TRUE) \subseteq RadHi(lt, z, all, rk, c)
                /\ RadHi(lt, z, all, "zero", 0) \subseteq RadHi(lt, z, all, rk, c) \/ rk = "between"
=============================================================================

----------------------------- MODULE LonBoxTrace -----------------------------
(***************************************************************************)
(* C13 -- recorded traces of the real helper _insert_pt_in_latlonbox,      *)
(* validated against the LonBox machine.  One ndjson line per trace:       *)
(*   id, pts (longitudes k * 2 pi / M as integers k, in insertion order),  *)
(*   boxes (the <<lo, hi>> the helper returned after each insertion,       *)
(*   projected back to integers; -7 = not a multiple of 2 pi / M).         *)
(* A trace is accepted iff every recorded box is one the machine allows    *)
(* after the previous recorded box.    The helper is private: a rejected   *)
(* trace is reported as MODEL-DRIFT by the harness, never as a verdict     *)
(* (the verdicts of C13 come from Grid.bounds, judged by JudgeBounds).     *)
(***************************************************************************)
EXTENDS Integers, Sequences, Json, IOUtils, TLC

Recs == ndJsonDeserialize(IOEnv.REC_FILE)
LB   == INSTANCE LonBox WITH M <- 24, NMax <- 8, ins <- {}, box <- <<-1, -1>>

VARIABLE i
Init == i \in 1..Len(Recs)
Next == UNCHANGED i /\ FALSE

\* every recorded box must be a box the machine can reach from the previous recorded one
StepOK(r, k) == r.boxes[k] \in LB!Insert(IF k = 1 THEN LB!Empty ELSE r.boxes[k - 1], r.pts[k])
FirstMismatch(r) ==
    LET bad == { k \in 1..Len(r.pts) : ~StepOK(r, k) }
    IN IF bad = {} THEN 0 ELSE CHOOSE k \in bad : \A j \in bad : k <= j

Accept == LET r == Recs[i]
              k == FirstMismatch(r)
          IN k = 0 \/ PrintT(<<"T", r.id, k, r.pts, r.boxes>>)
=============================================================================

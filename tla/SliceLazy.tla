----------------------------- MODULE SliceLazy -----------------------------
(***************************************************************************)
(* C09, history clause, as a state machine.                                *)
(*                                                                         *)
(*   Materialise(v)*  on the source  ;  Slice(kind, shape)  ;  Access(v)*  *)
(*                                                                         *)
(* prov: does the source derive its edge table ("derived") or ship one     *)
(* ("supplied").  The invariant AccessOK (normative) says every access on  *)
(* the result succeeds with the right value.  TLC proves it over all       *)
(* histories for Mech_intended and for Mech_observed (the code as it is    *)
(* now); for the pre-fix mechanism and for each single reverted fix it     *)
(* produces the failing histories, which the harness replayed.             *)
(* `hist` records the behaviour with the predicted outcome and store after *)
(* every step, so that -simulate / BFS runs emit replayable behaviours.    *)
(***************************************************************************)
EXTENDS SliceMech, TLC

CONSTANTS MechName,     \* "intended" | "observed" | "prefix" | "rev_<commit>" (SliceMech!MechNamed)
          MaxPre,       \* at most this many Materialise steps
          MaxAcc,       \* at most this many Access steps
          WithHist      \* BOOLEAN: keep the behaviour in the state (generation) or not (proof)

Mech == MechNamed(MechName)

VARIABLES prov, phase, srcStore, kind, shape, resStore, resTag, attrs, last, hist, nPre, nAcc
vars == << prov, phase, srcStore, kind, shape, resStore, resTag, attrs, last, hist, nPre, nAcc >>

NoTag == [ v \in Vars |-> "ok" ]
Note(e) == IF WithHist THEN Append(hist, e) ELSE hist

Init == /\ prov \in { "derived", "supplied" }
        /\ phase = "src"
        /\ srcStore = IF prov = "supplied" THEN { "edge_node" } ELSE {}
        /\ kind = "none" /\ shape = "none"
        /\ resStore = {} /\ resTag = NoTag /\ attrs = "none"
        /\ last = << "none", "ok" >>
        /\ hist = << >> /\ nPre = 0 /\ nAcc = 0

Materialise(v) ==
    /\ phase = "src" /\ nPre < MaxPre /\ v \notin srcStore
    /\ srcStore' = srcStore \cup Needs(v)
    /\ nPre' = IF WithHist THEN nPre + 1 ELSE nPre
    /\ hist' = Note(<< "mat", v, srcStore' >>)
    /\ UNCHANGED << prov, phase, kind, shape, resStore, resTag, attrs, last, nAcc >>

\* node and edge selections always yield sorted distinct faces: never "perm"
ShapesOf(k) == IF k = "face" THEN Shapes ELSE { "proper", "identity" }
Slice(k, s) ==
    /\ phase = "src" /\ s \in ShapesOf(k)
    /\ LET touched == srcStore \cup SliceTouches(k)
       IN /\ srcStore' = IF WithHist THEN touched ELSE {}      \* not needed any more once the result exists
          /\ resStore' = ResStoreAfterSlice(Mech, touched)
          /\ hist' = Note(<< "slice", k, s, touched, resStore' >>)
    /\ kind' = k /\ shape' = s /\ phase' = "res"
    /\ resTag' = [ v \in Vars |-> TagAfterSlice(v, s) ]
    /\ attrs' = AttrsAfterSlice(Mech, prov)
    /\ UNCHANGED << prov, last, nPre, nAcc >>

Access(v) ==
    /\ phase = "res" /\ nAcc < MaxAcc
    /\ LET o == AccessOutcome(v, resStore, resTag, attrs, shape)
           new == Needs(v) \ resStore
       IN /\ last' = << v, o >>
          /\ resStore' = IF o = "raises" \/ v \in resStore THEN resStore ELSE resStore \cup Needs(v)
          /\ resTag' = IF o = "raises" \/ v \in resStore THEN resTag
                       ELSE [ w \in Vars |-> IF w \in new
                                             THEN AccessOutcome(w, resStore, resTag, attrs, shape)
                                             ELSE resTag[w] ]
          /\ hist' = Note(<< "acc", v, o, resStore' >>)
    /\ nAcc' = IF WithHist THEN nAcc + 1 ELSE 1
    /\ UNCHANGED << prov, phase, srcStore, kind, shape, attrs, nPre >>

Finish == /\ phase = "res" /\ nAcc >= 1
          /\ phase' = "end"
          /\ UNCHANGED << prov, srcStore, kind, shape, resStore, resTag, attrs, last, hist, nPre, nAcc >>

Next == \/ \E v \in Vars : Materialise(v)
        \/ \E k \in { "face", "node", "edge" } : \E s \in Shapes : Slice(k, s)
        \/ \E v \in Vars : Access(v)
        \/ Finish
Spec == Init /\ [][Next]_vars

TypeOK == /\ srcStore \subseteq Vars /\ resStore \subseteq Vars
          /\ phase \in { "src", "res", "end" }
          /\ attrs \in { "none", "stale" }
          /\ last[2] \in { "ok", "wrong", "raises" }
(* ---- normative ---------------------------------------------------------------- *)
\* every access on a result is enabled (does not raise) and returns the restriction of the source's value
AccessOK == last[2] = "ok"
\* the result never holds a wrong value under any name
NoWrongValueStored == \A v \in resStore : resTag[v] = "ok"
\* what a result reports does not depend on what was materialised on the source: with the intended
\* mechanism the outcome of every access is "ok" in every reachable state, in particular for every srcStore
(* ---- descriptive sanity --------------------------------------------------------- *)
StoreClosed == srcStore = Closure(srcStore)
(* ---- generation: print finished behaviours --------------------------------------- *)
Emit == phase = "end" => PrintT(<< "B", prov, hist >>)
=============================================================================

------------------------------ MODULE Catalog ------------------------------
(***************************************************************************)
(* The mesh family every geometric check draws from, defined once, in      *)
(* TLA+, from integer vertex sets: each closed mesh is the boundary of     *)
(* the convex hull of its vertex set, computed here (supporting planes,    *)
(* counter-clockwise corner order by the "everything else is to the left"  *)
(* rule).  TLC proves the catalogue well-formed (CatalogOK) before any     *)
(* check uses it, and serialises it for the harness (CatalogGen.tla).      *)
(*                                                                         *)
(* A catalogue entry: [ name, nodes : Seq(Vec), faces : Seq(Seq(0-based)) ]*)
(***************************************************************************)
EXTENDS SphereZ, Mesh, SequencesExt, FiniteSetsExt

Sub3(a, b) == << a[1] - b[1], a[2] - b[2], a[3] - b[3] >>
Lex3(a, b) == \/ a[1] < b[1]
              \/ (a[1] = b[1] /\ a[2] < b[2])
              \/ (a[1] = b[1] /\ a[2] = b[2] /\ a[3] < b[3])

SignedPerms(t) ==      \* all coordinate permutations and sign changes of a triple of naturals
    { [ i \in 1..3 |-> s[i] * t[p[i]] ] : p \in Perms3, s \in [1..3 -> {-1, 1}] }

(* ---- convex hull of a finite vertex set with the origin strictly inside ---- *)
\* outward normals of supporting planes through three vertices
FacetSets(V) ==
    { { v \in V : Dot(Sub3(v, t[1]), Cross(Sub3(t[2], t[1]), Sub3(t[3], t[1]))) = 0 } :
        t \in { u \in V \X V \X V :
                  LET n == Cross(Sub3(u[2], u[1]), Sub3(u[3], u[1])) IN
                  /\ n # Zero3
                  /\ \A v \in V : Dot(Sub3(v, u[1]), n) <= 0 } }

\* counter-clockwise successor of v on the facet F (seen from outside)
CcwNext(F, v) == CHOOSE w \in F \ {v} : \A u \in F \ {v, w} : Det(v, w, u) > 0
RECURSIVE Walk(_, _, _)
Walk(F, start, acc) ==
    LET nx == CcwNext(F, acc[Len(acc)])
    IN IF nx = start THEN acc ELSE Walk(F, start, Append(acc, nx))

RECURSIVE SeqLess(_, _)
SeqLess(a, b) ==
    IF a = <<>> THEN b # <<>>
    ELSE IF b = <<>> THEN FALSE
    ELSE IF a[1] # b[1] THEN a[1] < b[1]
    ELSE SeqLess(Tail(a), Tail(b))

HullMesh(name, V) ==
    LET nodes == SetToSortSeq(V, Lex3)
        id(v) == (CHOOSE k \in 1..Len(nodes) : nodes[k] = v) - 1
        cyc(F) == LET start == CHOOSE v \in F : \A w \in F : id(v) <= id(w)
                      vs == Walk(F, start, <<start>>)
                  IN [ j \in 1..Len(vs) |-> id(vs[j]) ]
        fs == { cyc(F) : F \in FacetSets(V) }
    IN [ name |-> name, nodes |-> nodes, faces |-> SetToSortSeq(fs, SeqLess) ]

(* ---- the closed polyhedra ----------------------------------------------------- *)
Octahedron      == HullMesh("octahedron",      SignedPerms(<<0, 0, 1>>))                 \* 6 nodes (both poles), 8 triangles, sides 90 deg
Tetrahedron     == HullMesh("tetrahedron",     { <<1, 1, 1>>, <<1, -1, -1>>, <<-1, 1, -1>>, <<-1, -1, 1>> })   \* n_face = n_node = 4
Cube            == HullMesh("cube",            SignedPerms(<<1, 1, 1>>))                 \* 8 nodes, 6 quads
Cuboctahedron   == HullMesh("cuboctahedron",   SignedPerms(<<0, 1, 1>>))                 \* 12 nodes, 8 triangles + 6 squares; nodes on the antimeridian
RhombicDodeca   == HullMesh("rhombic_dodecahedron", SignedPerms(<<1, 1, 1>>) \cup SignedPerms(<<0, 0, 2>>))   \* 12 rhombi, valence 3 and 4, poles
TetrakisCube    == HullMesh("tetrakis_cube",   SignedPerms(<<2, 2, 2>>) \cup SignedPerms(<<0, 0, 3>>))        \* 24 triangles, valence 4 and 6, poles
TruncOcta       == HullMesh("truncated_octahedron", SignedPerms(<<0, 1, 2>>))            \* 24 nodes, 6 squares + 8 hexagons
TruncCube       == HullMesh("truncated_cube",  SignedPerms(<<1, 2, 2>>))                 \* 24 nodes, 8 triangles + 6 octagons
RhombiCubo      == HullMesh("rhombicuboctahedron", SignedPerms(<<1, 1, 2>>))             \* 24 nodes, 8 triangles + 18 quads
SquarePyramids  == HullMesh("octa_stretched",  SignedPerms(<<0, 0, 1>>) \cup SignedPerms(<<1, 1, 1>>))        \* cube + octahedron tips: 24 triangles? (hull decides)

ClosedNames == { "octahedron", "tetrahedron", "cube", "cuboctahedron", "rhombic_dodecahedron",
                 "tetrakis_cube", "truncated_octahedron", "truncated_cube", "rhombicuboctahedron" }
ClosedMesh(n) == CASE n = "octahedron" -> Octahedron
                   [] n = "tetrahedron" -> Tetrahedron
                   [] n = "cube" -> Cube
                   [] n = "cuboctahedron" -> Cuboctahedron
                   [] n = "rhombic_dodecahedron" -> RhombicDodeca
                   [] n = "tetrakis_cube" -> TetrakisCube
                   [] n = "truncated_octahedron" -> TruncOcta
                   [] n = "truncated_cube" -> TruncCube
                   [] n = "rhombicuboctahedron" -> RhombiCubo

(* ---- derived meshes ---------------------------------------------------------------- *)
FaceDirs(m, f)   == [ j \in 1..Len(m.faces[f]) |-> m.nodes[m.faces[f][j] + 1] ]
Rotated(m, r, tag) == [ name |-> tag, nodes |-> [ k \in 1..Len(m.nodes) |-> ApplyRot(r, m.nodes[k]) ], faces |-> m.faces ]
\* keep a subset of faces (1-based positions, in order); nodes are kept as they are (unused nodes remain)
SubMesh(m, keep, tag) == [ name |-> tag, nodes |-> m.nodes,
                           faces |-> SelectSeq(m.faces, LAMBDA f : \E k \in keep : m.faces[k] = f) ]
\* split face f by the chord between its corners i < j (both pieces stay convex and CCW)
SplitFace(m, f, i, j, tag) ==
    LET face == m.faces[f]
        p1 == [ k \in 1..(j - i + 1) |-> face[i + k - 1] ]
        p2 == [ k \in 1..(Len(face) - (j - i) + 1) |-> IF k <= i THEN face[k] ELSE face[j + (k - i) - 1] ]
    IN [ name |-> tag, nodes |-> m.nodes,
         faces |-> [ k \in 1..(Len(m.faces) + 1) |->
                       IF k < f THEN m.faces[k] ELSE IF k = f THEN p1 ELSE IF k = f + 1 THEN p2 ELSE m.faces[k - 1] ] ]

(* ---- well-formedness, proved by TLC ------------------------------------------------- *)
MeshFacesOK(m) == \A f \in 1..Len(m.faces) : ConvexCCW(FaceDirs(m, f))
NodesDistinct(m) == \A a, b \in 1..Len(m.nodes) : a # b => ~SameDir(m.nodes[a], m.nodes[b])
ClosedOK(m) == /\ WellFormed(m.faces, Len(m.nodes))
               /\ MeshFacesOK(m)
               /\ NodesDistinct(m)
               /\ Manifold(m.faces) /\ Closed(m.faces)
               /\ NodesUsed(m.faces) = 0..(Len(m.nodes) - 1)
               /\ Euler(m.faces) = 2
PartialOK(m) == /\ WellFormed(m.faces, Len(m.nodes))
                /\ MeshFacesOK(m)
                /\ NodesDistinct(m)
                /\ Manifold(m.faces)
SizesOf(m) == { Len(m.faces[f]) : f \in 1..Len(m.faces) }
ValencesOf(m) == { Valence(m.faces, n) : n \in NodesUsed(m.faces) }
SidesBelow90(m) == \A f \in 1..Len(m.faces) : SidesShorterThan90(FaceDirs(m, f))
=============================================================================

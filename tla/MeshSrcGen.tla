----------------------------- MODULE MeshSrcGen -----------------------------
(***************************************************************************)
(* Source builder for C02 / C03: for every request (a mesh chosen from     *)
(* the enumerated scope, the catalogue or a random planar patch, plus a    *)
(* variant descriptor) TLC computes the tables the source SUPPLIES         *)
(* (MeshSources.tla), the MPAS encoding of the mesh, and the index         *)
(* sequence of a selection, and certifies that the bundle is a well-formed *)
(* source of that mesh.  The harness only materialises what is printed.    *)
(*   request : id, mesh, n_node, width, eo (edge order), sup (names),      *)
(*             mpas (descriptor, optional), sel (dim a b q order, optional)*)
(*   output  : <<"SRC", id, [ en, fe, ef, ff, nf, mpas, idx, wf ]>>        *)
(***************************************************************************)
EXTENDS MeshSources, Json, IOUtils, TLCExt

Reqs  == ndJsonDeserialize(IOEnv.REQ_FILE)
Block == 16
NBlocks == (Len(Reqs) + Block - 1) \div Block

VARIABLE i

Has(r, f) == f \in DOMAIN r
Opt(c, n, v) == IF c THEN n :> v ELSE [ x \in {} |-> x ]
Wants(r, n) == \E k \in 1..Len(r.sup) : r.sup[k] = n

Build(r) ==
    LET m  == r.mesh
        E  == SupEdges(m, r.eo)
        w  == r.width
        sup == Opt(Wants(r, "en"), "en", E)
                 @@ Opt(Wants(r, "fe"), "fe", SupFaceEdges(m, E, w))
                 @@ Opt(Wants(r, "ef"), "ef", SupEdgeFaces(m, E, TRUE))
                 @@ Opt(Wants(r, "ff"), "ff", SupFaceFaces(m, w, TRUE))
                 @@ Opt(Wants(r, "nf"), "nf", SupNodeFaces(m, r.n_node, TRUE))
        mp == IF Has(r, "mpas") THEN MpasStored(m, r.n_node, E, r.mpas) ELSE << >>
        n  == IF ~Has(r, "sel") THEN 0
              ELSE CASE r.sel.dim = "n_face" -> Len(m) [] r.sel.dim = "n_node" -> r.n_node [] OTHER -> Len(E)
        idx == IF Has(r, "sel") THEN IndexSeq(KeyedSubset(n, r.sel.a, r.sel.b, r.sel.q), r.sel.order, r.sel.a, r.sel.b) ELSE << >>
        wf == /\ WellFormed(m, r.n_node) /\ w >= MaxSize(m)
              /\ SuppliedWellFormed(m, r.n_node, w, sup)
              /\ (Has(r, "mpas") => Manifold(m) /\ MpasDescribes(mp, m, r.n_node, E))
    IN sup @@ Opt(Has(r, "mpas"), "mpas", mp) @@ ("idx" :> idx) @@ ("wf" :> wf)

Init == i \in { -b : b \in 1..NBlocks }
Next == /\ i < 0
        /\ i' \in { k \in 1..Len(Reqs) : (k - 1) \div Block = (-i) - 1 }
Emit == i > 0 => PrintT(<< "SRC", Reqs[i].id, Build(Reqs[i]) >>)
=============================================================================

----------------------------- MODULE SliceMech -----------------------------
(***************************************************************************)
(* C09, history clause: what slicing carries from the source grid to the   *)
(* result, as data.  Pure operators shared by the state machine            *)
(* (SliceLazy.tla) and the judge (JudgeSubset.tla).                        *)
(*                                                                         *)
(* Normative: every variable accessed on a result has outcome "ok" (it     *)
(* can be computed and is the restriction of the source's value), whatever *)
(* was materialised on the source before.  Descriptive: which access       *)
(* materialises what (Deps), what slicing keeps (Carried) -- these only    *)
(* drive generation and drift reports.                                     *)
(***************************************************************************)
EXTENDS Naturals, Sequences, FiniteSets

Vars == { "npf", "edge_node", "face_edge", "edge_face", "node_face", "face_face", "holes",
          "face_centres", "edge_centres", "areas", "edge_z", "edge_dist", "edge_face_dist", "bounds" }

\* descriptive: direct dependencies of the first access of a variable
Deps(v) == CASE v = "face_edge"    -> { "edge_node" }
             [] v = "edge_face"    -> { "face_edge", "npf", "edge_node" }
             [] v = "face_face"    -> { "edge_face", "face_edge" }
             [] v = "holes"        -> { "edge_face" }
             [] v = "face_centres" -> { "npf" }
             [] v = "areas"        -> { "npf" }
             [] v = "edge_centres" -> { "edge_node" }
             [] v = "edge_z"       -> { "edge_node" }
             [] v = "edge_dist"    -> { "edge_node" }
             [] v = "edge_face_dist" -> { "edge_face", "face_centres" }
             [] v = "bounds"       -> { "face_edge" }
             [] OTHER              -> {}
RECURSIVE Closure(_)
Closure(S) == LET T == S \cup UNION { Deps(v) : v \in S } IN IF T = S THEN S ELSE Closure(T)
Needs(v)   == Closure({ v })

\* what slicing along one grid dimension touches on the SOURCE (descriptive)
SliceTouches(kind) == CASE kind = "face" -> Needs("face_edge")
                        [] kind = "node" -> Needs("face_edge") \cup Needs("node_face")
                        [] kind = "edge" -> Needs("face_edge") \cup Needs("edge_face")
\* variables whose every row belongs to one face / node / edge: the result keeps them, sliced along that dimension
Carried == { "npf", "edge_node", "face_centres", "edge_centres", "areas", "edge_z", "edge_dist", "bounds" }
\* one value per edge, but its MEANING depends on which faces are present (zero where an edge has one face only):
\* the restriction of the source's values is not the subset's value, it has to be derived again
Neighbourhood == { "edge_face_dist" }
\* index tables pointing INTO faces or edges: must be recomputed on the result
Reindexed == { "face_edge", "edge_face", "node_face", "face_face", "holes" }

(* ---- mechanism knobs ------------------------------------------------------ *)
\* keepHelperAttrs : the re-indexed edge table of the result keeps the attrs of the source's edge table,
\*                   including the side tables (inverse_indices, fill_value_mask) of the SOURCE's construction
\* holesCarried    : hole_edge_indices of the source is copied to the result unsliced
\* neighbourCarried: neighbourhood-dependent per-edge values of the source are kept, sliced along n_edge
Mech_intended == [ keepHelperAttrs |-> FALSE, holesCarried |-> FALSE, neighbourCarried |-> FALSE ]
\* the code as it is now (after fix commits 8ad0ac60, 7638a0fd and 793eb5ab): revised whenever a fix lands
Mech_observed == [ keepHelperAttrs |-> FALSE, holesCarried |-> FALSE, neighbourCarried |-> FALSE ]
\* the code as first read (before those commits); TLC must keep refuting these variants
Mech_prefix   == [ keepHelperAttrs |-> TRUE,  holesCarried |-> TRUE,  neighbourCarried |-> TRUE ]
MechNamed(n) == CASE n = "intended"     -> Mech_intended
                  [] n = "observed"     -> Mech_observed
                  [] n = "prefix"       -> Mech_prefix
                  [] n = "rev_8ad0ac60" -> [ Mech_observed EXCEPT !.keepHelperAttrs = TRUE ]   \* side tables copied again
                  [] n = "rev_7638a0fd" -> [ Mech_observed EXCEPT !.holesCarried = TRUE ]      \* hole list carried again
                  [] n = "rev_793eb5ab" -> [ Mech_observed EXCEPT !.neighbourCarried = TRUE ]  \* edge_face_distances carried again
                  [] n = "carry_neighbour" -> [ Mech_intended EXCEPT !.neighbourCarried = TRUE ]  \* the same, alone

Shapes == { "proper", "perm", "identity" }     \* proper subset / all faces in another order / all faces in order
\* side tables on the result's edge table right after slicing
AttrsAfterSlice(mech, prov) == IF prov = "derived" /\ mech.keepHelperAttrs THEN "stale" ELSE "none"
\* the result's store and value tags right after slicing
ResStoreAfterSlice(mech, srcStore) ==
    (srcStore \cap Carried) \cup (IF mech.holesCarried THEN srcStore \cap { "holes" } ELSE {})
                            \cup (IF mech.neighbourCarried THEN srcStore \cap Neighbourhood ELSE {})
\* with all faces kept every edge keeps both its faces and its number: only a proper subset goes wrong
TagAfterSlice(v, shape) == IF v \in ({ "holes" } \cup Neighbourhood) /\ shape = "proper" THEN "wrong" ELSE "ok"

\* outcome of computing v itself on the result, its dependencies being available and right
OwnOutcome(v, attrs, shape) ==
    IF v = "face_edge" /\ attrs = "stale"
    THEN ( CASE shape = "proper"   -> "raises"      \* the source's side table has the wrong size: reshape fails
             [] shape = "perm"     -> "wrong"       \* right size, rows in the source's face order
             [] shape = "identity" -> "ok" )
    ELSE "ok"
Worse(a, b) == IF a = "raises" \/ b = "raises" THEN "raises" ELSE IF a = "wrong" \/ b = "wrong" THEN "wrong" ELSE "ok"
RECURSIVE WorstOf(_)
WorstOf(S) == IF S = {} THEN "ok" ELSE LET x == CHOOSE y \in S : TRUE IN Worse(x, WorstOf(S \ { x }))
\* outcome of Access(v) on a result with the given store/tags
AccessOutcome(v, store, tag, attrs, shape) ==
    IF v \in store THEN tag[v]
    ELSE WorstOf({ IF d \in store THEN tag[d] ELSE OwnOutcome(d, attrs, shape) : d \in Needs(v) })
\* variables whose outcome is explained by the stale side tables alone
DependsOnFaceEdge == { v \in Vars : "face_edge" \in Needs(v) }
=============================================================================

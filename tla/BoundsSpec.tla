----------------------------- MODULE BoundsSpec -----------------------------
(***************************************************************************)
(* C13 -- what the latitude-longitude bounds of a face must be, exactly.   *)
(*                                                                         *)
(* A face is a sequence of integer direction vectors, convex and counter-  *)
(* clockwise (SphereZ!ConvexCCW).  Everything below is a sign of an        *)
(* integer polynomial; nothing here looks at uxarray's helpers.            *)
(*                                                                         *)
(* Latitudes are compared through the exact value  s * asin(sqrt(N / D))   *)
(* written <<s, N, D>> (s in -1..1, N >= 0, D > 0).  A latitude bound is   *)
(* described by the set of boundary FEATURES that attain it:               *)
(*    <<"c", j>>  corner j                                                 *)
(*    <<"e", i>>  the interior extreme of edge i (f[i] -> f[i+1]), which   *)
(*                exists iff the arc bulges poleward beyond both ends      *)
(*    <<"p", s>>  the pole s (+1 north, -1 south) strictly inside the face *)
(* The longitude interval is (west-most corner, east-most corner), or the  *)
(* full circle when a pole is strictly inside.                             *)
(***************************************************************************)
EXTENDS SphereZ

Rev(f)        == [ i \in 1..Len(f) |-> f[Len(f) + 1 - i] ]
RotSeq(f, k)  == [ i \in 1..Len(f) |-> f[((i - 1 + k) % Len(f)) + 1] ]
EdgeA(f, i)   == f[i]
EdgeB(f, i)   == f[NextI(f, i)]

(* ---- the quantifier of the property ------------------------------------- *)
PoleVec(s)    == <<0, 0, s>>
CornerAt(f, s) == \E i \in 1..Len(f) : IsPole(f[i]) /\ Sgn(f[i][3]) = s
\* "Corner" | "Inside" | "Outside" | "OnBoundary" (= an edge passes through the pole: outside the quantifier)
PoleStatus(f, s) == IF CornerAt(f, s) THEN "Corner" ELSE PointClass(f, PoleVec(s))
EnclosesPole(f) == PoleStatus(f, 1) = "Inside" \/ PoleStatus(f, -1) = "Inside"

\* strictly inside one hemisphere (where the faces of real meshes live), or touching / crossing the equator
Hemisphere(f) == IF \A j \in 1..Len(f) : f[j][3] > 0 THEN "North"
                 ELSE IF \A j \in 1..Len(f) : f[j][3] < 0 THEN "South" ELSE "Straddles"

InQuantifier(f) ==
    /\ Len(f) \in 3..8
    /\ ConvexCCW(f)                                     \* implies every side is a minor arc (< 180 degrees)
    /\ PoleStatus(f, 1) # "OnBoundary"
    /\ PoleStatus(f, -1) # "OnBoundary"
    /\ (EnclosesPole(f) \/ HasLonExtentBelow180(f))

(* ---- exact latitude values ------------------------------------------------ *)
LatOfCorner(v) == << Sgn(v[3]), v[3] * v[3], N2(v) >>
LatOfTop(a, b)    == << 1, CircleTop(a, b)[1], CircleTop(a, b)[2] >>
LatOfBottom(a, b) == << -1, CircleTop(a, b)[1], CircleTop(a, b)[2] >>
LatOfPole(s)      == << s, 1, 1 >>
\* -1, 0, 1 as p <, =, > q
LatValCmp(p, q) ==
    IF p[1] # q[1] THEN Sgn(p[1] - q[1])
    ELSE IF p[1] = 0 THEN 0
    ELSE p[1] * Sgn(p[2] * q[3] - q[2] * p[3])

BulgeN(f, i) == BulgesNorth(EdgeA(f, i), EdgeB(f, i))
BulgeS(f, i) == BulgesSouth(EdgeA(f, i), EdgeB(f, i))

\* every boundary feature that can attain the maximum (minimum): the latitude along an arc is
\* monotone between its ends unless the arc contains the top (bottom) of its great circle
FeatsMax(f) == { <<"c", j>> : j \in 1..Len(f) }
               \cup { <<"e", i>> : i \in { k \in 1..Len(f) : BulgeN(f, k) } }
               \cup (IF PoleStatus(f, 1) = "Inside" THEN { <<"p", 1>> } ELSE {})
FeatsMin(f) == { <<"c", j>> : j \in 1..Len(f) }
               \cup { <<"e", i>> : i \in { k \in 1..Len(f) : BulgeS(f, k) } }
               \cup (IF PoleStatus(f, -1) = "Inside" THEN { <<"p", -1>> } ELSE {})
FeatLatMax(f, ft) == CASE ft[1] = "c" -> LatOfCorner(f[ft[2]])
                       [] ft[1] = "e" -> LatOfTop(EdgeA(f, ft[2]), EdgeB(f, ft[2]))
                       [] ft[1] = "p" -> LatOfPole(ft[2])
FeatLatMin(f, ft) == CASE ft[1] = "c" -> LatOfCorner(f[ft[2]])
                       [] ft[1] = "e" -> LatOfBottom(EdgeA(f, ft[2]), EdgeB(f, ft[2]))
                       [] ft[1] = "p" -> LatOfPole(ft[2])
AttainMax(f) == LET F == FeatsMax(f)
                    val == [ ft \in F |-> FeatLatMax(f, ft) ]
                IN { ft \in F : \A g \in F : LatValCmp(val[ft], val[g]) >= 0 }
AttainMin(f) == LET F == FeatsMin(f)
                    val == [ ft \in F |-> FeatLatMin(f, ft) ]
                IN { ft \in F : \A g \in F : LatValCmp(val[ft], val[g]) <= 0 }
LatMaxVal(f) == FeatLatMax(f, CHOOSE ft \in AttainMax(f) : TRUE)
LatMinVal(f) == FeatLatMin(f, CHOOSE ft \in AttainMin(f) : TRUE)

(* ---- exact longitude interval ---------------------------------------------- *)
WestSet(f) == { i \in 1..Len(f) : IsWestMost(f, i) }
EastSet(f) == { i \in 1..Len(f) : IsEastMost(f, i) }
\* longitude exactly 0 (the seam of the reported range [0, 2 pi])
OnSeam(v)  == v[2] = 0 /\ v[1] > 0
\* reported in [0, 2 pi): the interval runs through 0 iff the west end is in (pi, 2 pi) and the east end in [0, pi)
\* "either": an end lies exactly on the seam, where 0 and 2 pi denote the same meridian (not judged)
WrapExpected(f) ==
    LET w == f[CHOOSE i \in WestSet(f) : TRUE]
        e == f[CHOOSE i \in EastSet(f) : TRUE]
    IN IF OnSeam(w) \/ OnSeam(e) THEN "either"
       ELSE IF w[2] < 0 /\ e[2] >= 0 THEN "yes" ELSE "no"

(* ---- families the generator aims at (and signatures of findings use) --------- *)
\* corner j is the first end of edge StartEdge(f, cw, j) when the face is handed over as f (cw = FALSE)
\* or in the opposite direction of traversal (cw = TRUE)
StartEdge(f, cw, j) == IF cw THEN PrevI(f, j) ELSE j
StartsBulge(f, cw, j) == BulgeN(f, StartEdge(f, cw, j)) \/ BulgeS(f, StartEdge(f, cw, j))
CornersOf(A) == { ft[2] : ft \in { g \in A : g[1] = "c" } }
\* the bound is attained at corners only, and each of them starts a poleward-bulging edge
OnlyBulgeStarters(f, cw, A) == /\ \A ft \in A : ft[1] = "c"
                               /\ \A j \in CornersOf(A) : StartsBulge(f, cw, j)
CrossesPrime(f) == \E i \in 1..Len(f) :
                      LET u == EdgeA(f, i)  v == EdgeB(f, i)
                      IN Sgn(u[2]) * Sgn(v[2]) = -1 /\ Cross2(u, v) * Sgn(u[2]) < 0
CrossesAnti(f)  == \E i \in 1..Len(f) : CrossesAntimeridianStrict(EdgeA(f, i), EdgeB(f, i))
Families(f) ==
    LET amin == AttainMin(f)
        amax == AttainMax(f)
    IN
    (IF \E i \in 1..Len(f) : BulgeN(f, i) \/ BulgeS(f, i) THEN {"bulge"} ELSE {})
    \cup (IF OnlyBulgeStarters(f, FALSE, amin) \/ OnlyBulgeStarters(f, FALSE, amax)
             \/ OnlyBulgeStarters(f, TRUE, amin) \/ OnlyBulgeStarters(f, TRUE, amax)
          THEN {"lowstart"} ELSE {})
    \cup (IF CrossesPrime(f) THEN {"prime"} ELSE {})
    \cup (IF CrossesAnti(f) THEN {"anti"} ELSE {})
    \cup (IF CornerAt(f, 1) \/ CornerAt(f, -1) THEN {"cornerpole"} ELSE {})
    \cup (IF EnclosesPole(f) THEN {"poleinside"} ELSE {})
=============================================================================

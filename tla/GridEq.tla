------------------------------- MODULE GridEq -------------------------------
(***************************************************************************)
(* C20: equality of grids.  A grid, as far as equality is concerned, is    *)
(* its source format, its node longitudes, its node latitudes and its      *)
(* face-node table.  The state is a pair of grids (g, h) obtained from a   *)
(* common base by single-entry edits (one longitude, one latitude, one     *)
(* connectivity entry, one more node, one more face, another format);      *)
(* `eq` carries the expected answer of g == h so that -dump emits test     *)
(* vectors with their oracle.                                              *)
(***************************************************************************)
EXTENDS Naturals, Sequences, FiniteSets

CONSTANTS Vals,        \* abstract coordinate values, e.g. 0..2
          MaxEditsH,   \* edits applied to h
          MaxEditsG    \* edits applied to g

VARIABLES g, h, eq, nh, ng

vars == <<g, h, eq, nh, ng>>

Base == [ spec |-> "A",
          lon  |-> <<0, 1, 2, 0>>,
          lat  |-> <<0, 0, 1, 2>>,
          conn |-> << <<0, 1, 2>>, <<0, 2, 3>> >> ]

Eq(a, b) == /\ a.spec = b.spec
            /\ a.lon  = b.lon
            /\ a.lat  = b.lat
            /\ a.conn = b.conn

\* single-entry edits of a grid x
Edits(x) ==
    { [ x EXCEPT !.lon[i] = v ] : i \in 1..Len(x.lon), v \in Vals }
    \cup { [ x EXCEPT !.lat[i] = v ] : i \in 1..Len(x.lat), v \in Vals }
    \cup { [ x EXCEPT !.conn[f][j] = n ] : f \in 1..Len(x.conn), j \in 1..3, n \in 0..(Len(x.lon) - 1) }
    \cup { [ x EXCEPT !.lon = Append(@, 1), !.lat = Append(@, 1) ] }             \* one more node
    \cup { [ x EXCEPT !.conn = Append(@, <<1, 2, 3>>) ] }                         \* one more face
    \cup { [ x EXCEPT !.spec = IF @ = "A" THEN "B" ELSE "A" ] }                   \* other format
SizeOK(x) == Len(x.lon) <= 5 /\ Len(x.conn) <= 3

Init == g = Base /\ h = Base /\ eq = TRUE /\ nh = 0 /\ ng = 0

EditH == /\ nh < MaxEditsH
         /\ \E y \in Edits(h) : y # h /\ SizeOK(y) /\ h' = y
         /\ g' = g /\ nh' = nh + 1 /\ ng' = ng /\ eq' = Eq(g', h')
EditG == /\ ng < MaxEditsG
         /\ \E y \in Edits(g) : y # g /\ SizeOK(y) /\ g' = y
         /\ h' = h /\ ng' = ng + 1 /\ nh' = nh /\ eq' = Eq(g', h')
Next == EditH \/ EditG

Spec == Init /\ [][Next]_vars

(* ---- laws of the specification itself ---------------------------------- *)
OracleIsEq      == eq = Eq(g, h)
Reflexive       == Eq(g, g) /\ Eq(h, h)
Symmetric       == Eq(g, h) = Eq(h, g)
EqIffIdentical  == Eq(g, h) <=> (g = h)
\* any single-entry edit of one side of an equal pair makes the pair unequal
EditBreaksEq    == [][ (Eq(g, h) /\ (g' # g \/ h' # h)) => ~Eq(g', h') ]_vars
\* counts or shapes differ => unequal
CountsMatter    == (Len(g.lon) # Len(h.lon) \/ Len(g.conn) # Len(h.conn)) => ~Eq(g, h)

\* generation view: the edit counters are bookkeeping only
View == <<g, h>>
=============================================================================

------------------------------ MODULE DualProv ------------------------------
(***************************************************************************)
(* C18: the dual is the same combinatorial object whatever the PROVENANCE  *)
(* and SCALE of the primal grid's coordinates and whatever was read or     *)
(* normalised before get_dual().                                           *)
(*                                                                         *)
(* A source is a triple                                                    *)
(*   nprov  : the nodes are supplied as lon/lat only, x/y/z only, or both  *)
(*   cprov  : the face centres are computed by the library, or supplied as *)
(*            lon/lat only, x/y/z only, or both                            *)
(*   radius : "1", "2", "1/2", ... the radius of the sphere every supplied *)
(*            Cartesian coordinate lies on (MPAS ships metres, R = 6371229)*)
(* plus offc: the shipped centres differ from the vertex centroid;         *)
(* and a history is a sequence of public calls made before get_dual():    *)
(*   "face_lon" (read a face coordinate), "construct_face_centers",        *)
(*   "normalize" (normalize_cartesian_coordinates).                        *)
(*                                                                         *)
(* Normative part: Result is a function of the mesh alone - it does not    *)
(* mention nprov, cprov, radius or hist - so every scenario TLC emits      *)
(* carries the same expectation, the ring table of Dual.tla.               *)
(* Descriptive part (never a verdict): the scale tags of the stored        *)
(* Cartesian arrays at the moment of get_dual(), as the lazy machine       *)
(* computes them ("R" = the source's radius, "unit", "absent").  Their     *)
(* being different (Mixed) is emitted as the *signature* of a scenario:    *)
(* chord vectors face centre - node only make sense on one sphere.         *)
(***************************************************************************)
EXTENDS Integers, Sequences, TLC

CONSTANTS Radii,        \* set of radii written as strings: "1", "2", "6371229", "1/2"
          PreOps,       \* subset of {"face_lon", "construct_face_centers", "normalize"}
          MaxPre        \* longest history before get_dual

NodeProv   == { "lonlat", "xyz", "both" }
CentreProv == { "computed", "lonlat", "xyz", "both" }
One        == "1"

VARIABLES nprov, cprov, radius, hist, nodeXyz, faceXyz, faceLL, done,
          offc,        \* the shipped centres are NOT the vertex centroid (circumcentres, Voronoi generators, box mid points)
          centreIs     \* which point a face's centre is right now: "shipped" or "centroid"
vars == <<nprov, cprov, radius, hist, nodeXyz, faceXyz, faceLL, done, offc, centreIs>>

Tag(r)        == IF r = One THEN "unit" ELSE "R"
SuppliesXyz(p) == p \in { "xyz", "both" }
\* the radius is only observable if some Cartesian array is supplied: canonical radius otherwise
Relevant(n, c, r) == SuppliesXyz(n) \/ SuppliesXyz(c) \/ r = One

Init == /\ nprov \in NodeProv /\ cprov \in CentreProv /\ radius \in Radii
        /\ Relevant(nprov, cprov, radius)
        /\ hist = << >> /\ done = FALSE
        /\ nodeXyz = IF SuppliesXyz(nprov) THEN Tag(radius) ELSE "absent"
        /\ faceXyz = IF SuppliesXyz(cprov) THEN Tag(radius) ELSE "absent"
        /\ faceLL  = (cprov \in { "lonlat", "both" })
        /\ offc \in (IF cprov = "computed" THEN { FALSE } ELSE BOOLEAN)
        /\ centreIs = IF cprov = "computed" THEN "centroid" ELSE "shipped"

Derive(x) == IF x = "absent" THEN "unit" ELSE x     \* derived Cartesian coordinates have unit length

\* reading a face coordinate materialises what is missing: x/y/z from lon/lat (unit), lon/lat from x/y/z,
\* or both from the nodes (normalised mean of the corners)
ReadFaceLon ==
    /\ faceXyz' = Derive(faceXyz)
    /\ faceLL'  = TRUE
    /\ nodeXyz' = IF faceXyz = "absent" /\ ~faceLL THEN Derive(nodeXyz) ELSE nodeXyz
ConstructCentres ==
    /\ faceXyz' = "unit" /\ faceLL' = TRUE /\ nodeXyz' = Derive(nodeXyz)
Normalize ==
    /\ nodeXyz' = (IF nodeXyz = "absent" THEN "absent" ELSE "unit")
    /\ faceXyz' = (IF faceXyz = "absent" THEN "absent" ELSE "unit")
    /\ faceLL' = faceLL

Pre(op) == /\ ~done /\ Len(hist) < MaxPre /\ op \in PreOps
           /\ hist' = Append(hist, op)
           /\ CASE op = "face_lon" -> ReadFaceLon
                [] op = "construct_face_centers" -> ConstructCentres
                [] op = "normalize" -> Normalize
           \* only an explicit construct_face_centers() may replace shipped centres
           /\ centreIs' = IF op = "construct_face_centers" THEN "centroid" ELSE centreIs
           /\ UNCHANGED <<nprov, cprov, radius, done, offc>>
GetDual == /\ ~done /\ done' = TRUE
           /\ nodeXyz' = Derive(nodeXyz)
           /\ faceXyz' = Derive(faceXyz)
           /\ faceLL' = TRUE
           /\ UNCHANGED <<nprov, cprov, radius, hist, offc, centreIs>>      \* get_dual() never moves a face centre
Next == (\E op \in PreOps : Pre(op)) \/ GetDual

(* ---- normative: the observation is a function of the mesh alone ------------------- *)
Result(mesh_rings) == mesh_rings           \* no provenance, scale or history argument
(* ---- laws of the descriptive model -------------------------------------------------- *)
Mixed == done /\ nodeXyz # faceXyz
TypeOK == /\ nodeXyz \in { "absent", "unit", "R" } /\ faceXyz \in { "absent", "unit", "R" }
          /\ (done => nodeXyz # "absent" /\ faceXyz # "absent")
\* a unit-sphere source can never be mixed; normalising right before get_dual() unmixes everything supplied
UnitSourceNeverMixed == radius = One => ~Mixed
NormalizeLastUnmixes == (done /\ Len(hist) > 0 /\ hist[Len(hist)] = "normalize") => ~Mixed
\* both arrays supplied on the source's sphere and nothing recomputed: same sphere
SameSphereWhenBothSupplied == (done /\ hist = << >> /\ SuppliesXyz(nprov) /\ SuppliesXyz(cprov)) => ~Mixed

\* where the dual's nodes must be: at the face centres as they were before the call
DualNodesAt == centreIs
ShippedCentresSurvive == (cprov # "computed" /\ \A k \in 1..Len(hist) : hist[k] # "construct_face_centers") => centreIs = "shipped"

Emit == done => PrintT(<<"PROV", [ nodes |-> nprov, centres |-> cprov, radius |-> radius, hist |-> hist,
                                   offc |-> offc, dual_nodes_at |-> DualNodesAt,
                                   node_scale |-> nodeXyz, face_scale |-> faceXyz, mixed |-> Mixed ]>>)
=============================================================================

----------------------------- MODULE JudgeBounds -----------------------------
(***************************************************************************)
(* C13 judge.  One ndjson line per face handed to Grid.bounds:             *)
(*   id      case id                                                       *)
(*   f       the face as counter-clockwise integer directions              *)
(*   cw      TRUE iff it was handed over in the opposite traversal         *)
(*   plon    "zero" | "west": which longitude a corner at a pole was given *)
(*   fam     "lattice" | "polar" | "small": f itself was handed over, or   *)
(*           its image under the scale maps of BoundsScale.tla (which      *)
(*           inherit every feature decided here); turned = TRUE iff that   *)
(*           image was rotated away from the lon = 0 seam                  *)
(*   raised  TRUE iff the bound computation raised (then nothing else)     *)
(*   mx, mn  features <<"c", j>> / <<"e", i>> / <<"p", s>> whose exact     *)
(*           latitude the reported lat_max (lat_min) equals within 1e-8    *)
(*   lo, hi  corners whose longitude the reported lon_min (lon_max)        *)
(*           equals within 1e-9 (mod 2 pi)                                 *)
(*   full    reported longitude interval is the whole circle               *)
(*   wrap    reported lon_min > lon_max                                    *)
(*   encl    boundary sample points found outside the reported box:        *)
(*           <<"lat_lo" | "lat_hi" | "lon" | "nonfinite", edge, k>>        *)
(* The harness only evaluates descriptors and applies the tolerance; which *)
(* feature must attain each bound, what the interval must be, and the      *)
(* abstract signature of a failing case are decided here (BoundsSpec).     *)
(***************************************************************************)
EXTENDS BoundsSpec, Json, IOUtils, TLC, TLCExt

Recs  == ndJsonDeserialize(IOEnv.REC_FILE)
Block == 64
NBlocks == (Len(Recs) + Block - 1) \div Block

VARIABLE i      \* < 0: block marker, > 0: record index

Ran(s) == { s[k] : k \in DOMAIN s }

Clauses(r) ==
  LET f    == r.f
      encl == EnclosesPole(f)
  IN
  IF r.raised THEN [ Value |-> FALSE ]
  ELSE
  [ Value       |-> TRUE,
    LatMaxTight |-> Ran(r.mx) \cap AttainMax(f) # {},
    LatMinTight |-> Ran(r.mn) \cap AttainMin(f) # {},
    LonFull     |-> encl => r.full,
    LonWest     |-> ~encl => Ran(r.lo) \cap WestSet(f) # {},
    LonEast     |-> ~encl => Ran(r.hi) \cap EastSet(f) # {},
    Wrap        |-> ~encl => IF r.turned THEN (r.fam = "small" => ~r.wrap)   \* a small face turned away from the seam; a turned polar face: not judged
                             ELSE (WrapExpected(f) = "either" \/ (r.wrap <=> WrapExpected(f) = "yes")),
    EnclLatLo   |-> \A x \in Ran(r.encl) : x[1] # "lat_lo",
    EnclLatHi   |-> \A x \in Ran(r.encl) : x[1] # "lat_hi",
    EnclLon     |-> \A x \in Ran(r.encl) : x[1] \notin {"lon", "nonfinite"}
  ]

Failed(r) == LET c == Clauses(r) IN { k \in DOMAIN c : ~c[k] }

(* ---- abstract signature of a case (for known findings on sampled scopes) ------- *)
RefPoint == <<1, 0, 0>>           \* the fixed equator point the implementation shoots its test arc at
\* does the report claim a pole exactly when the face has one (inside or as a corner)?
PoleClaim(r) ==
    IF r.raised THEN "none"
    ELSE IF /\ (<<"p", 1>> \in Ran(r.mx)) <=> (PoleStatus(r.f, 1) \in {"Inside", "Corner"})
            /\ (<<"p", -1>> \in Ran(r.mn)) <=> (PoleStatus(r.f, -1) \in {"Inside", "Corner"})
         THEN "ok" ELSE "wrong"
\* the meridian arc pole -> RefPoint meets the boundary at a corner, or RefPoint is not strictly outside
CornerOnRefMeridian(f) == \E j \in 1..Len(f) : OnSeam(f[j])
\* a corner at a pole was given a longitude that the exact interval does not cover
Lon0Covered(f) ==
    LET w == f[CHOOSE k \in WestSet(f) : TRUE]
        e == f[CHOOSE k \in EastSet(f) : TRUE]
        z == <<1, 0, 0>>
    IN (Cross2(w, z) > 0 \/ SameLon(w, z)) /\ (Cross2(z, e) > 0 \/ SameLon(z, e))
Sig(r) ==
  LET f == r.f IN
  [ n |-> Len(f), cw |-> r.cw, family |-> r.fam, turned |-> r.turned,
    poleN |-> PoleStatus(f, 1), poleS |-> PoleStatus(f, -1),
    hemisphere |-> Hemisphere(f), one_hemisphere |-> Hemisphere(f) # "Straddles", encloses_pole |-> EnclosesPole(f), pole_claim |-> PoleClaim(r),
    min_only_at_bulge_starters |-> OnlyBulgeStarters(f, r.cw, AttainMin(f)),
    max_only_at_bulge_starters |-> OnlyBulgeStarters(f, r.cw, AttainMax(f)),
    min_only_at_edge_interior |-> \A ft \in AttainMin(f) : ft[1] = "e",
    max_only_at_edge_interior |-> \A ft \in AttainMax(f) : ft[1] = "e",
    corner_on_ref_meridian |-> CornerOnRefMeridian(f),
    ref_point |-> PointClass(f, RefPoint),
    pole_corner_lon_covered |-> IF (CornerAt(f, 1) \/ CornerAt(f, -1)) /\ ~EnclosesPole(f)
                                THEN (r.plon = "west" \/ Lon0Covered(f)) ELSE TRUE ]

Init == i \in { -b : b \in 1..NBlocks }
Next == /\ i < 0
        /\ i' \in { k \in 1..Len(Recs) : (k - 1) \div Block = (-i) - 1 }

Judge == i > 0 =>
           LET r == Recs[i]
               fl == Failed(r)
           IN IF ~InQuantifier(r.f) THEN PrintT(<<"X", r.id>>)     \* harness error: never judged
              ELSE fl = {} \/ PrintT(<<"V", r.id, fl, Sig(r)>>)
=============================================================================

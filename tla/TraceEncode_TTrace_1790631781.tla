---- MODULE TraceEncode_TTrace_1790631781 ----
EXTENDS Sequences, TLCExt, Toolbox, Naturals, TLC, TraceEncode

_expression ==
    LET TraceEncode_TEExpression == INSTANCE TraceEncode_TEExpression
    IN TraceEncode_TEExpression!expression
----

_trace ==
    LET TraceEncode_TETrace == INSTANCE TraceEncode_TETrace
    IN TraceEncode_TETrace!trace
----

_inv ==
    ~(
        TLCGet("level") = Len(_TETrace)
        /\
        ln = (6)
        /\
        hist = (<<>>)
        /\
        ops = (0)
        /\
        tmplEdge = ({})
        /\
        bad = ({<<"Serialisable", 1, "edge_node_connectivity">>})
        /\
        exports = (<<[vars |-> {"face_node_connectivity", "node_lon", "node_lat", "edge_node_connectivity", "face_edge_connectivity", "grid_topology", "n_face", "n_node", "n_max_face_nodes", "n_edge", "n_max_face_edges", "two"}, helper |-> {"edge_node_connectivity"}, g |-> "g1", fmt |-> "ugrid", status |-> "ok", names |-> {"face_node_connectivity", "node_lon", "node_lat", "n_face", "n_node"}, alias |-> TRUE, enc |-> [kind |-> "ugrid", conn |-> <<<<0, 1, 3, 2>>, <<0, 2, 6, 4>>, <<0, 4, 5, 1>>, <<1, 5, 7, 3>>, <<2, 3, 7, 6>>, <<4, 6, 7, 5>>>>, start |-> 0, hasfill |-> TRUE, blocks |-> <<>>, corners |-> <<>>, nnode |-> 8, pos |-> <<0, 1, 2, 3, 4, 5, 6, 7>>, has |-> {"topology", "face_node_connectivity", "node_lon", "node_lat"}], written |-> "ok", jud |-> {}, mem |-> [st |-> "ok", ok |-> TRUE], file |-> [st |-> "ok", ok |-> TRUE]]>>)
        /\
        grid = ([g1 |-> [helper |-> {"edge_node_connectivity"}, open |-> TRUE, store |-> {"face_node_connectivity", "node_lon", "node_lat", "edge_node_connectivity", "face_edge_connectivity", "grid_topology"}, chunked |-> FALSE], g2 |-> [helper |-> {}, open |-> FALSE, store |-> {}, chunked |-> FALSE]])
        /\
        stuck = (FALSE)
        /\
        tmplTopo = ({})
        /\
        tr = (1)
        /\
        mesh = ([g1 |-> <<<<0, 1, 3, 2>>, <<0, 2, 6, 4>>, <<0, 4, 5, 1>>, <<1, 5, 7, 3>>, <<2, 3, 7, 6>>, <<4, 6, 7, 5>>>>, g2 |-> <<<<0, 1, 3>>, <<0, 2, 1>>, <<0, 3, 4>>, <<0, 4, 2>>, <<1, 2, 5>>, <<1, 5, 3>>, <<2, 4, 5>>, <<3, 5, 4>>>>])
        /\
        desc = ([g1 |-> [route |-> "topo", shape |-> "uni"], g2 |-> [route |-> "topoE", shape |-> "uni"]])
    )
----

_init ==
    /\ stuck = _TETrace[1].stuck
    /\ desc = _TETrace[1].desc
    /\ ln = _TETrace[1].ln
    /\ tmplTopo = _TETrace[1].tmplTopo
    /\ ops = _TETrace[1].ops
    /\ exports = _TETrace[1].exports
    /\ hist = _TETrace[1].hist
    /\ grid = _TETrace[1].grid
    /\ tr = _TETrace[1].tr
    /\ bad = _TETrace[1].bad
    /\ tmplEdge = _TETrace[1].tmplEdge
    /\ mesh = _TETrace[1].mesh
----

_next ==
    /\ \E i,j \in DOMAIN _TETrace:
        /\ \/ /\ j = i + 1
              /\ i = TLCGet("level")
        /\ stuck  = _TETrace[i].stuck
        /\ stuck' = _TETrace[j].stuck
        /\ desc  = _TETrace[i].desc
        /\ desc' = _TETrace[j].desc
        /\ ln  = _TETrace[i].ln
        /\ ln' = _TETrace[j].ln
        /\ tmplTopo  = _TETrace[i].tmplTopo
        /\ tmplTopo' = _TETrace[j].tmplTopo
        /\ ops  = _TETrace[i].ops
        /\ ops' = _TETrace[j].ops
        /\ exports  = _TETrace[i].exports
        /\ exports' = _TETrace[j].exports
        /\ hist  = _TETrace[i].hist
        /\ hist' = _TETrace[j].hist
        /\ grid  = _TETrace[i].grid
        /\ grid' = _TETrace[j].grid
        /\ tr  = _TETrace[i].tr
        /\ tr' = _TETrace[j].tr
        /\ bad  = _TETrace[i].bad
        /\ bad' = _TETrace[j].bad
        /\ tmplEdge  = _TETrace[i].tmplEdge
        /\ tmplEdge' = _TETrace[j].tmplEdge
        /\ mesh  = _TETrace[i].mesh
        /\ mesh' = _TETrace[j].mesh

\* Uncomment the ASSUME below to write the states of the error trace
\* to the given file in Json format. Note that you can pass any tuple
\* to `JsonSerialize`. For example, a sub-sequence of _TETrace.
    \* ASSUME
    \*     LET J == INSTANCE Json
    \*         IN J!JsonSerialize("TraceEncode_TTrace_1790631781.json", _TETrace)

=============================================================================

 Note that you can extract this module `TraceEncode_TEExpression`
  to a dedicated file to reuse `expression` (the module in the 
  dedicated `TraceEncode_TEExpression.tla` file takes precedence 
  over the module `TraceEncode_TEExpression` below).

---- MODULE TraceEncode_TEExpression ----
EXTENDS Sequences, TLCExt, Toolbox, Naturals, TLC, TraceEncode

expression == 
    [
        \* To hide variables of the `TraceEncode` spec from the error trace,
        \* remove the variables below.  The trace will be written in the order
        \* of the fields of this record.
        stuck |-> stuck
        ,desc |-> desc
        ,ln |-> ln
        ,tmplTopo |-> tmplTopo
        ,ops |-> ops
        ,exports |-> exports
        ,hist |-> hist
        ,grid |-> grid
        ,tr |-> tr
        ,bad |-> bad
        ,tmplEdge |-> tmplEdge
        ,mesh |-> mesh
        
        \* Put additional constant-, state-, and action-level expressions here:
        \* ,_stateNumber |-> _TEPosition
        \* ,_stuckUnchanged |-> stuck = stuck'
        
        \* Format the `stuck` variable as Json value.
        \* ,_stuckJson |->
        \*     LET J == INSTANCE Json
        \*     IN J!ToJson(stuck)
        
        \* Lastly, you may build expressions over arbitrary sets of states by
        \* leveraging the _TETrace operator.  For example, this is how to
        \* count the number of times a spec variable changed up to the current
        \* state in the trace.
        \* ,_stuckModCount |->
        \*     LET F[s \in DOMAIN _TETrace] ==
        \*         IF s = 1 THEN 0
        \*         ELSE IF _TETrace[s].stuck # _TETrace[s-1].stuck
        \*             THEN 1 + F[s-1] ELSE F[s-1]
        \*     IN F[_TEPosition - 1]
    ]

=============================================================================



Parsing and semantic processing can take forever if the trace below is long.
 In this case, it is advised to uncomment the module below to deserialize the
 trace from a generated binary file.

\*
\*---- MODULE TraceEncode_TETrace ----
\*EXTENDS IOUtils, TLC, TraceEncode
\*
\*trace == IODeserialize("TraceEncode_TTrace_1790631781.bin", TRUE)
\*
\*=============================================================================
\*

---- MODULE TraceEncode_TETrace ----
EXTENDS TLC, TraceEncode

trace == 
    <<
    ([ln |-> 0,hist |-> <<>>,ops |-> 0,tmplEdge |-> {},bad |-> {},exports |-> <<>>,grid |-> [g1 |-> [helper |-> {}, open |-> FALSE, store |-> {}, chunked |-> FALSE], g2 |-> [helper |-> {}, open |-> FALSE, store |-> {}, chunked |-> FALSE]],stuck |-> FALSE,tmplTopo |-> {},tr |-> 1,mesh |-> [g1 |-> <<<<0, 1, 3, 2>>, <<0, 2, 6, 4>>, <<0, 4, 5, 1>>, <<1, 5, 7, 3>>, <<2, 3, 7, 6>>, <<4, 6, 7, 5>>>>, g2 |-> <<<<0, 1, 3>>, <<0, 2, 1>>, <<0, 3, 4>>, <<0, 4, 2>>, <<1, 2, 5>>, <<1, 5, 3>>, <<2, 4, 5>>, <<3, 5, 4>>>>],desc |-> [g1 |-> [route |-> "topo", shape |-> "uni"], g2 |-> [route |-> "topoE", shape |-> "uni"]]]),
    ([ln |-> 1,hist |-> <<>>,ops |-> 0,tmplEdge |-> {},bad |-> {},exports |-> <<>>,grid |-> [g1 |-> [helper |-> {}, open |-> TRUE, store |-> {"face_node_connectivity", "node_lon", "node_lat"}, chunked |-> FALSE], g2 |-> [helper |-> {}, open |-> FALSE, store |-> {}, chunked |-> FALSE]],stuck |-> FALSE,tmplTopo |-> {},tr |-> 1,mesh |-> [g1 |-> <<<<0, 1, 3, 2>>, <<0, 2, 6, 4>>, <<0, 4, 5, 1>>, <<1, 5, 7, 3>>, <<2, 3, 7, 6>>, <<4, 6, 7, 5>>>>, g2 |-> <<<<0, 1, 3>>, <<0, 2, 1>>, <<0, 3, 4>>, <<0, 4, 2>>, <<1, 2, 5>>, <<1, 5, 3>>, <<2, 4, 5>>, <<3, 5, 4>>>>],desc |-> [g1 |-> [route |-> "topo", shape |-> "uni"], g2 |-> [route |-> "topoE", shape |-> "uni"]]]),
    ([ln |-> 2,hist |-> <<>>,ops |-> 0,tmplEdge |-> {},bad |-> {},exports |-> <<[vars |-> {"face_node_connectivity", "node_lon", "node_lat", "grid_topology", "n_face", "n_node", "n_max_face_nodes"}, helper |-> {}, g |-> "g1", fmt |-> "ugrid", status |-> "ok", names |-> {"face_node_connectivity", "node_lon", "node_lat", "n_face", "n_node"}, alias |-> TRUE, enc |-> [kind |-> "ugrid", conn |-> <<<<0, 1, 3, 2>>, <<0, 2, 6, 4>>, <<0, 4, 5, 1>>, <<1, 5, 7, 3>>, <<2, 3, 7, 6>>, <<4, 6, 7, 5>>>>, start |-> 0, hasfill |-> TRUE, blocks |-> <<>>, corners |-> <<>>, nnode |-> 8, pos |-> <<0, 1, 2, 3, 4, 5, 6, 7>>, has |-> {"topology", "face_node_connectivity", "node_lon", "node_lat"}], written |-> "no", jud |-> {}, mem |-> [st |-> "none", ok |-> TRUE], file |-> [st |-> "none", ok |-> TRUE]]>>,grid |-> [g1 |-> [helper |-> {}, open |-> TRUE, store |-> {"face_node_connectivity", "node_lon", "node_lat", "grid_topology"}, chunked |-> FALSE], g2 |-> [helper |-> {}, open |-> FALSE, store |-> {}, chunked |-> FALSE]],stuck |-> FALSE,tmplTopo |-> {},tr |-> 1,mesh |-> [g1 |-> <<<<0, 1, 3, 2>>, <<0, 2, 6, 4>>, <<0, 4, 5, 1>>, <<1, 5, 7, 3>>, <<2, 3, 7, 6>>, <<4, 6, 7, 5>>>>, g2 |-> <<<<0, 1, 3>>, <<0, 2, 1>>, <<0, 3, 4>>, <<0, 4, 2>>, <<1, 2, 5>>, <<1, 5, 3>>, <<2, 4, 5>>, <<3, 5, 4>>>>],desc |-> [g1 |-> [route |-> "topo", shape |-> "uni"], g2 |-> [route |-> "topoE", shape |-> "uni"]]]),
    ([ln |-> 3,hist |-> <<>>,ops |-> 0,tmplEdge |-> {},bad |-> {},exports |-> <<[vars |-> {"face_node_connectivity", "node_lon", "node_lat", "grid_topology", "n_face", "n_node", "n_max_face_nodes"}, helper |-> {}, g |-> "g1", fmt |-> "ugrid", status |-> "ok", names |-> {"face_node_connectivity", "node_lon", "node_lat", "n_face", "n_node"}, alias |-> TRUE, enc |-> [kind |-> "ugrid", conn |-> <<<<0, 1, 3, 2>>, <<0, 2, 6, 4>>, <<0, 4, 5, 1>>, <<1, 5, 7, 3>>, <<2, 3, 7, 6>>, <<4, 6, 7, 5>>>>, start |-> 0, hasfill |-> TRUE, blocks |-> <<>>, corners |-> <<>>, nnode |-> 8, pos |-> <<0, 1, 2, 3, 4, 5, 6, 7>>, has |-> {"topology", "face_node_connectivity", "node_lon", "node_lat"}], written |-> "ok", jud |-> {}, mem |-> [st |-> "none", ok |-> TRUE], file |-> [st |-> "none", ok |-> TRUE]]>>,grid |-> [g1 |-> [helper |-> {}, open |-> TRUE, store |-> {"face_node_connectivity", "node_lon", "node_lat", "grid_topology"}, chunked |-> FALSE], g2 |-> [helper |-> {}, open |-> FALSE, store |-> {}, chunked |-> FALSE]],stuck |-> FALSE,tmplTopo |-> {},tr |-> 1,mesh |-> [g1 |-> <<<<0, 1, 3, 2>>, <<0, 2, 6, 4>>, <<0, 4, 5, 1>>, <<1, 5, 7, 3>>, <<2, 3, 7, 6>>, <<4, 6, 7, 5>>>>, g2 |-> <<<<0, 1, 3>>, <<0, 2, 1>>, <<0, 3, 4>>, <<0, 4, 2>>, <<1, 2, 5>>, <<1, 5, 3>>, <<2, 4, 5>>, <<3, 5, 4>>>>],desc |-> [g1 |-> [route |-> "topo", shape |-> "uni"], g2 |-> [route |-> "topoE", shape |-> "uni"]]]),
    ([ln |-> 4,hist |-> <<>>,ops |-> 0,tmplEdge |-> {},bad |-> {},exports |-> <<[vars |-> {"face_node_connectivity", "node_lon", "node_lat", "grid_topology", "n_face", "n_node", "n_max_face_nodes"}, helper |-> {}, g |-> "g1", fmt |-> "ugrid", status |-> "ok", names |-> {"face_node_connectivity", "node_lon", "node_lat", "n_face", "n_node"}, alias |-> TRUE, enc |-> [kind |-> "ugrid", conn |-> <<<<0, 1, 3, 2>>, <<0, 2, 6, 4>>, <<0, 4, 5, 1>>, <<1, 5, 7, 3>>, <<2, 3, 7, 6>>, <<4, 6, 7, 5>>>>, start |-> 0, hasfill |-> TRUE, blocks |-> <<>>, corners |-> <<>>, nnode |-> 8, pos |-> <<0, 1, 2, 3, 4, 5, 6, 7>>, has |-> {"topology", "face_node_connectivity", "node_lon", "node_lat"}], written |-> "ok", jud |-> {}, mem |-> [st |-> "ok", ok |-> TRUE], file |-> [st |-> "none", ok |-> TRUE]]>>,grid |-> [g1 |-> [helper |-> {}, open |-> TRUE, store |-> {"face_node_connectivity", "node_lon", "node_lat", "grid_topology"}, chunked |-> FALSE], g2 |-> [helper |-> {}, open |-> FALSE, store |-> {}, chunked |-> FALSE]],stuck |-> FALSE,tmplTopo |-> {},tr |-> 1,mesh |-> [g1 |-> <<<<0, 1, 3, 2>>, <<0, 2, 6, 4>>, <<0, 4, 5, 1>>, <<1, 5, 7, 3>>, <<2, 3, 7, 6>>, <<4, 6, 7, 5>>>>, g2 |-> <<<<0, 1, 3>>, <<0, 2, 1>>, <<0, 3, 4>>, <<0, 4, 2>>, <<1, 2, 5>>, <<1, 5, 3>>, <<2, 4, 5>>, <<3, 5, 4>>>>],desc |-> [g1 |-> [route |-> "topo", shape |-> "uni"], g2 |-> [route |-> "topoE", shape |-> "uni"]]]),
    ([ln |-> 5,hist |-> <<>>,ops |-> 0,tmplEdge |-> {},bad |-> {},exports |-> <<[vars |-> {"face_node_connectivity", "node_lon", "node_lat", "grid_topology", "n_face", "n_node", "n_max_face_nodes"}, helper |-> {}, g |-> "g1", fmt |-> "ugrid", status |-> "ok", names |-> {"face_node_connectivity", "node_lon", "node_lat", "n_face", "n_node"}, alias |-> TRUE, enc |-> [kind |-> "ugrid", conn |-> <<<<0, 1, 3, 2>>, <<0, 2, 6, 4>>, <<0, 4, 5, 1>>, <<1, 5, 7, 3>>, <<2, 3, 7, 6>>, <<4, 6, 7, 5>>>>, start |-> 0, hasfill |-> TRUE, blocks |-> <<>>, corners |-> <<>>, nnode |-> 8, pos |-> <<0, 1, 2, 3, 4, 5, 6, 7>>, has |-> {"topology", "face_node_connectivity", "node_lon", "node_lat"}], written |-> "ok", jud |-> {}, mem |-> [st |-> "ok", ok |-> TRUE], file |-> [st |-> "ok", ok |-> TRUE]]>>,grid |-> [g1 |-> [helper |-> {}, open |-> TRUE, store |-> {"face_node_connectivity", "node_lon", "node_lat", "grid_topology"}, chunked |-> FALSE], g2 |-> [helper |-> {}, open |-> FALSE, store |-> {}, chunked |-> FALSE]],stuck |-> FALSE,tmplTopo |-> {},tr |-> 1,mesh |-> [g1 |-> <<<<0, 1, 3, 2>>, <<0, 2, 6, 4>>, <<0, 4, 5, 1>>, <<1, 5, 7, 3>>, <<2, 3, 7, 6>>, <<4, 6, 7, 5>>>>, g2 |-> <<<<0, 1, 3>>, <<0, 2, 1>>, <<0, 3, 4>>, <<0, 4, 2>>, <<1, 2, 5>>, <<1, 5, 3>>, <<2, 4, 5>>, <<3, 5, 4>>>>],desc |-> [g1 |-> [route |-> "topo", shape |-> "uni"], g2 |-> [route |-> "topoE", shape |-> "uni"]]]),
    ([ln |-> 6,hist |-> <<>>,ops |-> 0,tmplEdge |-> {},bad |-> {<<"Serialisable", 1, "edge_node_connectivity">>},exports |-> <<[vars |-> {"face_node_connectivity", "node_lon", "node_lat", "edge_node_connectivity", "face_edge_connectivity", "grid_topology", "n_face", "n_node", "n_max_face_nodes", "n_edge", "n_max_face_edges", "two"}, helper |-> {"edge_node_connectivity"}, g |-> "g1", fmt |-> "ugrid", status |-> "ok", names |-> {"face_node_connectivity", "node_lon", "node_lat", "n_face", "n_node"}, alias |-> TRUE, enc |-> [kind |-> "ugrid", conn |-> <<<<0, 1, 3, 2>>, <<0, 2, 6, 4>>, <<0, 4, 5, 1>>, <<1, 5, 7, 3>>, <<2, 3, 7, 6>>, <<4, 6, 7, 5>>>>, start |-> 0, hasfill |-> TRUE, blocks |-> <<>>, corners |-> <<>>, nnode |-> 8, pos |-> <<0, 1, 2, 3, 4, 5, 6, 7>>, has |-> {"topology", "face_node_connectivity", "node_lon", "node_lat"}], written |-> "ok", jud |-> {}, mem |-> [st |-> "ok", ok |-> TRUE], file |-> [st |-> "ok", ok |-> TRUE]]>>,grid |-> [g1 |-> [helper |-> {"edge_node_connectivity"}, open |-> TRUE, store |-> {"face_node_connectivity", "node_lon", "node_lat", "edge_node_connectivity", "face_edge_connectivity", "grid_topology"}, chunked |-> FALSE], g2 |-> [helper |-> {}, open |-> FALSE, store |-> {}, chunked |-> FALSE]],stuck |-> FALSE,tmplTopo |-> {},tr |-> 1,mesh |-> [g1 |-> <<<<0, 1, 3, 2>>, <<0, 2, 6, 4>>, <<0, 4, 5, 1>>, <<1, 5, 7, 3>>, <<2, 3, 7, 6>>, <<4, 6, 7, 5>>>>, g2 |-> <<<<0, 1, 3>>, <<0, 2, 1>>, <<0, 3, 4>>, <<0, 4, 2>>, <<1, 2, 5>>, <<1, 5, 3>>, <<2, 4, 5>>, <<3, 5, 4>>>>],desc |-> [g1 |-> [route |-> "topo", shape |-> "uni"], g2 |-> [route |-> "topoE", shape |-> "uni"]]])
    >>
----


=============================================================================

---- CONFIG TraceEncode_TTrace_1790631781 ----
CONSTANTS
    MechName = "intended"
    MaxOps = 0
    MaxExports = 16
    Routes1 = { }
    Shapes1 = { }
    Routes2 = { }
    Shapes2 = { }
    WithIO = TRUE

INVARIANT
    _inv

CHECK_DEADLOCK
    \* CHECK_DEADLOCK off because of PROPERTY or INVARIANT above.
    FALSE

INIT
    _init

NEXT
    _next

CONSTANT
    _TETrace <- _trace

ALIAS
    _expression
=============================================================================
\* Generated on Mon Sep 28 21:43:02 UTC 2026
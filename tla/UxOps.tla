------------------------------- MODULE UxOps -------------------------------
(***************************************************************************)
(* C10: xarray operations keep a UxDataArray attached to a consistent      *)
(* grid.  The state is ONE abstract array and the pool of grid handles it  *)
(* can be attached to; an action is one public operation (xarray's or      *)
(* uxarray's own) applied to the array, the result replacing it: a         *)
(* behaviour is a PROGRAM  op_n(... op_1(x) ...).                          *)
(*                                                                         *)
(* The operation table is written from xarray's public API and the         *)
(* property text, not from what the implementation currently does.         *)
(*                                                                         *)
(* array  = [cls, grid, dims, name, dt]                                    *)
(*   cls   "Ux" | "Plain" | "Other"                                        *)
(*   grid  handle (index into grids), 0 = no grid attached                 *)
(*   dims  sequence of [k, n, idx]:                                        *)
(*           k   dimension kind: time lev run | n_face n_node n_edge       *)
(*           n   non-grid kinds: the length;                               *)
(*               grid kinds: the HANDLE of the grid whose element count    *)
(*               of that kind the length equals (0 = no known grid)        *)
(*           idx label bookkeeping of the dim's coordinate: "uniq" known   *)
(*               unique, "dup" possibly repeated / NaN, "none" no          *)
(*               coordinate; descriptive, used by preconditions only       *)
(*   name  "v" | "w" | "none" | "free" (free = the property says nothing)  *)
(*   dt    "float" | "other" (descriptive: numeric operators need numbers) *)
(*   al    TRUE iff element i of the data along the grid dim belongs to    *)
(*         element i of the attached grid (data order = grid order)        *)
(* grid   = [kind, of, closed]  kind base|dest|subset|dual|copy,           *)
(*          of = the handle it was derived from                            *)
(***************************************************************************)
EXTENDS Naturals, Sequences, FiniteSets, TLC

CONSTANTS MaxDepth,     \* programs of at most this many operations
          Broken,       \* TRUE: add a deliberately wrong operation (sanity of the invariants)
          EmitSucc      \* TRUE: invariant Emit prints the successor table of every state

VARIABLES arr, grids, last, depth
vars == <<arr, grids, last, depth>>

GridKinds == {"n_face", "n_node", "n_edge"}
LeadKinds == {"time", "lev", "run"}
DimKinds  == GridKinds \cup LeadKinds
Names     == {"v", "w", "none", "free"}
BASE == 1
DEST == 2
MaxLen == 16

Dim(k, n, idx) == [k |-> k, n |-> n, idx |-> idx]

(* ---- reading an array -------------------------------------------------- *)
Idx(a)        == 1..Len(a.dims)
GridIdx(a)    == {i \in Idx(a) : a.dims[i].k \in GridKinds}
LeadIdx(a)    == Idx(a) \ GridIdx(a)
HasGridDim(a) == GridIdx(a) # {}
GP(a)         == CHOOSE i \in GridIdx(a) : TRUE
Centred(a)    == IF HasGridDim(a) THEN a.dims[GP(a)].k ELSE "none"
GridLast(a)   == HasGridDim(a) /\ GP(a) = Len(a.dims)
HasKind(a, k) == \E i \in Idx(a) : a.dims[i].k = k
PosOf(a, k)   == CHOOSE i \in Idx(a) : a.dims[i].k = k
FirstLead(a)  == CHOOSE i \in LeadIdx(a) : \A j \in LeadIdx(a) : i <= j

RemoveAt(s, i) == SubSeq(s, 1, i - 1) \o SubSeq(s, i + 1, Len(s))
Reverse(s)     == [i \in 1..Len(s) |-> s[Len(s) + 1 - i]]
Min(x, y)      == IF x <= y THEN x ELSE y

(* ---- the invariants of the property ------------------------------------ *)
IsUxArr(a)       == a.cls = "Ux"
\* any node/edge/face dimension has the count of the ATTACHED grid
ConsistentArr(a) == \A i \in GridIdx(a) : a.grid # 0 /\ a.dims[i].n = a.grid
OneGridDim(a)    == Cardinality(GridIdx(a)) <= 1
DistinctKinds(a) == \A i, j \in Idx(a) : i # j => a.dims[i].k # a.dims[j].k

(* ---- operation names by class ------------------------------------------ *)
\* elementwise, no dimension argument: dims unchanged, same grid
ElemOps == {"add_scalar", "radd_scalar", "sub_scalar", "mul_scalar", "div_scalar", "pow_scalar",
            "mod_scalar", "mul_self", "add_self", "neg", "abs", "np_sin", "np_add", "round",
            "where_mask", "where_other", "xr_where", "clip", "fillna", "conj", "compute", "load",
            "pipe", "assign_attrs", "copy_shallow"}
ToBoolOps == {"gt_scalar", "eq_self", "isnull", "notnull", "isin"}   \* elementwise, result boolean
ToFloatOps == {"astype"}
RenameOps == {"rename", "to_dataset_roundtrip"}
ElemGridOps == {"cumsum_grid"}                                        \* along the grid dim, length kept
\* elementwise, one non-grid dimension as argument
\* (the *_rev_* forms index the dimension with slice(None, None, -1): same length, reversed)
ElemDimOps == {"add_plain", "shift", "roll", "cumsum", "cumprod", "rolling_mean", "sortby",
               "assign_coords", "drop_vars",
               "isel_rev_kw", "isel_rev_dict", "isel_rev_indexers", "getitem_rev"}
PermuteOps == {"T", "transpose_rev", "transpose_gridfirst", "transpose_rotate", "transpose_gridlast"}
\* a non-grid dimension removed
DropOps  == {"isel_kw", "isel_dict", "isel_indexers", "sel_kw", "sel_dict", "getitem_int",
             "getitem_dict", "loc", "mean", "sum", "max", "min", "std", "var", "median", "prod",
             "count", "quantile", "reduce", "squeeze"}
NeedsLabels == {"sel_kw", "sel_dict", "loc", "sortby", "reindex", "where_drop"}
\* a non-grid dimension's length changed
\* (the *_step_* forms index with the step-only slice(None, None, 2))
ResizeOps == {"isel_slice_kw", "isel_slice_dict", "getitem_slice", "head", "thin", "diff", "pad",
              "concat_self", "coarsen", "reindex", "isel_list_kw", "where_drop",
              "isel_step_kw", "isel_step_dict", "isel_step_indexers", "getitem_step"}
AddOps   == {"expand_dims_run", "concat_new_run", "broadcast_like_run"}
\* the grid dimension removed
DropGridOps == {"mean_grid", "sum_grid", "max_grid", "sum_all", "getitem_grid_scalar", "dot_self_grid",
                "integrate"}
\* the grid dimension replaced by another kind on the same grid
TopoOps  == {"topo_mean_face", "topo_mean_edge", "topo_max_face", "topo_min_edge"}
EdgeOps  == {"gradient", "difference"}
RemapOps == {"remap_nn_face", "remap_nn_node", "remap_nn_edge", "remap_idw_face", "remap_idw_node"}
DualOps  == {"get_dual"}
\* uxarray's grid-aware selection (keyword isel with a list, a bounded slice, a step-only slice, a negative-step
\* slice, an integer array, a boolean mask; subset.*): a NEW grid holding exactly the elements the data has
SubsetOps == {"isel_grid_kw", "subset_nn", "isel_grid_slice_kw", "isel_grid_step_kw", "isel_grid_rev_kw",
              "isel_grid_array_kw", "isel_grid_mask_kw"}
\* xarray indexing / resizing ON the grid dimension: the property only says what must hold of a result
FreeOps  == {"getitem_grid_slice", "isel_grid_dict", "isel_grid_indexers", "head_grid", "diff_grid",
             "pad_grid", "concat_self_grid",
             "isel_grid_step_dict", "isel_grid_step_indexers", "getitem_grid_step",
             "isel_grid_rev_dict", "isel_grid_rev_indexers", "getitem_grid_rev", "getitem_grid_mask"}
\* operations that SELECT elements of the grid dimension: element i of the data must belong to element i of the grid
SelectOps == SubsetOps \cup (FreeOps \ {"diff_grid", "pad_grid", "concat_self_grid"})
CopyOps  == {"copy_default", "copy_deep", "deepcopy"}
BrokenOps == {"broken_shorten_grid", "broken_reverse_grid"}

\* uxarray's own operators are documented on the last axis
\* (integrate, gradient and difference work along the grid dimension wherever it is: prescribed in every position)
LastAxisOps == TopoOps \cup RemapOps
OwnOps      == LastAxisOps \cup EdgeOps \cup {"integrate"} \cup DualOps \cup SubsetOps
NumericOwn  == TopoOps \cup EdgeOps \cup {"integrate", "remap_idw_face", "remap_idw_node"}
NoDimOps == ElemOps \cup ToBoolOps \cup ToFloatOps \cup RenameOps \cup ElemGridOps \cup PermuteOps
            \cup AddOps \cup DropGridOps \cup TopoOps \cup EdgeOps \cup RemapOps \cup DualOps
            \cup SubsetOps \cup FreeOps \cup CopyOps \cup (IF Broken THEN BrokenOps ELSE {})
DimOps   == ElemDimOps \cup DropOps \cup ResizeOps
ArrOps   == NoDimOps \cup DimOps
\* operations tried on every non-grid dimension (the others take the first one)
EveryDimOps == {"isel_kw", "mean", "cumsum", "isel_slice_kw", "squeeze"}
\* the grid handle may differ from the source's only for these
GridChanging == RemapOps \cup DualOps \cup SubsetOps \cup FreeOps \cup CopyOps

\* an operation: name, dimension argument, and (dataset-level operations touching the grid) the location MIX of the
\* dataset it is applied to: which companion variables stand next to the array in the dataset
\* ... and (generic selections) the KIND of indexer handed to the selection
Op(n, d)      == [op |-> n, d |-> d, m |-> {}, ix |-> "-"]
OpM(n, d, m)  == [op |-> n, d |-> d, m |-> m, ix |-> "-"]
OpX(n, d, m, ix) == [op |-> n, d |-> d, m |-> m, ix |-> ix]
NoOp == Op("start", "-")

\* is the effect left free by the property (refusal or any consistent result)?
IsFreeA(o, a) == o.op \in FreeOps \/ (o.op \in LastAxisOps /\ ~GridLast(a))

(* ---- preconditions ----------------------------------------------------- *)
RemapKind(n) == CASE n \in {"remap_nn_face", "remap_idw_face"} -> "n_face"
                  [] n \in {"remap_nn_node", "remap_idw_node"} -> "n_node"
                  [] OTHER -> "n_edge"

PreA(o, a, G) ==
  LET n == o.op
      hasd == o.d # "-" /\ HasKind(a, o.d)
      D == a.dims[PosOf(a, o.d)]
  IN /\ a.cls = "Ux" /\ a.grid # 0
     /\ (n \in DimOps) = (o.d # "-")
     /\ n \in DimOps => hasd /\ o.d \in LeadKinds
     /\ n \in NeedsLabels => D.idx = "uniq"
     /\ n = "drop_vars" => D.idx # "none"
     /\ n = "squeeze" => D.n = 1
     /\ n \in {"diff", "reindex", "where_drop", "rolling_mean"} => D.n >= 2
     /\ n \in {"pad", "concat_self"} => D.n <= 6
     /\ n \in AddOps => ~HasKind(a, "run")
     /\ n \in PermuteOps => Len(a.dims) >= 1
     /\ n = "transpose_gridfirst" => HasGridDim(a) /\ GP(a) > 1
     /\ n = "transpose_gridlast" => HasGridDim(a) /\ GP(a) < Len(a.dims)
     /\ n = "transpose_rotate" => Len(a.dims) >= 2
     /\ n \in DropGridOps \cup ElemGridOps \cup OwnOps \cup FreeOps \cup BrokenOps => HasGridDim(a)
     /\ n \in NumericOwn => a.dt = "float"
     /\ n = "integrate" => Centred(a) = "n_face"
     /\ n = "gradient" => Centred(a) = "n_face"
     /\ n = "difference" => Centred(a) \in {"n_face", "n_node"}
     /\ n \in TopoOps => Centred(a) = "n_node"
     /\ n \in DualOps => G[a.grid].closed
     /\ n \in CopyOps \cup SubsetOps \cup FreeOps \cup DualOps => Len(G) < MaxDepth + 3

(* ---- effects ------------------------------------------------------------ *)
NewHandle(G)   == Len(G) + 1
Rebind(ds, h)  == [i \in 1..Len(ds) |-> IF ds[i].k \in GridKinds THEN [ds[i] EXCEPT !.n = h] ELSE ds[i]]
R(a, G)        == [a |-> a, G |-> G]
SetDims(a, ds) == [a EXCEPT !.dims = ds]
SetLen(a, i, n, idx) == [a EXCEPT !.dims[i].n = n, !.dims[i].idx = idx]
ReplaceKind(a, k, h) == [a EXCEPT !.dims[GP(a)] = Dim(k, h, "none"), !.grid = h, !.name = "free"]
\* descriptive: uxarray's operators that build their result from bare values carry no coordinates
NoLabels(a) == [a EXCEPT !.dims = [i \in 1..Len(a.dims) |-> [a.dims[i] EXCEPT !.idx = "none"]]]
Derived(G, kind, of, closed) == Append(G, [kind |-> kind, of |-> of, closed |-> closed])

EffA(o, a, G) ==
  LET n == o.op
      i == IF o.d = "-" THEN 0 ELSE PosOf(a, o.d)
      D == a.dims[i]
      h == NewHandle(G)
  IN
  CASE n \in ElemOps \cup ElemGridOps -> R(a, G)
    [] n \in ToBoolOps  -> R([a EXCEPT !.dt = "other"], G)
    [] n \in ToFloatOps -> R([a EXCEPT !.dt = "float"], G)
    [] n \in RenameOps  -> R([a EXCEPT !.name = "w"], G)
    [] n = "add_plain"      -> R([a EXCEPT !.name = "none"], G)
    [] n = "assign_coords"  -> R(SetLen(a, i, D.n, "uniq"), G)
    [] n = "drop_vars"      -> R(SetLen(a, i, D.n, "none"), G)
    [] n \in ElemDimOps     -> R(a, G)
    [] n \in {"T", "transpose_rev"} -> R(SetDims(a, Reverse(a.dims)), G)
    [] n = "transpose_gridfirst" -> R(SetDims(a, <<a.dims[GP(a)]>> \o RemoveAt(a.dims, GP(a))), G)
    [] n = "transpose_gridlast"  -> R(SetDims(a, RemoveAt(a.dims, GP(a)) \o <<a.dims[GP(a)]>>), G)
    [] n = "transpose_rotate"    -> R(SetDims(a, Tail(a.dims) \o <<Head(a.dims)>>), G)
    [] n \in DropOps -> R(SetDims(a, RemoveAt(a.dims, i)), G)
    [] n \in {"isel_slice_kw", "isel_slice_dict", "getitem_slice", "head", "reindex"}
                      -> R(SetLen(a, i, Min(D.n, 2), D.idx), G)
    [] n \in {"thin", "isel_step_kw", "isel_step_dict", "isel_step_indexers", "getitem_step"}
                      -> R(SetLen(a, i, (D.n + 1) \div 2, D.idx), G)
    [] n \in {"diff", "where_drop"} -> R(SetLen(a, i, D.n - 1, D.idx), G)
    [] n = "pad"      -> R(SetLen(a, i, D.n + 2, IF D.idx = "none" THEN "none" ELSE "dup"), G)
    [] n = "concat_self" -> R(SetLen(a, i, 2 * D.n, IF D.idx = "none" THEN "none" ELSE "dup"), G)
    [] n \in {"coarsen", "isel_list_kw"} -> R(SetLen(a, i, 1, D.idx), G)
    [] n = "expand_dims_run" -> R(SetDims(a, <<Dim("run", 1, "none")>> \o a.dims), G)
    [] n \in {"concat_new_run", "broadcast_like_run"} -> R(SetDims(a, <<Dim("run", 2, "none")>> \o a.dims), G)
    [] n = "sum_all"  -> R(SetDims(a, <<>>), G)
    [] n = "integrate" -> R(NoLabels([SetDims(a, RemoveAt(a.dims, GP(a))) EXCEPT !.name = "free"]), G)
    [] n \in DropGridOps -> R(SetDims(a, RemoveAt(a.dims, GP(a))), G)
    [] n \in {"topo_mean_face", "topo_max_face"} -> R(NoLabels(ReplaceKind(a, "n_face", a.grid)), G)
    [] n \in {"topo_mean_edge", "topo_min_edge"} \cup EdgeOps -> R(NoLabels(ReplaceKind(a, "n_edge", a.grid)), G)
    [] n \in RemapOps -> R(ReplaceKind(a, RemapKind(n), DEST), G)
    [] n \in DualOps  -> R([NoLabels(ReplaceKind(a, CASE Centred(a) = "n_face" -> "n_node"
                                             [] Centred(a) = "n_node" -> "n_face"
                                             [] OTHER -> "n_edge", h)) EXCEPT !.name = "free"],
                           Derived(G, "dual", a.grid, TRUE))
    [] n \in SubsetOps \cup FreeOps
                      -> R([a EXCEPT !.grid = h, !.dims = Rebind(a.dims, h),
                                     !.name = IF n \in FreeOps THEN @ ELSE "free"],
                           Derived(G, "subset", a.grid, FALSE))
    [] n \in CopyOps  -> R([a EXCEPT !.grid = h, !.dims = Rebind(a.dims, h)],
                           Derived(G, "copy", a.grid, G[a.grid].closed))
    \* the deliberately wrong operation: shortens the grid dimension, keeps the grid
    [] n = "broken_shorten_grid" -> R([a EXCEPT !.dims[GP(a)].n = 0], G)
    \* a second one: reverses the data along the grid dimension, keeps the grid
    [] n = "broken_reverse_grid" -> R([a EXCEPT !.al = FALSE], G)

(* ---- the same operations THROUGH A UxDataset ----------------------------- *)
(* ds = x.to_dataset(name="v"); the dataset-level operation; the variable    *)
(* taken out again (ds[...]).  Each has the effect on dims / grid of the     *)
(* array-level operation it is mapped to; the name is the variable's.        *)
DsBase == [ ds_getitem |-> "compute", ds_attr |-> "compute", ds_data_vars |-> "compute",
            ds_assign |-> "rename", ds_rename_var |-> "rename", ds_setitem |-> "rename",
            ds_add_ds |-> "add_self", ds_mul_scalar |-> "mul_scalar", ds_neg |-> "neg", ds_np_sin |-> "np_sin",
            ds_where |-> "where_mask", ds_fillna |-> "fillna", ds_astype |-> "astype", ds_map |-> "pipe",
            ds_copy_shallow |-> "copy_shallow", ds_to_array |-> "compute", ds_cumsum |-> "cumsum",
            ds_isel_kw |-> "isel_kw", ds_isel_dict |-> "isel_dict", ds_sel |-> "sel_kw", ds_mean |-> "mean",
            ds_squeeze |-> "squeeze", ds_isel_slice |-> "isel_slice_kw", ds_diff |-> "diff",
            ds_concat |-> "concat_self", ds_head |-> "head", ds_expand_dims_run |-> "expand_dims_run",
            ds_transpose_rev |-> "transpose_rev", ds_mean_grid |-> "mean_grid", ds_copy_deep |-> "copy_deep",
            ds_get_dual |-> "get_dual", ds_remap_nn_face |-> "remap_nn_face",
            \* dataset-level indexing on the grid dimension: left free (refusal or any consistent result)
            ds_isel_grid_kw |-> "isel_grid_dict", ds_isel_grid_step |-> "isel_grid_step_dict",
            ds_head_grid |-> "head_grid", ds_tail_grid |-> "head_grid", ds_thin_grid |-> "head_grid",
            ds_isel_grid_slice |-> "isel_grid_dict", ds_isel_grid_array |-> "isel_grid_dict",
            ds_isel_grid_rev |-> "isel_grid_rev_dict" ]
DsOps  == DOMAIN DsBase
B(n)   == IF n \in DsOps THEN DsBase[n] ELSE n

(* ---- MIXED-location datasets ----------------------------------------------- *)
(* Next to the array ("v") the dataset holds companion variables on other      *)
(* element kinds: cf (n_face), cn (n_node), ce (n_edge), c0 (aux: no grid dim), *)
(* c2 (aux, aux2, n_node: two non-grid dims).  For the dataset-level operations *)
(* that touch a grid dimension TLC enumerates the mix (and, for selections, the *)
(* grid dimension selected along: the array's or any companion's).  After the   *)
(* operation EVERY variable must carry the result grid's counts.                *)
SeqRange(q)  == { q[i] : i \in 1..Len(q) }
Companions   == {"cf", "cn", "ce", "c0", "c2"}
CompShape(c) == CASE c = "cf" -> <<"n_face">> [] c = "cn" -> <<"n_node">> [] c = "ce" -> <<"n_edge">>
                  [] c = "c0" -> <<"aux">> [] c = "c2" -> <<"aux", "aux2", "n_node">>
AuxLen(k)    == IF k = "aux" THEN 4 ELSE 2
Mixes        == (SUBSET {"cf", "cn", "ce"} \ {{}}) \cup {{"c0", "c2"}, Companions}
KindsOf(m)   == { k \in GridKinds : \E c \in m : k \in SeqRange(CompShape(c)) }
MixSelectOps == {"ds_isel_grid_kw", "ds_isel_grid_step", "ds_isel_grid_slice", "ds_isel_grid_array", "ds_isel_grid_rev",
                 "ds_head_grid", "ds_tail_grid", "ds_thin_grid"}
MixOtherOps  == {"ds_get_dual", "ds_remap_nn_face", "ds_copy_deep", "ds_mean_grid"}
MixOps       == MixSelectOps \cup MixOtherOps
\* (for a selection on a mixed dataset d is the grid dimension selected along; the array-level analogue has none)

(* ---- GENERIC selections on the grid dimension: the indexer KIND ------------- *)
(* One operation per calling form; the kind of indexer is a parameter TLC       *)
(* enumerates.  What must be selected is what plain xarray's isel selects with  *)
(* the same indexer on that dimension (exactly for faces; node / edge           *)
(* selections are inclusive: at least those elements).                          *)
GselOps == {"gsel_kw", "gsel_dict", "gsel_indexers", "gsel_getitem",   \* x.isel(**{g: I}), x.isel({g: I}), x.isel(indexers={g: I}), x[..., I]
            "ds_gsel",                                                 \* ds.isel(**{g: I})["v"]
            "grid_gsel"}                                               \* UxDataArray(plain selection, uxgrid = x.uxgrid.isel(**{g: I})): Grid.isel itself
IxInt   == {"ilist", "ituple", "i32", "i64", "ixda", "iuxda", "irange", "repeated", "unsorted"}
IxMask  == {"blist", "bnd", "bxda", "buxda"}                           \* buxda: a UxDataArray from a comparison on data
IxSlice == {"s_bounded", "s_step", "s_rev", "s_neg", "s_negstop"}
IxKinds == IxInt \cup IxMask \cup IxSlice \cup {"scalar", "s_none", "empty"}
\* the operation of the table above whose effect the generic selection has
GselBase(n, ix) == CASE ix = "scalar" -> "getitem_grid_scalar"          \* the grid dim disappears, same grid
                     [] ix = "s_none" -> "compute"                      \* nothing selected away: same array, same grid
                     [] ix = "empty"  -> "isel_grid_dict"               \* free: refusal, or a consistent (empty) result
                     [] n \in {"gsel_kw", "grid_gsel"} -> "isel_grid_kw"   \* a NEW grid with exactly the elements the data has
                     [] OTHER -> "isel_grid_dict"                       \* free: consistent result or refusal
BN(o)  == IF o.op \in GselOps THEN GselBase(o.op, o.ix) ELSE B(o.op)
BO(o)  == Op(BN(o), IF o.op \in MixOps \cup GselOps THEN "-" ELSE o.d)
AllOps == ArrOps \cup DsOps \cup GselOps
DsName(n, nm) == CASE n \in {"ds_assign", "ds_rename_var", "ds_setitem"} -> "w"
                   [] n = "ds_to_array" -> "none"
                   [] B(n) \in OwnOps -> nm
                   [] OTHER -> "v"
Pre(o, a, G)  == /\ PreA(BO(o), a, G)
                 /\ o.op \notin MixOps => o.m = {}
                 /\ (o.op \in GselOps) = (o.ix # "-")
                 /\ o.op \in GselOps => /\ o.ix \in IxKinds /\ o.d = "-"
                                        \* (Grid.isel is documented for "a list or 1-D array of indices": no slices, no scalar)
                                        /\ o.op = "grid_gsel" => Centred(a) = "n_face" /\ o.ix \in IxInt \cup IxMask
                 /\ o.op \in MixOps => /\ o.m \in Mixes \cup {{}}
                                       /\ IF o.op \in MixSelectOps /\ o.m # {}
                                          THEN o.d \in {Centred(a)} \cup KindsOf(o.m) ELSE o.d = "-"
\* remapping a dataset that holds a variable without any grid dimension: refusal is accepted
IsFree(o, a)  == IsFreeA(BO(o), a) \/ (o.op = "ds_remap_nn_face" /\ "c0" \in o.m)
Eff(o, a, G)  == IF o.op \in DsOps
                 THEN LET r == EffA(BO(o), a, G) IN R([r.a EXCEPT !.name = DsName(o.op, @)], r.G)
                 ELSE IF o.op \in GselOps
                 THEN LET r == EffA(BO(o), a, G)
                      IN R([r.a EXCEPT !.name = IF o.op = "ds_gsel" THEN "v" ELSE IF o.ix = "s_none" THEN a.name ELSE @], r.G)
                 ELSE EffA(o, a, G)

\* what every companion must look like afterwards: kinds in order, <<kind, length>> with a grid dim's length given
\* as the handle whose count it equals (always the RESULT's grid)
CompDims(c, h) == [i \in 1..Len(CompShape(c)) |->
                     LET k == CompShape(c)[i] IN <<k, IF k \in GridKinds THEN h ELSE AuxLen(k)>>]
MapKind(q, f(_)) == [i \in 1..Len(q) |-> IF q[i][1] \in GridKinds THEN <<f(q[i][1]), q[i][2]>> ELSE q[i]]
DualKind(k)  == CASE k = "n_face" -> "n_node" [] k = "n_node" -> "n_face" [] OTHER -> k
ToFace(k)    == "n_face"
CompExp(o, a, G) ==
  LET rg == Eff(o, a, G).a.grid
      pk == Centred(a)
  IN [c \in o.m |->
        LET q == CompDims(c, rg) IN
        CASE o.op = "ds_get_dual"      -> MapKind(q, DualKind)
          [] o.op = "ds_remap_nn_face" -> MapKind(q, ToFace)
          [] o.op = "ds_mean_grid"     -> IF q[Len(q)][1] = pk THEN SubSeq(q, 1, Len(q) - 1) ELSE q
          [] OTHER -> q]

(* ---- which operations are tried in a state ------------------------------ *)
NoDimAll    == NoDimOps \cup { n \in DsOps : DsBase[n] \in NoDimOps }
DimAll      == DimOps \cup { n \in DsOps : DsBase[n] \in DimOps }
EveryDimAll == EveryDimOps \cup { n \in DsOps : DsBase[n] \in EveryDimOps }
Cands(a) ==
  { Op(n, "-") : n \in NoDimAll }
  \cup { Op(n, a.dims[i].k) : n \in DimAll \cap EveryDimAll, i \in LeadIdx(a) }
  \cup (IF LeadIdx(a) = {} THEN {} ELSE { Op(n, a.dims[FirstLead(a)].k) : n \in DimAll \ EveryDimAll })
MixCands(a) ==
  IF ~HasGridDim(a) THEN {}
  ELSE { OpM(n, k, m) : n \in MixSelectOps, m \in Mixes, k \in GridKinds }
       \cup { OpM(n, "-", m) : n \in MixOtherOps, m \in Mixes }
GselCands(a) == IF ~HasGridDim(a) THEN {} ELSE { OpX(n, "-", {}, ix) : n \in GselOps, ix \in IxKinds }
Enabled(a, G) == { o \in Cands(a) \cup MixCands(a) \cup GselCands(a) : Pre(o, a, G) }

(* ---- the machine -------------------------------------------------------- *)
Grid0 == << [kind |-> "base", of |-> 0, closed |-> TRUE], [kind |-> "dest", of |-> 0, closed |-> TRUE] >>
Leads == { <<>>, <<Dim("time", 3, "uniq")>>, <<Dim("time", 3, "uniq"), Dim("lev", 2, "uniq")>> }
Start(lead, k) == [cls |-> "Ux", grid |-> BASE, dims |-> lead \o <<Dim(k, BASE, "none")>>,
                   name |-> "v", dt |-> "float", al |-> TRUE]

Init == /\ \E lead \in Leads, k \in GridKinds : arr = Start(lead, k)
        /\ grids = Grid0 /\ last = NoOp /\ depth = 0

Do(o) == /\ depth < MaxDepth
         /\ Pre(o, arr, grids)
         /\ LET r == Eff(o, arr, grids) IN arr' = r.a /\ grids' = r.G
         /\ last' = o /\ depth' = depth + 1

\* one named action per class, so that -coverage shows each class firing
Elementwise  == \E o \in Cands(arr) : o.op \in ElemOps \cup ToBoolOps \cup ToFloatOps \cup RenameOps \cup ElemGridOps \cup ElemDimOps /\ Do(o)
Permute      == \E o \in Cands(arr) : o.op \in PermuteOps /\ Do(o)
DropLead     == \E o \in Cands(arr) : o.op \in DropOps /\ Do(o)
ResizeLead   == \E o \in Cands(arr) : o.op \in ResizeOps /\ Do(o)
AddLead      == \E o \in Cands(arr) : o.op \in AddOps /\ Do(o)
DropGridDim  == \E o \in Cands(arr) : o.op \in DropGridOps /\ Do(o)
ReplaceOnGrid == \E o \in Cands(arr) : o.op \in TopoOps \cup EdgeOps /\ Do(o)
Remap        == \E o \in Cands(arr) : o.op \in RemapOps /\ Do(o)
Dual         == \E o \in Cands(arr) : o.op \in DualOps /\ Do(o)
Subset       == \E o \in Cands(arr) : o.op \in SubsetOps /\ Do(o)
IndexGridDim == \E o \in Cands(arr) : o.op \in FreeOps /\ Do(o)
Copy         == \E o \in Cands(arr) : o.op \in CopyOps /\ Do(o)
BrokenOp     == \E o \in Cands(arr) : o.op \in BrokenOps /\ Do(o)
ThroughDataset == \E o \in Cands(arr) : o.op \in DsOps /\ Do(o)
MixedDataset   == \E o \in MixCands(arr) : Do(o)
GenericSelect  == \E o \in GselCands(arr) : Do(o)

Next == \/ Elementwise \/ Permute \/ DropLead \/ ResizeLead \/ AddLead \/ DropGridDim
        \/ ReplaceOnGrid \/ Remap \/ Dual \/ Subset \/ IndexGridDim \/ Copy \/ BrokenOp \/ ThroughDataset \/ MixedDataset \/ GenericSelect

Spec == Init /\ [][Next]_vars

(* ---- what TLC checks of the specification itself ------------------------ *)
DimOK(d) == /\ d.k \in DimKinds /\ d.idx \in {"uniq", "dup", "none"}
            /\ d.n \in 0..(IF d.k \in GridKinds THEN MaxDepth + 3 ELSE 8 * MaxLen)
ArrOK(a, G) == /\ a.cls \in {"Ux", "Plain", "Other"} /\ a.grid \in 0..Len(G)
               /\ a.name \in Names /\ a.dt \in {"float", "other"} /\ a.al \in BOOLEAN
               /\ \A i \in Idx(a) : DimOK(a.dims[i])
               /\ DistinctKinds(a) /\ OneGridDim(a)
GridOK(G) == \A h \in 1..Len(G) : /\ G[h].kind \in {"base", "dest", "subset", "dual", "copy"}
                                  /\ G[h].of \in 0..(h - 1) /\ G[h].closed \in BOOLEAN
TypeOK == /\ ArrOK(arr, grids) /\ GridOK(grids) /\ last.op \in AllOps \cup {"start"} /\ depth \in 0..MaxDepth
          /\ last.m \in Mixes \cup {{}} /\ last.ix \in IxKinds \cup {"-"}

IsUx               == IsUxArr(arr)
\* element i of the data along the grid dimension belongs to element i of the attached grid
DataFollowsGrid    == arr.al
GridDimsConsistent == ConsistentArr(arr)
\* the attached grid is the source's unless the operation says otherwise
SameGrid == [][ arr'.grid = arr.grid \/ BN(last') \in GridChanging ]_vars
\* a deep copy is attached to a NEW handle that is a copy of the source's grid
DeepCopyFresh == [][ BN(last') \in CopyOps =>
                       /\ arr'.grid = Len(grids) + 1 /\ arr'.grid # arr.grid
                       /\ grids'[arr'.grid].kind = "copy" /\ grids'[arr'.grid].of = arr.grid ]_vars
\* on a mixed dataset EVERY variable ends up with the counts of the result's grid
MixedGridDimsConsistent ==
  [][ \A c \in last'.m : LET q == CompExp(last', arr, grids)[c]
                          IN \A i \in 1..Len(q) : q[i][1] \in GridKinds => q[i][2] = arr'.grid ]_vars
\* grids are never forgotten or rewritten
GridsGrow == [][ Len(grids') >= Len(grids) /\ SubSeq(grids', 1, Len(grids)) = grids ]_vars

(* ---- generation: the successor table of a state -------------------------- *)
\* grouped by result: <<result, {<<op, d, free>>}>>; printed on one line (ToString) for the harness
Succ(a, G) == LET E == Enabled(a, G)
                  Rs == { Eff(o, a, G) : o \in E }
              IN { <<r, { <<o.op, o.d, o.m, o.ix, IsFree(o, a)>> : o \in { x \in E : Eff(x, a, G) = r } }>> : r \in Rs }
Emit == /\ (EmitSucc /\ depth < MaxDepth) => PrintT(ToString(<<"X", depth, arr, grids, Succ(arr, grids)>>))
        /\ (EmitSucc /\ depth = 0) => PrintT(ToString(<<"OPS", AllOps, [n \in AllOps \ GselOps |-> B(n)],
                                                                   { <<n, ix, GselBase(n, ix)>> : n \in GselOps, ix \in IxKinds }>>))
GenView == <<arr, grids, depth>>
=============================================================================

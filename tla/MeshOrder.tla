----------------------------- MODULE MeshOrder -----------------------------
(***************************************************************************)
(* C02 / C03 across OBSERVATION ORDER, SUPPLIED TABLES and SELECTIONS.     *)
(*                                                                         *)
(* A grid is a lazy object: it is constructed from a face-node table       *)
(* (plus whatever tables the source supplies), and every other table and   *)
(* every n_* / n_max_* dimension is materialised by the first observation  *)
(* that needs it.  The properties speak about "the" tables of a grid, so   *)
(*                                                                         *)
(*   OrderIndependent : the value an observation returns does not depend   *)
(*                      on which observations were made before it,         *)
(*   DimsAreShapes    : a dimension equals the shape of its table,         *)
(*   Coherent         : whatever is materialised satisfies the relations   *)
(*                      of Mesh.tla JOINTLY, against the grid's own edge   *)
(*                      table (row identities of a supplied table kept),   *)
(*   SuppliedKept     : observation never replaces what the source gave,   *)
(*                                                                         *)
(* on the grid itself and on every grid derived from it by an index        *)
(* selection made after any observations on the source.                    *)
(*                                                                         *)
(* The grid is modelled by VALUE on small concrete sources (Scenario): the *)
(* store holds real tables computed by the L2 algorithms of MeshAlg.  How  *)
(* the store is filled is a MECHANISM, given as data.  TLC proves the four *)
(* invariants for MechIntended over every reachable store, and must refute *)
(* each named variant (each is a way real code has been, or was seeded to  *)
(* be, wrong).  With TrackHist the observation order is part of the state: *)
(* TLC then enumerates (or -simulate samples) the orders that the harness  *)
(* replays on real grids; the records are judged by JudgeMeshHist.tla.     *)
(* The mechanism is descriptive: the judge only uses the relations.        *)
(***************************************************************************)
EXTENDS MeshSources

CONSTANTS Scns,       \* names of the scenarios explored (the scenario is chosen in the initial state)
          Mech,       \* mechanism name
          ObsName,    \* which observables the orders range over
          WithSelect, \* BOOLEAN: behaviours continue on a grid selected from the source
          WithDual,   \* BOOLEAN: behaviours continue on the dual of the (selected) grid
          MaxPre,     \* ... selected after at most this many observations on the source
          TrackHist   \* BOOLEAN

VARIABLES scn,    \* the scenario
          g,      \* [ m, ds, ds0 ] : mesh of the current grid, its store, the store as constructed
          phase,  \* "src" : the constructed grid, "sub" : a grid selected from it, "dual" : the dual of either
          seen,   \* observables already observed on the current grid (only with TrackHist)
          hist    \* the steps so far (only with TrackHist)
vars == << scn, g, phase, seen, hist >>

Tables == { "fn", "en", "fe", "nf", "ef", "ff" }
Lists  == { "npf", "holes" }
Dims   == { "n_node", "n_face", "n_edge", "n_max_face_nodes", "n_max_face_edges", "n_max_node_faces", "n_max_face_faces" }
AllObs == Tables \cup Lists \cup Dims
ObsSet == CASE ObsName = "c02core" -> { "en", "fe", "npf", "n_edge", "n_max_face_edges" }
            [] ObsName = "c03core" -> { "en", "nf", "ef", "ff", "holes", "n_max_node_faces", "n_max_face_faces" }
            [] ObsName = "dims"    -> Dims
            [] OTHER               -> AllObs
\* the table whose shape a dimension is, and the axis (1 = rows)
DimTable(v) == CASE v = "n_node" -> << "nf", 1 >>          [] v = "n_face" -> << "fn", 1 >>
                 [] v = "n_edge" -> << "en", 1 >>          [] v = "n_max_face_nodes" -> << "fn", 2 >>
                 [] v = "n_max_face_edges" -> << "fe", 2 >> [] v = "n_max_node_faces" -> << "nf", 2 >>
                 [] OTHER -> << "ff", 2 >>

(* ---- scenarios ---------------------------------------------------------- *)
EOsorted == [ how |-> "sorted", flip |-> "min", a |-> 0, b |-> 0 ]
EOkeyed  == [ how |-> "keyed", flip |-> "keyed", a |-> 5, b |-> 3 ]
EOrev    == [ how |-> "reversed", flip |-> "max", a |-> 0, b |-> 0 ]
Fan3   == << <<0, 1, 2>>, <<0, 2, 3>>, <<0, 3, 4>> >>                 \* f0 | f1 | f2 around node 0
Mixed3 == << <<0, 1, 2, 3>>, <<1, 4, 2>>, <<2, 4, 3>> >>              \* a quad and two triangles
Tetra  == << <<0, 1, 2>>, <<0, 3, 1>>, <<1, 3, 2>>, <<0, 2, 3>> >>    \* closed
Sel(dim, idx) == [ dim |-> dim, idx |-> idx ]
Scenario(s) ==
  CASE s = "fan"      -> [ m |-> Fan3,   nn |-> 5, w |-> 3, sup |-> {}, eo |-> EOsorted,
                           sels |-> { Sel("n_face", <<1, 2>>), Sel("n_face", <<2, 0>>), Sel("n_node", <<4>>), Sel("n_edge", <<0>>) } ]
    [] s = "wide"     -> [ m |-> Mixed3, nn |-> 5, w |-> 5, sup |-> {}, eo |-> EOsorted,
                           sels |-> { Sel("n_face", <<1, 2>>), Sel("n_node", <<0>>) } ]
    [] s = "supE"     -> [ m |-> Mixed3, nn |-> 5, w |-> 4, sup |-> { "en" }, eo |-> EOkeyed,
                           sels |-> { Sel("n_face", <<2, 1>>), Sel("n_edge", <<1, 5>>) } ]
    [] s = "supEF"    -> [ m |-> Fan3,   nn |-> 5, w |-> 4, sup |-> { "en", "ef" }, eo |-> EOrev,
                           sels |-> { Sel("n_face", <<1, 2>>), Sel("n_edge", <<6>>) } ]
    [] s = "supAll"   -> [ m |-> Mixed3, nn |-> 6, w |-> 4, sup |-> { "en", "fe", "ef", "ff", "nf" }, eo |-> EOkeyed,
                           sels |-> { Sel("n_face", <<0, 2>>), Sel("n_node", <<4>>) } ]
    [] OTHER          -> [ m |-> Tetra,  nn |-> 4, w |-> 3, sup |-> { "en", "fe" }, eo |-> EOrev,
                           sels |-> { Sel("n_face", <<3, 1, 2>>) } ]
Sc == Scenario(scn)

(* ---- mechanism, as data -------------------------------------------------- *)
\* widthFrom : n_max_face_edges is read from the "table" face_edge (built if need be), or from the "sizes" of
\*             the faces as long as face_edge is not stored
\* lookup    : face_edge over a supplied edge table holds the "row" of that table, or the "rank" of the side
\*             in sorted order
\* keepEdges : building face_edge keeps a supplied edge table (FALSE: the derived table replaces it)
\* sliceEF   : a selection "drop"s edge_face (derived again on the result), or "remap"s the stored rows in
\*             place (a face outside the selection becomes padding where it stood)
MechIntended == [ widthFrom |-> "table", lookup |-> "row", keepEdges |-> TRUE, sliceEF |-> "drop" ]
MechNamed(n) == CASE n = "intended"            -> MechIntended
                  [] n = "widthFromSizes"      -> [ MechIntended EXCEPT !.widthFrom = "sizes" ]
                  [] n = "rankNotRow"          -> [ MechIntended EXCEPT !.lookup = "rank" ]
                  [] n = "replaceEdges"        -> [ MechIntended EXCEPT !.keepEdges = FALSE ]    \* before f7839ecb
                  [] OTHER                     -> [ MechIntended EXCEPT !.sliceEF = "remap" ]    \* "sliceRemapsEdgeFace"
K == MechNamed(Mech)

(* ---- the store ------------------------------------------------------------ *)
Has(d, n) == n \in DOMAIN d
Put(d, n, v) == IF Has(d, n) THEN d ELSE d @@ (n :> v)
Set(d, n, v) == [ x \in DOMAIN d \cup { n } |-> IF x = n THEN v ELSE d[x] ]
FacesIn(d) == MeshOf(d.fn)

SideKey(s, n) == MinOf(s) * n + MaxOf(s)
RankOf(E, side) == LET n == 1 + MaxOf(UNION { RowAsSide(E[k]) : k \in 1..Len(E) })
                   IN Cardinality({ k \in 1..Len(E) : SideKey(RowAsSide(E[k]), n) < SideKey(side, n) })
LookupFaceEdges(d, k) ==
    LET m == FacesIn(d) IN
    [ f \in 1..Len(m) |-> [ j \in 1..Len(d.fn[f]) |->
        IF j > Len(m[f]) THEN PAD
        ELSE IF k.lookup = "row" THEN EdgeIdOf(d.en, SideAt(m[f], j)) ELSE RankOf(d.en, SideAt(m[f], j)) ] ]

MatEN(d)  == IF Has(d, "en") THEN d
             ELSE LET a == AlgEdges(d.fn) IN d @@ ("en" :> a.edges) @@ ("inv" :> a.face_edges)
MatNPF(d) == Put(d, "npf", AlgNodesPerFace(d.fn))
MatNF(d)  == Put(d, "nf", AlgNodeFaces(d.fn, d.nn))
MatFE(d, k) ==
    IF Has(d, "fe") THEN d
    ELSE IF Has(d, "en") /\ ~Has(d, "inv")                               \* an edge table the source supplied
         THEN IF k.keepEdges THEN d @@ ("fe" :> LookupFaceEdges(d, k))
              ELSE LET a == AlgEdges(d.fn) IN Set(Set(Set(d, "en", a.edges), "inv", a.face_edges), "fe", a.face_edges)
         ELSE LET d1 == MatEN(d) IN d1 @@ ("fe" :> d1.inv)
MatEF(d, k) == IF Has(d, "ef") THEN d
               ELSE LET d1 == MatNPF(MatFE(d, k)) IN d1 @@ ("ef" :> AlgEdgeFaces(d1.fe, d1.npf, Len(d1.en)))
MatHoles(d, k) == IF Has(d, "holes") THEN d
                  ELSE LET d1 == MatEF(d, k)
                           ks == SelectSeq([ i \in 1..Len(d1.ef) |-> i ], LAMBDA i : d1.ef[i][2] = PAD)
                       IN d1 @@ ("holes" :> [ i \in 1..Len(ks) |-> ks[i] - 1 ])
WidthFromSizes(d, k) == k.widthFrom = "sizes" /\ ~Has(d, "fe")
MatWidthFE(d, k) == IF WidthFromSizes(d, k) THEN MatNPF(d) ELSE MatFE(d, k)
ValWidthFE(d, k) == IF WidthFromSizes(d, k) THEN MaxOf(Range(d.npf)) ELSE Len(d.fe[1])
MatFF(d, k) == IF Has(d, "ff") THEN d
               ELSE LET d1 == MatEF(d, k)
                        d2 == MatWidthFE(d1, k)
                    IN d2 @@ ("ff" :> AlgFaceFaces(d2.ef, Len(d2.fn), ValWidthFE(d2, k)))

\* the store after observing v, and the value the observation returns
Mat(d, v, k) == CASE v \in { "fn", "n_node", "n_face", "n_max_face_nodes" } -> d
                  [] v \in { "en", "n_edge" }            -> MatEN(d)
                  [] v = "fe"                            -> MatFE(d, k)
                  [] v = "n_max_face_edges"              -> MatWidthFE(d, k)
                  [] v = "npf"                           -> MatNPF(d)
                  [] v = "ef"                            -> MatEF(d, k)
                  [] v = "holes"                         -> MatHoles(d, k)
                  [] v \in { "ff", "n_max_face_faces" }  -> MatFF(d, k)
                  [] OTHER                               -> MatNF(d)          \* nf, n_max_node_faces
Val(d, v, k) == CASE v \in Tables \cup Lists   -> d[v]
                  [] v = "n_node"              -> d.nn
                  [] v = "n_face"              -> Len(d.fn)
                  [] v = "n_edge"              -> Len(d.en)
                  [] v = "n_max_face_nodes"    -> Len(d.fn[1])
                  [] v = "n_max_face_edges"    -> ValWidthFE(d, k)
                  [] v = "n_max_node_faces"    -> Len(d.nf[1])
                  [] OTHER                     -> Len(d.ff[1])
Observed(d, v, k) == Val(Mat(d, v, k), v, k)

(* ---- construction and selection --------------------------------------------- *)
Opt(c, n, v) == IF c THEN n :> v ELSE [ x \in {} |-> x ]
Constructed(sc) ==
    LET E == SupEdges(sc.m, sc.eo) IN
    ("fn" :> Stored(sc.m, sc.w)) @@ ("nn" :> sc.nn)
      @@ Opt("en" \in sc.sup, "en", E)
      @@ Opt("fe" \in sc.sup, "fe", SupFaceEdges(sc.m, E, sc.w))
      @@ Opt("ef" \in sc.sup, "ef", SupEdgeFaces(sc.m, E, TRUE))
      @@ Opt("ff" \in sc.sup, "ff", SupFaceFaces(sc.m, sc.w, TRUE))
      @@ Opt("nf" \in sc.sup, "nf", SupNodeFaces(sc.m, sc.nn, TRUE))
SuppliedOf(sc) == LET c == Constructed(sc) IN [ n \in (DOMAIN c) \ { "fn", "nn" } |-> c[n] ]

\* what the selection reads on the source, then what the result is constructed from
TouchedBySelection(d, dim, k) ==
    LET d1 == CASE dim = "n_node" -> MatNF(d) [] dim = "n_edge" -> MatEF(d, k) [] OTHER -> d
    IN MatFE(d1, k)
PosIn(seq, x) == CHOOSE i \in 1..Len(seq) : seq[i] = x
Selected(m, d, s, k) ==          \* d : the source's store after TouchedBySelection
    LET fsel == SelectedFaces(m, d.en, s.dim, s.idx)
        sub  == SubMesh(m, fsel)
        kept == NodesUsed(sub)
        eids == SetToSortSeq({ d.fe[fsel[i] + 1][j] : i \in 1..Len(fsel), j \in 1..Len(d.fe[1]) } \ { PAD }, Lt)
        rn(x) == NodeRank(kept, x)
        mapf(x) == IF x # PAD /\ \E i \in 1..Len(fsel) : fsel[i] = x THEN PosIn(fsel, x) - 1 ELSE PAD
        w    == Len(d.fn[1])
        ds   == ("fn" :> Stored(Renumber(sub), w)) @@ ("nn" :> Cardinality(kept))
                  @@ ("en" :> [ i \in 1..Len(eids) |-> << rn(d.en[eids[i] + 1][1]), rn(d.en[eids[i] + 1][2]) >> ])
                  @@ Opt(Has(d, "npf"), "npf", [ i \in 1..Len(fsel) |-> d.npf[fsel[i] + 1] ])
                  @@ Opt(Has(d, "ef") /\ k.sliceEF = "remap", "ef",
                         [ i \in 1..Len(eids) |-> << mapf(d.ef[eids[i] + 1][1]), mapf(d.ef[eids[i] + 1][2]) >> ])
    IN [ m |-> Renumber(sub), ds |-> ds, ds0 |-> ds ]

(* ---- behaviours --------------------------------------------------------------- *)
Init == /\ scn \in Scns
        /\ g = [ m |-> Sc.m, ds |-> Constructed(Sc), ds0 |-> Constructed(Sc) ]
        /\ phase = "src" /\ seen = {} /\ hist = << >>
Observe(v) ==
    /\ TrackHist => v \notin seen
    /\ g' = [ g EXCEPT !.ds = Mat(g.ds, v, K) ]
    /\ seen' = IF TrackHist THEN seen \cup { v } ELSE seen
    /\ hist' = IF TrackHist THEN Append(hist, << "obs", v >>) ELSE hist
    /\ UNCHANGED << scn, phase >>
Select(s) ==
    /\ phase = "src" /\ WithSelect
    /\ TrackHist => Cardinality(seen) <= MaxPre
    /\ g' = Selected(g.m, TouchedBySelection(g.ds, s.dim, K), s, K)
    /\ phase' = "sub" /\ seen' = {}
    /\ UNCHANGED scn
    /\ hist' = IF TrackHist THEN Append(hist, << "select", s.dim >>) ELSE hist
\* The dual (Grid.get_dual) is a NEW grid constructed from a face table only: one face per node of the
\* current grid that has at least three faces, its corners those faces, as wide as the largest node star.
\* Which cyclic order the corners come in is C18's business (Dual.tla); the relations here hold for any.
Star(m, v) == SetToSortSeq(FacesAtNode(m, v), Lt)
DualFaces(m, nn) == LET vs == SetToSortSeq({ v \in 0..(nn - 1) : Valence(m, v) >= 3 }, Lt)
                    IN [ i \in 1..Len(vs) |-> Star(m, vs[i]) ]
HasDual(m, nn) == \E v \in 0..(nn - 1) : Valence(m, v) >= 3
Dual ==
    /\ phase \in { "src", "sub" } /\ WithDual /\ HasDual(g.m, g.ds.nn)
    /\ WithSelect /\ TrackHist => phase = "sub"
    /\ LET dm == DualFaces(g.m, g.ds.nn)
           w  == MaxOf({ Valence(g.m, v) : v \in 0..(g.ds.nn - 1) })
           ds == ("fn" :> Stored(dm, w)) @@ ("nn" :> Len(g.m))
       IN g' = [ m |-> dm, ds |-> ds, ds0 |-> ds ]
    /\ phase' = "dual" /\ seen' = {}
    /\ hist' = IF TrackHist THEN Append(hist, << "dual", "get_dual" >>) ELSE hist
    /\ UNCHANGED scn
Next == (\E v \in ObsSet : Observe(v)) \/ (\E s \in Sc.sels : Select(s)) \/ Dual
Spec == Init /\ [][Next]_vars

(* ---- the properties ------------------------------------------------------------ *)
W == Len(g.ds.fn[1])
TypeOK == /\ phase \in { "src", "sub", "dual" } /\ seen \subseteq ObsSet
          /\ WellFormed(g.m, g.ds.nn) /\ g.ds.fn = Stored(g.m, W) /\ W >= MaxSize(g.m)
\* the scenario is a well-formed source (a lemma about MeshSources, checked on the scenario)
SourceWellFormed == SuppliedWellFormed(Sc.m, Sc.nn, Sc.w, SuppliedOf(Sc))

Coherent ==
    LET d == g.ds  m == g.m IN
    /\ Has(d, "en")  => IsEdgeTable(m, d.en)
    /\ Has(d, "fe")  => Has(d, "en") /\ IsFaceEdgeTable(m, d.en, d.fe, W)
    /\ Has(d, "npf") => IsNodesPerFace(m, d.npf)
    /\ Has(d, "nf")  => IsNodeFaceTable(m, d.nn, d.nf)
    /\ Manifold(m) =>
         /\ Has(d, "ef")    => IsEdgeFaceTable(m, d.en, d.ef)
         /\ Has(d, "ff")    => IsFaceFaceTable(m, d.ff)
         /\ Has(d, "holes") => IsHoleEdgeList(m, d.en, d.holes)
SuppliedKept == \A n \in DOMAIN g.ds0 : g.ds[n] = g.ds0[n]
OrderIndependent == \A v \in AllObs : Observed(g.ds, v, K) = Observed(g.ds0, v, K)
Shape(t, axis) == IF axis = 1 THEN Len(t) ELSE Len(t[1])
DimsAreShapes == \A v \in Dims :
    LET d1 == Mat(g.ds, v, K)
        t  == DimTable(v)
    IN Val(d1, v, K) = Shape(Observed(d1, t[1], K), t[2])
\* a selection made after ANY observations yields a grid for which all of the above hold again: the
\* invariants are stated on g, which is the selected grid in phase "sub"

(* ---- generation ----------------------------------------------------------------- *)
Terminal == seen = ObsSet /\ (WithDual => phase = "dual") /\ (WithSelect /\ ~WithDual => phase = "sub")
Emit == TrackHist /\ Terminal => PrintT(<< "H", hist >>)
=============================================================================

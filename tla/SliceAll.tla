------------------------------ MODULE SliceAll ------------------------------
(***************************************************************************)
(* C09, history clause, closed over EVERY lazily derived public attribute  *)
(* of a grid.                                                              *)
(*                                                                         *)
(* The harness enumerates the attributes by introspection of the Grid      *)
(* class (NAttr of them; a newly cached attribute is included without any  *)
(* change here).  A history reads a set `pre` of them on the source, then  *)
(* slices along one grid dimension.  Normative statement (Independent):    *)
(* what the result reports for ANY attribute is what the same selection on *)
(* a pristine source reports -- the abstract value of an attribute of a    *)
(* result is a function of (source, selection, attribute) only.  TLC       *)
(* enumerates the histories (all `pre` of at most MaxPre attributes x the  *)
(* five selection kinds) and prints them; the harness replays each, reads ALL *)
(* attributes on the result and on the pristine subset, and the judge      *)
(* fails every attribute whose two reads differ (clauses same_<attr>).     *)
(***************************************************************************)
EXTENDS Naturals, FiniteSets, TLC

CONSTANTS NAttr, MaxPre

VARIABLES pre, kind, phase
vars == << pre, kind, phase >>

Attrs == 1..NAttr
\* index selections along the three grid dimensions, and the constant-latitude queries (cross-section grid, face list
\* + edge list) at a latitude in the bulge band of a wide face
Kinds == { "face", "node", "edge", "xsec", "faces_at" }

Init == pre = {} /\ kind = "none" /\ phase = "src"
Read(a)  == phase = "src" /\ a \notin pre /\ Cardinality(pre) < MaxPre /\ pre' = pre \cup { a } /\ UNCHANGED << kind, phase >>
Slice(k) == phase = "src" /\ kind' = k /\ phase' = "res" /\ UNCHANGED pre
Next == (\E a \in Attrs : Read(a)) \/ (\E k \in Kinds : Slice(k))
Spec == Init /\ [][Next]_vars

\* the abstract value of attribute a on the result: determined by the selection alone.  `pre` does not occur in it:
\* that IS the property; an implementation whose value depends on pre (a carried cache) breaks Independent
Value(k, a) == << k, a >>
Independent == phase = "res" => \A a \in Attrs : Value(kind, a) = << kind, a >>
TypeOK == pre \subseteq Attrs /\ Cardinality(pre) <= MaxPre /\ phase \in { "src", "res" }
Emit == phase = "res" => PrintT(<< "P", pre, kind >>)
=============================================================================

---------------------------- MODULE JudgeNearest ----------------------------
(***************************************************************************)
(* C11 (and the nearest-source clause of C12): plans and judges neighbour  *)
(* queries on integer direction vectors with the relations of Nearest.tla. *)
(*                                                                         *)
(* One ndjson line per case: id, q (query direction), S (element           *)
(* directions in the grid's own index order) and, for judging, ents: a     *)
(* list of answers recorded from the implementation                        *)
(*    [ j |-> entry number, m |-> "knn", k |-> k, res |-> 0-based indices ]*)
(*    [ j, m |-> "rad", c |-> class index, res ]   (order free)            *)
(*      radius answers may carry rk |-> "zero" | "tiny" | "beyond" (default *)
(*      "between", with c) and own |-> TRUE (the element's stored           *)
(*      coordinates were passed): see Nearest!RadiusPlan                    *)
(*    [ j, m |-> "srad", c, res ]                  (sorted radius answer)  *)
(*    [ j, m |-> "cnt", c, n |-> count ]                                   *)
(*    [ j, m |-> "pick", res |-> <<index>> ]       (C12: the chosen source)*)
(*    [ j, m |-> "kset", k, res ]       (C12: support of the IDW weights)  *)
(*    [ j, m |-> "ident", e, res |-> <<index>> ]   (C12: identity law)     *)
(*                                                                         *)
(* Plan  (before the implementation runs): prints for every case           *)
(*    <<"P", id, lt, cls, descr, anti, radii, zero, purity>>  ranks, ...,  *)
(*    distance descriptors <<|q x s|^2, q.s>>, exact-antipode flags, the   *)
(*    radius cases to run (boundary radii included) and the coincident set *)
(* Judge (after): prints <<"V", id, { <<j, clause>> }>> for every case     *)
(*    with at least one false clause.                                      *)
(***************************************************************************)
EXTENDS Nearest, Json, IOUtils, TLC

Recs    == ndJsonDeserialize(IOEnv.REC_FILE)
Block   == 16
NBlocks == (Len(Recs) + Block - 1) \div Block

VARIABLE i      \* < 0: block marker, > 0: record index

Vec3(x) == << x[1], x[2], x[3] >>
Dirs(r) == [ e \in 1..Len(r.S) |-> Vec3(r.S[e]) ]

Has(e, f) == f \in DOMAIN e

\* z: 0-based indices of the elements coincident with q
EntryFailed(lt, z, e) ==
    LET res == e.res
        all == 0..(Len(lt) - 1)
        rk  == IF Has(e, "rk") THEN e.rk ELSE "between"
        c   == IF Has(e, "c") THEN e.c ELSE 0
        own == Has(e, "own") /\ e.own
        lo  == RadLo(lt, z, all, rk, c, own)
        hi  == RadHi(lt, z, all, rk, c)
    IN
    CASE e.m = "knn"  -> (IF KnnShape(Len(lt), e.k, res) THEN {} ELSE {"KnnShape"})
                         \cup (IF KnnNearestFirst(lt, res) THEN {} ELSE {"NearestFirst"})
                         \cup (IF KnnTrueNearest(lt, res) THEN {} ELSE {"TrueNearest"})
      [] e.m = "pick" -> (IF KnnShape(Len(lt), 1, res) THEN {} ELSE {"PickShape"})
                         \cup (IF KnnTrueNearest(lt, res) THEN {} ELSE {"NearestSource"})
      [] e.m = "rad"  -> (IF RadShape(Len(lt), res) THEN {} ELSE {"RadShape"})
                         \cup (IF lo \subseteq SeqRange(res) THEN {} ELSE {"RadiusMissing"})
                         \cup (IF SeqRange(res) \subseteq hi THEN {} ELSE {"RadiusExtra"})
      [] e.m = "srad" -> (IF RadShape(Len(lt), res) THEN {} ELSE {"RadShape"})
                         \cup (IF lo \subseteq SeqRange(res) THEN {} ELSE {"RadiusMissing"})
                         \cup (IF SeqRange(res) \subseteq hi THEN {} ELSE {"RadiusExtra"})
                         \cup (IF KnnNearestFirst(lt, res) THEN {} ELSE {"NearestFirst"})
      [] e.m = "cnt"  -> (IF Cardinality(lo) <= e.n /\ e.n <= Cardinality(hi) THEN {} ELSE {"RadiusCount"})
      \* C12, IDW: the support of the weights must be SOME exact k-nearest set (order free)
      [] e.m = "kset" -> (IF KnnShape(Len(lt), e.k, res) THEN {} ELSE {"SupportShape"})
                         \cup (IF KnnTrueNearest(lt, res) THEN {} ELSE {"SupportNotNearest"})
      \* C12, identity law: destination point = source element e.e; judged when e.e is the
      \* unique nearest element (no coincident elements)
      [] e.m = "ident" -> (IF (e.e + 1 \in DOMAIN lt /\ lt[e.e + 1] = 0
                               /\ Cardinality({ f \in DOMAIN lt : lt[f] = 0 }) = 1) => res = <<e.e>>
                           THEN {} ELSE {"Identity"})
      [] OTHER        -> {"UnknownEntry"}

Failed(r) ==
    LET S  == Dirs(r)
        lt == LtVec(Vec3(r.q), S)
        z  == ZeroSet(Vec3(r.q), S)
    IN UNION { { <<r.ents[x].j, cl>> : cl \in EntryFailed(lt, z, r.ents[x]) } : x \in 1..Len(r.ents) }

PlanOf(r) ==
    LET S  == Dirs(r)
        q  == Vec3(r.q)
        lt == LtVec(q, S)
    IN << "P", r.id, lt, ClsVec(lt), DistDescr(q, S), [ e \in 1..Len(S) |-> Antipodal(q, S[e]) ],
          RadiusPlan(lt), ZeroSet(q, S), PurityOf(q, S) >>

Init == i \in { -b : b \in 1..NBlocks }
Next == /\ i < 0
        /\ i' \in { k \in 1..Len(Recs) : (k - 1) \div Block = (-i) - 1 }

Plan  == i > 0 => PrintT(PlanOf(Recs[i]))
Judge == i > 0 => LET f == Failed(Recs[i]) IN (f = {} \/ PrintT(<<"V", Recs[i].id, f>>))
=============================================================================

------------------------------ MODULE SphereZ ------------------------------
(***************************************************************************)
(* Exact spherical geometry on integer direction vectors.                  *)
(*                                                                         *)
(* A point of the unit sphere is given by a non-zero integer triple (its   *)
(* direction).  Every predicate the properties mention is then the sign    *)
(* of an integer polynomial, evaluated exactly by TLC (which traps 32-bit  *)
(* overflow instead of wrapping).  Irrational quantities (an extreme       *)
(* latitude, an interior angle, a geodesic distance) are emitted as exact  *)
(* descriptors -- tuples of integers -- whose final numeric evaluation     *)
(* (one sqrt, one atan2/asin) is done by the harness.                      *)
(*                                                                         *)
(* This module is the oracle for C04 C05 C09 C11 C12 C13 C14 C15 C16 C18   *)
(* and is independent of every helper in uxarray/grid/arcs.py,             *)
(* geometry.py, coordinates.py.                                            *)
(***************************************************************************)
EXTENDS Integers, Sequences, FiniteSets

Vec(K)     == { v \in [1..3 -> (-K)..K] : v # <<0, 0, 0>> }
Sgn(x)     == IF x > 0 THEN 1 ELSE IF x < 0 THEN -1 ELSE 0
Abs(x)     == IF x < 0 THEN -x ELSE x
Dot(a, b)  == a[1] * b[1] + a[2] * b[2] + a[3] * b[3]
Cross(a, b) == << a[2] * b[3] - a[3] * b[2],
                  a[3] * b[1] - a[1] * b[3],
                  a[1] * b[2] - a[2] * b[1] >>
Det(a, b, c) == Dot(Cross(a, b), c)
N2(a)      == Dot(a, a)
Neg(a)     == << -a[1], -a[2], -a[3] >>
Zero3      == <<0, 0, 0>>
Parallel(a, b) == Cross(a, b) = Zero3
SameDir(a, b)  == Parallel(a, b) /\ Dot(a, b) > 0
Opposite(a, b) == Parallel(a, b) /\ Dot(a, b) < 0
KUp        == <<0, 0, 1>>
IsPole(a)  == a[1] = 0 /\ a[2] = 0

RECURSIVE Gcd(_, _)
Gcd(a, b)  == IF b = 0 THEN Abs(a) ELSE Gcd(b, a % b)
Primitive(v) == Gcd(Gcd(Abs(v[1]), Abs(v[2])), Abs(v[3])) = 1

(* ---- arcs ----------------------------------------------------------------- *)
\* a minor arc (a, b) exists iff a, b are not parallel (length in (0, 180) degrees)
IsArc(a, b) == ~Parallel(a, b)

OnCircle(a, b, p) == Det(a, b, p) = 0
\* strictly between the endpoints, on the circle
StrictlyWithinArc(a, b, p) ==
    LET n == Cross(a, b) IN
    /\ Dot(n, p) = 0
    /\ Dot(Cross(a, p), n) > 0
    /\ Dot(Cross(p, b), n) > 0

ArcClass(a, b, p) ==
    IF Det(a, b, p) # 0 THEN "Off"
    ELSE IF SameDir(p, a) \/ SameDir(p, b) THEN "Endpoint"
    ELSE IF StrictlyWithinArc(a, b, p) THEN "Interior"
    ELSE "OnCircleOutside"

\* the arc lies in a plane containing the polar axis (a meridian-plane arc)
MeridianArc(a, b) == Cross(a, b)[3] = 0
ThroughPole(a, b) == MeridianArc(a, b) /\
                     (StrictlyWithinArc(a, b, KUp) \/ StrictlyWithinArc(a, b, Neg(KUp)))
EquatorArc(a, b)  == a[3] = 0 /\ b[3] = 0

(* ---- two arcs on different great circles -------------------------------------- *)
DifferentCircles(a, b, c, d) == Cross(Cross(a, b), Cross(c, d)) # Zero3
\* sign vector: which side of the other arc's plane each endpoint is on
SA(a, b, c, d) == Sgn(Dot(a, Cross(c, d)))
SB(a, b, c, d) == Sgn(Dot(b, Cross(c, d)))
SC(a, b, c, d) == Sgn(Dot(c, Cross(a, b)))
SD(a, b, c, d) == Sgn(Dot(d, Cross(a, b)))
\* classification of the pair: "CrossAtX" (x = n1 x n2), "CrossAtMinusX", "Touch", "Disjoint"
ArcPairClass(a, b, c, d) ==
    LET sa == SA(a, b, c, d)  sb == SB(a, b, c, d)
        sc == SC(a, b, c, d)  sd == SD(a, b, c, d)
    IN IF sa = 0 \/ sb = 0 \/ sc = 0 \/ sd = 0
       THEN ( \* an endpoint lies on the other great circle: touching iff it lies on the other arc
              IF \/ (sa = 0 /\ ArcClass(c, d, a) \in {"Interior", "Endpoint"})
                 \/ (sb = 0 /\ ArcClass(c, d, b) \in {"Interior", "Endpoint"})
                 \/ (sc = 0 /\ ArcClass(a, b, c) \in {"Interior", "Endpoint"})
                 \/ (sd = 0 /\ ArcClass(a, b, d) \in {"Interior", "Endpoint"})
              THEN "Touch" ELSE "NearMiss" )
       ELSE IF <<sa, sb, sc, sd>> = <<1, -1, -1, 1>> THEN "CrossAtX"
       ELSE IF <<sa, sb, sc, sd>> = <<-1, 1, 1, -1>> THEN "CrossAtMinusX"
       ELSE "Disjoint"
CrossX(a, b, c, d) == Cross(Cross(a, b), Cross(c, d))
\* definitional form of the same, used by TLC to check the sign form (internal consistency)
CrossesDefinitional(a, b, c, d) ==
    LET x == CrossX(a, b, c, d) IN
    \/ (StrictlyWithinArc(a, b, x) /\ StrictlyWithinArc(c, d, x))
    \/ (StrictlyWithinArc(a, b, Neg(x)) /\ StrictlyWithinArc(c, d, Neg(x)))

(* ---- latitude --------------------------------------------------------------- *)
\* compare latitudes of two directions: -1, 0, 1 as lat(a) <, =, > lat(b)
LatCmp(a, b) ==
    LET sa == Sgn(a[3])  sb == Sgn(b[3]) IN
    IF sa # sb THEN Sgn(sa - sb)
    ELSE IF sa = 0 THEN 0
    ELSE sa * Sgn(a[3] * a[3] * N2(b) - b[3] * b[3] * N2(a))
\* the arc attains the maximum (minimum) latitude of its great circle strictly inside
\* derived from (a x m).n = N2(n) det(a, k, n), m = highest point of the circle
BulgesNorth(a, b) == LET n == Cross(a, b)
                     IN /\ (n[1] # 0 \/ n[2] # 0)                \* not an arc of the equator
                        /\ a[2] * n[1] - a[1] * n[2] > 0
                        /\ b[1] * n[2] - b[2] * n[1] > 0
BulgesSouth(a, b) == BulgesNorth(Neg(a), Neg(b))
\* sin^2 of the extreme latitude of the circle through a, b: (nx^2 + ny^2) / |n|^2
CircleTop(a, b)   == LET n == Cross(a, b) IN << n[1] * n[1] + n[2] * n[2], N2(n) >>
\* descriptor of max latitude over the arc: <<"vertex", 1|2>> or <<"top", num, den>> (lat = asin sqrt(num/den))
ExtremeLatMax(a, b) ==
    IF BulgesNorth(a, b) THEN <<"top", CircleTop(a, b)[1], CircleTop(a, b)[2]>>
    ELSE IF LatCmp(a, b) >= 0 THEN <<"vertex", 1>> ELSE <<"vertex", 2>>
ExtremeLatMin(a, b) ==
    IF BulgesSouth(a, b) THEN <<"bottom", CircleTop(a, b)[1], CircleTop(a, b)[2]>>
    ELSE IF LatCmp(a, b) <= 0 THEN <<"vertex", 1>> ELSE <<"vertex", 2>>

(* ---- faces (sequences of directions) ------------------------------------------ *)
NextI(f, i) == IF i = Len(f) THEN 1 ELSE i + 1
PrevI(f, i) == IF i = 1 THEN Len(f) ELSE i - 1
\* convex and counter-clockwise seen from outside: every other corner is strictly left of every side
ConvexCCW(f) == /\ Len(f) >= 3
                /\ \A i \in 1..Len(f) : \A w \in 1..Len(f) :
                      (w # i /\ w # NextI(f, i)) => Det(f[i], f[NextI(f, i)], f[w]) > 0
\* weaker: allows collinear consecutive corners (e.g. a side subdivided by a lattice point)
WeaklyConvexCCW(f) == /\ Len(f) >= 3
                      /\ \A i \in 1..Len(f) : \A w \in 1..Len(f) :
                            (w # i /\ w # NextI(f, i)) => Det(f[i], f[NextI(f, i)], f[w]) >= 0
                      /\ \A i \in 1..Len(f) : IsArc(f[i], f[NextI(f, i)])
SidesShorterThan90(f) == \A i \in 1..Len(f) : Dot(f[i], f[NextI(f, i)]) > 0
\* direction p strictly inside a convex CCW face / on its boundary / outside
PointClass(f, p) ==
    IF \A i \in 1..Len(f) : Det(f[i], f[NextI(f, i)], p) > 0 THEN "Inside"
    ELSE IF \E i \in 1..Len(f) : Det(f[i], f[NextI(f, i)], p) < 0 THEN "Outside"
    ELSE "OnBoundary"
PoleClassN(f) == PointClass(f, KUp)
PoleClassS(f) == PointClass(f, Neg(KUp))
CornerAtPole(f) == \E i \in 1..Len(f) : IsPole(f[i])

\* 2-D cross product of the (x, y) projections: > 0 iff v is counter-clockwise (east) of u by < 180
Cross2(u, v) == u[1] * v[2] - u[2] * v[1]
Dot2(u, v)   == u[1] * v[1] + u[2] * v[2]
SameLon(u, v) == Cross2(u, v) = 0 /\ Dot2(u, v) > 0
NonPole(f)  == { i \in 1..Len(f) : ~IsPole(f[i]) }
\* west-most corner: every other non-pole corner is at the same longitude or east of it (by < 180)
IsWestMost(f, i) == i \in NonPole(f) /\ \A j \in NonPole(f) : Cross2(f[i], f[j]) > 0 \/ SameLon(f[i], f[j])
IsEastMost(f, i) == i \in NonPole(f) /\ \A j \in NonPole(f) : Cross2(f[j], f[i]) > 0 \/ SameLon(f[i], f[j])
HasLonExtentBelow180(f) == (\E i \in 1..Len(f) : IsWestMost(f, i)) /\ (\E i \in 1..Len(f) : IsEastMost(f, i))

\* the (x, y) projection of segment u -> v crosses the negative x half-axis (the antimeridian):
\* y of strictly opposite sign and the crossing point has x < 0
OnAntimeridian(u) == u[2] = 0 /\ u[1] < 0
CrossesAntimeridianStrict(u, v) ==
    /\ Sgn(u[2]) * Sgn(v[2]) = -1
    /\ Cross2(u, v) * Sgn(u[2]) > 0        \* the x-intercept of the chord is negative
\* |lon(u) - lon(v)| >= 180 as reported in (-180, 180]: strictly crossing, or exactly opposite meridians
LonDiffAtLeast180(u, v) ==
    \/ CrossesAntimeridianStrict(u, v)
    \/ (~IsPole(u) /\ ~IsPole(v) /\ Cross2(u, v) = 0 /\ Dot2(u, v) < 0)

(* ---- distances --------------------------------------------------------------- *)
\* a nearer to q than b (great-circle or chord, they agree): compare cosines
NearCmp(q, a, b) ==       \* 1: a nearer, -1: b nearer, 0: tie
    LET al == Dot(a, q)  be == Dot(b, q)
        sa == Sgn(al)    sb == Sgn(be)
    IN IF sa # sb THEN Sgn(sa - sb)
       ELSE IF sa = 0 THEN 0
       ELSE sa * Sgn(al * al * N2(b) - be * be * N2(a))
\* geodesic descriptor a--b: angle = atan2(sqrt(num), dot)
GeoDescr(a, b) == << N2(Cross(a, b)), Dot(a, b) >>
\* interior angle at b between prev a and next c of a CCW face:
\*   theta = atan2( sqrt(N2(b)) * det(a,b,c), (b x a).(b x c) )
AngleDescr(a, b, c) == << N2(b), Det(a, b, c), Dot(Cross(b, a), Cross(b, c)) >>
ExcessDescr(f) == [ i \in 1..Len(f) |-> AngleDescr(f[PrevI(f, i)], f[i], f[NextI(f, i)]) ]

(* ---- the 24 rotations of the cube (exact on the lattice) ------------------------ *)
Perms3 == { p \in [1..3 -> 1..3] : \A i, j \in 1..3 : i # j => p[i] # p[j] }
PermSign(p) == IF p \in { <<1, 2, 3>>, <<2, 3, 1>>, <<3, 1, 2>> } THEN 1 ELSE -1
\* rotation = signed permutation matrix with determinant +1, as <<perm, signs>>
Rot24 == { r \in Perms3 \X [1..3 -> {-1, 1}] : PermSign(r[1]) * r[2][1] * r[2][2] * r[2][3] = 1 }
ApplyRot(r, v) == [ i \in 1..3 |-> r[2][i] * v[r[1][i]] ]
\* quarter turns about the polar axis
RotZ(k, v) == CASE k % 4 = 0 -> v
                [] k % 4 = 1 -> << -v[2], v[1], v[3] >>
                [] k % 4 = 2 -> << -v[1], -v[2], v[3] >>
                [] k % 4 = 3 -> << v[2], -v[1], v[3] >>
=============================================================================

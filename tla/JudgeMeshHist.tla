--------------------------- MODULE JudgeMeshHist ---------------------------
(***************************************************************************)
(* Judges one observation HISTORY of one real grid per ndjson line:        *)
(*   id                                                                    *)
(*   mesh, width, n_node : what the source describes (absent for a grid    *)
(*          selected from another grid: then the grid is judged against    *)
(*          the faces ITS OWN face-node table lists)                       *)
(*   sup_en : the edge table the source supplied (decoded), if any         *)
(*   order  : the observables in the order they were observed (MeshOrder)  *)
(*   first  : observable -> the value its (first and only) observation     *)
(*            in that order returned                                       *)
(*   final  : observable -> the value read again after the whole history   *)
(*   flags  : name -> BOOLEAN (standard integer type / fill value)         *)
(* Short names as in MeshOrder.tla: fn en fe nf ef ff npf holes n_*.       *)
(* The clauses are the relations of Mesh.tla, evaluated JOINTLY on the     *)
(* values as first observed (so a table and a dimension observed in any    *)
(* order must agree), row identities of a supplied edge table included,    *)
(* plus Stable (a value does not change once it has been reported).        *)
(* Verdict: <<"V", id, {names of false clauses}>>.                         *)
(***************************************************************************)
EXTENDS MeshSources, Json, IOUtils, TLCExt

Recs  == ndJsonDeserialize(IOEnv.REC_FILE)
Block == 32
NBlocks == (Len(Recs) + Block - 1) \div Block

VARIABLE i

Has(r, f) == f \in DOMAIN r
MeshR(r)  == IF Has(r, "mesh") THEN r.mesh ELSE MeshOf(r.first.fn)
WidthR(r) == IF Has(r, "width") THEN r.width ELSE Len(r.first.fn[1])
NNodeR(r) == IF Has(r, "n_node") THEN r.n_node ELSE r.first.n_node

Shape(t, axis) == IF axis = 1 THEN Len(t) ELSE IF Len(t) = 0 THEN -1 ELSE Len(t[1])
DimPairs == { << "n_face", "fn", 1 >>, << "n_max_face_nodes", "fn", 2 >>, << "n_edge", "en", 1 >>,
              << "n_max_face_edges", "fe", 2 >>, << "n_node", "nf", 1 >>, << "n_max_node_faces", "nf", 2 >>,
              << "n_max_face_faces", "ff", 2 >>, << "n_face", "ff", 1 >>, << "n_face", "fe", 1 >>, << "n_edge", "ef", 1 >> }

Clauses(r) ==
  LET m  == MeshR(r)
      w  == WidthR(r)
      nn == NNodeR(r)
      f  == r.first
      H(n) == n \in DOMAIN f
      man == Manifold(m)
  IN
  [ FaceNodesKept    |-> H("fn") => f.fn = Stored(m, w),
    NodesPerFace     |-> H("npf") => IsNodesPerFace(m, f.npf),
    EdgeRowsWellShaped |-> H("en") => EdgeRowsWellShaped(f.en),
    EdgeNoneMissing  |-> H("en") => EdgeNoneMissing(m, f.en),
    EdgeNoneExtra    |-> H("en") => EdgeNoneExtra(m, f.en),
    EdgeNoDuplicates |-> H("en") => EdgeNoDuplicates(f.en),
    SuppliedEdgesKept |-> Has(r, "sup_en") /\ H("en") => SameSides(f.en, r.sup_en),
    EdgeCount        |-> H("n_edge") => f.n_edge = Cardinality(EdgeSet(m)),
    FaceEdgeShape    |-> H("fe") => FaceEdgeShape(m, f.fe, w),
    FaceEdgePadding  |-> H("fe") => FaceEdgePadding(m, f.fe),
    FaceEdgeJoins    |-> H("fe") /\ H("en") => FaceEdgeJoins(m, f.en, f.fe),
    FaceEdgeWidth    |-> H("n_max_face_edges") => f.n_max_face_edges = w,
    MaxFaceNodes     |-> H("n_max_face_nodes") => f.n_max_face_nodes = w,
    NodeCount        |-> H("n_node") => f.n_node = nn,
    FaceCount        |-> H("n_face") => f.n_face = Len(m),
    NodeFaceShape    |-> H("nf") => NodeFaceShape(m, nn, f.nf),
    NodeFaceMembers  |-> H("nf") => NodeFaceMembers(m, nn, f.nf),
    NodeFacePadding  |-> H("nf") => NodeFacePadding(f.nf),
    MaxNodeFaces     |-> H("n_max_node_faces") => f.n_max_node_faces = MaxOr0({ Valence(m, k) : k \in 0..(nn - 1) }),
    EdgeFaceShape    |-> man /\ H("ef") /\ H("en") => EdgeFaceShape(f.en, f.ef),
    EdgeFaceMembers  |-> man /\ H("ef") /\ H("en") => EdgeFaceMembers(m, f.en, f.ef),
    EdgeFacePadding  |-> man /\ H("ef") => EdgeFacePadding(f.ef),
    FaceFaceCounts   |-> man /\ H("ff") => FaceFaceCounts(m, f.ff),
    FaceFacePadding  |-> man /\ H("ff") => FaceFacePadding(m, f.ff),
    HoleEdges        |-> man /\ H("holes") /\ H("en") => IsHoleEdgeList(m, f.en, f.holes),
    Euler            |-> Has(r, "closed_sphere") /\ r.closed_sphere /\ H("n_edge") => nn - f.n_edge + Len(m) = 2,
    StdTypes         |-> Has(r, "flags") => \A k \in DOMAIN r.flags : r.flags[k]
  ]

\* clauses with a parameter: which dimension disagrees with which table, which observable changed
DimFails(r) == { p[1] \o "=shape(" \o p[2] \o ")" : p \in { q \in DimPairs :
                    /\ q[1] \in DOMAIN r.first /\ q[2] \in DOMAIN r.first
                    /\ r.first[q[1]] # Shape(r.first[q[2]], q[3]) } }
Unstable(r) == IF ~Has(r, "final") THEN {}
               ELSE { "Stable(" \o n \o ")" : n \in { k \in DOMAIN r.first : k \in DOMAIN r.final /\ r.final[k] # r.first[k] } }

\* diagnoses (never verdicts): abstract signatures of known ways to fail, decided here so that a known
\* finding is matched by what the failure IS, not merely by which clause it trips
FaceEdgeBeforeCorner(m, E, FE) ==      \* entry j is the edge joining corner j - 1 and corner j (the MPAS slot order)
    /\ Len(FE) = Len(m)
    /\ \A f \in 1..Len(m) : Len(FE[f]) >= Len(m[f]) /\ \A j \in 1..Len(m[f]) :
          /\ FE[f][j] \in 0..(Len(E) - 1)
          /\ RowAsSide(E[FE[f][j] + 1]) = SideAt(m[f], PrevIdx(m[f], j))
Gaps(T) == \E k \in 1..Len(T) : ~PadOnlyAtEnd(T[k])
\* each diagnosis belongs to one clause (the harness attaches it to that clause's signature):
\*   FaceEdgeBeforeCorner -> FaceEdgeJoins     the table is right but for the slot convention
\*   FaceFaceGaps         -> FaceFacePadding   every neighbour is right, absent ones are left in place
\*   NodeFaceGaps         -> NodeFacePadding   every member is right, absent ones are left in place
\*   EdgeFaceGaps         -> EdgeFacePadding   every member is right, a boundary row reads (padding, face)
\*   HolesFromSecondSlot  -> HoleEdges         the list is exactly the rows whose SECOND slot is padding
Diag(r) == LET f == r.first  m == MeshR(r)  H(n) == n \in DOMAIN f IN
    (IF H("fe") /\ H("en") /\ EdgeRowsWellShaped(f.en) /\ FaceEdgeBeforeCorner(m, f.en, f.fe)
        THEN { "diag:FaceEdgeBeforeCorner" } ELSE {})
    \cup (IF H("ff") /\ FaceFaceCounts(m, f.ff) /\ Gaps(f.ff) THEN { "diag:FaceFaceGaps" } ELSE {})
    \cup (IF H("nf") /\ NodeFaceMembers(m, NNodeR(r), f.nf) /\ Gaps(f.nf) THEN { "diag:NodeFaceGaps" } ELSE {})
    \cup (IF H("ef") /\ H("en") /\ EdgeFaceShape(f.en, f.ef) /\ EdgeFaceMembers(m, f.en, f.ef) /\ Gaps(f.ef)
        THEN { "diag:EdgeFaceGaps" } ELSE {})
    \cup (IF H("holes") /\ H("ef") /\ Gaps(f.ef) /\ (\A k \in 1..Len(f.ef) : Len(f.ef[k]) = 2)
             /\ Range(f.holes) = { k - 1 : k \in { l \in 1..Len(f.ef) : f.ef[l][2] = PAD } }
        THEN { "diag:HolesFromSecondSlot" } ELSE {})

Failed(r) == LET c == Clauses(r)
                 bad == { k \in DOMAIN c : ~c[k] } \cup DimFails(r) \cup Unstable(r)
             IN IF bad = {} THEN {} ELSE bad \cup Diag(r)

Init == i \in { -b : b \in 1..NBlocks }
Next == /\ i < 0
        /\ i' \in { k \in 1..Len(Recs) : (k - 1) \div Block = (-i) - 1 }

Judge == i > 0 =>
           LET r == Recs[i]
               f == Failed(r)
           IN f = {} \/ PrintT(<< "V", r.id, f >>)
=============================================================================

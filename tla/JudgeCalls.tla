----------------------------- MODULE JudgeCalls -----------------------------
(***************************************************************************)
(* C14 (call histories, ArcCalls.tla): validates a recorded history of     *)
(* in-place buffer overwrites and calls against the value-level answers.   *)
(* One ndjson line per history and function:                               *)
(*   fn ("pw" point_within_gca, "ex" extreme_gca_latitude, "gi"            *)
(*   gca_gca_intersection, "cl" gca_const_lat_intersection), nbuf, pool    *)
(*   (arcs), args (points / second arcs / parallels), steps                *)
(*   (<<"O", k, e, 0>> or <<"C", k, form, j>>), r[i] the projected answer  *)
(*   of step i:  pw <<0|1|2>>;  ex <<maxset, minset, raised>> with         *)
(*   candidates encoded 10 * poolIndex + which;  gi, cl <<count | -1>>.    *)
(* The judge re-computes the buffer contents step by step (the machine of  *)
(* ArcCalls.tla) and demands, at every call, the answer for the CURRENT    *)
(* contents: clause ValueSemantics.                                        *)
(***************************************************************************)
EXTENDS Intersect, Json, IOUtils, TLCExt

Recs  == ndJsonDeserialize(IOEnv.REC_FILE)
Block == 64
NBlocks == (Len(Recs) + Block - 1) \div Block
VARIABLE i

Range(s) == { s[k] : k \in DOMAIN s }
Vec3(s)  == << s[1], s[2], s[3] >>
RECURSIVE BufAfter(_, _)
BufAfter(r, n) == IF n = 0 THEN [ k \in 1..r.nbuf |-> 1 ]
                  ELSE LET b == BufAfter(r, n - 1)  s == r.steps[n]
                       IN IF s[1] = "O" THEN [ b EXCEPT ![s[2]] = s[3] ] ELSE b
ArcAt(r, n) == LET e == BufAfter(r, n - 1)[r.steps[n][2]] IN << Vec3(r.pool[e][1]), Vec3(r.pool[e][2]), e >>

\* "ok" / "skip" (not judged) / a clause name
StepVerdict(r, n) ==
    LET s == r.steps[n]  form == s[3]  j == s[4]
        arc == ArcAt(r, n)  a == arc[1]  b == arc[2]
        got == r.r[n]
    IN CASE r.fn = "pw" ->
              LET q == Vec3(r.args[j]) IN
              IF ~TripleJudged(a, b, q) \/ (form = "f32" /\ OnCircle(a, b, q)) THEN "skip"
              ELSE IF got[1] = 2 THEN "NoRaise"
              ELSE IF got[1] # (IF OnArcExpected(a, b, q) THEN 1 ELSE 0) THEN "ValueSemantics" ELSE "ok"
         [] r.fn = "ex" ->
              IF form = "f32" THEN "skip"
              ELSE IF got[3] = 1 THEN "NoRaise"
              ELSE IF (10 * arc[3] + MaxLatWhich(a, b)) \notin Range(got[1]) THEN "ValueSemantics"
              ELSE IF (10 * arc[3] + MinLatWhich(a, b)) \notin Range(got[2]) THEN "ValueSemantics" ELSE "ok"
         [] r.fn = "gi" ->
              LET c == Vec3(r.args[j][1])  d == Vec3(r.args[j][2]) IN
              IF ~PairJudged(a, b, c, d) THEN "skip"
              ELSE IF got[1] = -1 THEN "NoRaise"
              ELSE IF got[1] # (IF Crosses(a, b, c, d) THEN 1 ELSE 0) THEN "ValueSemantics" ELSE "ok"
         [] r.fn = "cl" ->
              LET c == Vec3(r.args[j]) IN
              IF ~LatJudged(a, b, c) THEN "skip"
              ELSE IF got[1] = -1 THEN "NoRaise"
              ELSE IF got[1] # LatCount(a, b, c) THEN "ValueSemantics" ELSE "ok"

Init == i \in { -k : k \in 1..NBlocks }
Next == /\ i < 0
        /\ i' \in { k \in 1..Len(Recs) : (k - 1) \div Block = (-i) - 1 }
Judge == i > 0 =>
           LET r == Recs[i]
               calls == { n \in 1..Len(r.steps) : r.steps[n][1] = "C" }
               judged == { n \in calls : StepVerdict(r, n) # "skip" }
               bad == { <<StepVerdict(r, n), n>> : n \in { m \in judged : StepVerdict(r, m) # "ok" } }
           IN /\ PrintT(<<"S", r.id, r.fn, Cardinality(judged), Cardinality(calls) - Cardinality(judged)>>)
              /\ bad = {} \/ PrintT(<<"V", r.id, r.fn, bad>>)
=============================================================================

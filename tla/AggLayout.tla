------------------------------ MODULE AggLayout ------------------------------
(***************************************************************************)
(* C17 - the position of the node dimension.  Scope: every layout of rank  *)
(* 1..MaxRank (node dimension first, middle, last: every position) whose   *)
(* other dimensions have pairwise DIFFERENT sizes from SizePool with at    *)
(* most MaxRows rows.  The states are the layouts (`-dump` = the layouts   *)
(* the harness replays); on each TLC proves, on a fixed mixed mesh with a  *)
(* fingerprint field,                                                      *)
(*  - L2 = L1: moveaxis(node -> last), gather, reduce, moveaxis(last ->    *)
(*    node position) gives at every index tuple the reduction of that      *)
(*    tuple's node row over that element (L1 written on index tuples);     *)
(*  - the flat-offset formula JudgeAgg uses is the C-order offset;         *)
(*  - putting the axis back with swapaxes instead differs from L1 exactly  *)
(*    when the node axis is two or more positions from the end (the class  *)
(*    is not vacuous and is the one a judge must be able to see).          *)
(***************************************************************************)
EXTENDS Aggregate

CONSTANTS MaxRank, SizePool, MaxRows

VARIABLE layout

RECURSIVE DistinctSeqs(_, _)
DistinctSeqs(S, n) == IF n = 0 THEN { << >> }
                      ELSE { << x >> \o t : x \in S, t \in DistinctSeqs(S, n - 1) }
Layouts == { [ pos |-> p, lead |-> s ] :
               p \in 0..(MaxRank - 1),
               s \in { t \in UNION { DistinctSeqs(SizePool, n) : n \in 0..(MaxRank - 1) } :
                         /\ \A i, j \in 1..Len(t) : i # j => t[i] # t[j]
                         /\ ProdSeq(t) <= MaxRows } }
Valid(l) == l.pos <= Len(l.lead)

Init == layout \in { l \in Layouts : Valid(l) }
Next == UNCHANGED layout

\* fixed mixed mesh (triangle + pentagon + quad, 6 nodes) and its edge table; fingerprint field
Mesh0  == << << 0, 1, 2 >>, << 2, 1, 3, 4, 5 >>, << 0, 2, 5, 4 >> >>
NNode0 == 6
Edges0 == AlgEdges(Stored(Mesh0, 5)).edges
Field(idx) == ((SumSeq([ i \in 1..Len(idx) |-> (idx[i] + 1) * (2 * i + 1) * (i + 1) ]) + Len(idx)) % 11) - 5

l    == layout
P1   == l.pos + 1                       \* 1-based node axis
Rank == Len(l.lead) + 1
Data == [ t \in IndexTuples(LayoutShape(l, NNode0)) |-> Field(t) ]

\* L1 on index tuples: result[t] = reduction over element t[P1] of the values data[t with node at P1]
SpecND(els, op) ==
    [ t \in IndexTuples(LayoutShape(l, Len(els))) |->
        Reduce(op, [ j \in 1..Len(els[t[P1] + 1]) |-> Data[[ t EXCEPT ![P1] = els[t[P1] + 1][j] ]] ], 1) ]

\* L2: data2 = moveaxis(data, node, last); res2 = reduce(data2[..., els]); result = moveaxis(res2, last, node)
Data2 == [ v \in IndexTuples(Append(l.lead, NNode0)) |-> Data[MoveTuple(v, Rank, P1)] ]
Res2(els, op) ==
    [ u \in IndexTuples(Append(l.lead, Len(els))) |->
        Reduce(op, [ j \in 1..Len(els[u[Rank] + 1]) |-> Data2[[ u EXCEPT ![Rank] = els[u[Rank] + 1][j] ]] ], 1) ]
AlgND(els, op)  == LET r2 == Res2(els, op)
                   IN [ t \in IndexTuples(LayoutShape(l, Len(els))) |-> r2[MoveTuple(t, P1, Rank)] ]
\* the variant with np.swapaxes(result, -1, node_axis): defined on the shape swapaxes produces
SwapShape(n)    == SwapTuple(Append(l.lead, n), P1, Rank)
SwapND(els, op) == LET r2 == Res2(els, op)
                   IN [ t \in IndexTuples(SwapShape(Len(els))) |-> r2[SwapTuple(t, P1, Rank)] ]

LOps == { "sum", "mean", "max", "median" }
L2_Layout == \A op \in LOps : AlgND(Mesh0, op) = SpecND(Mesh0, op) /\ AlgND(Edges0, op) = SpecND(Edges0, op)

\* the judge's arithmetic: canonical row rho / element k sit at FlatOffset in the C-order flattening
OffsetLaw ==
    \A n \in { Len(Mesh0), Len(Edges0) } :
      /\ NRows(l) * n = Cardinality(IndexTuples(LayoutShape(l, n)))
      /\ \A o \in IndexTuples(l.lead) : \A k \in 0..(n - 1) :
            COrder(InsAt(o, l.pos, k), LayoutShape(l, n)) = FlatOffset(l, n, COrder(o, l.lead), k)

\* sensitivity of the class: swapaxes is wrong iff the node axis is at least two positions before the last
SwapDiffers == (SwapND(Edges0, "sum") # SpecND(Edges0, "sum")) <=> (Rank - P1 >= 2)
=============================================================================

----------------------------- MODULE PolyCases -----------------------------
(***************************************************************************)
(* C15, per-face part: what the polygons / line rings exported for a mesh  *)
(* must be, stated on integer direction vectors (SphereZ) and independent  *)
(* of every helper in uxarray/grid/geometry.py.                            *)
(*                                                                         *)
(* A mesh is [nodes : Seq(Vec), faces : Seq(Seq(0-based node id))].        *)
(* k  = where the seam (the "antimeridian" of the reported longitudes) is: *)
(*      reported longitude = longitude of RotZ(k, v); k = 0 for central    *)
(*      longitude 0, k = 2 for central longitude 180.                      *)
(* sg = for every node, the sign of its reported longitude if the node     *)
(*      lies exactly on the seam (+180 or -180 are both legitimate: the    *)
(*      sign is an INPUT taken from the recorded longitudes), else 0.      *)
(*                                                                         *)
(* An exported vertex is <<n, s>>: n >= 0 a node id, n = -1 a point on the *)
(* seam that is not a node (a cut point), n = -3 a point on a pole line    *)
(* (lat = +-90, added when a piece is closed over a pole), n = -2 a point  *)
(* that is none of these; s = sign of its reported x.                      *)
(***************************************************************************)
EXTENDS SphereZ, TLC

NF(m)        == Len(m.faces)
FaceIds(m)   == 0..(NF(m) - 1)
Face(m, f)   == m.faces[f + 1]
Corners(m, f) == { Face(m, f)[i] : i \in 1..Len(Face(m, f)) }
Dir(m, k, n) == RotZ(k, m.nodes[n + 1])
FaceDirs(m, f) == [ i \in 1..Len(Face(m, f)) |-> m.nodes[Face(m, f)[i] + 1] ]

OnSeam(v)    == OnAntimeridian(v)
OnAxis(v)    == v[1] = 0 \/ v[2] = 0          \* reported longitude is one of 0, +-90, 180: exact in floating point
\* sign of the reported longitude (0 for longitude exactly 0); s is used only for a node on the seam
LonSgn(v, s) == IF OnSeam(v) THEN s ELSE Sgn(v[2])

\* does the segment u -> v span at least 180 degrees of reported longitude?
\*   "yes" / "no" are decided exactly; "tie" = exactly opposite meridians whose longitudes are not
\*   exactly representable, so that a float32 difference may fall on either side of 180 (not judged)
EdgeSpan(u, su, v, sv) ==
    IF OnSeam(u) /\ OnSeam(v) THEN (IF su # sv THEN "yes" ELSE "no")
    ELSE IF OnSeam(u) THEN (IF LonSgn(v, sv) # su THEN "yes" ELSE "no")
    ELSE IF OnSeam(v) THEN (IF LonSgn(u, su) # sv THEN "yes" ELSE "no")
    ELSE IF CrossesAntimeridianStrict(u, v) THEN "yes"
    ELSE IF Cross2(u, v) = 0 /\ Dot2(u, v) < 0 THEN (IF OnAxis(u) THEN "yes" ELSE "tie")
    ELSE "no"

FaceEdgeSpan(m, k, sg, f, i) ==
    LET fc == Face(m, f)
        a  == fc[i]
        b  == fc[NextI(fc, i)]
    IN EdgeSpan(Dir(m, k, a), sg[a + 1], Dir(m, k, b), sg[b + 1])
SpanKinds(m, k, sg, f) == { FaceEdgeSpan(m, k, sg, f, i) : i \in 1..Len(Face(m, f)) }
NSpanning(m, k, sg, f) == Cardinality({ i \in 1..Len(Face(m, f)) : FaceEdgeSpan(m, k, sg, f, i) = "yes" })

\* the property's definition: a face crosses the antimeridian iff it has an edge spanning >= 180 degrees
CrossesAM(m, k, sg, f) == "yes" \in SpanKinds(m, k, sg, f)
TieFace(m, k, sg, f)   == "tie" \in SpanKinds(m, k, sg, f) /\ ~CrossesAM(m, k, sg, f)
CrossSet(m, k, sg)     == { f \in FaceIds(m) : CrossesAM(m, k, sg, f) }
TieSet(m, k, sg)       == { f \in FaceIds(m) : TieFace(m, k, sg, f) }
\* the faces that survive 'exclude', in order: polygon j <-> Kept[j]
Kept(m, k, sg) == SelectSeq([ i \in 1..NF(m) |-> i - 1 ], LAMBDA f : ~CrossesAM(m, k, sg, f))

PoleIn(m, f)      == PoleClassN(FaceDirs(m, f)) = "Inside" \/ PoleClassS(FaceDirs(m, f)) = "Inside"
PoleTouch(m, f)   == PoleClassN(FaceDirs(m, f)) = "OnBoundary" \/ PoleClassS(FaceDirs(m, f)) = "OnBoundary"
PoleInSet(m)      == { f \in FaceIds(m) : PoleIn(m, f) }
PoleTouchSet(m)   == { f \in FaceIds(m) : PoleTouch(m, f) }
HasSeamNode(m, k, f) == \E n \in Corners(m, f) : OnSeam(Dir(m, k, n))
SeamNodes(m, k)   == { n \in 0..(Len(m.nodes) - 1) : OnSeam(Dir(m, k, n)) }
SgnWellFormed(m, k, sg) == /\ Len(sg) = Len(m.nodes)
                           /\ \A n \in 0..(Len(m.nodes) - 1) :
                                 IF n \in SeamNodes(m, k) THEN sg[n + 1] \in {-1, 1} ELSE sg[n + 1] = 0

(* ---- rings ------------------------------------------------------------------ *)
Dedup(s) == LET idx == { i \in 1..Len(s) : i = 1 \/ s[i] # s[i - 1] }
            IN [ j \in 1..Cardinality(idx) |-> s[CHOOSE i \in idx : Cardinality({ x \in idx : x <= i }) = j] ]
\* repeated padding vertices and the closing vertex removed
Open(s)  == LET d == Dedup(s)
            IN IF Len(d) > 1 /\ d[1] = d[Len(d)] THEN SubSeq(d, 1, Len(d) - 1) ELSE d
IsRotation(a, b) == /\ Len(a) = Len(b)
                    /\ Len(a) > 0
                    /\ \E sh \in 0..(Len(a) - 1) : \A i \in 1..Len(a) : a[i] = b[((i - 1 + sh) % Len(b)) + 1]
NSeq(p)  == [ i \in 1..Len(p) |-> p[i][1] ]
Reverse(a) == [ i \in 1..Len(a) |-> a[Len(a) + 1 - i] ]
\* a ring of exported vertices is face f: the face's corners, in cyclic order (any starting corner; the
\* engines normalise the winding of a ring, so either sense of traversal denotes the same polygon)
RingIsFace(m, p, f) == \/ IsRotation(Open(NSeq(p)), Face(m, f))
                       \/ IsRotation(Open(NSeq(p)), Reverse(Face(m, f)))
\* all corners of face f on one parallel: its image in the (lon, lat) plane has zero area
FlatFace(m, f) == \A a, b \in Corners(m, f) : LatCmp(m.nodes[a + 1], m.nodes[b + 1]) = 0
ClosedRing(p) == Len(p) >= 2 /\ p[1][1] = p[Len(p)][1]
AllMatched(p) == \A i \in 1..Len(p) : p[i][1] # -2

(* ---- pieces of a split face --------------------------------------------------- *)
SeamPoint == <<-1, 0, 0>>
VDir(m, k, v) == IF v[1] >= 0 THEN Dir(m, k, v[1]) ELSE SeamPoint
PieceEdgeSpans(m, k, p) ==
    \E i \in 1..Len(p) :
        LET a == p[i]  b == p[NextI(p, i)]
        IN /\ ~(a[1] = -3 /\ b[1] = -3)                      \* the run along the pole line is not an edge of the face
           /\ a[1] # -2 /\ b[1] # -2
           /\ EdgeSpan(VDir(m, k, a), a[2], VDir(m, k, b), b[2]) = "yes"
PieceNodes(ps) == UNION { { ps[j][i][1] : i \in 1..Len(ps[j]) } : j \in 1..Len(ps) }
\* the pieces ps (a sequence of rings) are a legitimate export of face f under 'split'
PiecesOwned(m, f, ps)   == \A n \in PieceNodes(ps) : n >= 0 => n \in Corners(m, f)
PiecesCover(m, f, ps)   == Corners(m, f) \subseteq PieceNodes(ps)
PiecesNoSpan(m, k, ps)  == \A j \in 1..Len(ps) : ~PieceEdgeSpans(m, k, ps[j])
PiecesSpecialOK(m, k, sg, f, ps) ==
    /\ (-3 \in PieceNodes(ps)) => PoleIn(m, f)
    /\ (-1 \in PieceNodes(ps)) => CrossesAM(m, k, sg, f)
    /\ -2 \notin PieceNodes(ps)
PiecesWhole(m, k, sg, f, ps) == CrossesAM(m, k, sg, f) \/ (Len(ps) = 1 /\ RingIsFace(m, ps[1], f))

(* ---- projections that do not show the whole sphere ------------------------------ *)
\* c = direction of the projection centre; pk = "ortho" (orthographic: the hemisphere facing the viewer) or
\* "nsper" (near-side perspective from one radius above the surface: the cap of 60 degrees, cos = 1/2).
\* A corner is "vis" / "hid" only when it is clearly so (nsper: 2 degrees of margin either side of the
\* horizon, the library's ellipsoid moves it slightly); everything else is "unclear" and never judged.
NodeVis(v, c, pk) ==
    LET d == Dot(v, c)
        n == N2(v) * N2(c)
    IN IF pk = "ortho" THEN (IF d > 0 THEN "vis" ELSE IF d < 0 THEN "hid" ELSE "unclear")
       ELSE IF d > 0 /\ d * d * 10000 > 2809 * n THEN "vis"
       ELSE IF d <= 0 \/ d * d * 10000 < 2209 * n THEN "hid"
       ELSE "unclear"
\* a polygon survives iff none of its vertices projects to NaN
FaceVis(m, f, c, pk) ==
    LET ks == { NodeVis(m.nodes[n + 1], c, pk) : n \in Corners(m, f) }
    IN IF ks = {"vis"} THEN "vis" ELSE IF "hid" \in ks THEN "hid" ELSE "unclear"
\* cartopy's own NaN pattern (nodenan[n]) agrees with the exact classification wherever that is clear
OracleAgrees(m, c, pk, nodenan) ==
    \A n \in 1..Len(m.nodes) :
        LET k == NodeVis(m.nodes[n], c, pk) IN (k = "vis" => ~nodenan[n]) /\ (k = "hid" => nodenan[n])
\* laws: visibility is monotone in the cap, and the antipode of a clearly visible point is clearly hidden
VisLaws(m, c) ==
    \A n \in 1..Len(m.nodes) :
        /\ (NodeVis(m.nodes[n], c, "nsper") = "vis" => NodeVis(m.nodes[n], c, "ortho") = "vis")
        /\ (NodeVis(m.nodes[n], c, "ortho") = "vis" => NodeVis(Neg(m.nodes[n]), c, "ortho") = "hid")
        /\ (NodeVis(m.nodes[n], c, "ortho") = "hid" => NodeVis(m.nodes[n], c, "nsper") = "hid")

\* a mesh handed to the checks is well formed: convex counter-clockwise faces, distinct node directions
WellFormedMesh(m) ==
    /\ \A f \in FaceIds(m) : ConvexCCW(FaceDirs(m, f))
    /\ \A a, b \in 1..Len(m.nodes) : a # b => ~SameDir(m.nodes[a], m.nodes[b])

(* ---- laws of the specification itself (checked by TLC in PolyGen) -------------- *)
KeptPartition(m, k, sg) ==
    LET K == Kept(m, k, sg) IN
    /\ { K[j] : j \in 1..Len(K) } \cup CrossSet(m, k, sg) = FaceIds(m)
    /\ { K[j] : j \in 1..Len(K) } \cap CrossSet(m, k, sg) = {}
    /\ \A j \in 1..(Len(K) - 1) : K[j] < K[j + 1]
\* a closed curve on the sphere meets the seam meridian an odd number of times iff it separates the poles:
\* for a face with no corner on the seam and no tie, (#spanning edges odd) <=> a pole is strictly inside
ParityLaw(m, k, sg) ==
    \A f \in FaceIds(m) :
        (~HasSeamNode(m, k, f) /\ ~TieFace(m, k, sg, f) /\ ~PoleTouch(m, f) /\ "tie" \notin SpanKinds(m, k, sg, f))
            => ((NSpanning(m, k, sg, f) % 2 = 1) <=> PoleIn(m, f))
=============================================================================

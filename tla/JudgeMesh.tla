----------------------------- MODULE JudgeMesh -----------------------------
(***************************************************************************)
(* Judges connectivity tables recorded from the implementation against     *)
(* the relations of Mesh.tla.  One ndjson line per grid:                   *)
(*   id, n_node, mesh (faces as the generator produced them), and any of   *)
(*   edges, face_edges, fe_width, npf, n_edge, node_faces, edge_faces,     *)
(*   face_faces, holes, flags (name -> BOOLEAN), l2 (compare with MeshAlg) *)
(* Every clause is a named operator; the verdict of a record is the set    *)
(* of names of clauses that are false, printed as <<"V", id, names>>.      *)
(* The records are spread over TLC's workers in blocks.                    *)
(***************************************************************************)
EXTENDS MeshAlg, Json, IOUtils, TLCExt

Recs  == ndJsonDeserialize(IOEnv.REC_FILE)
Block == 32
NBlocks == (Len(Recs) + Block - 1) \div Block

VARIABLE i      \* < 0: block marker, > 0: record index

Has(r, f) == f \in DOMAIN r
\* width of the face-node table the grid was built from (it may be wider than the largest face)
W(r) == IF Has(r, "width") THEN r.width ELSE MaxSize(r.mesh)

Clauses(r) ==
  LET m == r.mesh
      E == r.edges
  IN
  [ NodesPerFace     |-> Has(r, "npf") => IsNodesPerFace(m, r.npf),
    EdgeRowsWellShaped |-> Has(r, "edges") => EdgeRowsWellShaped(E),
    EdgeNoneMissing  |-> Has(r, "edges") => EdgeNoneMissing(m, E),
    EdgeNoneExtra    |-> Has(r, "edges") => EdgeNoneExtra(m, E),
    EdgeNoDuplicates |-> Has(r, "edges") => EdgeNoDuplicates(E),
    EdgeCount        |-> Has(r, "n_edge") => r.n_edge = Cardinality(EdgeSet(m)),
    FaceEdgeShape    |-> Has(r, "face_edges") => FaceEdgeShape(m, r.face_edges, W(r)),
    FaceEdgePadding  |-> Has(r, "face_edges") => FaceEdgePadding(m, r.face_edges),
    FaceEdgeJoins    |-> Has(r, "face_edges") => FaceEdgeJoins(m, E, r.face_edges),
    FaceEdgeWidth    |-> Has(r, "fe_width") => r.fe_width = W(r),
    NodeFaceShape    |-> Has(r, "node_faces") => NodeFaceShape(m, r.n_node, r.node_faces),
    NodeFaceMembers  |-> Has(r, "node_faces") => NodeFaceMembers(m, r.n_node, r.node_faces),
    NodeFacePadding  |-> Has(r, "node_faces") => NodeFacePadding(r.node_faces),
    EdgeFaceShape    |-> Has(r, "edge_faces") => EdgeFaceShape(E, r.edge_faces),
    EdgeFaceMembers  |-> Has(r, "edge_faces") => EdgeFaceMembers(m, E, r.edge_faces),
    EdgeFacePadding  |-> Has(r, "edge_faces") => EdgeFacePadding(r.edge_faces),
    FaceFaceCounts   |-> Has(r, "face_faces") => FaceFaceCounts(m, r.face_faces),
    FaceFacePadding  |-> Has(r, "face_faces") => FaceFacePadding(m, r.face_faces),
    HoleEdges        |-> Has(r, "holes") => IsHoleEdgeList(m, E, r.holes),
    Euler            |-> Has(r, "closed_sphere") /\ r.closed_sphere =>
                            r.n_node - r.n_edge + Len(m) = 2,
    StdTypes         |-> Has(r, "flags") => \A k \in DOMAIN r.flags : r.flags[k]
  ]

Failed(r) == LET c == Clauses(r) IN { k \in DOMAIN c : ~c[k] }

\* descriptive comparison with the L2 transcription (drift, not violation)
Drift(r) ==
  IF ~Has(r, "l2") THEN {}
  ELSE LET T == Stored(r.mesh, MaxSize(r.mesh))
           a == AlgEdges(T)
       IN ({ "edges" : x \in { 1 } } \cap (IF Has(r, "edges") /\ r.edges # a.edges THEN { "edges" } ELSE {}))
          \cup (IF Has(r, "face_edges") /\ r.face_edges # a.face_edges THEN { "face_edges" } ELSE {})
          \cup (IF Has(r, "node_faces") /\ r.node_faces # AlgNodeFaces(T, r.n_node) THEN { "node_faces" } ELSE {})

Init == i \in { -b : b \in 1..NBlocks }
Next == /\ i < 0
        /\ i' \in { k \in 1..Len(Recs) : (k - 1) \div Block = (-i) - 1 }

Judge == i > 0 =>
           LET r == Recs[i]
               f == Failed(r)
               d == Drift(r)
           IN /\ (f = {} \/ PrintT(<<"V", r.id, f>>))
              /\ (d = {} \/ PrintT(<<"D", r.id, d>>))
=============================================================================

----------------------------- MODULE BoundsScale -----------------------------
(***************************************************************************)
(* C13 -- small faces with an exact oracle: scale laws of BoundsSpec.      *)
(*                                                                         *)
(* The features that decide a face's bounds (which corner / edge interior  *)
(* / pole attains lat_max and lat_min, the west-most and east-most         *)
(* corners, pole status, which edges bulge, quantifier membership) are     *)
(* relative to the polar axis, so they are NOT invariant under an          *)
(* arbitrary shrinking map  v -> (M-1)(v.c)c + (c.c)v.  They are inherited *)
(* exactly under three integer maps, which compose to small faces          *)
(* anywhere on the sphere:                                                 *)
(*                                                                         *)
(* POLAR   P_N (x, y, z) = (x, y, N z),  N >= 1.  Longitudes are kept and  *)
(*   tan(lat) of every boundary point (corners and interior extremes       *)
(*   alike: tan^2 top = (nx^2+ny^2)/nz^2 -> N^2 times that) is multiplied  *)
(*   by N, so every comparison and every bulge test keeps its sign.        *)
(*   ALL features are inherited, for every face and every N.  A face next  *)
(*   to / around a pole shrinks towards it by 1/N.                         *)
(* TURN    G_pq (x, y, z) = (p x - q y, q x + p y, z).  A rotation about   *)
(*   the polar axis by atan2(q, p) times a horizontal stretch r =          *)
(*   sqrt(p^2+q^2): longitudes shift, tan(lat) is divided by r.  All       *)
(*   features are inherited except the ones tied to absolute longitude     *)
(*   (wrap flag, seam).                                                    *)
(* SMALL   S_M,s(B)_i = (M, y_i, s M + z_i) for a convex counter-clockwise *)
(*   planar polygon B = <<y_i, z_i>> on the grid |y|, |z| <= 2: a face of  *)
(*   angular size ~ 1/M around the direction (1, 0, s).  Every decision    *)
(*   polynomial is a polynomial in M whose leading coefficient does not    *)
(*   vanish unless the whole polynomial is M-free, e.g.                    *)
(*     LatCmp:  2 s M^3 (za-zb) + M^2 (za^2-zb^2 + s^2 (yb^2-ya^2)) + ...  *)
(*              and for za = zb it factors as (yb^2-ya^2)(s M + z)^2;      *)
(*     bulge:   ya nx - M^2 (za-zb) > 0  and  M^2 (za-zb) - yb nx > 0,     *)
(*              contradictory unless za = zb, then ya, yb of opposite sign;*)
(*     Det of three corners = M * planar cross product;  Cross2 = M dy.    *)
(*   With |y|, |z|, |s| <= 2 the leading term dominates from M = 18 on, so *)
(*   the features are the same for every M >= 18 and have the closed form  *)
(*   SmallClosedForm below (corners ordered by z, ties by distance from    *)
(*   the central meridian; only a horizontal edge that crosses the central *)
(*   meridian bulges, poleward; west / east-most = least / greatest y).    *)
(*                                                                         *)
(* TLC proves LawPolar (N = 2, 3) and LawTurn on lattice faces, and        *)
(* LawSmall / SmallClosedForm for M in MSet against M0 on every planar     *)
(* base; it emits each base with the exact expected bounds of S_M0,s(B).   *)
(* The harness materialises  P_N G_pq S_M,s(B)  with M up to 10^5 (Python  *)
(* integers), the judge decides on S_M0,s(B).                              *)
(***************************************************************************)
EXTENDS BoundsSpec, TLC, Json, IOUtils

CONSTANTS Mode,       \* "planar" | "file"
          MaxN,       \* corners of a planar base
          M0, MSet,   \* reference scale and the scales it is compared with
          SMax,       \* centre latitudes: tan(lat) = s, s in -SMax..SMax
          PreMod, GrowMod, Seed

SSet == (-SMax)..SMax

(* ---- the three maps ---------------------------------------------------------- *)
Polar(N, f)    == [ i \in 1..Len(f) |-> << f[i][1], f[i][2], N * f[i][3] >> ]
Turn(p, q, f)  == [ i \in 1..Len(f) |-> << p * f[i][1] - q * f[i][2], q * f[i][1] + p * f[i][2], f[i][3] >> ]
Small(M, s, B) == [ i \in 1..Len(B) |-> << M, B[i][1], s * M + B[i][2] >> ]
PQ == { <<1, 1>>, <<2, 1>>, <<-1, 2>>, <<0, 1>>, <<-1, 0>>, <<-2, -1>>, <<1, -2>> }

(* ---- what must be inherited ----------------------------------------------------- *)
FeaturesNoLon(f) ==
    [ inq  |-> InQuantifier(f),
      amax |-> AttainMax(f), amin |-> AttainMin(f),
      west |-> WestSet(f), east |-> EastSet(f),
      poles |-> <<PoleStatus(f, 1), PoleStatus(f, -1)>>,
      bn |-> { i \in 1..Len(f) : BulgeN(f, i) }, bs |-> { i \in 1..Len(f) : BulgeS(f, i) },
      hemi |-> Hemisphere(f) ]
WrapOf(f) == IF EnclosesPole(f) \/ WestSet(f) = {} \/ EastSet(f) = {} THEN "full" ELSE WrapExpected(f)
Features(f) == [ nolon |-> FeaturesNoLon(f), wrap |-> WrapOf(f) ]

(* ---- planar bases ------------------------------------------------------------------ *)
Pts == (-2..2) \X (-2..2)
PCross(a, b, c) == (b[1] - a[1]) * (c[2] - a[2]) - (b[2] - a[2]) * (c[1] - a[1])
PlanarConvexCCW(B) == /\ Len(B) >= 3
                      /\ \A i \in 1..Len(B) : \A w \in 1..Len(B) :
                            (w # i /\ w # NextI(B, i)) => PCross(B[i], B[NextI(B, i)], B[w]) > 0
PCode(p) == (p[1] + 2) * 5 + (p[2] + 2)
PP == <<67, 71, 73, 79, 83, 89, 97, 101>>
RECURSIVE PSum(_, _)
PSum(B, i) == IF i > Len(B) THEN 0 ELSE PCode(B[i]) * PP[i] + PSum(B, i + 1)
PH(B) == (PSum(B, 1) + Seed) % 100019

FileFaces == IF Mode = "file" THEN ndJsonDeserialize(IOEnv.FACE_FILE) ELSE <<>>

VARIABLES base, s, face     \* planar mode: base, s;  file mode: face

Init ==
    IF Mode = "file"
    THEN /\ base = <<>> /\ s = 0
         /\ \E k \in 1..Len(FileFaces) : face = FileFaces[k].f
    ELSE /\ face = <<>>
         /\ s \in SSet
         /\ \E a \in Pts : base = <<a>>

Next ==
    /\ Mode = "planar"
    /\ UNCHANGED <<s, face>>
    /\ \/ /\ Len(base) = 1
          /\ \E b \in Pts : \E c \in Pts :
                /\ PCross(base[1], b, c) > 0
                /\ PH(<<base[1], b, c>>) % PreMod = 0
                /\ base' = <<base[1], b, c>>
       \/ /\ Len(base) >= 3 /\ Len(base) < MaxN
          /\ \E d \in Pts : /\ PlanarConvexCCW(Append(base, d))
                            /\ PH(Append(base, d)) % GrowMod = 0
                            /\ base' = Append(base, d)

(* ---- laws ------------------------------------------------------------------------------ *)
LawPolar == (Mode = "file" /\ ConvexCCW(face)) =>
                \A N \in {2, 3} : Features(Polar(N, face)) = Features(face)
LawTurn  == (Mode = "file" /\ ConvexCCW(face)) =>
                \A pq \in PQ : FeaturesNoLon(Turn(pq[1], pq[2], face)) = FeaturesNoLon(face)

IsBase == Mode = "planar" /\ Len(base) >= 3
LawSmall == IsBase => \A M \in MSet : Features(Small(M, s, base)) = Features(Small(M0, s, base))
\* the polar map composed with the small map (checked where 32-bit arithmetic allows)
LawSmallPolar == (IsBase /\ s \in {0, 1, -1}) =>
                    Features(Polar(2, Small(8, s, base))) = Features(Small(8, s, base))

Sig(B, i)  == IF s # 0 THEN Sgn(s) ELSE Sgn(B[i][2])
MinOf(S)   == CHOOSE x \in S : \A y \in S : x <= y
MaxOf(S)   == CHOOSE x \in S : \A y \in S : x >= y
SmallClosedForm ==
    IsBase => \A M \in MSet \cup {M0} :
        LET f == Small(M, s, base)
            n == Len(base)
            ys == { base[i][1] : i \in 1..n }
        IN /\ ConvexCCW(f)
           /\ \A i \in 1..n :
                LET j == NextI(base, i)
                    flat == base[i][2] = base[j][2] /\ base[i][1] * base[j][1] < 0
                IN /\ BulgeN(f, i) <=> (flat /\ Sig(base, i) > 0)
                   /\ BulgeS(f, i) <=> (flat /\ Sig(base, i) < 0)
           /\ \A a \in 1..n : \A b \in 1..n :
                LatCmp(f[a], f[b]) =
                    IF Sig(base, a) # Sig(base, b) THEN Sgn(Sig(base, a) - Sig(base, b))
                    ELSE IF Sig(base, a) = 0 THEN 0
                    ELSE IF base[a][2] # base[b][2] THEN Sgn(base[a][2] - base[b][2])
                    ELSE Sig(base, a) * Sgn(base[b][1] * base[b][1] - base[a][1] * base[a][1])
           /\ WestSet(f) = { i \in 1..n : base[i][1] = MinOf(ys) }
           /\ EastSet(f) = { i \in 1..n : base[i][1] = MaxOf(ys) }
           /\ PoleStatus(f, 1) = "Outside" /\ PoleStatus(f, -1) = "Outside"
           /\ InQuantifier(f)

(* ---- emission ------------------------------------------------------------------------------ *)
TopsOf(f) == { << i, CircleTop(EdgeA(f, i), EdgeB(f, i))[1], CircleTop(EdgeA(f, i), EdgeB(f, i))[2] >> :
                 i \in { k \in 1..Len(f) : BulgeN(f, k) } }
BotsOf(f) == { << i, CircleTop(EdgeA(f, i), EdgeB(f, i))[1], CircleTop(EdgeA(f, i), EdgeB(f, i))[2] >> :
                 i \in { k \in 1..Len(f) : BulgeS(f, k) } }
CaseOf(f) ==
    LET amax == AttainMax(f)
        amin == AttainMin(f)
    IN [ f |-> f, base |-> base, s |-> s, tops |-> TopsOf(f), bots |-> BotsOf(f),
         latmax |-> FeatLatMax(f, CHOOSE ft \in amax : TRUE), latmin |-> FeatLatMin(f, CHOOSE ft \in amin : TRUE),
         amax |-> amax, amin |-> amin,
         lon |-> <<"iv", CHOOSE i \in WestSet(f) : TRUE, CHOOSE i \in EastSet(f) : TRUE>>,
         wrap |-> WrapExpected(f), poles |-> <<PoleStatus(f, 1), PoleStatus(f, -1)>>,
         fams |-> Families(f) \cup {"small"}, id |-> "" ]
Emit == IsBase => PrintT(<<"CASE", CaseOf(Small(M0, s, base))>>)
=============================================================================

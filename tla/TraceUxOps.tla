----------------------------- MODULE TraceUxOps -----------------------------
(***************************************************************************)
(* Validates recorded executions of real UxDataArray programs against      *)
(* UxOps.  The file IOEnv.TRACE_FILE holds one trace per ndjson line:      *)
(*   id     string                                                         *)
(*   init   [arr |-> abstract array, grids |-> grid table] (start state)   *)
(*   steps  sequence of events, one per operation applied:                 *)
(*     op, d     the operation and its dimension argument ("-" if none)    *)
(*     out       "value" | "raised" | "refused" (raised where the property *)
(*               leaves the effect free) | "xr_refused" (plain xarray      *)
(*               refuses the same call on the same data)                   *)
(*     cls grid dims name   projection of the result (dims: [k, n, size])  *)
(*     g         [cnt |-> [n_face, n_node, n_edge], eq |-> handles the     *)
(*               attached grid compares equal to, share |-> handles whose  *)
(*               dataset OBJECT it shares, mem |-> handles with a variable *)
(*               sharing memory with one of its variables, leak |-> handles*)
(*               where an in-place edit of one grid's array shows in the   *)
(*               other's]                                                  *)
(*     src sel   selection operations: src[i] = index in the operand of    *)
(*               the element the data at i came from (tracer run through   *)
(*               the same call), sel[i] = index in the operand's grid of   *)
(*               the result grid's element i (identified by its corners)   *)
(*     val       "eq" | "diff" | "na": values/dims/coords/name/dtype       *)
(*               against plain xarray run in lock-step on the same data    *)
(* A trace step is  IsEvent /\ bind logged fields /\ UxOps action: every   *)
(* conjunct is a named clause.  A state that cannot consume its next line  *)
(* prints <<"R", id, line, {names of the false clauses}>>; a trace is      *)
(* accepted iff all its lines are consumed.                                *)
(***************************************************************************)
EXTENDS UxOps, Integers, Json, IOUtils, TLCExt

Traces == ndJsonDeserialize(IOEnv.TRACE_FILE)
Block  == 64
NBlocks == (Len(Traces) + Block - 1) \div Block

VARIABLES tid, pos
tvars == <<tid, pos, arr, grids, last, depth>>

Range(s) == { s[i] : i \in 1..Len(s) }
\* kinds in order, with the lengths of the non-grid dims (a grid dim's length is GridDimsConsistent's business)
KN(ds)   == [i \in 1..Len(ds) |-> <<ds[i].k, IF ds[i].k \in GridKinds THEN 0 ELSE ds[i].n>>]
LOp(ln)  == OpX(ln.op, ln.d, Range(ln.m), ln.ix)
NameOf(x) == IF x \in {"v", "w", "none"} THEN x ELSE "free"

\* the logged result as an abstract array (bookkeeping fields taken from the expectation e)
Logged(ln, a, e) ==
  [cls |-> ln.cls, grid |-> ln.grid,
   dims |-> [i \in 1..Len(ln.dims) |->
               Dim(ln.dims[i].k, ln.dims[i].n,
                   IF HasKind(e, ln.dims[i].k) THEN e.dims[PosOf(e, ln.dims[i].k)].idx ELSE "none")],
   name |-> NameOf(ln.name), dt |-> e.dt,
   \* (a result whose length differs from its grid's count is GridDimsConsistent's business, not an order question)
   al |-> IF BN(LOp(ln)) \in SelectOps /\ Len(ln.src) = Len(ln.sel) THEN a.al /\ ln.src = ln.sel ELSE a.al]

Ended(ln, o, a) == \/ ln.out = "xr_refused" /\ (BN(o) \notin OwnOps \/ o.op \in GselOps)
                   \/ ln.out = "refused" /\ (IsFree(o, a) \/ (BN(o) \in {"remap_idw_face", "remap_idw_node"} /\ ln.presize < 2))

(* ---- the clauses of one step -------------------------------------------- *)
\* (operator arguments are evaluated once by TLC, LET definitions at every use: hence the two levels)
ClausesOf(ln, a, G, o, free, e, L, val, mixed) ==
  \* (inverse distance weighting needs at least two source elements: refusing a one-element operand is in order)
  [ Raises   |-> ln.out # "raised" /\ (ln.out = "refused" => free \/ (BN(o) \in {"remap_idw_face", "remap_idw_node"} /\ ln.presize < 2)) /\ (ln.out = "xr_refused" => (BN(o) \notin OwnOps \/ o.op \in GselOps)),
    IsUx     |-> val => IsUxArr(L),
    SameGrid |-> (val /\ IsUxArr(L)) => IF free THEN L.grid \in {a.grid, NewHandle(G), e.grid} ELSE L.grid = e.grid,
    DimsEffect |-> val => IF BN(o) \in FreeOps
                          THEN /\ Len(L.dims) = Len(a.dims)
                               /\ \A i \in 1..Len(a.dims) : /\ L.dims[i].k = a.dims[i].k
                                                            /\ i \in LeadIdx(a) => L.dims[i].n = a.dims[i].n
                          ELSE free \/ KN(L.dims) = KN(e.dims),
    GridDimsConsistent |-> (val /\ IsUxArr(L)) => ConsistentArr(L) /\ OneGridDim(L),
    GridDimsNumeric |-> (val /\ IsUxArr(L)) => \A i \in 1..Len(ln.dims) :
                                 ln.dims[i].k \in GridKinds => ln.grid # 0 /\ ln.dims[i].size = ln.g.cnt[ln.dims[i].k],
    DataFollowsGrid |-> (val /\ IsUxArr(L)) => L.al,
    \* a deep copy's grid: equal to the source's, another dataset object, no variable sharing memory with any
    \* variable of the source's (mem), and an in-place edit of either grid's arrays does not show in the other (leak)
    DeepCopyIndependent |-> (val /\ BN(o) \in CopyOps) =>
                               /\ a.grid \in Range(ln.g.eq) /\ Range(ln.g.share) = {}
                               /\ Range(ln.g.mem) = {} /\ Range(ln.g.leak) = {},
    Name     |-> (val /\ ~free) => e.name = "free" \/ NameOf(ln.name) = e.name,
    ValuesAsXarray |-> ln.val # "diff",
    \* generic selections: what plain xarray's isel selects with the same indexer (want) is what was selected (src):
    \* exactly on faces, at least those elements on nodes / edges (inclusive selection)
    SelectsWhatXarraySelects |-> (val /\ o.op \in GselOps /\ ln.wantok /\ BN(o) \in SelectOps /\ IsUxArr(L) /\ HasGridDim(a)) =>
                                   IF Centred(a) = "n_face" THEN ln.src = ln.want
                                   ELSE Range(ln.want) \subseteq Range(ln.src),
    \* ---- mixed-location datasets: every companion variable of the result (ln.comp) ----
    MixedIsUx       |-> mixed => \A i \in 1..Len(ln.comp) : ln.comp[i].cls = "Ux",
    MixedSameGrid   |-> mixed => \A i \in 1..Len(ln.comp) : ln.comp[i].cls = "Ux" => ln.comp[i].grid = ln.grid,
    MixedGridDims   |-> mixed => \A i \in 1..Len(ln.comp) : ln.comp[i].cls = "Ux" =>
                          \A j \in 1..Len(ln.comp[i].dims) :
                             LET q == ln.comp[i].dims[j]
                             IN q.k \in GridKinds => /\ ln.comp[i].grid # 0 /\ q.n = ln.comp[i].grid
                                                      /\ q.size = ln.g.cnt[q.k],
    MixedDimsEffect |-> mixed => /\ { ln.comp[i].c : i \in 1..Len(ln.comp) } = o.m
                                 /\ (free /\ o.op \notin MixSelectOps) \/
                                    \A i \in 1..Len(ln.comp) :
                                       KN(ln.comp[i].dims) = [j \in 1..Len(CompExp(o, a, G)[ln.comp[i].c]) |->
                                           LET q == CompExp(o, a, G)[ln.comp[i].c][j]
                                           IN <<q[1], IF q[1] \in GridKinds THEN 0 ELSE q[2]>>],
    MixedFollowsGrid |-> (mixed /\ o.op \in MixSelectOps \cup {"ds_copy_deep"}) =>
                            \A i \in 1..Len(ln.comp) :
                               /\ ln.comp[i].val # "diff"
                               /\ Len(ln.comp[i].src) = Len(ln.comp[i].sel) => ln.comp[i].src = ln.comp[i].sel
  ]
Clauses2(ln, a, G, o, e) == ClausesOf(ln, a, G, o, IsFree(o, a), e, Logged(ln, a, e), ln.out = "value",
                                      ln.out = "value" /\ o.m # {} /\ ln.cls = "Ux")
Clauses(ln, a, G) == Clauses2(ln, a, G, LOp(ln), Eff(LOp(ln), a, G).a)
IsEvent(ln) == ln.op \in AllOps /\ ln.out \in {"value", "raised", "refused", "xr_refused"}
Failed(ln, a, G) == IF ~IsEvent(ln) THEN {"IsEvent"}
                    ELSE IF ~Pre(LOp(ln), a, G) THEN {"Enabled"}
                    ELSE LET c == Clauses(ln, a, G) IN { k \in DOMAIN c : ~c[k] }

InitClauses(t) == LET a == t.init.arr G == t.init.grids
                  IN /\ GridOK(G) /\ Len(G) >= 2 /\ ArrOK(a, G) /\ IsUxArr(a) /\ ConsistentArr(a) /\ a.grid # 0 /\ a.al

(* ---- the trace machine --------------------------------------------------- *)
Dummy == Start(<<>>, "n_face")
TInit == /\ tid \in { -b : b \in 1..NBlocks } /\ pos = 0
         /\ arr = Dummy /\ grids = Grid0 /\ last = NoOp /\ depth = 0

InBlock(b) == (((b - 1) * Block) + 1)..Min(b * Block, Len(Traces))
Pick == /\ tid < 0
        /\ \E k \in InBlock(-tid) :
             /\ InitClauses(Traces[k])
             /\ tid' = k /\ pos' = 0
             /\ arr' = Traces[k].init.arr /\ grids' = Traces[k].init.grids
             /\ last' = NoOp /\ depth' = 0

Step == /\ tid > 0 /\ pos < Len(Traces[tid].steps)
        /\ LET ln == Traces[tid].steps[pos + 1]
               o  == LOp(ln)
           IN /\ Failed(ln, arr, grids) = {}
              /\ ln.out = "value"
              /\ LET r == Eff(o, arr, grids)
                     L == Logged(ln, arr, r.a)
                 IN IF IsFree(o, arr)
                    THEN /\ arr' = L
                         /\ grids' = IF L.grid = NewHandle(grids) THEN r.G ELSE grids
                    ELSE /\ arr' = r.a /\ grids' = r.G
              /\ last' = o /\ depth' = depth   \* programs of any length: MaxDepth does not apply
              /\ tid' = tid /\ pos' = pos + 1

TNext == Pick \/ Step
TSpec == TInit /\ [][TNext]_tvars

\* evaluated in every state: report the traces that stop short
Report ==
  /\ tid < 0 => \A k \in InBlock(-tid) :
                  ~InitClauses(Traces[k]) => PrintT(<<"R", Traces[k].id, 0, {"Init"}>>)
  /\ (tid > 0 /\ pos < Len(Traces[tid].steps)) =>
        LET ln == Traces[tid].steps[pos + 1]
            f  == Failed(ln, arr, grids)
        IN \/ f = {} /\ ln.out = "value"
           \/ f = {} /\ Ended(ln, LOp(ln), arr) /\ PrintT(<<"E", Traces[tid].id, pos + 1, ln.out>>)
           \/ PrintT(<<"R", Traces[tid].id, pos + 1, f>>)
=============================================================================

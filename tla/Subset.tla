------------------------------- MODULE Subset -------------------------------
(***************************************************************************)
(* C09: subsets and cross-sections are faithful restrictions.              *)
(*                                                                         *)
(* Pure operators.  A source grid is a mesh (Mesh.tla) whose node ids are  *)
(* also the ids of its node POSITIONS (integer directions, SphereZ.tla).   *)
(* A result is described by what the implementation reports:               *)
(*   src   : recorded source face ids (subgrid_face_indices), result order *)
(*   npos  : for every result node, the source position id it sits on      *)
(*           (found by the harness from the result's own coordinates,      *)
(*           never from the recorded node indices; -2 = no source position)*)
(*   faces : the result's face-node rows in the RESULT's node numbering    *)
(* Node and edge numbering of the result are free; face order is fixed by  *)
(* the recorded source indices.                                            *)
(***************************************************************************)
EXTENDS SphereZ, Mesh

(* ---- canonical witnesses (used for generation and for model theorems) --- *)
RECURSIVE SortedSeq(_)
SortedSeq(S) == IF S = {} THEN <<>> ELSE LET m == MinOf(S) IN <<m>> \o SortedSeq(S \ {m})
IndexIn(seq, x) == CHOOSE k \in 1..Len(seq) : seq[k] = x
IsInjective(seq) == \A i, j \in 1..Len(seq) : i # j => seq[i] # seq[j]

NodesOfFaces(mesh, F) == UNION { Corners(mesh[F[i] + 1]) : i \in 1..Len(F) }
\* F : sequence of distinct 0-based face ids, in the order asked for
SubsetByFaces(mesh, F) ==
    LET nodes == SortedSeq(NodesOfFaces(mesh, F))
        re(n) == IndexIn(nodes, n) - 1
    IN [ src   |-> F,
         npos  |-> nodes,
         faces |-> [ i \in 1..Len(F) |-> [ j \in 1..Len(mesh[F[i] + 1]) |-> re(mesh[F[i] + 1][j]) ] ] ]
\* inclusive rule: every face touching a selected node / side
FacesTouchingSides(mesh, sides) ==
    { f - 1 : f \in { g \in 1..Len(mesh) : Sides(mesh[g]) \cap sides # {} } }
SubsetByNodes(mesh, ns)    == SubsetByFaces(mesh, SortedSeq(FacesTouchingNodes(mesh, ns)))
SubsetBySides(mesh, sides) == SubsetByFaces(mesh, SortedSeq(FacesTouchingSides(mesh, sides)))
SubsetByEdges(mesh, E, es) == SubsetByFaces(mesh, SortedSeq(FacesTouchingEdges(mesh, E, es)))
\* a WRONG witness (exclusive rule), used to show the relation tells them apart
FacesInsideNodes(mesh, ns) == { f - 1 : f \in { g \in 1..Len(mesh) : Corners(mesh[g]) \subseteq ns } }

(* ---- the relation --------------------------------------------------------- *)
\* face i of the result with its corners replaced by the source position ids
PosFace(res, i) ==
    [ j \in 1..Len(res.faces[i]) |->
        IF res.faces[i][j] \in 0..(Len(res.npos) - 1) THEN res.npos[res.faces[i][j] + 1] ELSE -3 ]

SelExact(selected, res)       == Range(res.src) = selected
SelNoDuplicates(res)          == IsInjective(res.src)
SrcInRange(mesh, res)         == \A i \in 1..Len(res.src) : res.src[i] \in 0..(Len(mesh) - 1)
\* same corner positions, same cyclic order and orientation (the start corner is not a position)
CornersUnchanged(mesh, res)   ==
    /\ Len(res.faces) = Len(res.src)
    /\ \A i \in 1..Len(res.src) : i <= Len(res.faces) /\ res.src[i] \in 0..(Len(mesh) - 1) =>
          SameCycle(PosFace(res, i), mesh[res.src[i] + 1])
NodesDistinct(res)            == \A j, k \in 1..Len(res.npos) : j # k => res.npos[j] # res.npos[k]
NodesAtSourcePositions(res)   == \A j \in 1..Len(res.npos) : res.npos[j] >= 0
\* recorded subgrid_node_indices name the source node each result node sits on
NodeIndexFaithful(res, snode) == Len(snode) = Len(res.npos) /\ \A j \in 1..Len(snode) : snode[j] = res.npos[j]

IsSubsetOf(mesh, selected, res) ==
    /\ SelExact(selected, res) /\ SelNoDuplicates(res) /\ SrcInRange(mesh, res)
    /\ CornersUnchanged(mesh, res) /\ NodesDistinct(res) /\ NodesAtSourcePositions(res)

\* side of the result's edge row, as source position ids
PosSide(res, row) == { IF row[t] \in 0..(Len(res.npos) - 1) THEN res.npos[row[t] + 1] ELSE -3 : t \in 1..2 }
\* recorded subgrid_edge_indices name, for each result edge, the source edge on the same segment
EdgeIndexFaithful(srcE, res, resE, sedge) ==
    /\ Len(sedge) = Len(resE)
    /\ \A k \in 1..Len(sedge) : k <= Len(resE) =>
          /\ sedge[k] \in 0..(Len(srcE) - 1)
          /\ RowAsSide(srcE[sedge[k] + 1]) = PosSide(res, resE[k])

(* ---- data alignment: tracer data, value = 100 * source index + inner position code ----- *)
\* vals[i] : the values of result element i over the other dimensions, flattened (t, l) with l fastest
InnerCode(p, L)   == 10 * ((p - 1) \div L) + ((p - 1) % L)
TracerIdx(v)      == v \div 100
InnerOK(vals, L)  == \A i \in 1..Len(vals) : \A p \in 1..Len(vals[i]) : vals[i][p] % 100 = InnerCode(p, L)
OneSource(vals)   == \A i \in 1..Len(vals) : \A p \in 1..Len(vals[i]) : TracerIdx(vals[i][p]) = TracerIdx(vals[i][1])
FaceDataAligned(mesh, res, vals) ==
    /\ Len(vals) = Len(res.faces)
    /\ \A i \in 1..Len(vals) : Len(vals[i]) >= 1 /\
          LET v == TracerIdx(vals[i][1]) IN v \in 0..(Len(mesh) - 1) /\ SameCycle(PosFace(res, i), mesh[v + 1])
NodeDataAligned(res, vals) ==
    /\ Len(vals) = Len(res.npos)
    /\ \A j \in 1..Len(vals) : Len(vals[j]) >= 1 /\ TracerIdx(vals[j][1]) = res.npos[j]
EdgeDataAligned(srcE, res, resE, vals) ==
    /\ Len(vals) = Len(resE)
    /\ \A k \in 1..Len(vals) : Len(vals[k]) >= 1 /\
          LET v == TracerIdx(vals[k][1]) IN v \in 0..(Len(srcE) - 1) /\ RowAsSide(srcE[v + 1]) = PosSide(res, resE[k])

(* ---- reference points of the three element kinds ---------------------------- *)
Add3(a, b)   == << a[1] + b[1], a[2] + b[2], a[3] + b[3] >>
Gcd3(v)      == Gcd(Gcd(Abs(v[1]), Abs(v[2])), Abs(v[3]))
Prim(v)      == LET g == Gcd3(v) IN << v[1] \div g, v[2] \div g, v[3] \div g >>
RECURSIVE SumDirs(_, _, _)
SumDirs(nodes, face, j) == IF j = 0 THEN Zero3 ELSE Add3(nodes[face[j] + 1], SumDirs(nodes, face, j - 1))
\* with corners of equal norm the normalised mean of the unit vectors is the direction of the plain sum
UniformNorm(nodes, ids) == \A a, b \in ids : N2(nodes[a + 1]) = N2(nodes[b + 1])
FaceCentreDir(nodes, face) == Prim(SumDirs(nodes, face, Len(face)))
EdgeCentreDir(nodes, row)  == Prim(Add3(nodes[row[1] + 1], nodes[row[2] + 1]))

\* shrink map about centre c with factor 1/M (gnomonic projection, homothety of the tangent plane), exact, linear
Scale3(k, v)    == << k * v[1], k * v[2], k * v[3] >>
Shrink(c, M, v) == Add3(Scale3((M - 1) * Dot(v, c), c), Scale3(N2(c), v))

(* ---- latitude / longitude / distance classes, exact ------------------------- *)
\* longitude order on (-180, 180] of non-pole directions; the antimeridian is 180
LonHalf(u) == IF u[2] > 0 \/ (u[2] = 0 /\ u[1] < 0) THEN 1 ELSE IF u[2] < 0 THEN -1 ELSE 0
LonCmp(u, v) == IF LonHalf(u) # LonHalf(v) THEN Sgn(LonHalf(u) - LonHalf(v))
                ELSE IF LonHalf(u) = 0 THEN 0 ELSE -Sgn(Cross2(u, v))
\* counter-clockwise (eastward) angle of w from base b, as a class: 0, (0,180), 180, (180,360)
EastClass(b, w) == LET s == Cross2(b, w)  d == Dot2(b, w)
                   IN IF s = 0 /\ d > 0 THEN 0 ELSE IF s > 0 THEN 1 ELSE IF s = 0 THEN 2 ELSE 3
\* going east from b, p is reached no later than c
EastLE(b, p, c) == LET hp == EastClass(b, p)  hc == EastClass(b, c)
                   IN IF hp # hc THEN hp < hc ELSE IF hp \in {0, 2} THEN TRUE ELSE Cross2(p, c) >= 0
EastLess(b, p, c) == ~EastLE(b, c, p)
\* (a, b) is a longitude gap of the point set P: b is the next longitude class east of a
IsLonGap(P, a, b) == ~SameLon(a, b) /\ ~IsPole(a) /\ ~IsPole(b) /\
                     \A x \in P : IsPole(x) \/ SameLon(x, a) \/ ~EastLess(a, x, b)
\* the longitude range of a box runs EAST from its first bound to its second (lon_bounds[0] > lon_bounds[1]
\* means the range spans the antimeridian); with both bounds inside gaps, p is inside iff it is met going
\* east from the class after the first gap no later than the class before the second gap
InLonRange(p, gapL, gapR) == ~IsPole(p) /\ EastLE(gapL[2], p, gapR[1])
\* latitude gaps: (a, b) consecutive classes, a below b; NONE marks "beyond the extreme class"
NONE == << 0, 0, 0 >>
IsLatGap(P, a, b) == /\ (a = NONE \/ b = NONE \/ LatCmp(a, b) < 0)
                     /\ ~(a = NONE /\ b = NONE)
                     /\ \A x \in P : /\ (a # NONE => LatCmp(x, a) <= 0 \/ (b # NONE /\ LatCmp(x, b) >= 0))
                                     /\ (a = NONE => LatCmp(x, b) >= 0)
                                     /\ (b = NONE => LatCmp(x, a) <= 0)
AboveLatGap(p, a, b) == IF b = NONE THEN FALSE ELSE LatCmp(p, b) >= 0
BelowLatGap(p, a, b) == IF a = NONE THEN FALSE ELSE LatCmp(p, a) <= 0
InLatRange(p, gapB, gapT) == AboveLatGap(p, gapB[1], gapB[2]) /\ BelowLatGap(p, gapT[1], gapT[2])
InBox(p, gapL, gapR, gapB, gapT) == InLatRange(p, gapB, gapT) /\ InLonRange(p, gapL, gapR)
\* distance gaps from a centre c: a the farthest class inside, b the nearest class outside (or NONE)
IsDistGap(P, c, a, b) == /\ a # NONE
                         /\ (b # NONE => NearCmp(c, a, b) > 0)
                         /\ \A x \in P : NearCmp(c, x, a) >= 0 \/ (b # NONE /\ NearCmp(c, x, b) <= 0)
InCircle(c, p, a) == NearCmp(c, p, a) >= 0
\* k nearest: the points with fewer than k strictly nearer ones; a tie at the k-th place makes it larger than k
StrictlyNearer(P, c, p) == { q \in P : NearCmp(c, q, p) > 0 }

(* ---- cross-section at a parallel ---------------------------------------------- *)
\* side of a node: +1 north, -1 south, 0 on the parallel
SideOfGap(p, a, b) == IF AboveLatGap(p, a, b) THEN 1 ELSE -1
SideOfAt(p, a)     == LatCmp(p, a)
\* a face is selected iff it has a side whose end nodes lie strictly on opposite sides
StraddlingFaces(mesh, side) ==
    { f - 1 : f \in { g \in 1..Len(mesh) :
        \E j \in 1..Len(mesh[g]) : side[mesh[g][j] + 1] * side[mesh[g][NextIdx(mesh[g], j)] + 1] = -1 } }
=============================================================================

------------------------------ MODULE Nearest ------------------------------
(***************************************************************************)
(* C11 / C12: exact nearest-neighbour order of integer direction vectors.  *)
(*                                                                         *)
(* Elements S (a sequence of directions, element e of the grid is S[e+1])  *)
(* are ordered by distance to a query direction q.  Chord length and       *)
(* great-circle distance are both strictly decreasing functions of the     *)
(* cosine of the enclosed angle, so one exact comparison of cosines        *)
(* (SphereZ!NearCmp: signs, then (a.q)^2 |b|^2 against (b.q)^2 |a|^2)      *)
(* gives the order under either metric.  Equal cosines are exact ties.     *)
(*                                                                         *)
(* What a k-nearest result is allowed to be ("exact ties aside"): any      *)
(* sequence of k distinct element indices, nearest first, such that no     *)
(* omitted element is strictly nearer than an included one -- i.e. a       *)
(* prefix of some linear extension of the distance preorder.  Results are  *)
(* 0-based index sequences, as the implementation returns them.            *)
(*                                                                         *)
(* Radius queries: the distinct distances of S from q form classes         *)
(* 0, 1, 2, ... (nearest class first).  The harness places every radius    *)
(* strictly between two consecutive classes (float midpoint of the         *)
(* evaluated descriptors, classes are >= 1e-3 rad apart on the lattices    *)
(* used), and passes the class index c: membership is then decided by      *)
(* the exact order -- the result must be exactly the elements of classes   *)
(* 0..c (c = -1: nothing).                                                 *)
(***************************************************************************)
EXTENDS SphereZ

Idx(S)        == 1..Len(S)
SeqRange(s)   == { s[i] : i \in 1..Len(s) }

\* number of elements strictly nearer to q than element e: equal for exact ties,
\* strictly increasing with distance -- a rank that represents the preorder
Lt(q, S, e)   == Cardinality({ f \in Idx(S) : NearCmp(q, S[f], S[e]) = 1 })
LtVec(q, S)   == [ e \in Idx(S) |-> Lt(q, S, e) ]
\* index of the distance class of each element (0 = nearest class)
ClsVec(lt)    == [ e \in DOMAIN lt |-> Cardinality({ lt[f] : f \in { g \in DOMAIN lt : lt[g] < lt[e] } }) ]
NClasses(lt)  == Cardinality({ lt[e] : e \in DOMAIN lt })
\* exact tie groups (sets of 1-based element numbers)
TieGroups(lt) == { { f \in DOMAIN lt : lt[f] = lt[e] } : e \in DOMAIN lt }

(* ---- the three clauses of a k-nearest answer, on ranks ------------------------- *)
\* res: sequence of 0-based indices
KnnShape(n, k, res) ==
    /\ Len(res) = k
    /\ \A i \in 1..Len(res) : res[i] \in 0..(n - 1)
    /\ \A i, j \in 1..Len(res) : i # j => res[i] # res[j]
KnnNearestFirst(lt, res) ==
    \A i \in 1..(Len(res) - 1) :
        (res[i] + 1 \in DOMAIN lt /\ res[i + 1] + 1 \in DOMAIN lt) => lt[res[i] + 1] <= lt[res[i + 1] + 1]
KnnTrueNearest(lt, res) ==
    \A m \in DOMAIN lt : (m - 1) \notin SeqRange(res) =>
        \A i \in 1..Len(res) : res[i] + 1 \in DOMAIN lt => lt[m] >= lt[res[i] + 1]
IsKNearestLt(lt, k, res) ==
    KnnShape(Len(lt), k, res) /\ KnnNearestFirst(lt, res) /\ KnnTrueNearest(lt, res)

\* the definition, stated directly on the comparison (used to validate the rank form)
IsKNearest(q, S, k, res) ==
    /\ KnnShape(Len(S), k, res)
    /\ \A i, j \in 1..Len(res) : i < j => NearCmp(q, S[res[i] + 1], S[res[j] + 1]) >= 0
    /\ \A m \in Idx(S) : (m - 1) \notin SeqRange(res) =>
          \A i \in 1..Len(res) : NearCmp(q, S[res[i] + 1], S[m]) >= 0

(* ---- radius answers --------------------------------------------------------------- *)
WithinClass(lt, c) == { e - 1 : e \in { f \in DOMAIN lt : ClsVec(lt)[f] <= c } }
RadShape(n, res)   == /\ \A i \in 1..Len(res) : res[i] \in 0..(n - 1)
                      /\ \A i, j \in 1..Len(res) : i # j => res[i] # res[j]
RadNoneMissing(lt, c, res) == WithinClass(lt, c) \subseteq SeqRange(res)
RadNoneExtra(lt, c, res)   == SeqRange(res) \subseteq WithinClass(lt, c)
IsWithinRadius(lt, c, res) == RadShape(Len(lt), res) /\ RadNoneMissing(lt, c, res) /\ RadNoneExtra(lt, c, res)

(* ---- the radii a case is queried with (generated here, boundary radii included) ------ *)
\* "zero"     r = 0 exactly: nothing but elements coincident with q may be returned; they MUST be
\*            returned when the caller passes the element's own stored coordinates (own = TRUE),
\*            otherwise a last-bit difference of the presentation may exclude them
\* "tiny"     r = 1e-9 in the unit of the call: exactly the coincident elements
\* "between"  r strictly between distance classes c and c+1 (c = -1: below the first class);
\*            equality with an inter-point distance is not fixed by the property and not generated
\* "beyond"   r larger than any possible distance (more than half a turn of great circle,
\*            more than the diameter for chords): every element
ZeroSet(q, S)   == { e - 1 : e \in { f \in Idx(S) : SameDir(q, S[f]) } }
RadiusPlan(lt)  == << [ t |-> "zero" ], [ t |-> "tiny" ] >>
                   \o [ i \in 1..(NClasses(lt) + 1) |-> [ t |-> "between", c |-> i - 2 ] ]
                   \o << [ t |-> "beyond" ] >>
\* what must be in the answer (Lo) and what may be (Hi)
RadLo(lt, z, all, rk, c, own) == CASE rk = "zero"    -> IF own THEN z ELSE {}
                                   [] rk = "tiny"    -> z
                                   [] rk = "between" -> WithinClass(lt, c)
                                   [] rk = "beyond"  -> all
RadHi(lt, z, all, rk, c)      == CASE rk = "zero"    -> z
                                   [] rk = "tiny"    -> z
                                   [] rk = "between" -> WithinClass(lt, c)
                                   [] rk = "beyond"  -> all

(* ---- argument purity and repeatability ---------------------------------------------------- *)
\* Every query entry point is also called with a caller-owned coordinate container that is
\* finger-printed before and after (ArgsKept) and passed AGAIN, unchanged, `repeats` times; every
\* repeat must give the first answer (Repeatable), which is judged like any other answer.
\* The container kind and the repeat count of a case are chosen here, spread over the cases.
Containers == << "f64", "f32", "f64F", "view", "list", "tuple" >>
PurityOps  == << "query k=1", "query k>1", "query no distance", "radius", "radius with distance", "radius count" >>
PurityOf(q, S) == LET h == Abs(q[1]) + 2 * Abs(q[2]) + 3 * Abs(q[3]) + Len(S) + (IF q[1] < 0 THEN 1 ELSE 0) IN
                  [ container |-> Containers[1 + (h % Len(Containers))],
                    batched   |-> (h \div Len(Containers)) % 2 = 1,
                    repeats   |-> 2 + (h % 2),
                    ops       |-> PurityOps ]

(* ---- position relative to the poles --------------------------------------------------- *)
\* Meshes whose elements lie at these distances from either pole, in hundredths of a degree
\* (0.01, 0.1, 0.2, 0.3 and 1 degree), with centres DERIVED by the library, and query points inside
\* the cap.  The library documents a snap of positions nearer than 0.0081 degree to the pole itself
\* (|z| > 1 - 1e-8): no element is placed nearer than that except exactly on the pole.
\* Directions that close to a pole need coordinates ~ 6 000: the cosine comparison (degree 6) leaves
\* TLC's 32-bit integers, so these cases are judged by a float brute force on independently computed
\* exact directions with a 1e-9 rad tie margin; the places and poles are generated here.
CapPlaces   == << 1, 10, 20, 30, 100 >>
CapPoles    == << 1, -1 >>
CapUnitInv  == 5730          \* one unit = 1/5730 rad = 0.0100 degree
CapSnapHundredths == 1       \* nothing strictly between the pole and 1 unit (0.0081 degree rounded up)
CapPlan     == [ places |-> CapPlaces, poles |-> CapPoles, unit_inv |-> CapUnitInv ]

(* ---- descriptors for the numeric side ---------------------------------------------- *)
\* great-circle distance q--S[e] = atan2(sqrt(num), dot); chord = 2 sin(angle / 2)
DistDescr(q, S) == [ e \in Idx(S) |-> GeoDescr(q, S[e]) ]
Antipodal(q, a) == Opposite(q, a)

(* ---- a canonical witness (used by the laws: some answer always exists) -------------- *)
RECURSIVE SortByLt(_, _)
SortByLt(lt, todo) ==
    IF todo = {} THEN <<>>
    ELSE LET e == CHOOSE x \in todo : \A y \in todo : lt[x] < lt[y] \/ (lt[x] = lt[y] /\ x <= y)
         IN <<e - 1>> \o SortByLt(lt, todo \ {e})
Witness(q, S, k) == SubSeq(SortByLt(LtVec(q, S), Idx(S)), 1, k)
=============================================================================

--------------------------- MODULE IntersectScope ---------------------------
(***************************************************************************)
(* X01: the exhaustive scope of Intersect.tla.  First endpoints are the    *)
(* initial states, every further axis is a Next step (workers share it):   *)
(*   "V" -> "A" (an arc)  -> "P" (a second arc: every configuration, also  *)
(*                              shared endpoints, T-junctions, one circle) *)
(*                        -> "Z" (a parallel z = c, c rational or the z of *)
(*                              a lattice point)                           *)
(*                        -> "T" (an interior lattice point: shrunk arcs)  *)
(* Invariants = the laws; emitters print the cases with the exact answer.  *)
(***************************************************************************)
EXTENDS Intersect

CONSTANTS K, Stages, FirstCanon, PairStride, EmitPairs, EmitLats

ASSUME GeneratorsGenerateRot24

VARIABLES st, a, b, c, d, cz, p
vars == <<st, a, b, c, d, cz, p>>

Points     == PVec(K)
AllArcs    == Arcs(K)
CanonArcs  == { e \in AllArcs : CanonArc(e) }
FirstArcs  == IF FirstCanon THEN CanonArcs ELSE AllArcs
\* parallels: rationals p/q with small q, and the z of every lattice point (exact ties with endpoints, tops)
Qs         == {2, 3, 4, 5, 7, 10}
CSet       == { CRational(P, Q) : P \in -9..9, Q \in Qs } \cup { Reduce(LatOf(v)) : v \in Points }
CValid(x)  == x[3] > 0 /\ x[2] <= x[3]
Cs         == { x \in CSet : CValid(x) }
NoC        == <<0, 0, 1>>

Init == /\ st = "V" /\ a \in Points
        /\ b = Zero3 /\ c = Zero3 /\ d = Zero3 /\ p = Zero3 /\ cz = NoC
Hash == (a[1] + 2 * a[2] + 3 * a[3] + 5 * b[1] + 7 * b[2] + 11 * b[3]) % PairStride = 0
Next == \/ /\ st = "V" /\ st' = "A" /\ UNCHANGED <<a, c, d, cz, p>>
           /\ \E e \in FirstArcs : e[1] = a /\ b' = e[2]
        \/ /\ st = "A" /\ "P" \in Stages /\ CanonArc(<<a, b>>) /\ Hash
           /\ st' = "P" /\ UNCHANGED <<a, b, cz, p>>
           /\ \E f \in CanonArcs : ArcLess(<<a, b>>, f) /\ c' = f[1] /\ d' = f[2]
        \/ /\ st = "A" /\ "Z" \in Stages
           /\ st' = "Z" /\ UNCHANGED <<a, b, c, d, p>> /\ cz' \in Cs
        \/ /\ st = "A" /\ "T" \in Stages
           /\ st' = "T" /\ UNCHANGED <<a, b, c, d, cz>> /\ p' \in Points
Spec == Init /\ [][Next]_vars

TypeOK == /\ st \in {"V", "A", "P", "Z", "T"}
          /\ (st # "V") => IsArc(a, b)
          /\ (st = "P") => IsArc(c, d)
          /\ (st = "Z") => CValid(cz)

P == st = "P"
InvInterAtMostOne == P => LawInterAtMostOne(a, b, c, d)
InvInterSubset    == P => LawInterSubset(a, b, c, d)
InvInterSwapArcs  == P => LawInterSwapArcs(a, b, c, d)
InvInterReverse   == P => LawInterReverse(a, b, c, d)
InvInterRot       == P => LawInterRot(a, b, c, d)
InvInterSigns     == P => LawInterAgreesWithSigns(a, b, c, d)
InvCoplanar       == P => LawCoplanar(a, b, c, d)

Z == st = "Z"
InvLatReverse  == Z => LawParReverse(a, b, cz)
InvLatRotZ     == Z => LawParRotZ(a, b, cz)
InvLatFlipC    == Z => LawParFlipC(a, b, cz)
InvLatRange    == Z => LawParRange(a, b, cz)
InvLatParity   == Z => LawParParity(a, b, cz)
InvLatLattice  == Z => LawParLatticePoints(a, b, cz, Points)
InvLatShrunk   == (st = "T") => LawParShrunk(a, b, p)

(* ---- emitters ------------------------------------------------------------------------ *)
\* arc pairs whose answer C14 does not judge: touching, near misses, one great circle
EmitPair == (P /\ EmitPairs /\ ~PairJudged(a, b, c, d)) =>
    PrintT(<<"P", a, b, c, d, GcaConfig(a, b, c, d)>>)
EmitLat == (Z /\ EmitLats /\ CanonArc(<<a, b>>)) =>
    PrintT(<<"Z", a, b, cz, LatCount(a, b, cz), LatJudged(a, b, cz), Straddles(a, b, cz)>>)
EmitShrunk == (st = "T" /\ EmitLats /\ CanonArc(<<a, b>>) /\ StrictlyWithinArc(a, b, p) /\ ~OnEquatorCircle(a, b)) =>
    PrintT(<<"T", a, b, p, Reduce(LatOf(p))>>)
=============================================================================

------------------------------ MODULE PlotMech ------------------------------
(***************************************************************************)
(* C15, history part (operators): the three plotting caches of ONE grid    *)
(* (_gdf_cached_parameters, _poly_collection_cached_parameters,            *)
(* _line_collection_cached_parameters) together with the side tables that  *)
(* UxDataArray.to_geodataframe / to_polycollection read back to align the  *)
(* data with the polygons, and the heap of objects handed to the caller.   *)
(*                                                                         *)
(* The mechanism is data (record Mech, DESIGN 2.1 / app. B):               *)
(*   MechIntended - every choice made so that the invariants hold;         *)
(*   MechObserved - transcribed from uxarray/grid/grid.py:1647-1919,       *)
(*                  geometry.py:163-244, 419-533, core/dataarray.py:153-348*)
(*                  at /repo HEAD (fixes 5278ad57, 2b8af081, fe3231b0,     *)
(*                  0313f2af, 3e766f04 in).                                *)
(*   MechLinesOld, MechDataInCache, MechLineAliased, MechSideLast,         *)
(*   MechKeyNoProject - the mechanisms those five commits repaired.        *)
(* Intended invariants (clauses, field `bad` of the state):                *)
(*   GeometryOfThisCall  the geometry returned is the one this call's      *)
(*                       arguments denote                                  *)
(*   DataOfThisCall      the data carried by the returned object are this  *)
(*                       call's variable, aligned with tables that belong  *)
(*                       to the same arguments as the geometry returned,   *)
(*                       and nothing else                                  *)
(*   ReturnedNotMutated  no object returned earlier changes ("EarlierKept":*)
(*                       a data conversion's object keeps its own values)  *)
(*   FreshObject         no two calls return the same object               *)
(***************************************************************************)
EXTENDS Naturals, Sequences, FiniteSets, TLC

(* ---- arguments ---------------------------------------------------------------- *)
\* an event: [act, pe, proj, eng, project, cache, override, var, target, ri]   (ri: return_indices, PolyCollection only)
\*   act in ToGdf ToPoly ToLine DataToGdf DataToPoly Edit ; eng = "-" for poly/line ; var = "-" for grid calls
Kind(ev) == CASE ev.act \in {"ToGdf", "DataToGdf"} -> "gdf"
              [] ev.act \in {"ToPoly", "DataToPoly"} -> "poly"
              [] ev.act = "ToLine" -> "line"
              [] OTHER -> "edit"
IsData(ev) == ev.act \in {"DataToGdf", "DataToPoly"}
Cl(proj)   == IF proj \in {"pc180", "rob180"} THEN "180" ELSE "0"
\* combinations the library documents as unsupported (ValueError, nothing changes)
Refused(ev) == \/ (Kind(ev) = "gdf"  /\ ev.pe = "split" /\ ev.proj # "none" /\ ev.project)
               \/ (Kind(ev) = "poly" /\ ev.pe = "split" /\ ev.proj # "none")

\* what the arguments denote (the ideal result is a function of exactly these)
GeomTag(ev) == [ kind |-> Kind(ev), pe |-> ev.pe, proj |-> ev.proj, eng |-> ev.eng, project |-> ev.project ]
\* values of the side tables as functions of the arguments that computed them
AmVal(ev)   == Cl(ev.proj)                               \* crossing faces depend on where the seam is
\* projections that show only part of the sphere leave NaN polygons out: their table is their own
Partial(proj) == proj \in {"ortho", "nsper"}
NnVal(ev)   == IF ev.proj # "none" /\ ev.project THEN <<"arange", IF Partial(ev.proj) THEN ev.proj ELSE Cl(ev.proj)>> ELSE <<"None", "-">>
CorrVal(ev) == IF ev.pe = "ignore" THEN <<"empty", "-">> ELSE <<ev.pe, Cl(ev.proj)>>
NA == "na"
NA2 == <<"na", "-">>
\* the alignment a data conversion must use
IdealAlign(ev) == [ am   |-> IF ev.pe = "exclude" THEN AmVal(ev) ELSE NA,
                    nn   |-> NnVal(ev),
                    corr |-> IF Kind(ev) = "poly" /\ ev.pe = "split" THEN CorrVal(ev) ELSE NA2 ]
ColName(ev)   == IF Kind(ev) = "gdf" THEN ev.var ELSE "arr"
IdealCols(ev) == IF IsData(ev) THEN { [ name |-> ColName(ev), var |-> ev.var, al |-> IdealAlign(ev) ] } ELSE {}

(* ---- mechanism ------------------------------------------------------------------ *)
MechIntended == [ gdfCmp |-> {"pe", "proj", "eng", "project"}, gdfReturned |-> "copy", gdfDataInto |-> "copy", sideTables |-> "cache_entry",
                  polyCmp |-> {"pe", "proj"}, polyReturnOnIndices |-> "copy", lineStore |-> {"pe", "proj"}, lineCmp |-> {"pe", "proj"}, lineReturned |-> "copy" ]
\* as read at /repo HEAD: lines store their projection (5278ad57), the data column goes into a copy of
\* the frame (2b8af081), line collections are handed out as copies (fe3231b0), a cache hit re-publishes
\* the side tables of the cached geometry (0313f2af), `project` is part of the GeoDataFrame key (3e766f04).
\* Still as before: Grid.to_geodataframe hands out the cached frame itself (known finding C15-F7).
MechObserved == [ gdfCmp |-> {"pe", "proj", "eng", "project"}, gdfReturned |-> "cached_object", gdfDataInto |-> "copy", sideTables |-> "cache_entry",
                  polyCmp |-> {"pe", "proj"}, polyReturnOnIndices |-> "copy", lineStore |-> {"pe", "proj"}, lineCmp |-> {"pe", "proj"}, lineReturned |-> "copy" ]
\* earlier mechanisms (each repaired by a commit; TLC shows that each breaks the clauses)
MechLinesOld     == [ MechObserved EXCEPT !.lineStore = {"pe"} ]                 \* before 5278ad57
MechDataInCache  == [ MechObserved EXCEPT !.gdfDataInto = "cached_frame" ]       \* before 2b8af081
MechLineAliased  == [ MechObserved EXCEPT !.lineReturned = "cached_object" ]     \* before fe3231b0
MechSideLast     == [ MechObserved EXCEPT !.sideTables = "last_compute" ]        \* before 0313f2af
MechKeyNoProject == [ MechObserved EXCEPT !.gdfCmp = {"pe", "proj", "eng"} ]     \* before 3e766f04
\* never in /repo: a cache hit with return_indices=True (which every data conversion is) hands out the cached
\* PolyCollection itself, so the variable's array is written into the grid's own collection
MechPolyCachedOnIndices == [ MechObserved EXCEPT !.polyReturnOnIndices = "cached" ]
\* every repaired choice at once: used only to RANK generated histories (which ones any past mechanism broke)
MechHistoric == [ MechObserved EXCEPT !.lineStore = {"pe"}, !.gdfDataInto = "cached_frame", !.lineReturned = "cached_object",
                                      !.sideTables = "last_compute", !.gdfCmp = {"pe", "proj", "eng"},
                                      !.polyReturnOnIndices = "cached" ]
\* single knobs turned to their intended value (used to explain a failure)
Knobs == {"gdfCmp", "gdfReturned", "gdfDataInto", "sideTables", "lineReturned", "polyReturnOnIndices"}
Flip(M, kn) == [ M EXCEPT ![kn] = MechIntended[kn] ]

(* ---- state ---------------------------------------------------------------------- *)
\* the dictionaries start with None everywhere; projection None is also a legitimate argument value
NoKey   == [ pe |-> "-", proj |-> "none", eng |-> "-", project |-> TRUE ]
NoGeom  == [ kind |-> "-", pe |-> "-", proj |-> "-", eng |-> "-", project |-> TRUE ]
NoVal   == [ geom |-> NoGeom, cols |-> {}, edited |-> FALSE ]
KeyOf(ev) == [ pe |-> ev.pe, proj |-> ev.proj, eng |-> ev.eng, project |-> ev.project ]
KeyHit(stored, ev, cmp) == \A f \in cmp : stored[f] = KeyOf(ev)[f]

St0 == [ gdf  |-> [ present |-> FALSE, obj |-> 0, val |-> NoVal, key |-> NoKey, nn |-> NA2, am |-> NA ],
         gdfAm |-> NA,
         poly |-> [ present |-> FALSE, obj |-> 0, val |-> NoVal, key |-> NoKey, corr |-> NA2, am |-> NA, nn |-> NA2 ],
         polyAm |-> NA, polyNn |-> NA2,
         line |-> [ present |-> FALSE, obj |-> 0, val |-> NoVal, key |-> NoKey ],
         heap |-> <<>>,        \* objects handed to the caller: [geom, cols, edited]
         snap |-> <<>>,        \* what each of them was when last seen by the caller
         ret  |-> 0, raised |-> FALSE, bad |-> {}, n |-> 0 ]

SetCol(cols, c) == { x \in cols : x.name # c.name } \cup { c }

\* ---- GeoDataFrame ----
\* the cache holds the frame either as an object the caller can reach (obj # 0) or privately (val)
GdfStep(s, ev, M) ==
    LET hit == s.gdf.present /\ KeyHit(s.gdf.key, ev, M.gdfCmp) /\ ~ev.override
        \* does this call hand out the grid's own frame (rather than a copy of it)?
        own    == M.gdfReturned = "cached_object" /\ ~(IsData(ev) /\ M.gdfDataInto = "copy")
        cachedVal == IF s.gdf.obj # 0 THEN s.heap[s.gdf.obj] ELSE s.gdf.val
        fresh  == [ geom |-> GeomTag(ev), cols |-> {}, edited |-> FALSE ]
        base   == IF hit THEN cachedVal ELSE fresh
        newObj == ~(hit /\ own /\ s.gdf.obj # 0)
        r      == IF newObj THEN Len(s.heap) + 1 ELSE s.gdf.obj
        gdfAm1 == IF hit THEN s.gdfAm ELSE AmVal(ev)              \* written by every computation
        nn     == IF hit THEN s.gdf.nn ELSE NnVal(ev)
        am     == IF M.sideTables = "cache_entry" THEN (IF hit THEN s.gdf.am ELSE AmVal(ev)) ELSE gdfAm1
        al     == [ am |-> IF ev.pe = "exclude" THEN am ELSE NA, nn |-> nn, corr |-> NA2 ]
        withData == IF IsData(ev) THEN [ base EXCEPT !.cols = SetCol(@, [ name |-> ColName(ev), var |-> ev.var, al |-> al ]) ] ELSE base
        heap1  == IF newObj THEN Append(s.heap, withData) ELSE [ s.heap EXCEPT ![r] = withData ]
        store  == ~hit /\ ev.cache
        gdf1   == IF store THEN [ present |-> TRUE, obj |-> IF own THEN r ELSE 0, val |-> fresh, key |-> KeyOf(ev),
                                  nn |-> NnVal(ev), am |-> AmVal(ev) ]
                  ELSE IF hit /\ own /\ s.gdf.obj = 0 THEN [ s.gdf EXCEPT !.obj = r ]     \* the grid's frame reaches the caller now
                  ELSE s.gdf
    IN [ s EXCEPT !.gdf = gdf1, !.gdfAm = gdfAm1, !.heap = heap1, !.ret = r, !.raised = FALSE ]

\* ---- PolyCollection (always handed out as a deep copy) ----
PolyStep(s, ev, M) ==
    LET hit == s.poly.present /\ KeyHit(s.poly.key, ev, M.polyCmp) /\ ~ev.override
    IN IF ~hit /\ Refused(ev) THEN [ s EXCEPT !.ret = 0, !.raised = TRUE ]
       ELSE
       LET fresh  == [ geom |-> GeomTag(ev), cols |-> {}, edited |-> FALSE ]
           \* does this call hand out the grid's own collection (rather than a deep copy of it)?
           \* every data conversion asks for the indices (ri); ri does not change the geometry
           own    == hit /\ ev.ri /\ M.polyReturnOnIndices = "cached"
           cachedVal == IF s.poly.obj # 0 THEN s.heap[s.poly.obj] ELSE s.poly.val
           base   == IF hit THEN cachedVal ELSE fresh
           newObj == ~(own /\ s.poly.obj # 0)
           r      == IF newObj THEN Len(s.heap) + 1 ELSE s.poly.obj
           polyAm1 == IF hit THEN s.polyAm ELSE AmVal(ev)         \* written by every computation
           polyNn1 == IF hit THEN s.polyNn ELSE NnVal(ev)
           entry  == M.sideTables = "cache_entry"
           am     == IF entry THEN (IF hit THEN s.poly.am ELSE AmVal(ev)) ELSE polyAm1
           nn     == IF entry THEN (IF hit THEN s.poly.nn ELSE NnVal(ev)) ELSE polyNn1
           corr   == IF hit THEN s.poly.corr ELSE CorrVal(ev)
           al     == [ am |-> IF ev.pe = "exclude" THEN am ELSE NA, nn |-> nn,
                       corr |-> IF ev.pe = "split" THEN corr ELSE NA2 ]
           withData == IF IsData(ev) THEN [ base EXCEPT !.cols = { [ name |-> "arr", var |-> ev.var, al |-> al ] } ] ELSE base
           heap1  == IF newObj THEN Append(s.heap, withData) ELSE [ s.heap EXCEPT ![r] = withData ]
           store  == ~hit /\ ev.cache
           poly1  == IF store THEN [ present |-> TRUE, obj |-> 0, val |-> fresh, key |-> KeyOf(ev), corr |-> CorrVal(ev),
                                     am |-> AmVal(ev), nn |-> NnVal(ev) ]
                     ELSE IF own /\ s.poly.obj = 0 THEN [ s.poly EXCEPT !.obj = r ]      \* the grid's collection reaches the caller now
                     ELSE s.poly
       IN [ s EXCEPT !.poly = poly1, !.polyAm = polyAm1, !.polyNn = polyNn1,
                     !.heap = heap1, !.ret = r, !.raised = FALSE ]

\* ---- LineCollection ----
LineStep(s, ev, M) ==
    LET hit == s.line.present /\ KeyHit(s.line.key, ev, M.lineCmp) /\ ~ev.override
        byObj == M.lineReturned = "cached_object"
        cachedVal == IF byObj THEN s.heap[s.line.obj] ELSE s.line.val
        fresh  == [ geom |-> GeomTag(ev), cols |-> {}, edited |-> FALSE ]
        newObj == ~(hit /\ byObj)
        r      == IF newObj THEN Len(s.heap) + 1 ELSE s.line.obj
        heap1  == IF newObj THEN Append(s.heap, IF hit THEN cachedVal ELSE fresh) ELSE s.heap
        store  == ~hit /\ ev.cache
        k0     == KeyOf(ev)
        key1   == [ f \in DOMAIN k0 |-> IF f \in M.lineStore THEN k0[f] ELSE s.line.key[f] ]
        line1  == IF store THEN [ present |-> TRUE, obj |-> IF byObj THEN r ELSE 0, val |-> fresh, key |-> key1 ] ELSE s.line
    IN [ s EXCEPT !.line = line1, !.heap = heap1, !.ret = r, !.raised = FALSE ]

\* ---- the caller edits an object it was given ----
EditStep(s, ev) ==
    IF ev.target \in 1..Len(s.heap) THEN [ s EXCEPT !.heap[ev.target].edited = TRUE, !.ret = 0, !.raised = FALSE ]
    ELSE [ s EXCEPT !.ret = 0, !.raised = FALSE ]

Apply(s, ev, M) ==
    CASE Kind(ev) = "edit" -> EditStep(s, ev)
      [] Kind(ev) = "gdf"  -> IF Refused(ev) THEN [ s EXCEPT !.ret = 0, !.raised = TRUE ] ELSE GdfStep(s, ev, M)
      [] Kind(ev) = "poly" -> PolyStep(s, ev, M)
      [] Kind(ev) = "line" -> LineStep(s, ev, M)

\* the clauses, evaluated on the state after the step against what the caller saw before
BadOf(s, t, ev) ==
    LET r == t.ret IN
    (IF r # 0 /\ (t.heap[r].geom # GeomTag(ev) \/ t.heap[r].edited) THEN {"GeometryOfThisCall"} ELSE {})
    \cup (IF r # 0 /\ t.heap[r].cols # IdealCols(ev) THEN {"DataOfThisCall"} ELSE {})
    \cup (IF \E j \in 1..Len(s.heap) : (Kind(ev) # "edit" \/ j # ev.target) /\ t.heap[j] # s.snap[j]
          THEN {"ReturnedNotMutated"} ELSE {})
    \* no two calls hand out the same object (what one caller does to it would reach the other)
    \cup (IF r # 0 /\ r <= Len(s.heap) THEN {"FreshObject"} ELSE {})

Step(s, ev, M) ==
    LET t == Apply(s, ev, M) IN
    [ t EXCEPT !.bad = BadOf(s, t, ev), !.snap = t.heap, !.n = s.n + 1 ]

=============================================================================

----------------------------- MODULE JudgeArcs -----------------------------
(***************************************************************************)
(* C14: judges what the implementation returned (and classifies sampled    *)
(* arc pairs before they are replayed).  One ndjson line per first arc:    *)
(*                                                                         *)
(*  kind "M" (point_within_gca):  id, K, a, b, pidx (lattice indices of    *)
(*      the query points, VecOfIndex), r[v][j] = answer of variant v on    *)
(*      point j: 0 False, 1 True, 2 raised; t[j] = answer for point j      *)
(*      tilted 2e-6 rad out of the plane of the arc (must be False).       *)
(*  kind "X" (gca_gca_intersection): id, a, b, o[j] = <<c, d>>,            *)
(*      r[j][v] = <<n, t1, t2>>: n points returned (-1: raised), t = 1 if  *)
(*      the point is (to 1e-10) the direction +x, 2 if -x, 0 if neither,   *)
(*      where x = CrossX(a, b, c, d) was supplied by this specification.   *)
(*      Without r the record is a *classification request*: the answer     *)
(*      <<"C", id, <<code_j, x_j>>...>> carries the exact class and x.      *)
(*  kind "L" (extreme_gca_latitude): id, a, b, r[v] = <<maxset, minset,    *)
(*      raised>>; the sets hold which candidates (1 lat a, 2 lat b, 3 top, *)
(*      4 bottom of the circle; descriptors from the specification) the    *)
(*      returned value equals to 1e-12.                                    *)
(*                                                                         *)
(* Variants v: 1 as generated, 2..nx exact metamorphic images (endpoint    *)
(* swap, arc swap, quarter turns about the polar axis), then perturbed     *)
(* replays: jv = every float coordinate jittered by a few ulps, NV = a     *)
(* rotation about the polar axis by a generic angle (on the floats).  The  *)
(* expected answer is the same for all of them (laws model-checked in      *)
(* ArcScope.tla; the rotation by a generic angle is an isometry fixing     *)
(* the poles).  A case is judged only if the exact classification clears   *)
(* the margin (TripleJudged / PairJudged); everything else is counted as   *)
(* boundary.  Verdict lines:                                               *)
(*   <<"V", id, kind, j, class, arcKinds, {<<clause, v>>, ...}>>            *)
(*   <<"S", id, kind, arcKind, judged, boundary, positives>>   (statistics) *)
(***************************************************************************)
EXTENDS ArcZ, Json, IOUtils, TLCExt

Recs  == ndJsonDeserialize(IOEnv.REC_FILE)
Block == 8
NBlocks == (Len(Recs) + Block - 1) \div Block

VARIABLE i      \* < 0: block marker, > 0: record index

Has(r, f) == f \in DOMAIN r
TiltVariant == 9
\* variants 1..NX(r) are exact images (compared among themselves: <<"Invariance", 0>>); the later ones are
\* perturbed replays, each compared with the base: the ulp jitter (index r.jv, clause "JitterStable": every
\* coordinate of every input moved by a few ulps, exact zeros by a few 1e-16, then renormalised -- nine
\* orders of magnitude below the margin, so no answer may change) and the generic polar rotation ("Invariance")
NX(r, nv) == IF Has(r, "nx") THEN r.nx ELSE nv - 1
JV(r)     == IF Has(r, "jv") THEN r.jv ELSE 0
InvName(r, v) == IF v = JV(r) THEN "JitterStable" ELSE "Invariance"
Range(s)  == { s[k] : k \in DOMAIN s }
Vec3(s)   == << s[1], s[2], s[3] >>
ValidArc(a, b) == Judgeable(a) /\ Judgeable(b) /\ IsArc(a, b) /\ ArcMargin(a, b)

(* ---- membership ------------------------------------------------------------------ *)
MFails(r, j) ==
    LET a == Vec3(r.a)  b == Vec3(r.b)
        p == VecOfIndex(r.pidx[j], r.K)
        nv == Len(r.r)
        want == IF OnArcExpected(a, b, p) THEN 1 ELSE 0
        got(v) == r.r[v][j]
    IN { <<"NoRaise", v>> : v \in { w \in 1..nv : got(w) = 2 } }
       \cup { <<IF want = 1 THEN "OnArcReported" ELSE "OffArcRejected", v>> :
                 v \in { w \in 1..nv : got(w) # 2 /\ got(w) # want } }
       \cup (IF \E v \in 2..NX(r, nv) : got(v) # got(1) THEN { <<"Invariance", 0>> } ELSE {})
       \cup { <<InvName(r, v), v>> : v \in { w \in (NX(r, nv) + 1)..nv : got(w) # got(1) } }
       \* r.t[j]: the same query point tilted out of the arc's plane by TiltRad (2e-6 rad, twice the
       \* property's margin; every judged lattice point is >= 1e-4 rad from any other boundary): it is
       \* off the great circle with margin, whatever its class was
       \cup (IF Has(r, "t") /\ r.t[j] # 0 THEN { <<"NearCircleRejected", TiltVariant>> } ELSE {})
MJudged(r, j) == LET p == VecOfIndex(r.pidx[j], r.K)
                 IN Judgeable(p) /\ TripleJudged(Vec3(r.a), Vec3(r.b), p)
JudgeM(r) ==
    LET a == Vec3(r.a)  b == Vec3(r.b) IN
    IF ~ValidArc(a, b) THEN PrintT(<<"S", r.id, "M", "notarc", 0, Len(r.pidx), 0>>)
    ELSE LET J == { j \in 1..Len(r.pidx) : MJudged(r, j) }
             pos == { j \in J : OnArcExpected(a, b, VecOfIndex(r.pidx[j], r.K)) }
         IN /\ PrintT(<<"S", r.id, "M", ArcKind(a, b), Cardinality(J), Len(r.pidx) - Cardinality(J),
                        Cardinality(pos)>>)
            /\ \A j \in J :
                  LET f == MFails(r, j) IN
                  f = {} \/ PrintT(<<"V", r.id, "M", j, ArcClass(a, b, VecOfIndex(r.pidx[j], r.K)),
                                     <<ArcKind(a, b)>>, f>>)

(* ---- intersections ----------------------------------------------------------------- *)
PairCode(a, b, c, d) ==
    IF ~(ValidArc(a, b) /\ ValidArc(c, d)) THEN 0
    ELSE IF ~PairJudged(a, b, c, d) THEN 0
    ELSE LET k == ArcPairClass(a, b, c, d)
         IN CASE k = "CrossAtX" -> 1 [] k = "CrossAtMinusX" -> 2 [] k = "Disjoint" -> 3 [] OTHER -> 0
ClassifyX(r) ==
    LET a == Vec3(r.a)  b == Vec3(r.b) IN
    PrintT(<<"C", r.id,
             [ j \in 1..Len(r.o) |->
                 LET c == Vec3(r.o[j][1])  d == Vec3(r.o[j][2])
                     k == PairCode(a, b, c, d)
                 IN << k, IF k = 0 THEN Zero3 ELSE CrossX(a, b, c, d) >> ]>>)
XFails(r, j) ==
    LET a == Vec3(r.a)  b == Vec3(r.b)  c == Vec3(r.o[j][1])  d == Vec3(r.o[j][2])
        k == PairCode(a, b, c, d)
        nv == Len(r.r[j])
        got(v) == r.r[j][v]
        bad(v) == CASE got(v)[1] = -1 -> "NoRaise"
                    [] k = 3 /\ got(v)[1] # 0 -> "DisjointEmpty"
                    [] k \in {1, 2} /\ got(v)[1] = 0 -> "CrossingFound"
                    [] k \in {1, 2} /\ got(v)[1] > 1 -> "ExtraPoints"
                    [] k \in {1, 2} /\ got(v)[1] = 1 /\ got(v)[2] # k -> "PointOnBothArcs"
                    [] OTHER -> "ok"
    IN { <<bad(v), v>> : v \in { w \in 1..nv : bad(w) # "ok" } }
       \cup (IF \E v \in 2..NX(r, nv) : got(v) # got(1) THEN { <<"Invariance", 0>> } ELSE {})
       \cup { <<InvName(r, v), v>> : v \in { w \in (NX(r, nv) + 1)..nv : got(w) # got(1) } }
JudgeX(r) ==
    LET a == Vec3(r.a)  b == Vec3(r.b)
        code(j) == PairCode(a, b, Vec3(r.o[j][1]), Vec3(r.o[j][2]))
        J == { j \in 1..Len(r.o) : code(j) # 0 }
    IN /\ PrintT(<<"S", r.id, "X", IF ValidArc(a, b) THEN ArcKind(a, b) ELSE "notarc",
                   Cardinality(J), Len(r.o) - Cardinality(J), Cardinality({ j \in J : code(j) \in {1, 2} })>>)
       /\ \A j \in J :
             LET f == XFails(r, j) IN
             f = {} \/ PrintT(<<"V", r.id, "X", j,
                                ArcPairClass(a, b, Vec3(r.o[j][1]), Vec3(r.o[j][2])),
                                <<ArcKind(a, b), ArcKind(Vec3(r.o[j][1]), Vec3(r.o[j][2]))>>, f>>)

(* ---- extreme latitude ---------------------------------------------------------------- *)
LFails(r) ==
    LET a == Vec3(r.a)  b == Vec3(r.b)
        nv == Len(r.r)
        okmax(v) == MaxLatWhich(a, b) \in Range(r.r[v][1])
        okmin(v) == MinLatWhich(a, b) \in Range(r.r[v][2])
        st(v) == << r.r[v][3], okmax(v), okmin(v) >>
    IN { <<"NoRaise", v>> : v \in { w \in 1..nv : r.r[w][3] = 1 } }
       \cup { <<"MaxLatitude", v>> : v \in { w \in 1..nv : r.r[w][3] = 0 /\ ~okmax(w) } }
       \cup { <<"MinLatitude", v>> : v \in { w \in 1..nv : r.r[w][3] = 0 /\ ~okmin(w) } }
       \cup (IF \E v \in 2..NX(r, nv) : st(v) # st(1) THEN { <<"Invariance", 0>> } ELSE {})
       \cup { <<InvName(r, v), v>> : v \in { w \in (NX(r, nv) + 1)..nv : st(w) # st(1) } }
JudgeL(r) ==
    LET a == Vec3(r.a)  b == Vec3(r.b) IN
    IF ~ValidArc(a, b) THEN PrintT(<<"S", r.id, "L", "notarc", 0, 1, 0>>)
    ELSE /\ PrintT(<<"S", r.id, "L", ArcKind(a, b), 1, 0,
                     IF MaxLatWhich(a, b) = 3 \/ MinLatWhich(a, b) = 4 THEN 1 ELSE 0>>)
         /\ LET f == LFails(r) IN
            f = {} \/ PrintT(<<"V", r.id, "L", 1,
                               <<MaxLatWhich(a, b), MinLatWhich(a, b)>>, <<ArcKind(a, b)>>, f>>)


(* ---- shrunk arcs (short arcs with the class inherited from the base case, ArcZ.tla) --------- *)
\* Records name the base lattice case and the exponents ks (M = 10^k); the harness built the arcs
\* (M w + a, M w + b) exactly in integers.  Variants: 1..nx exact (as built, endpoint / arc swap), jv jitter.
VarFails(r, nv, got(_), bad(_)) ==
    { <<bad(v), v>> : v \in { w \in 1..nv : bad(w) # "ok" } }
    \cup (IF \E v \in 2..NX(r, nv) : got(v) # got(1) THEN { <<"Invariance", 0>> } ELSE {})
    \cup { <<InvName(r, v), v>> : v \in { w \in (NX(r, nv) + 1)..nv : got(w) # got(1) } }

\* kind "SM": a, b, p (strictly inside), K, ks, qidx; rp[ki][v] answer for p on the shrunk arc, tp[ki] for p
\* tilted 2e-6 rad off the plane, r[ki][v][j] for the lattice point q_j (judged when outside (a, b) with margin)
JudgeSM(r) ==
    LET a == Vec3(r.a)  b == Vec3(r.b)  p == Vec3(r.p)
        KS == { ki \in 1..Len(r.ks) : ValidArc(a, b) /\ Judgeable(p) /\ ShrinkTripleOK(a, b, p, r.ks[ki]) }
        Q == { j \in 1..Len(r.qidx) :
                 LET q == VecOfIndex(r.qidx[j], r.K) IN
                 Judgeable(q) /\ TripleJudged(a, b, q) /\ ArcClass(a, b, q) \in {"OnCircleOutside", "Off"} }
        nv == Len(r.rp[1])
        pf(ki) == VarFails(r, nv, LAMBDA v : r.rp[ki][v],
                           LAMBDA v : IF r.rp[ki][v] = 2 THEN "NoRaise" ELSE IF r.rp[ki][v] # 1 THEN "OnArcReported" ELSE "ok")
                  \cup (IF r.tp[ki] # 0 THEN { <<"NearCircleRejected", TiltVariant>> } ELSE {})
        qf(ki, j) == VarFails(r, nv, LAMBDA v : r.r[ki][v][j],
                              LAMBDA v : IF r.r[ki][v][j] = 2 THEN "NoRaise" ELSE IF r.r[ki][v][j] # 0 THEN "OffArcRejected" ELSE "ok")
    IN /\ PrintT(<<"S", r.id, "SM", IF ValidArc(a, b) THEN ArcKind(a, b) ELSE "notarc",
                   Cardinality(KS) * (1 + Cardinality(Q)), (Len(r.ks) - Cardinality(KS)) * (1 + Cardinality(Q)), Cardinality(KS)>>)
       /\ \A ki \in KS :
             /\ pf(ki) = {} \/ PrintT(<<"V", r.id, "SM", <<r.ks[ki], 0>>, "Interior", <<ArcKind(a, b)>>, pf(ki)>>)
             /\ \A j \in Q : qf(ki, j) = {} \/
                   PrintT(<<"V", r.id, "SM", <<r.ks[ki], j>>, ArcClass(a, b, VecOfIndex(r.qidx[j], r.K)), <<ArcKind(a, b)>>, qf(ki, j)>>)

\* kind "SX": a, b, o[j] = <<c, d>>, ks, r[j][ki][v] = <<n, t1, t2>> as for kind "X", arcs shrunk around the crossing
JudgeSX(r) ==
    LET a == Vec3(r.a)  b == Vec3(r.b)
        cd(j) == << Vec3(r.o[j][1]), Vec3(r.o[j][2]) >>
        code(j) == PairCode(a, b, cd(j)[1], cd(j)[2])
        J == { jk \in (1..Len(r.o)) \X (1..Len(r.ks)) :
                 code(jk[1]) \in {1, 2} /\ ShrinkPairOK(a, b, cd(jk[1])[1], cd(jk[1])[2], r.ks[jk[2]]) }
        f(j, ki) == LET k == code(j)  nv == Len(r.r[j][ki])  got(v) == r.r[j][ki][v] IN
                    VarFails(r, nv, LAMBDA v : got(v),
                             LAMBDA v : CASE got(v)[1] = -1 -> "NoRaise"
                                          [] got(v)[1] = 0 -> "CrossingFound"
                                          [] got(v)[1] > 1 -> "ExtraPoints"
                                          [] got(v)[1] = 1 /\ got(v)[2] # k -> "PointOnBothArcs"
                                          [] OTHER -> "ok")
    IN /\ PrintT(<<"S", r.id, "SX", IF ValidArc(a, b) THEN ArcKind(a, b) ELSE "notarc",
                   Cardinality(J), Len(r.o) * Len(r.ks) - Cardinality(J), Cardinality(J)>>)
       /\ \A jk \in J :
             f(jk[1], jk[2]) = {} \/
             PrintT(<<"V", r.id, "SX", <<r.ks[jk[2]], jk[1]>>, ArcPairClass(a, b, cd(jk[1])[1], cd(jk[1])[2]),
                      <<ArcKind(a, b), ArcKind(cd(jk[1])[1], cd(jk[1])[2])>>, f(jk[1], jk[2])>>)

\* kind "SL": a, b, p, ks, r[ki][v] = <<maxset, minset, raised>>; candidates: 3 top, 4 bottom of the circle,
\* 5 the higher, 6 the lower of the two endpoint latitudes (evaluated from the exact integer endpoints)
JudgeSL(r) ==
    LET a == Vec3(r.a)  b == Vec3(r.b)  p == Vec3(r.p)
        \* not judged: an arc shrunk around a pole with M >= 10^4 has its endpoints inside the library's documented
        \* pole snap (|z| > 1 - 1e-8, i.e. within 1.4e-4 rad of the pole, where latitudes are reported as +-90)
        KS == { ki \in 1..Len(r.ks) : /\ ValidArc(a, b) /\ Judgeable(p) /\ ShrinkTripleOK(a, b, p, r.ks[ki])
                                       /\ ~(IsPole(p) /\ r.ks[ki] >= 4) }
        wmax(ki) == IF ShrunkBulgesNorth(a, b, p, Pow10(r.ks[ki])) THEN 3 ELSE 5
        wmin(ki) == IF ShrunkBulgesSouth(a, b, p, Pow10(r.ks[ki])) THEN 4 ELSE 6
        f(ki) == LET nv == Len(r.r[ki])
                     st(v) == << r.r[ki][v][3], wmax(ki) \in Range(r.r[ki][v][1]), wmin(ki) \in Range(r.r[ki][v][2]) >>
                 IN VarFails(r, nv, LAMBDA v : st(v),
                             LAMBDA v : IF st(v)[1] = 1 THEN "NoRaise" ELSE IF ~st(v)[2] THEN "MaxLatitude"
                                        ELSE IF ~st(v)[3] THEN "MinLatitude" ELSE "ok")
    IN /\ PrintT(<<"S", r.id, "SL", IF ValidArc(a, b) THEN ArcKind(a, b) ELSE "notarc",
                   Cardinality(KS), Len(r.ks) - Cardinality(KS), Cardinality({ ki \in KS : wmax(ki) = 3 \/ wmin(ki) = 4 })>>)
       /\ \A ki \in KS : f(ki) = {} \/
             PrintT(<<"V", r.id, "SL", <<r.ks[ki], 0>>, <<wmax(ki), wmin(ki)>>, <<ArcKind(a, b)>>, f(ki)>>)

(* ---- driver ---------------------------------------------------------------------------- *)
Init == i \in { -k : k \in 1..NBlocks }
Next == /\ i < 0
        /\ i' \in { k \in 1..Len(Recs) : (k - 1) \div Block = (-i) - 1 }

Judge == i > 0 =>
           LET r == Recs[i] IN
           CASE r.kind = "M" -> JudgeM(r)
             [] r.kind = "X" -> IF Has(r, "r") THEN JudgeX(r) ELSE ClassifyX(r)
             [] r.kind = "L" -> JudgeL(r)
             [] r.kind = "SM" -> JudgeSM(r)
             [] r.kind = "SX" -> JudgeSX(r)
             [] r.kind = "SL" -> JudgeSL(r)
=============================================================================

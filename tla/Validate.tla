------------------------------ MODULE Validate ------------------------------
(***************************************************************************)
(* X03: Grid.validate() and the checks of uxarray/grid/validation.py.      *)
(*                                                                         *)
(* A mesh is                                                               *)
(*   pos    the node positions, integer direction vectors (SphereZ)        *)
(*   alt    per node 0 | 1: which of two equivalent (lon, lat) pairs the   *)
(*          source stores for the position -- a pole may be stored with    *)
(*          longitude 0 or 90, a node on the antimeridian with longitude   *)
(*          180 or -180; for every other position alt = 0                  *)
(*   faces  0-based node lists (as stored, padding aside)                  *)
(*   cart   for nodes / edges / faces: "none" (no x, y, z supplied),       *)
(*          "unit", "scaled" (supplied with length 0.5)                    *)
(*                                                                         *)
(* WELL-FORMED, clause by clause, as the docstrings promise:               *)
(*   Connectivity   every index used by a face names an existing node, and *)
(*                  every node is used by some face ("all nodes are        *)
(*                  referenced by at least one element ... hanging nodes") *)
(*   NoDuplicates   no two nodes are the same point ("duplicate nodes in   *)
(*                  the mesh")                                             *)
(*   NonZeroArea    no face has zero area ("Non-Zero Face Areas"; the      *)
(*                  code's threshold is 1e-8, every lattice face here is   *)
(*                  either exactly degenerate or larger than 0.1)          *)
(*   Normalized     every supplied Cartesian coordinate has unit length    *)
(* Grid.validate() = NoDuplicates /\ Connectivity /\ NonZeroArea: returns  *)
(* True or raises.  A check that is False also warns (RuntimeWarning).     *)
(*                                                                         *)
(* What "coincide" means in the code: exact equality of the stored         *)
(* (node_lon, node_lat) pair in degrees, after the constructor folded      *)
(* longitudes above 180 (np.unique on rows / tuple keys of a dict; -0.0    *)
(* equals 0.0; no tolerance).  StoredDupFree states that; it differs from  *)
(* NoDuplicates exactly on alias pairs (alt differs at a pole or on the    *)
(* antimeridian).                                                          *)
(*                                                                         *)
(* Not promised, hence not judged (limitations):                           *)
(*   orientation   face areas are unsigned, a clockwise face has a         *)
(*                 positive area: PositiveArea is reported, not judged     *)
(*   a face naming a node that does not exist has no area: the area        *)
(*                 clause is not judged on such meshes                     *)
(*   near-duplicates (distinct stored numbers closer than any tolerance)   *)
(*                 are never generated                                     *)
(***************************************************************************)
EXTENDS SphereZ, TLC

(* ---- clauses -------------------------------------------------------------- *)
NN(m)       == Len(m.pos)
Corners(f)  == { f[c] : c \in 1..Len(f) }
UsedIdx(m)  == UNION { Corners(m.faces[j]) : j \in 1..Len(m.faces) }
IdxInRange(m) == UsedIdx(m) \subseteq 0..(NN(m) - 1)
AllUsed(m)    == (0..(NN(m) - 1)) \subseteq UsedIdx(m)
Connectivity(m) == IdxInRange(m) /\ AllUsed(m)

Aliasable(v)     == IsPole(v) \/ OnAntimeridian(v)
SamePoint(m, a, b)   == SameDir(m.pos[a], m.pos[b])
StoredEqual(m, a, b) == SamePoint(m, a, b) /\ (Aliasable(m.pos[a]) => m.alt[a] = m.alt[b])
NoDuplicates(m)  == \A a, b \in 1..NN(m) : a < b => ~SamePoint(m, a, b)
StoredDupFree(m) == \A a, b \in 1..NN(m) : a < b => ~StoredEqual(m, a, b)
\* _check_duplicate_nodes_indices: some face names a node that is a later copy of an earlier one
LaterCopies(m)   == { b - 1 : b \in { x \in 1..NN(m) : \E a \in 1..(x - 1) : StoredEqual(m, a, x) } }
StoredDupIndexUsed(m) == UsedIdx(m) \cap LaterCopies(m) # {}
\* the promise: some face names a node that is the same point as an earlier node
DupIndexUsed(m)  == UsedIdx(m) \cap { b - 1 : b \in { x \in 1..NN(m) : \E a \in 1..(x - 1) : SamePoint(m, a, x) } } # {}

FaceInRange(m, f) == Corners(f) \subseteq 0..(NN(m) - 1)
Dirs(m, f)   == [c \in 1..Len(f) |-> m.pos[f[c] + 1]]
Rev(s)       == [c \in 1..Len(s) |-> s[Len(s) + 1 - c]]
FaceClass(m, f) ==
  IF ~FaceInRange(m, f) THEN "undefined"
  ELSE LET d == Dirs(m, f) IN
       IF Len(d) = 3 /\ Det(d[1], d[2], d[3]) = 0 THEN "zero"        \* collinear or a repeated corner
       ELSE IF ConvexCCW(d) THEN "ccw"
       ELSE IF ConvexCCW(Rev(d)) THEN "cw"
       ELSE "other"
FaceClasses(m)  == { FaceClass(m, m.faces[j]) : j \in 1..Len(m.faces) }
AreaDefined(m)  == "undefined" \notin FaceClasses(m) /\ "other" \notin FaceClasses(m)
NonZeroArea(m)  == "zero" \notin FaceClasses(m)
PositiveArea(m) == FaceClasses(m) \subseteq {"ccw"}

Kinds == {"node", "edge", "face"}
Normalized(m) == \A k \in Kinds : m.cart[k] # "scaled"

WellFormed(m) == Connectivity(m) /\ NoDuplicates(m) /\ NonZeroArea(m) /\ Normalized(m)
Validates(m)  == Connectivity(m) /\ NoDuplicates(m) /\ NonZeroArea(m)

\* the code as read, where it differs (used to describe a divergence narrowly, never as the expectation)
CodeConnectivity(m) == Cardinality({ x \in UsedIdx(m) : x >= 0 }) = NN(m)

(* ---- base meshes and corruptions ------------------------------------------- *)
Plain(pos, faces) == [ pos |-> pos, alt |-> [k \in 1..Len(pos) |-> 0], faces |-> faces,
                       cart |-> [k \in Kinds |-> "none"] ]
\* octahedron: both poles, a node on the antimeridian, on the prime meridian
Octa == Plain( << <<1, 0, 0>>, <<0, 1, 0>>, <<-1, 0, 0>>, <<0, -1, 0>>, <<0, 0, 1>>, <<0, 0, -1>> >>,
               << <<0, 1, 4>>, <<1, 2, 4>>, <<2, 3, 4>>, <<3, 0, 4>>,
                  <<1, 0, 5>>, <<2, 1, 5>>, <<3, 2, 5>>, <<0, 3, 5>> >> )
\* a square pyramid over the north pole on a closed base: triangles and quadrilaterals
Mixed == Plain( << <<1, 0, 1>>, <<0, 1, 1>>, <<-1, 0, 1>>, <<0, -1, 1>>, <<0, 0, 1>>,
                   <<1, 0, -1>>, <<0, 1, -1>>, <<-1, 0, -1>>, <<0, -1, -1>> >>,
                << <<0, 1, 4>>, <<1, 2, 4>>, <<2, 3, 4>>, <<3, 0, 4>>,
                   <<5, 6, 1, 0>>, <<6, 7, 2, 1>>, <<7, 8, 3, 2>>, <<8, 5, 0, 3>>,
                   <<8, 7, 6, 5>> >> )
Bases == [ octa |-> Octa, mixed |-> Mixed ]

ReplaceIn(f, old, new) == [c \in 1..Len(f) |-> IF f[c] = old THEN new ELSE f[c]]
AppendNode(m, v, a)    == [m EXCEPT !.pos = Append(@, v), !.alt = Append(@, a)]
\* insert a node at 0-based index at: indices >= at shift up
InsertNode(m, at, v, a) ==
  [m EXCEPT !.pos = SubSeq(@, 1, at) \o <<v>> \o SubSeq(@, at + 1, Len(@)),
            !.alt = SubSeq(@, 1, at) \o <<a>> \o SubSeq(@, at + 1, Len(@)),
            !.faces = [j \in 1..Len(@) |-> [c \in 1..Len(@[j]) |-> IF @[j][c] >= at THEN @[j][c] + 1 ELSE @[j][c]]]]
FirstFaceWith(m, n) == CHOOSE j \in 1..Len(m.faces) : n \in Corners(m.faces[j]) /\ \A l \in 1..(j - 1) : n \notin Corners(m.faces[l])

\* a copy of node n (0-based), stored with alias a, inserted at `at`, and named by one face instead of n
DupUsed(m, n, a, at) ==
  LET m1  == InsertNode(m, at, m.pos[n + 1], a)
      n1  == IF n >= at THEN n + 1 ELSE n
      j   == FirstFaceWith(m1, n1)
  IN [m1 EXCEPT !.faces[j] = ReplaceIn(@, n1, at)]
DupUnused(m, n, a) == AppendNode(m, m.pos[n + 1], a)
Unused(m, v)       == AppendNode(m, v, 0)
OutOfRange(m, j, c, by) == [m EXCEPT !.faces[j][c] = NN(m) - 1 + by]
Reversed(m, j)     == [m EXCEPT !.faces[j] = Rev(@)]
RepeatedCorner(m, j) == [m EXCEPT !.faces = Append(@, << m.faces[j][1], m.faces[j][2], m.faces[j][2] >>)]
\* a new node on the great circle through the first two corners of face j, and the collinear triangle
Collinear(m, j)    ==
  LET a == m.faces[j][1]  b == m.faces[j][2]
      v == [k \in 1..3 |-> m.pos[a + 1][k] + m.pos[b + 1][k]]
  IN [AppendNode(m, v, 0) EXCEPT !.faces = Append(@, << a, NN(m), b >>)]
Cart(m, k, t)      == [m EXCEPT !.cart[k] = t]

AliasNodes(m) == { n \in 0..(NN(m) - 1) : Aliasable(m.pos[n + 1]) }

\* named single corruptions of a mesh
SingleNames ==
  { "unused_node", "out_of_range", "out_of_range_far", "dup_first", "dup_middle", "dup_last", "dup_of_pole",
    "dup_unreferenced", "two_dups", "alias_pole", "alias_pole_first", "alias_antimeridian", "repeated_corner",
    "collinear_face", "reversed_face", "reversed_last", "unit_nodes", "unit_all", "scaled_nodes", "scaled_edges",
    "scaled_faces", "scaled_edges_unit_nodes" }
NorthPole(m) == CHOOSE n \in 0..(NN(m) - 1) : IsPole(m.pos[n + 1]) /\ m.pos[n + 1][3] > 0 /\ \A k \in 0..(n - 1) : ~IsPole(m.pos[k + 1])
AMNodes(m) == { n \in 0..(NN(m) - 1) : OnAntimeridian(m.pos[n + 1]) }
Single(m, name) ==
  CASE name = "unused_node"        -> Unused(m, <<1, 1, 3>>)
    [] name = "out_of_range"       -> OutOfRange(m, 1, 1, 1)
    [] name = "out_of_range_far"   -> OutOfRange(m, 2, 2, 3)
    [] name = "dup_first"          -> DupUsed(m, 1, 0, 0)
    [] name = "dup_middle"         -> DupUsed(m, 1, 0, 3)
    [] name = "dup_last"           -> DupUsed(m, 1, 0, NN(m))
    [] name = "dup_of_pole"        -> DupUsed(m, NorthPole(m), 0, NN(m))
    [] name = "dup_unreferenced"   -> DupUnused(m, 3, 0)
    [] name = "two_dups"           -> DupUsed(DupUsed(m, 1, 0, NN(m)), 3, 0, 0)
    [] name = "alias_pole"         -> DupUsed(m, NorthPole(m), 1, NN(m))
    [] name = "alias_pole_first"   -> DupUsed(m, NorthPole(m), 1, 0)
    [] name = "alias_antimeridian" -> DupUsed(m, CHOOSE n \in AMNodes(m) : TRUE, 1, NN(m))
    [] name = "repeated_corner"    -> RepeatedCorner(m, 1)
    [] name = "collinear_face"     -> Collinear(m, 1)
    [] name = "reversed_face"      -> Reversed(m, 1)
    [] name = "reversed_last"      -> Reversed(m, Len(m.faces))
    [] name = "unit_nodes"         -> Cart(m, "node", "unit")
    [] name = "unit_all"           -> Cart(Cart(Cart(m, "node", "unit"), "edge", "unit"), "face", "unit")
    [] name = "scaled_nodes"       -> Cart(m, "node", "scaled")
    [] name = "scaled_edges"       -> Cart(m, "edge", "scaled")
    [] name = "scaled_faces"       -> Cart(m, "face", "scaled")
    [] name = "scaled_edges_unit_nodes" -> Cart(Cart(m, "node", "unit"), "edge", "scaled")

\* second corruptions applied on top of a first one (two defects)
Seconds == { "unused_node", "out_of_range", "dup_last", "alias_pole", "repeated_corner", "reversed_face", "scaled_nodes", "scaled_faces" }
Firsts  == { "unused_node", "out_of_range", "dup_middle", "dup_unreferenced", "repeated_corner", "collinear_face", "reversed_face", "scaled_edges" }

(* ---- generator: one state per case -------------------------------------------- *)
VARIABLES base, first, second
vars == <<base, first, second>>

CaseMesh(b, f, s) ==
  LET m0 == Bases[b]
      m1 == IF f = "none" THEN m0 ELSE Single(m0, f)
  IN IF s = "none" THEN m1 ELSE Single(m1, s)

FirstNames(b) == { n \in SingleNames : n = "alias_antimeridian" => AMNodes(Bases[b]) # {} }
Init == /\ base \in DOMAIN Bases
        /\ first = "none" /\ second = "none"
Next == \/ /\ first = "none"
           /\ first' \in FirstNames(base)
           /\ UNCHANGED <<base, second>>
        \/ /\ first \in Firsts /\ second = "none"
           /\ second' \in Seconds \ {first}
           /\ UNCHANGED <<base, first>>

M == CaseMesh(base, first, second)
TypeOK == /\ Len(M.pos) = Len(M.alt)
          /\ \A k \in 1..NN(M) : M.alt[k] \in {0, 1} /\ (M.alt[k] = 1 => Aliasable(M.pos[k]))
\* the base meshes are well-formed; every named single corruption breaks what it says it breaks
BasesWellFormed == (first = "none") => (WellFormed(M) /\ PositiveArea(M))
SingleBreaks ==
  (second = "none") =>
    /\ (first \in {"unused_node", "out_of_range", "out_of_range_far", "dup_unreferenced"} => ~Connectivity(M))
    /\ (first \in {"dup_first", "dup_middle", "dup_last", "dup_of_pole", "two_dups", "dup_unreferenced"} => ~StoredDupFree(M) /\ ~NoDuplicates(M))
    /\ (first \in {"alias_pole", "alias_pole_first", "alias_antimeridian"} => StoredDupFree(M) /\ ~NoDuplicates(M))
    /\ (first \in {"repeated_corner", "collinear_face"} => ~NonZeroArea(M))
    /\ (first \in {"reversed_face", "reversed_last"} => NonZeroArea(M) /\ ~PositiveArea(M) /\ Validates(M))
    /\ (first \in {"scaled_nodes", "scaled_edges", "scaled_faces", "scaled_edges_unit_nodes"} => ~Normalized(M) /\ Validates(M))
    /\ (first \in {"unit_nodes", "unit_all"} => WellFormed(M))
\* no generated face is of a shape the area clause cannot classify
NoOtherFaces == "other" \notin FaceClasses(M)

Expected(m) ==
  [ conn |-> Connectivity(m), dup |-> NoDuplicates(m), stored_dup_free |-> StoredDupFree(m),
    dup_index_used |-> DupIndexUsed(m), stored_dup_index_used |-> StoredDupIndexUsed(m), area_defined |-> AreaDefined(m), area |-> NonZeroArea(m),
    positive |-> PositiveArea(m), norm |-> Normalized(m), validates |-> Validates(m),
    code_conn |-> CodeConnectivity(m), idx_in_range |-> IdxInRange(m) ]
Emit == PrintT(<<"CASE", [base |-> base, first |-> first, second |-> second, mesh |-> M, exp |-> Expected(M)]>>)
=============================================================================

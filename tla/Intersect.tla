------------------------------ MODULE Intersect ------------------------------
(***************************************************************************)
(* X01: exact intersections on integer direction vectors.                  *)
(*                                                                         *)
(*  1. two minor great-circle arcs: the exact intersection set of the      *)
(*     *closed* arcs (candidates +-(n1 x n2) tested with the exact         *)
(*     within-arc predicate), the configuration (Cross, TJunction,         *)
(*     SharedEndpoint, Disjoint; on one great circle: CoplanarOverlap,     *)
(*     CoplanarTouch, CoplanarDisjoint), and which configurations fix the  *)
(*     answer robustly (margins);                                          *)
(*  2. an arc and the parallel z = c, c = s sqrt(num/den) a "latitude      *)
(*     descriptor" (every rational p/q and the z of every lattice point    *)
(*     are of this form, and all comparisons are exact in integers): the   *)
(*     exact intersection COUNT, including the arc that bulges over the    *)
(*     parallel (2), tangency and endpoints on the parallel (degenerate);  *)
(*  3. a mesh and a parallel: the edges whose endpoints straddle it and    *)
(*     the faces owning such an edge (the contract of the "fast" method).  *)
(*                                                                         *)
(* The laws at the end are model-checked by TLC in IntersectScope.tla.     *)
(***************************************************************************)
EXTENDS ArcZ

(* ---- 1. arc / arc ---------------------------------------------------------------- *)
OnClosed(a, b, y)  == ArcClass(a, b, y) \in {"Interior", "Endpoint"}
Candidates(a, b, c, d) == { CrossX(a, b, c, d), Neg(CrossX(a, b, c, d)) }
\* different great circles: the points common to both closed arcs
InterSet(a, b, c, d) == { y \in Candidates(a, b, c, d) : OnClosed(a, b, y) /\ OnClosed(c, d, y) }
SameArc(a, b, c, d) == (SameDir(a, c) /\ SameDir(b, d)) \/ (SameDir(a, d) /\ SameDir(b, c))
\* one great circle: the endpoints that lie on both closed arcs (the ends of the common part)
OverlapEnds(a, b, c, d) == { e \in {a, b, c, d} : OnClosed(a, b, e) /\ OnClosed(c, d, e) }
GcaConfig(a, b, c, d) ==
    IF DifferentCircles(a, b, c, d)
    THEN LET S == InterSet(a, b, c, d) IN
         IF S = {} THEN "Disjoint"
         ELSE LET y == CHOOSE z \in S : TRUE
                  ca == ArcClass(a, b, y)  cc == ArcClass(c, d, y)
              IN IF ca = "Interior" /\ cc = "Interior" THEN "Cross"
                 ELSE IF ca = "Endpoint" /\ cc = "Endpoint" THEN "SharedEndpoint"
                 ELSE "TJunction"
    ELSE IF \/ SameArc(a, b, c, d)
            \/ \E e \in {a, b} : StrictlyWithinArc(c, d, e)
            \/ \E e \in {c, d} : StrictlyWithinArc(a, b, e)
         THEN "CoplanarOverlap"
         ELSE IF \E e \in {a, b}, f \in {c, d} : SameDir(e, f) THEN "CoplanarTouch"
         ELSE "CoplanarDisjoint"
\* robustly empty: every candidate is outside one of the arcs by a margin (this includes an endpoint that lies
\* on the other great circle but well outside the other arc), the planes meet at a clear angle
FarOutside(a, b, y) == ArcClass(a, b, y) = "OnCircleOutside" /\ Apart(y, a) /\ Apart(y, b)
PlanesApart(a, b, c, d) == LET n1 == Cross(a, b)  n2 == Cross(c, d)  x == Cross(n1, n2)
                           IN x # Zero3 /\ (N2(n1) * N2(n2)) \div N2(x) <= MarginInv
DisjointRobust(a, b, c, d) ==
    /\ ArcMargin(a, b) /\ ArcMargin(c, d) /\ PlanesApart(a, b, c, d)
    /\ \A y \in Candidates(a, b, c, d) : FarOutside(a, b, y) \/ FarOutside(c, d, y)
\* two arcs of one great circle separated by clear gaps: no endpoint on or near the other arc
CoplanarDisjointRobust(a, b, c, d) ==
    /\ ~DifferentCircles(a, b, c, d) /\ ArcMargin(a, b) /\ ArcMargin(c, d)
    /\ \A e \in {a, b} : FarOutside(c, d, e)
    /\ \A e \in {c, d} : FarOutside(a, b, e)
\* a common part of positive length on one great circle
CoplanarOverlapRobust(a, b, c, d) ==
    /\ ~DifferentCircles(a, b, c, d) /\ ArcMargin(a, b) /\ ArcMargin(c, d)
    /\ \/ SameArc(a, b, c, d)
       \/ \E e \in {a, b} : StrictlyWithinArc(c, d, e) /\ Apart(e, c) /\ Apart(e, d)
       \/ \E e \in {c, d} : StrictlyWithinArc(a, b, e) /\ Apart(e, a) /\ Apart(e, b)
LongArc(a, b) == Dot(a, b) <= 0          \* 90 degrees or longer

(* ---- 2. arc / parallel ---------------------------------------------------------------- *)
\* c = <<s, num, den>> denotes z = s sqrt(num / den); LatOf(v) is the z of direction v in that form
Reduce(d)   == LET g == Gcd(d[2], d[3]) IN << d[1], d[2] \div g, d[3] \div g >>
CRational(P, Q) == Reduce(<< Sgn(P), P * P, Q * Q >>)
ZCmp(v, c)  == LatDescrCmp(LatOf(v), c)                 \* sign of z(v) - c
OnEquatorCircle(a, b) == LET n == Cross(a, b) IN n[1] = 0 /\ n[2] = 0
\* number of points of the closed arc on the parallel; -1: the whole arc (an arc of the equator, c = 0)
LatCount(a, b, c) ==
    LET sa == ZCmp(a, c)  sb == ZCmp(b, c) IN
    IF OnEquatorCircle(a, b) THEN (IF c[1] = 0 THEN -1 ELSE 0)
    ELSE IF BulgesNorth(a, b) THEN          \* z rises from a to the circle's top, then falls to b
         LET t == LatDescrCmp(TopOf(a, b), c) IN
         IF t < 0 THEN 0 ELSE IF t = 0 THEN 1
         ELSE (IF sa <= 0 THEN 1 ELSE 0) + (IF sb <= 0 THEN 1 ELSE 0)
    ELSE IF BulgesSouth(a, b) THEN
         LET t == LatDescrCmp(BottomOf(a, b), c) IN
         IF t > 0 THEN 0 ELSE IF t = 0 THEN 1
         ELSE (IF sa >= 0 THEN 1 ELSE 0) + (IF sb >= 0 THEN 1 ELSE 0)
    ELSE IF sa * sb <= 0 THEN 1 ELSE 0      \* z is strictly monotone along the arc
Straddles(a, b, c)  == ZCmp(a, c) * ZCmp(b, c) < 0
EndOnParallel(a, b, c) == ZCmp(a, c) = 0 \/ ZCmp(b, c) = 0
LatDegenerate(a, b, c) ==
    \/ EndOnParallel(a, b, c)
    \/ (BulgesNorth(a, b) /\ LatDescrCmp(TopOf(a, b), c) = 0)
    \/ (BulgesSouth(a, b) /\ LatDescrCmp(BottomOf(a, b), c) = 0)
    \/ (OnEquatorCircle(a, b) /\ c[1] = 0)
\* |sqrt x - sqrt y| >= |x - y| / 2 >= 1 / (2 den den'): at least 1e-6 apart in z
ZFar(d, e) == \/ d[1] # e[1]
              \/ (d[1] # 0 /\ d[2] * e[3] # e[2] * d[3] /\ d[3] * e[3] <= 500000)
LatJudged(a, b, c) ==
    /\ ArcMargin(a, b) /\ c[3] <= 200
    /\ ZFar(LatOf(a), c) /\ ZFar(LatOf(b), c)
    /\ BulgesNorth(a, b) => ZFar(TopOf(a, b), c)
    /\ BulgesSouth(a, b) => ZFar(BottomOf(a, b), c)
    /\ ~(OnEquatorCircle(a, b) /\ c[1] = 0)

(* ---- 3. mesh / parallel ---------------------------------------------------------------- *)
\* nodes: sequence of directions; faces: sequence of sequences of 1-based node indices
FaceSides(f)      == { {f[i], f[NextI(f, i)]} : i \in 1..Len(f) }
MeshEdges(faces)  == UNION { FaceSides(faces[k]) : k \in 1..Len(faces) }
EdgeEnds(e)       == LET u == CHOOSE x \in e : TRUE IN << u, CHOOSE y \in e : (y # u \/ Cardinality(e) = 1) >>
EdgeStraddles(nodes, e, c) == LET uv == EdgeEnds(e) IN Straddles(nodes[uv[1]], nodes[uv[2]], c)
EdgeDontCare(nodes, e, c)  == \E u \in e : ZCmp(nodes[u], c) = 0      \* a node exactly on the parallel
EdgesAt(nodes, faces, c)   == { e \in MeshEdges(faces) : EdgeStraddles(nodes, e, c) }
FacesAt(nodes, faces, c)   == { k \in 1..Len(faces) : \E e \in FaceSides(faces[k]) : EdgeStraddles(nodes, e, c) }
FacesMaybe(nodes, faces, c) == { k \in 1..Len(faces) : \E e \in FaceSides(faces[k]) :
                                    EdgeStraddles(nodes, e, c) \/ EdgeDontCare(nodes, e, c) }
\* faces the parallel really meets although no side straddles it (a side bulging over the parallel): the
\* documented inaccuracy of the "fast" method; reported as information
FacesBulgeOnly(nodes, faces, c) ==
    { k \in 1..Len(faces) : /\ k \notin FacesMaybe(nodes, faces, c)
                            /\ \E e \in FaceSides(faces[k]) :
                                  LET uv == EdgeEnds(e) IN LatCount(nodes[uv[1]], nodes[uv[2]], c) = 2 }

(* ---- laws ------------------------------------------------------------------------------ *)
LawInterAtMostOne(a, b, c, d) == DifferentCircles(a, b, c, d) => Cardinality(InterSet(a, b, c, d)) <= 1
LawInterSubset(a, b, c, d) == \A y \in InterSet(a, b, c, d) : OnClosed(a, b, y) /\ OnClosed(c, d, y) /\ y # Zero3
LawInterSwapArcs(a, b, c, d) ==
    /\ GcaConfig(c, d, a, b) = GcaConfig(a, b, c, d)
    /\ DifferentCircles(a, b, c, d) => InterSet(c, d, a, b) = InterSet(a, b, c, d)
    /\ ~DifferentCircles(a, b, c, d) => OverlapEnds(c, d, a, b) = OverlapEnds(a, b, c, d)
LawInterReverse(a, b, c, d) ==
    /\ GcaConfig(b, a, c, d) = GcaConfig(a, b, c, d) /\ GcaConfig(a, b, d, c) = GcaConfig(a, b, c, d)
    /\ DifferentCircles(a, b, c, d) =>
          InterSet(b, a, c, d) = InterSet(a, b, c, d) /\ InterSet(a, b, d, c) = InterSet(a, b, c, d)
LawInterRot(a, b, c, d) ==
    \A r \in RotGen :
       /\ GcaConfig(ApplyRot(r, a), ApplyRot(r, b), ApplyRot(r, c), ApplyRot(r, d)) = GcaConfig(a, b, c, d)
       /\ DifferentCircles(a, b, c, d) =>
             InterSet(ApplyRot(r, a), ApplyRot(r, b), ApplyRot(r, c), ApplyRot(r, d))
                = { ApplyRot(r, y) : y \in InterSet(a, b, c, d) }
\* agreement with the sign form of SphereZ.tla (the oracle of C14)
LawInterAgreesWithSigns(a, b, c, d) ==
    DifferentCircles(a, b, c, d) =>
       LET g == GcaConfig(a, b, c, d)  k == ArcPairClass(a, b, c, d) IN
       /\ (g = "Cross") <=> Crosses(a, b, c, d)
       /\ (g = "Cross") => InterSet(a, b, c, d) = { CrossPoint(a, b, c, d) }
       /\ (g \in {"TJunction", "SharedEndpoint"}) <=> (k = "Touch")
       /\ (g = "Disjoint") <=> (k \in {"Disjoint", "NearMiss"})
       /\ PairJudged(a, b, c, d) /\ g = "Disjoint" => DisjointRobust(a, b, c, d)
LawCoplanar(a, b, c, d) ==
    ~DifferentCircles(a, b, c, d) =>
       LET g == GcaConfig(a, b, c, d) IN
       /\ g \in {"CoplanarOverlap", "CoplanarTouch", "CoplanarDisjoint"}
       /\ (g = "CoplanarDisjoint") <=> (OverlapEnds(a, b, c, d) = {})
       /\ (g = "CoplanarTouch") => Cardinality(OverlapEnds(a, b, c, d)) = 1
       /\ (g = "CoplanarOverlap") => Cardinality(OverlapEnds(a, b, c, d)) >= 2
       /\ CoplanarDisjointRobust(a, b, c, d) => g = "CoplanarDisjoint"
       /\ CoplanarOverlapRobust(a, b, c, d) => g = "CoplanarOverlap"

LawParReverse(a, b, c) == LatCount(b, a, c) = LatCount(a, b, c) /\ LatJudged(b, a, c) = LatJudged(a, b, c)
LawParRotZ(a, b, c)    == \A k \in 1..3 : LatCount(RotZ(k, a), RotZ(k, b), c) = LatCount(a, b, c)
LawParFlipC(a, b, c)   == LatCount(RotX180(a), RotX180(b), LatNeg(c)) = LatCount(a, b, c)
\* the parallel meets the arc iff c lies between the arc's extreme latitudes (the oracle of C14)
LawParRange(a, b, c) ==
    ~OnEquatorCircle(a, b) =>
       /\ LatCount(a, b, c) \in 0..2
       /\ (LatCount(a, b, c) >= 1) <=> (LatDescrCmp(MinLat(a, b), c) <= 0 /\ LatDescrCmp(MaxLat(a, b), c) >= 0)
LawParParity(a, b, c) ==
    /\ Straddles(a, b, c) => LatCount(a, b, c) = 1
    /\ (LatCount(a, b, c) = 2) => (~Straddles(a, b, c) /\ (BulgesNorth(a, b) \/ BulgesSouth(a, b)))
    /\ (~LatDegenerate(a, b, c) /\ LatCount(a, b, c) = 1) => Straddles(a, b, c)
    /\ LatJudged(a, b, c) => ~LatDegenerate(a, b, c)
\* every lattice point of the closed arc with exactly that z is one of the counted points
LawParLatticePoints(a, b, c, S) ==
    LatCount(a, b, c) # -1 => Cardinality({ p \in S : OnClosed(a, b, p) /\ ZCmp(p, c) = 0 }) <= LatCount(a, b, c)
\* an arc shrunk around an interior lattice point p meets the parallel through p exactly once unless it bulges there
LawParShrunk(a, b, p) ==
    StrictlyWithinArc(a, b, p) =>
       \A M \in ShrinkMs :
          LET A == Shr(M, p, a)  B == Shr(M, p, b) IN
          /\ LatCount(A, B, LatOf(p)) >= 1 \/ OnEquatorCircle(a, b)
          /\ (~ShrunkBulgesNorth(a, b, p, M) /\ ~ShrunkBulgesSouth(a, b, p, M) /\ ~OnEquatorCircle(a, b)) =>
                (LatCount(A, B, LatOf(p)) = 1 /\ Straddles(A, B, LatOf(p)))
=============================================================================

--------------------------------- MODULE EFT ---------------------------------
(***************************************************************************)
(* X04: the error-free transformations and compensated kernels of          *)
(* uxarray/utils/computing.py, transcribed operation by operation over the *)
(* toy format of FloatToy.tla, and their contracts, which TLC proves over  *)
(* ALL operands in scope:                                                  *)
(*   TwoSum (Knuth)        x = fl(a+b),  x + y = a + b exactly             *)
(*   FastTwoSum (Dekker)   the same, PROVIDED |a| >= |b| (and TLC refutes  *)
(*                         it without the premise: the model can fail)     *)
(*   Split (Veltkamp)      hi + lo = a, hi and lo of half width            *)
(*   TwoSquare (Rump)      P = fl(a*a),  P + p = a*a exactly               *)
(*   TwoProdFMA            x = fl(a*b),  x + y = a*b exactly               *)
(*   ErrFmac (3FMA)        x = fma(a,b,c), x + y + z = a*b + c exactly,    *)
(*                         and its inner FastTwoSum premise always holds   *)
(*   Fmms (Kahan)          fl-error of a*b - c*d at most 3/2 ulp           *)
(* The second half of the module generates the float64 input SHAPES for    *)
(* the conformance run (JudgeEFT.tla judges the records).                  *)
(***************************************************************************)
EXTENDS FloatToy, Sequences, FiniteSets, TLC

S == (P + 1) \div 2                 \* Veltkamp's split point: ceil(P / 2)  (27 for binary64)
SplitC == Pow2(S) + 1

TwoSum(a, b) == LET x == Add(a, b)
                    z == Sub(x, a)
                    y == Add(Sub(a, Sub(x, z)), Sub(b, z))
                IN <<x, y>>
FastTwoSum(a, b) == LET x == Add(a, b)
                        bt == Sub(x, a)
                        y == Sub(b, bt)
                    IN <<x, y>>
Split(a) == LET y == Mul(SplitC, a)
                x == Sub(y, Sub(y, a))
            IN <<x, Sub(a, x)>>
TwoProdFMA(a, b) == LET x == Mul(a, b) IN <<x, Fma(a, b, -x)>>
\* _two_square:  P = Aa*Aa; A, a = split(Aa); p = a*a - ((P - A*A) - 2*a*A)
TwoSquare(v) == LET Pp == Mul(v, v)
                    hl == Split(v)
                    A  == hl[1]
                    l  == hl[2]
                IN <<Pp, Sub(Mul(l, l), Sub(Sub(Pp, Mul(A, A)), Mul(Mul(2, l), A)))>>
\* _err_fmac
ErrFmacParts(a, b, c) ==
    LET x  == Fma(a, b, c)
        u  == TwoProdFMA(a, b)
        al == TwoSum(c, u[2])
        be == TwoSum(u[1], al[1])
        ga == Add(Sub(be[1], x), be[2])
    IN [ x |-> x, gamma |-> ga, alpha2 |-> al[2], yz |-> FastTwoSum(ga, al[2]) ]
\* _fmms (Kahan's 2 x 2 determinant with FMA)
Fmms(a, b, c, d) == LET cd == Mul(c, d)
                        err == Fma(-c, d, cd)
                        dop == Fma(a, b, -cd)
                    IN Add(dop, err)

VARIABLES a, b, c, d
vars == <<a, b, c, d>>
Stay == UNCHANGED vars

PairInit   == a \in Floats /\ b \in Floats /\ c = 0 /\ d = 0
TripleInit == a \in Floats /\ b \in Floats /\ c \in Floats /\ d = 0
PosFloats  == { x \in Floats : x >= 0 }
QuadInit   == a \in PosFloats /\ b \in PosFloats /\ c \in Floats /\ d \in PosFloats

FormatSane == (b = 0 /\ c = 0) => RNSane(a) /\ RNSane(a * SplitC) /\ RNSane(a * a)

TwoSumExact == Finite(a + b) =>
    LET r == TwoSum(a, b) IN r[1] = RN(a + b) /\ r[1] + r[2] = a + b /\ IsFloat(r[2])
FastTwoSumExact == (Finite(a + b) /\ Abs(a) >= Abs(b)) =>
    LET r == FastTwoSum(a, b) IN r[1] = RN(a + b) /\ r[1] + r[2] = a + b /\ IsFloat(r[2])
\* the same WITHOUT the premise: must be violated (the configuration that checks it expects so)
FastTwoSumNoPremise == Finite(a + b) =>
    LET r == FastTwoSum(a, b) IN r[1] + r[2] = a + b
\* in radix 2 the premise can be weakened to "the exponent of a is at least that of b"
FastTwoSumExponent == (Finite(a + b) /\ Ulp(a) >= Ulp(b) /\ a # 0) =>
    LET r == FastTwoSum(a, b) IN r[1] + r[2] = a + b

RECURSIVE Tz(_)
Tz(n) == IF n % 2 = 1 THEN 1 ELSE 2 * Tz(n \div 2)          \* largest power of two dividing n > 0
Ulp2(x) == Tz(Abs(x))
SplitExact == (b = 0 /\ Finite(SplitC * a)) =>
    LET r == Split(a) IN
    /\ r[1] + r[2] = a /\ IsFloat(r[1]) /\ IsFloat(r[2])
    \* half width: hi has at most P - S significant bits, lo at most S - 1 (its sign carries one bit)
    /\ (r[1] # 0 => (Abs(r[1]) \div Ulp2(r[1])) < Pow2(P - S))
    /\ Abs(r[2]) <= Pow2(S - 1) * Ulp(a)
TwoSquareExact == (b = 0 /\ Finite(SplitC * a) /\ Finite(a * a)) =>
    LET r == TwoSquare(a) IN r[1] = RN(a * a) /\ r[1] + r[2] = a * a
TwoProdExact == Finite(a * b) =>
    LET r == TwoProdFMA(a, b) IN r[1] = RN(a * b) /\ r[1] + r[2] = a * b /\ IsFloat(r[2])
ErrFmacScope == Finite(a * b) /\ Finite(a * b + c) /\ Finite(Abs(a * b) + Abs(c))
\* the premise of the inner FastTwoSum (the code raises ValueError otherwise)
ErrFmacPremise == ErrFmacScope => LET r == ErrFmacParts(a, b, c) IN Abs(r.gamma) >= Abs(r.alpha2)
ErrFmacExact == ErrFmacScope =>
    LET r == ErrFmacParts(a, b, c) IN
    /\ r.x = RN(a * b + c)
    /\ r.x + r.yz[1] + r.yz[2] = a * b + c
\* |fmms - (ab - cd)| <= 3/2 ulp(ab - cd)  (ulp of the exact value's binade), i.e. twice the error <= 3 ulp
FmmsAccurate == (Finite(a * b) /\ Finite(c * d) /\ Finite(a * b - c * d) /\ a * b - c * d # 0) =>
    2 * Abs(Fmms(a, b, c, d) - (a * b - c * d)) <= 3 * Ulp(a * b - c * d)

(* ---- float64 input shapes for the conformance run ------------------------------------------ *)
\* a binary64 value is  s * (hi * 2^30 + lo) * 2^e  with hi < 2^23, lo < 2^30 (limbs stay below 2^30);
\* normalised when hi >= 2^22; e = exponent - 52 >= -1074
Mant(n) == CASE n = "one"    -> <<4194304, 0>>                  \* 1.000...0  (a power of two)
             [] n = "ones"   -> <<8388607, 1073741823>>         \* 1.111...1
             [] n = "alt10"  -> <<5592405, 715827882>>          \* 1.0101...
             [] n = "alt01"  -> <<6990506, 357913941>>          \* 1.1010...
             [] n = "lowbit" -> <<4194304, 1>>                  \* 1 + 2^-52
             [] n = "half"   -> <<8388607, 1006632960>>         \* upper 27 bits set, lower 26 clear
             [] n = "halfp1" -> <<4194304, 67108865>>           \* 1 + 2^-26 + 2^-52  (straddles the split point)
             [] n = "tie"    -> <<4194304, 33554432>>           \* 1 + 2^-27  (a tie of the split)
             [] n = "rnd1"   -> <<4805731, 912345677>>
             [] n = "rnd2"   -> <<7654321, 123456789>>
             [] n = "zero"   -> <<0, 0>>
             [] n = "sub1"   -> <<0, 1>>                        \* the smallest subnormal
             [] n = "subm"   -> <<1048575, 1073741821>>         \* a large subnormal
IsSub(n)  == n \in {"sub1", "subm"}
IsZero(n) == n = "zero"
CONSTANTS Pats,      \* mantissa patterns of this run
          Gaps       \* exponent gaps between the two operands
Bases == {0, 900, -960}                       \* exponent of the first operand: ordinary, near overflow, near underflow
Flt(n, sg, ex) == [ s |-> IF IsZero(n) THEN 0 ELSE sg, hi |-> Mant(n)[1], lo |-> Mant(n)[2],
                    e |-> IF IsSub(n) \/ IsZero(n) THEN -1074 ELSE ex - 52 ]
\* |x| >= |y|, decided on the representation
AbsGE(x, y) == IF y.s = 0 THEN TRUE ELSE IF x.s = 0 THEN FALSE
               ELSE LET nx == x.hi >= 4194304  ny == y.hi >= 4194304 IN
                    IF nx /\ ny THEN x.e > y.e \/ (x.e = y.e /\ (x.hi > y.hi \/ (x.hi = y.hi /\ x.lo >= y.lo)))
                    ELSE IF nx THEN TRUE ELSE IF ny THEN FALSE
                    ELSE x.hi > y.hi \/ (x.hi = y.hi /\ x.lo >= y.lo)
Norm(x) == x.hi >= 4194304
\* premises of the product identities: the error term's last bit is not below 2^-1074, nothing overflows
ProdScope(x, y) == x.s = 0 \/ y.s = 0 \/ (Norm(x) /\ Norm(y) /\ x.e + y.e >= -1074 /\ x.e + y.e + 106 <= 1023)
SplitScope(x)   == x.e + 53 + 28 <= 1023
SquareScope(x)  == SplitScope(x) /\ ProdScope(x, x)

ShapeInit == a \in Pats /\ b \in Pats /\ c = 0 /\ d = 0
ShapeNext == /\ d = 0 /\ d' = 1 /\ UNCHANGED <<a, b>>
             /\ c' \in [ gap : Gaps, sa : {-1, 1}, sb : {-1, 1}, base : Bases, third : {"rnd2", "ones", "lowbit"}, gap3 : {0, 27, 54} ]
ShapeX == Flt(a, c.sa, c.base)
ShapeY == Flt(b, c.sb, c.base - c.gap)
\* near the product x*y: cancellation in fma / fmms (ordinary exponents; elsewhere the product is out of range anyway)
ShapeZ == Flt(c.third, -c.sa, IF c.base = 0 THEN -c.gap - c.gap3 ELSE c.base)
\* the third operand only varies for the ordinary base and two gaps (the triple functions are costlier)
ShapeKeep == c.base = 0 \/ (c.third = "rnd2" /\ c.gap3 = 0)
ShapeEmit == (d = 1 /\ ShapeKeep) =>
    PrintT(<<"S", [ x |-> ShapeX, y |-> ShapeY, z |-> ShapeZ,
                    tag |-> <<a, b, c.gap, c.sa, c.sb, c.base, c.third, c.gap3>>,
                    x_ge_y |-> AbsGE(ShapeX, ShapeY), prod_scope |-> ProdScope(ShapeX, ShapeY),
                    split_scope |-> SplitScope(ShapeX), square_scope |-> SquareScope(ShapeX),
                    fma_scope |-> ProdScope(ShapeX, ShapeY) /\ ShapeX.e + ShapeY.e >= -1074 + 53 /\ Abs(c.base) < 400 ]>>)
\* the generator covers what it is meant to cover (vacuity guard, checked on the emitting states)
ShapeSane == d = 1 => /\ ShapeX.hi < 8388608 /\ ShapeX.lo < 1073741824 /\ ShapeX.e >= -1074
                      /\ ShapeY.hi < 8388608 /\ ShapeY.lo < 1073741824 /\ ShapeY.e >= -1074
                      /\ ShapeX.e <= 971 /\ ShapeY.e <= 971 /\ ShapeZ.e <= 971 /\ ShapeZ.e >= -1074
                      /\ (AbsGE(ShapeX, ShapeY) \/ AbsGE(ShapeY, ShapeX))

\* vectors for the compensated sums / dot products / norms: families indexed by length and gap
VecPat(k) == CASE k % 5 = 0 -> "rnd1" [] k % 5 = 1 -> "ones" [] k % 5 = 2 -> "alt10" [] k % 5 = 3 -> "lowbit" [] OTHER -> "rnd2"
VecFamilies == {"graded", "cancel", "equal", "tiny_tail", "withzero", "allzero"}
Vec(fam, n, g) ==
    CASE fam = "graded"    -> [ k \in 1..n |-> Flt(VecPat(k), IF k % 2 = 0 THEN -1 ELSE 1, -(g * (k - 1))) ]
      [] fam = "cancel"    -> [ k \in 1..n |-> IF k % 2 = 1 THEN Flt(VecPat(k \div 2), 1, IF k = n /\ n % 2 = 1 THEN -g - g ELSE 0)
                                               ELSE Flt(VecPat((k - 1) \div 2), -1, IF k % 4 = 0 THEN -g ELSE 0) ]
      [] fam = "equal"     -> [ k \in 1..n |-> Flt("alt01", 1, g) ]
      [] fam = "tiny_tail" -> [ k \in 1..n |-> IF k = 1 THEN Flt("one", 1, g) ELSE Flt(VecPat(k), 1, -53) ]
      [] fam = "allzero"   -> [ k \in 1..n |-> Flt("zero", 1, 0) ]
      [] fam = "withzero"  -> [ k \in 1..n |-> IF k = 2 THEN Flt("zero", 1, 0) ELSE Flt(VecPat(k), -1, -(g \div 2)) ]
\* the total exponent spread of a vector stays below ~150 bits (the judge's multi-limb recursion is bounded by TLC's stack)
VecGap(g, n) == IF g * (n - 1) > 150 THEN 150 \div (n - 1) ELSE g
VecInit == a \in VecFamilies /\ b \in {2, 3, 5, 8} /\ c \in Gaps /\ d = 2
VecEmit == d = 2 => PrintT(<<"W", [ fam |-> a, n |-> b, gap |-> c, v |-> Vec(a, b, VecGap(c, b)), w |-> Vec("graded", b, VecGap(c, b) \div 3) ]>>)
=============================================================================

----------------------------- MODULE BoundsCases -----------------------------
(***************************************************************************)
(* C13 generator: TLC enumerates convex counter-clockwise faces and prints *)
(* each one inside the property's quantifier together with its exact       *)
(* expected bounds (BoundsSpec).                                           *)
(*                                                                         *)
(* Mode "lattice": faces grow corner by corner on the primitive directions *)
(*   of the lattice |c| <= K.  <<a>> -> every triangle <<a, b, c>> ->      *)
(*   every convex extension <<.., d>> up to MaxN corners.  Ordered         *)
(*   sequences are enumerated, so every start corner of every face occurs, *)
(*   and the lattice is closed under the 24 cube rotations, so every       *)
(*   rotated copy occurs too.  Deterministic thinning (hashes of the       *)
(*   corner codes, offset by Seed): one in PairMod pairs <<a, b>> and one  *)
(*   in PreMod triangles are built at all, one in GrowMod extensions too,   *)
(*   one in FamMod one-hemisphere faces and one in PlainMod equator-       *)
(*   touching faces are emitted.  All moduli 1 = the complete scope.       *)
(* Mode "file": faces read from ndjson (catalogue 5..8-gons under Rot24    *)
(*   and start corner); TLC decides which are inside the quantifier.       *)
(***************************************************************************)
EXTENDS BoundsSpec, TLC, Json, IOUtils

CONSTANTS K, MaxN, Mode, PairMod, PreMod, PlainMod, FamMod, GrowMod, Seed

Dirs == { v \in Vec(K) : Primitive(v) }
Code(v) == (v[1] + K) * (2 * K + 1) * (2 * K + 1) + (v[2] + K) * (2 * K + 1) + (v[3] + K)
P1 == <<31, 37, 41, 43, 47, 53, 59, 61>>
P2 == <<67, 71, 73, 79, 83, 89, 97, 101>>
RECURSIVE HSum(_, _, _)
HSum(f, P, i) == IF i > Len(f) THEN 0 ELSE Code(f[i]) * P[i] + HSum(f, P, i + 1)
H1(f) == (HSum(f, P1, 1) + Seed) % 100003
H2(f) == (HSum(f, P2, 1) + 7 * Seed) % 100019

FileFaces == IF Mode = "file" THEN ndJsonDeserialize(IOEnv.FACE_FILE) ELSE <<>>

VARIABLES face, fid

\* faces strictly inside one hemisphere are the regime of real meshes and are rare on a coarse lattice:
\* they are thinned by FamMod, the faces touching or crossing the equator by PlainMod
Keep(f) == IF Hemisphere(f) # "Straddles" THEN H1(f) % FamMod = 0 ELSE H1(f) % PlainMod = 0

Init ==
    IF Mode = "file"
    THEN \E k \in 1..Len(FileFaces) : face = FileFaces[k].f /\ fid = FileFaces[k].id
    ELSE \E a \in Dirs : face = <<a>> /\ fid = ""

Next ==
    /\ Mode = "lattice"
    /\ fid' = fid
    /\ \/ /\ Len(face) = 1
          /\ \E b \in Dirs : /\ IsArc(face[1], b)
                             /\ H2(<<face[1], b>>) % PairMod = 0
                             /\ \E c \in Dirs : /\ Det(face[1], b, c) > 0
                                                /\ H2(<<face[1], b, c>>) % PreMod = 0
                                                /\ face' = <<face[1], b, c>>
       \/ /\ Len(face) >= 3
          /\ Len(face) < MaxN
          /\ \E d \in Dirs : /\ Det(face[Len(face)], d, face[1]) > 0
                             /\ H2(Append(face, d)) % GrowMod = 0
                             /\ ConvexCCW(Append(face, d))
                             /\ face' = Append(face, d)

Tops(f) == { << i, CircleTop(EdgeA(f, i), EdgeB(f, i))[1], CircleTop(EdgeA(f, i), EdgeB(f, i))[2] >> :
                i \in { k \in 1..Len(f) : BulgeN(f, k) } }
Bots(f) == { << i, CircleTop(EdgeA(f, i), EdgeB(f, i))[1], CircleTop(EdgeA(f, i), EdgeB(f, i))[2] >> :
                i \in { k \in 1..Len(f) : BulgeS(f, k) } }

Case(f) ==
    LET amax == AttainMax(f)
        amin == AttainMin(f)
        encl == EnclosesPole(f)
    IN
    [ f |-> f, tops |-> Tops(f), bots |-> Bots(f),
      latmax |-> FeatLatMax(f, CHOOSE ft \in amax : TRUE), latmin |-> FeatLatMin(f, CHOOSE ft \in amin : TRUE),
      amax |-> amax, amin |-> amin,
      lon |-> IF encl THEN <<"full">>
              ELSE <<"iv", CHOOSE i \in WestSet(f) : TRUE, CHOOSE i \in EastSet(f) : TRUE>>,
      wrap |-> IF encl THEN "full" ELSE WrapExpected(f),
      poles |-> <<PoleStatus(f, 1), PoleStatus(f, -1)>>,
      fams |-> Families(f), id |-> fid ]

\* the exact bounds are themselves consistent (a sanity theorem about the oracle, checked on every face):
\* minimum <= every corner <= maximum, a face enclosing a pole reports that pole, and the
\* west-most / east-most corners exist exactly when the quantifier says so
OracleSane ==
    (Len(face) >= 3 /\ InQuantifier(face)) =>
        LET mx == LatMaxVal(face)
            mn == LatMinVal(face)
        IN
        /\ \A j \in 1..Len(face) : /\ LatValCmp(mn, LatOfCorner(face[j])) <= 0
                                   /\ LatValCmp(mx, LatOfCorner(face[j])) >= 0
        /\ PoleStatus(face, 1) \in {"Inside", "Corner"} <=> LatValCmp(mx, LatOfPole(1)) = 0
        /\ PoleStatus(face, -1) \in {"Inside", "Corner"} <=> LatValCmp(mn, LatOfPole(-1)) = 0
        /\ ~(PoleStatus(face, 1) = "Inside" /\ PoleStatus(face, -1) = "Inside")
        /\ EnclosesPole(face) \/ (WestSet(face) # {} /\ EastSet(face) # {})
        \* an arc shorter than 180 degrees cannot contain both the top and the bottom of its circle
        /\ \A i \in 1..Len(face) : ~(BulgeN(face, i) /\ BulgeS(face, i))

Emit ==
    Len(face) >= 3 =>
      IF InQuantifier(face)
      THEN (Mode = "file" \/ Keep(face)) => PrintT(<<"CASE", Case(face)>>)
      ELSE Mode = "file" => PrintT(<<"SKIP", fid>>)
=============================================================================

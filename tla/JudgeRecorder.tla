--------------------------- MODULE JudgeRecorder ---------------------------
(***************************************************************************)
(* Judges the records of the recorder run (harness/verif_recorder.py): the *)
(* repository's own tests executed with every Grid they create observed.   *)
(* One ndjson line per test: [test, grids, checked, bad, tmpl].            *)
(* Clauses (the same as in TraceGridLazy, on histories the existing suite  *)
(* performs):                                                              *)
(*   StoredFresh  every variable derived through the public interface on   *)
(*                any grid of the test equals what a fresh grid built from *)
(*                the same dataset derives                                 *)
(*   Templates    module-level constants unchanged by the test             *)
(***************************************************************************)
EXTENDS Integers, Sequences, Json, IOUtils, TLC

Recs == ndJsonDeserialize(IOEnv.REC_FILE)

VARIABLE i

Init == i \in 1..Len(Recs)
Next == UNCHANGED i

Failed(r) ==
  LET c == [ StoredFresh |-> r.bad = <<>>, Templates |-> r.tmpl = <<>> ]
  IN { k \in DOMAIN c : ~c[k] }

Judge == \A k \in Failed(Recs[i]) : PrintT(<< "V", i, k >>)
=============================================================================

---------------------------- MODULE DimsProcess ----------------------------
(***************************************************************************)
(* C06, process-global state across grids.  ux.open_dataset(grid, data)    *)
(* labels the data file's dimensions with the grid's "source dimension"    *)
(* dictionary (nodeCount -> n_node, ...), dropping the entries the data    *)
(* file does not have; a dimension the dictionary does not know is matched *)
(* by LENGTH, n_face first.  What a grid B opened later reports must not   *)
(* depend on what was opened before in the same process: a variable stored *)
(* on B's node dimension is node-centred and integrate must reject it,     *)
(* also when B has as many nodes as faces; face-centred variables          *)
(* integrate to the weighted sum.                                          *)
(*                                                                         *)
(* State: per format, the module-level dictionary (the set of element      *)
(* kinds it still maps).  DictScope = "per_grid": every grid gets a fresh  *)
(* dictionary (intended).  DictScope = "module": the grid is handed the    *)
(* module-level dictionary itself -- TLC must refute NodeDataRejected and  *)
(* TemplatesConstant for it.  The state carries the history; the complete  *)
(* histories are replayed with real files, and the recorded traces are     *)
(* judged against the intended machine (TrJudge).                          *)
(***************************************************************************)
EXTENDS Integers, Sequences, FiniteSets, TLC, Json, IOUtils

CONSTANTS DictScope,     \* "per_grid" | "module"
          MaxOpens

Fmts == {"esmf", "ugrid", "scrip"}
Full(fmt) == IF fmt = "scrip" THEN {"face"} ELSE {"node", "face"}      \* element kinds the format's dictionary maps
\* data files: which element kinds their variables live on (a SCRIP source has no node dimension to name)
DataKinds(fmt) == IF fmt = "scrip" THEN { {"face"} } ELSE { {"face"}, {"node"}, {"face", "node"} }
OpenActs == UNION { { <<fmt, d>> : d \in DataKinds(fmt) } : fmt \in Fmts }

VARIABLES tmpl, hist, ti
vars == <<tmpl, hist, ti>>
InitTmpl == [ fmt \in Fmts |-> Full(fmt) ]

\* opening <<fmt, data>> with the dictionary dct: entries the data file lacks are dropped; a variable on an
\* element kind the dictionary no longer maps is matched by length -- on a grid with as many nodes as faces, n_face
OpenWith(dct, data) ==
    LET kept == dct \cap data IN
    [ dict |-> kept,
      vars |-> { << v, IF v \in kept THEN v ELSE "face" >> : v \in data } ]          \* <<stored on, labelled as>>
Outcome(labelled) == IF labelled = "face" THEN "value" ELSE "rejected"
Apply(t, a) ==
    LET dct == IF DictScope = "module" THEN t[a[1]] ELSE Full(a[1])
        o   == OpenWith(dct, a[2])
    IN [ tmpl |-> IF DictScope = "module" THEN [ t EXCEPT ![a[1]] = o.dict ] ELSE t,
         res  |-> { << vl[1], Outcome(vl[2]) >> : vl \in o.vars } ]                   \* <<stored on, integrate outcome>>

Init == tmpl = InitTmpl /\ hist = <<>> /\ ti = 0
Next == /\ Len(hist) < MaxOpens /\ ti' = ti
        /\ \E a \in OpenActs : /\ tmpl' = Apply(tmpl, a).tmpl
                               /\ hist' = Append(hist, [ act |-> a, res |-> Apply(tmpl, a).res ])
Spec == Init /\ [][Next]_vars

NodeDataRejected  == \A k \in 1..Len(hist) : \A r \in hist[k].res : r[1] = "node" => r[2] = "rejected"
FaceDataIntegrated == \A k \in 1..Len(hist) : \A r \in hist[k].res : r[1] = "face" => r[2] = "value"
TemplatesConstant == tmpl = InitTmpl
HistoryFree == \A j, k \in 1..Len(hist) : hist[j].act = hist[k].act => hist[j].res = hist[k].res
EmitFull == Len(hist) = MaxOpens => PrintT(<<"H", hist>>)

(* ---- recorded traces ------------------------------------------------------------------------- *)
\* one line per history: [ id, steps : Seq([ fmt, data : Seq(kind), obs : Seq(<<stored on, outcome>>), templates_changed ]) ]
\* outcome \in {"value", "wrong_value", "rejected", "raised_other"}
Recs == ndJsonDeserialize(IOEnv.REC_FILE)
TrInit == ti \in 1..Len(Recs) /\ tmpl = InitTmpl /\ hist = <<>>
TrNext == FALSE /\ UNCHANGED vars
ToSet(q) == { q[k] : k \in 1..Len(q) }
RECURSIVE Walk(_, _, _, _)
Walk(steps, k, t, bad) ==
    IF k > Len(steps) THEN bad
    ELSE LET a == << steps[k].fmt, ToSet(steps[k].data) >>
             r == Apply(t, a)
             obs == { << steps[k].obs[j][1], steps[k].obs[j][2] >> : j \in 1..Len(steps[k].obs) }
             b1 == { << k, IF e[1] = "node" THEN "NodeDataRejected" ELSE "FaceDataIntegrated" >> : e \in (r.res \ obs) }
             b2 == IF steps[k].templates_changed THEN { << k, "TemplatesConstant" >> } ELSE {}
         IN Walk(steps, k + 1, r.tmpl, bad \cup b1 \cup b2)
TrJudge == LET bad == Walk(Recs[ti].steps, 1, InitTmpl, {}) IN
           bad = {} \/ PrintT(<<"V", Recs[ti].id, bad>>)
=============================================================================

----------------------------- MODULE TraceCoord -----------------------------
(***************************************************************************)
(* Validates traces recorded from real Grids against CoordLazy.            *)
(*                                                                         *)
(* One ndjson line per replayed history:                                   *)
(*   id     string                                                         *)
(*   src    the source descriptor (a member of CoordLazy!Sources)          *)
(*   init   {var: tag} of the coordinate variables right after construction*)
(*   steps  sequence of                                                    *)
(*            act      a coordinate property name, or "normalize"          *)
(*            tags     {var: tag} of every coordinate variable in Grid._ds *)
(*                     after the call (the frame each array is really in,  *)
(*                     decided numerically against the lattice)            *)
(*            ret      tag of the array the getter returned (absent for    *)
(*                     "normalize" and when the call raised)               *)
(*            changed  variables whose values changed during the call      *)
(*            err      present iff the call raised                         *)
(*                                                                         *)
(* Normative part (CoordLazy with MechIntended): the materialised set      *)
(* grows monotonically, the accessed property is materialised and          *)
(* returned, every present variable and every returned array carries a tag *)
(* allowed by OkTags (a function of the source and of whether              *)
(* normalisation ran: so the observation is a function of the source, not  *)
(* of the history), normalisation changes lengths only.  Which OTHER       *)
(* variables an access materialises is descriptive: the recorded set is    *)
(* taken as input.                                                         *)
(*                                                                         *)
(* Descriptive part (CoordLazy with MechObserved): the recorded stores are *)
(* compared with the stores the transcription of the code predicts; a      *)
(* difference is model drift (<<"D", ...>>), not a violation.  Each        *)
(* violation carries whether MechObserved predicted exactly that tag       *)
(* there (counterexample of the model reproduced by the code).             *)
(*                                                                         *)
(* Verdict of a record: <<"V", id, {<<clause, var, tag, first step,        *)
(* predicted>>}>>; step 0 is the state after construction.                 *)
(***************************************************************************)
EXTENDS Integers, Sequences, FiniteSets, TLC, Json, IOUtils, TLCExt

CL == INSTANCE CoordLazy WITH Mech <- "unused", src <- "unused", store <- "unused",
                              norm <- "unused", nrmRan <- "unused"

Recs    == ndJsonDeserialize(IOEnv.REC_FILE)
Block   == 16
NBlocks == (Len(Recs) + Block - 1) \div Block

VARIABLE i      \* < 0: block marker, > 0: record index

Has(r, f)  == f \in DOMAIN r
Range(s)   == { s[j] : j \in DOMAIN s }
ObsStore(o) == [v \in CL!Var |-> IF v \in DOMAIN o THEN o[v] ELSE "none"]

Tags(r, k)  == IF k = 0 THEN r.init ELSE r.steps[k].tags
Ran(r, k)   == \E j \in 1..k : r.steps[j].act = "normalize"

\* ---- normative clauses, per step -------------------------------------------------
TagFails(r, k) ==
  LET o == Tags(r, k)  ran == Ran(r, k) IN
  { <<CL!ClauseOf(r.src, v, o[v]), v, o[v]>> :
       v \in { w \in DOMAIN o : w \in CL!Var /\ o[w] \notin CL!OkTags(r.src, w, ran) } }

StepFails(r, k) ==
  IF k = 0
  THEN TagFails(r, 0)
       \cup { <<"SuppliedKept", v, "none">> : v \in { w \in CL!Var : CL!SuppliedVar(r.src, w) /\ w \notin DOMAIN r.init } }
  ELSE
  LET st   == r.steps[k]
      o    == st.tags
      prev == Tags(r, k - 1)
      ran  == Ran(r, k)
      isAcc == st.act # "normalize"
  IN TagFails(r, k)
     \cup (IF isAcc /\ Has(st, "ret") /\ st.ret \notin CL!OkTags(r.src, st.act, ran)
           THEN { <<CL!ClauseOf(r.src, st.act, st.ret), st.act, st.ret>> } ELSE {})
     \cup { <<"Monotone", v, "none">> : v \in (DOMAIN prev) \ (DOMAIN o) }
     \cup (IF isAcc /\ ~Has(st, "err") /\ st.act \notin DOMAIN o
           THEN { <<"AccessReturns", st.act, "none">> } ELSE {})
     \cup (IF Has(st, "err") THEN { <<"Raises", st.act, "error">> } ELSE {})
     \cup (IF isAcc THEN {}
           ELSE { <<"NormalizeLengthsOnly", v, o[v]>> :
                    v \in { w \in (DOMAIN prev) \cap (DOMAIN o) :
                              IF CL!IsCart(w) THEN CL!DirClass(o[w]) # CL!DirClass(prev[w])
                              ELSE (o[w] # prev[w] \/ w \in Range(st.changed)) } })

\* ---- the transcription of the code, run on the same history --------------------------
RECURSIVE Run(_, _, _, _, _)
Run(m, st, nm, steps, k) ==
  IF k > Len(steps) THEN <<>>
  ELSE LET a == steps[k].act
           e == IF a = "normalize" THEN CL!NormalizeEff(m, st, nm)
                ELSE [st |-> CL!AccessEff(m, st, a), norm |-> nm]
       IN <<e.st>> \o Run(m, e.st, e.norm, steps, k + 1)
\* element k + 1 is the predicted store after step k
Predicted(m, r) == <<CL!InitStore(r.src)>> \o Run(m, CL!InitStore(r.src), "unknown", r.steps, 1)

Verdict(r) ==
  LET n    == Len(r.steps)
      F    == [k \in 0..n |-> StepFails(r, k)]
      U    == UNION { F[k] : k \in 0..n }
      P    == Predicted(CL!MechObserved, r)
      first(f) == CHOOSE k \in 0..n : f \in F[k] /\ \A j \in 0..n : f \in F[j] => k <= j
  IN { <<f[1], f[2], f[3], first(f), (f[2] \in CL!Var /\ P[first(f) + 1][f[2]] = f[3])>> : f \in U }

Drift(r) ==
  LET n == Len(r.steps)
      P == Predicted(CL!MechObserved, r)
      D == [k \in 0..n |-> { <<v, ObsStore(Tags(r, k))[v], P[k + 1][v]>> :
                               v \in { w \in CL!Var : ObsStore(Tags(r, k))[w] # P[k + 1][w] } }]
      ks == { k \in 0..n : D[k] # {} }
  IN IF ks = {} THEN <<>>
     ELSE LET k0 == CHOOSE k \in ks : \A j \in ks : k <= j IN <<k0, D[k0]>>

Init == i \in { -b : b \in 1..NBlocks }
Next == /\ i < 0
        /\ i' \in { k \in 1..Len(Recs) : (k - 1) \div Block = (-i) - 1 }

Judge == i > 0 =>
           LET r == Recs[i]
               v == Verdict(r)
               d == Drift(r)
           IN /\ (v = {} \/ PrintT(<<"V", r.id, v>>))
              /\ (d = <<>> \/ PrintT(<<"D", r.id, d[1], d[2]>>))
=============================================================================

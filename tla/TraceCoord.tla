----------------------------- MODULE TraceCoord -----------------------------
(***************************************************************************)
(* Validates traces recorded from real Grids against CoordLazy.            *)
(*                                                                         *)
(* One ndjson line per replayed history:                                   *)
(*   id     string                                                         *)
(*   src    the source descriptor (a member of CoordLazy!Sources)          *)
(*   init   {var: tag} of the coordinate variables right after construction*)
(*   steps  sequence of                                                    *)
(*            act      a coordinate property name, "normalize", "chunk"    *)
(*                     (Grid.chunk()) or "recentre"                        *)
(*                     (construct_face_centers("cartesian average"))       *)
(*            fpos     which position the face-centre variables denote:    *)
(*                     "src" supplied direction, "cen" normalised mean of  *)
(*                     the corners, "mixed", "na" (also fpos0 for init)    *)
(*            tags     {var: tag} of every coordinate variable in Grid._ds *)
(*                     after the call (the frame each array is really in,  *)
(*                     decided numerically against the lattice)            *)
(*            ret      tag of the array the getter returned (absent for    *)
(*                     "normalize" and when the call raised)               *)
(*            changed  variables whose values changed during the call      *)
(*            err      present iff the call raised                         *)
(*                                                                         *)
(* Normative part (CoordLazy with MechIntended): the materialised set      *)
(* grows monotonically, the accessed property is materialised and          *)
(* returned, every present variable and every returned array carries a tag *)
(* allowed by OkTags (a function of the source and of whether              *)
(* normalisation ran: so the observation is a function of the source, not  *)
(* of the history), normalisation changes lengths only.  Which OTHER       *)
(* variables an access materialises is descriptive: the recorded set is    *)
(* taken as input.                                                         *)
(*                                                                         *)
(* Descriptive part (CoordLazy with MechObserved): the recorded stores are *)
(* compared with the stores the transcription of the code predicts; a      *)
(* difference is model drift (<<"D", ...>>), not a violation.  Each        *)
(* violation carries whether MechObserved predicted exactly that tag       *)
(* there (counterexample of the model reproduced by the code).             *)
(*                                                                         *)
(* Verdict of a record, printed when its last step has been consumed:      *)
(*   <<"V", id, {<<clause, var, tag, first step, predicted>>},             *)
(*     <<>> or <<first drifting step, {<<var, observed, model>>}>> >>      *)
(* step 0 is the state after construction.                                 *)
(***************************************************************************)
EXTENDS CoordMech, Integers, TLC, Json, IOUtils, TLCExt

Recs    == ndJsonDeserialize(IOEnv.REC_FILE)
Block   == 16
NBlocks == (Len(Recs) + Block - 1) \div Block

VARIABLE i      \* < 0: block marker, > 0: record index

HasF(r, f) == f \in DOMAIN r
Range(s)   == { s[j] : j \in DOMAIN s }
ObsStore(o) == [v \in Var |-> IF v \in DOMAIN o THEN o[v] ELSE "none"]

TagsAt(r, k)  == IF k = 0 THEN r.init ELSE r.steps[k].tags
FposAt(r, k)  == IF k = 0 THEN r.fpos0 ELSE r.steps[k].fpos     \* "src" | "cen" | "mixed" | "na"
Ran(r, k)   == \E j \in 1..k : r.steps[j].act = "normalize"
Rec(r, k)   == \E j \in 1..k : r.steps[j].act = "recentre"

\* ---- normative clauses, per step -------------------------------------------------
TagFails(r, k) ==
  LET o == TagsAt(r, k)  ran == Ran(r, k)  rec == Rec(r, k)  fp == FposAt(r, k) IN
  { <<ClauseOf(r.src, v, o[v]), v, o[v]>> :
       v \in { w \in DOMAIN o : w \in Var /\ o[w] \notin OkTags(r.src, w, ran, rec) } }
  \cup \* the face centres denote the supplied direction, and the centroid once construct_face_centers ran
     (IF r.src.face # "none" /\ fp # "na" /\ fp # OkFpos(r.src, rec)
      THEN { <<IF rec THEN "Recentred" ELSE "SamePoint", "face", fp>> } ELSE {})

StepFails(r, k) ==
  IF k = 0
  THEN TagFails(r, 0)
       \cup { <<"SuppliedKept", v, "none">> : v \in { w \in Var : SuppliedVar(r.src, w) /\ w \notin DOMAIN r.init } }
  ELSE
  LET st   == r.steps[k]
      o    == st.tags
      prev == TagsAt(r, k - 1)
      ran  == Ran(r, k)
      rec  == Rec(r, k)
      isAcc == st.act \in Var
  IN TagFails(r, k)
     \cup (IF isAcc /\ HasF(st, "ret") /\ st.ret \notin OkTags(r.src, st.act, ran, rec)
           THEN { <<ClauseOf(r.src, st.act, st.ret), st.act, st.ret>> } ELSE {})
     \cup { <<"Monotone", v, "none">> : v \in (DOMAIN prev) \ (DOMAIN o) }
     \cup (IF isAcc /\ ~HasF(st, "err") /\ st.act \notin DOMAIN o
           THEN { <<"AccessReturns", st.act, "none">> } ELSE {})
     \cup (IF HasF(st, "err") THEN { <<"Raises", st.act, "error">> } ELSE {})
     \cup (IF st.act # "normalize" THEN {}
           ELSE { <<"NormalizeLengthsOnly", v, o[v]>> :
                    v \in { w \in (DOMAIN prev) \cap (DOMAIN o) :
                              IF IsCart(w) THEN DirClass(o[w]) # DirClass(prev[w])
                              ELSE (o[w] # prev[w] \/ w \in Range(st.changed)) } })
     \cup (IF st.act # "chunk" THEN {}          \* chunking changes no value
           ELSE { <<"ChunkKeeps", v, o[v]>> :
                    v \in { w \in (DOMAIN prev) \cap (DOMAIN o) : o[w] # prev[w] \/ w \in Range(st.changed) } })
     \cup (IF st.act # "recentre" \/ HasF(st, "err") THEN {}    \* all five face-centre variables are (re)written
           ELSE { <<"AccessReturns", v, "none">> : v \in { w \in Var : KindOf(w) = "face" /\ w \notin DOMAIN o } })

\* ---- the trace machine -------------------------------------------------------------
\* One TLC state per recorded step (so validation is linear in the length of the trace):
\*   i      < 0: block marker; > 0: index of the record being validated
\*   k      number of steps consumed
\*   mst, mnorm, mfp   store, _normalized flag and face-centre position MechObserved predicts after k steps
\*   fails  {<<clause, var, tag, first step, predicted by MechObserved>>} so far
\*   dr     <<>> or <<first step at which the recorded store differs from mst, differences>>
VARIABLES k, mst, mnorm, mfp, fails, dr
vars == <<i, k, mst, mnorm, mfp, fails, dr>>

Known(fs)  == { <<f[1], f[2], f[3]>> : f \in fs }
Stamp(r, kk, st, fp, fs, old) ==
  old \cup { <<f[1], f[2], f[3], kk, IF f[2] \in Var THEN st[f[2]] = f[3] ELSE (f[2] = "face" /\ fp = f[3])>> : f \in (fs \ Known(old)) }
DriftAt(r, kk, st, fp) ==
  LET o == ObsStore(TagsAt(r, kk))
      d == { <<v, o[v], st[v]>> : v \in { w \in Var : o[w] # st[w] } }
           \cup (IF FposAt(r, kk) \notin {"na", fp} THEN { <<"face", FposAt(r, kk), fp>> } ELSE {})
  IN IF d = {} THEN <<>> ELSE <<kk, d>>

Init == /\ i \in { -b : b \in 1..NBlocks }
        /\ k = 0 /\ mst = <<>> /\ mnorm = "" /\ mfp = "" /\ fails = {} /\ dr = <<>>

Start == /\ i < 0
         /\ \E j \in { n \in 1..Len(Recs) : (n - 1) \div Block = (-i) - 1 } :
              LET r  == Recs[j]
                  st == InitStore(r.src)
                  fp == InitFpos(r.src)
              IN /\ i' = j
                 /\ k' = 0
                 /\ mst' = st
                 /\ mnorm' = "unknown"
                 /\ mfp' = fp
                 /\ fails' = Stamp(r, 0, st, fp, StepFails(r, 0), {})
                 /\ dr' = DriftAt(r, 0, st, fp)

Step == /\ i > 0
        /\ k < Len(Recs[i].steps)
        /\ LET r == Recs[i]
               a == r.steps[k + 1].act
               e == CASE a = "normalize" -> [NormalizeEff(MechObserved, mst, mnorm) EXCEPT !.st = @] @@ [fpos |-> mfp]
                      [] a = "recentre"  -> RecentreEff(MechObserved, mst, mfp) @@ [norm |-> mnorm]
                      [] a = "chunk"     -> [st |-> ChunkEff(MechObserved, mst), norm |-> mnorm, fpos |-> mfp]
                      [] OTHER           -> [st |-> AccessEff(MechObserved, mst, a), norm |-> mnorm, fpos |-> mfp]
           IN /\ i' = i
              /\ k' = k + 1
              /\ mst' = e.st
              /\ mnorm' = e.norm
              /\ mfp' = e.fpos
              /\ fails' = Stamp(r, k + 1, e.st, e.fpos, StepFails(r, k + 1), fails)
              /\ dr' = IF dr # <<>> THEN dr ELSE DriftAt(r, k + 1, e.st, e.fpos)

Next == Start \/ Step

\* verdict of a fully consumed trace (always TRUE; PrintT is the output channel)
Done  == i > 0 /\ k = Len(Recs[i].steps)
Judge == Done => PrintT(<<"V", Recs[i].id, fails, dr>>)
=============================================================================

---------------------------- MODULE GridLazyGen ----------------------------
(***************************************************************************)
(* Generator of histories for the conformance replay of GridLazy: the      *)
(* machine plus a history variable.  TLC enumerates every history of       *)
(* length MaxLen over the enabled alphabet (model checking mode) or random *)
(* long ones (-simulate) and prints each as <<"H", <<act, h, args>>...>>.  *)
(*                                                                         *)
(* Pairs(S): histories in which every step but the last is on handle 1 or, *)
(* when on another handle, belongs to the families in S ("two operations   *)
(* on different grids interfere only through process-global state").       *)
(***************************************************************************)
EXTENDS GridLazy

CONSTANTS MaxLen,       \* length of the generated histories
          OtherFams     \* action names allowed on handles other than 1 before the last step

VARIABLE hist

gvars == << vars, hist >>

GenInit == Init /\ hist = <<>>

GenNext ==
  /\ Len(hist) < MaxLen
  /\ Next
  /\ hist' = Append(hist, << last'.act, last'.h, last'.args >>)
  /\ (last'.h # 1 /\ Len(hist) + 1 < MaxLen) => last'.act \in OtherFams

\* the last step observes on handle 1 or 2; emitted once per complete history
Emit == Len(hist) = MaxLen => PrintT(<< "H", hist >>)

\* for -simulate: emit when the walk ends
EmitAt(n) == Len(hist) = n => PrintT(<< "H", hist >>)
=============================================================================

------------------------------ MODULE LatScan ------------------------------
(***************************************************************************)
(* C09, schedules clause: the parallel scan of the edges against a         *)
(* parallel (`for i in prange(n_edge)` in fast_constant_lat_intersections).*)
(*                                                                         *)
(* en edges, tn threads; every iteration belongs to one thread (`owner`,   *)
(* any assignment: static or dynamic scheduling), a thread runs its        *)
(* iterations in increasing order, and an iteration is two atomic steps:   *)
(*   Test  : read the z-classes of the edge's two end nodes relative to    *)
(*           the parallel (-1 south, 0 on it, +1 north), evaluate the      *)
(*           strict sign test into a thread-local flag                     *)
(*   Write : publish the flag                                              *)
(* Sound variant (Racy = FALSE, the code as written): the flag goes to     *)
(* mask[i], a slot no other iteration touches; the result is argwhere(mask)*)
(* Racy variant (Racy = TRUE, a plausible "optimisation"): hits are        *)
(* appended to a shared list through a shared counter that is read in Test *)
(* and written in Write.                                                   *)
(* TLC explores every interleaving.  ScheduleIndependent holds for the     *)
(* sound variant and is violated (lost update) for the racy one, so the    *)
(* model tells them apart.                                                 *)
(***************************************************************************)
EXTENDS Integers, Sequences, FiniteSets, TLC

CONSTANTS TMax, EMax, Racy,
          Representatives   \* BOOLEAN: edges take one z-class pair per case of the sign test instead of all nine

\* z-classes <<end 0, end 1>> an edge may have
AllPairs == { -1, 0, 1 } \X { -1, 0, 1 }
RepPairs == { << -1, 1 >>, << 1, -1 >>, << 0, 1 >>, << -1, 0 >>, << 0, 0 >>, << 1, 1 >> }
SignPairs == IF Representatives THEN RepPairs ELSE AllPairs

VARIABLES tn, en,       \* number of threads / edges of this run
          s0, s1,       \* z-class of the two end nodes of every edge relative to the parallel
          owner,        \* which thread runs iteration i
          cur, st, flag, loc,   \* per thread: current iteration, stage, local flag, local copy of the counter
          mask,         \* sound variant: one slot per edge
          out, cnt      \* racy variant: shared list and shared counter
vars == << tn, en, s0, s1, owner, cur, st, flag, loc, mask, out, cnt >>

Edges   == 1..en
Threads == 1..tn
Pad(f, n) == [ i \in 1..EMax |-> IF i <= n THEN f[i] ELSE 0 ]

Init == /\ tn \in 1..TMax /\ en \in 1..EMax
        /\ \E ab \in [1..en -> SignPairs], o \in [1..en -> 1..tn] :
              /\ s0 = Pad([ e \in 1..en |-> ab[e][1] ], en)
              /\ s1 = Pad([ e \in 1..en |-> ab[e][2] ], en)
              /\ owner = Pad(o, en)
        /\ cur = [ t \in 1..TMax |-> 0 ] /\ st = [ t \in 1..TMax |-> "idle" ]
        /\ flag = [ t \in 1..TMax |-> FALSE ] /\ loc = [ t \in 1..TMax |-> 0 ]
        /\ mask = [ i \in 1..EMax |-> 0 ]
        /\ out = [ i \in 1..EMax |-> 0 ] /\ cnt = 0

Mine(t)      == { i \in Edges : owner[i] = t /\ i > cur[t] }
NextOf(t)    == CHOOSE i \in Mine(t) : \A j \in Mine(t) : i <= j
\* the sign test of the specification: end nodes STRICTLY on opposite sides
Straddles(i) == s0[i] * s1[i] < 0

Test(t) == /\ st[t] = "idle" /\ Mine(t) # {}
           /\ LET i == NextOf(t) IN
                 /\ cur' = [ cur EXCEPT ![t] = i ]
                 /\ flag' = [ flag EXCEPT ![t] = Straddles(i) ]
                 /\ loc' = [ loc EXCEPT ![t] = cnt ]          \* only the racy variant uses it
           /\ st' = [ st EXCEPT ![t] = "tested" ]
           /\ UNCHANGED << tn, en, s0, s1, owner, mask, out, cnt >>

Write(t) == /\ st[t] = "tested"
            /\ st' = [ st EXCEPT ![t] = "idle" ]
            /\ IF ~flag[t] THEN UNCHANGED << mask, out, cnt >>
               ELSE IF ~Racy
               THEN mask' = [ mask EXCEPT ![cur[t]] = 1 ] /\ UNCHANGED << out, cnt >>
               ELSE /\ out' = [ out EXCEPT ![loc[t] + 1] = cur[t] ]
                    /\ cnt' = loc[t] + 1
                    /\ UNCHANGED mask
            /\ UNCHANGED << tn, en, s0, s1, owner, cur, flag, loc >>

Next == \E t \in Threads : Test(t) \/ Write(t)
Spec == Init /\ [][Next]_vars

Done     == \A t \in Threads : st[t] = "idle" /\ Mine(t) = {}
Result   == IF Racy THEN { out[k] : k \in 1..cnt } ELSE { i \in Edges : mask[i] = 1 }   \* argwhere + unique
Expected == { i \in Edges : Straddles(i) }                                        \* the sequential scan

TypeOK == /\ cnt \in 0..EMax
          /\ \A i \in 1..EMax : mask[i] \in {0, 1}
\* the final result does not depend on the schedule and equals the sequential sign test
ScheduleIndependent == Done => Result = Expected
\* no two iterations ever write the same slot (why the sound variant is sound)
DisjointWrites == \A t, u \in Threads : t # u /\ st[t] = "tested" /\ st[u] = "tested" => cur[t] # cur[u]
\* an edge with an end node ON the parallel is never selected
OnParallelNotSelected == Done => \A i \in Result : s0[i] # 0 /\ s1[i] # 0
=============================================================================

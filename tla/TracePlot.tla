----------------------------- MODULE TracePlot -----------------------------
(***************************************************************************)
(* C15, history part: validates traces recorded from the real objects      *)
(* against the ideal the cache machine PlotCache(MechIntended) implements  *)
(* (result = function of this call's arguments; nothing returned earlier   *)
(* changes), and explains each failure by the knobs of MechObserved.       *)
(*                                                                         *)
(* One ndjson line per trace: [ id, steps : Seq(step) ],                   *)
(*  step = [ ev  : the event (as in PlotMech),                             *)
(*           x   : the call raised,        rx : a fresh grid raises,       *)
(*           r   : index of the returned object (0: none),                 *)
(*           o   : Seq([g : geometry class, c : Seq(<<column, class>>)])   *)
(*                 - every object the caller holds, re-projected after     *)
(*                   this step,                                            *)
(*           rg, rc : geometry class and columns a FRESH grid returns for  *)
(*                 the same arguments (the reference) ]                    *)
(* Classes are small integers assigned by the harness to bitwise-equal     *)
(* projections (number of geometries, per-geometry vertices, data values). *)
(* Verdicts: <<"V", id, step, clause, predicted, knobs>>; predicted =       *)
(* MechObserved breaks the same clause at the same step, knobs = the       *)
(* single knobs whose intended value removes it.  <<"D", id, step,         *)
(* clause>> = predicted by MechObserved but not shown by the code (drift). *)
(***************************************************************************)
EXTENDS PlotMech, Integers, Json, IOUtils

Traces == ndJsonDeserialize(IOEnv.TRACE_FILE)
Block == 64
NBlocks == (Len(Traces) + Block - 1) \div Block

VARIABLE i

ColSet(c) == { <<c[j][1], c[j][2]>> : j \in 1..Len(c) }
ObjEq(a, b) == a.g = b.g /\ ColSet(a.c) = ColSet(b.c)

\* clauses of step q of trace t (prev = the objects as projected after step q - 1)
StepFailed(t, q) ==
    LET s == t.steps[q]
        ev == s.ev
        prev == IF q = 1 THEN <<>> ELSE t.steps[q - 1].o
        isEdit == ev.act = "Edit"
    IN (IF ~isEdit /\ s.x # s.rx THEN {"OutcomeOfThisCall"} ELSE {})
       \cup (IF ~isEdit /\ ~s.x /\ ~s.rx /\ s.r # 0 /\ s.o[s.r].g # s.rg THEN {"GeometryOfThisCall"} ELSE {})
       \cup (IF ~isEdit /\ ~s.x /\ ~s.rx /\ s.r # 0 /\ ColSet(s.o[s.r].c) # ColSet(s.rc) THEN {"DataOfThisCall"} ELSE {})
       \cup (IF \/ Len(s.o) < Len(prev)
                \/ \E j \in 1..Len(prev) : (~isEdit \/ j # ev.target) /\ j <= Len(s.o) /\ ~ObjEq(s.o[j], prev[j])
             THEN {"ReturnedNotMutated"} ELSE {})

\* the model along the same events
RECURSIVE RunTo(_, _, _)
RunTo(M, t, q) == IF q = 0 THEN St0 ELSE Step(RunTo(M, t, q - 1), t.steps[q].ev, M)
Predicted(M, t, q) == RunTo(M, t, q).bad
Explains(t, q, clause) == { kn \in Knobs : clause \notin Predicted(Flip(MechObserved, kn), t, q) }

Init == i \in { -b : b \in 1..NBlocks }
Next == /\ i < 0
        /\ i' \in { j \in 1..Len(Traces) : (j - 1) \div Block = (-i) - 1 }

Judge == i > 0 =>
    LET t == Traces[i] IN
    \A q \in 1..Len(t.steps) :
        LET f == StepFailed(t, q)
            p == IF f = {} /\ ~t.check_drift THEN {} ELSE Predicted(MechObserved, t, q)
        IN /\ \A c \in f : PrintT(<<"V", t.id, q, c, c \in p, IF c \in p THEN Explains(t, q, c) ELSE {}>>)
           /\ \A c \in p \ f : PrintT(<<"D", t.id, q, c>>)
=============================================================================

----------------------------- MODULE TracePlot -----------------------------
(***************************************************************************)
(* C15, history part: validates traces recorded from the real objects      *)
(* against the ideal the cache machine PlotCache(MechIntended) implements  *)
(* (result = function of this call's arguments; nothing returned earlier   *)
(* changes), and explains each failure by the knobs of MechObserved.       *)
(*                                                                         *)
(* One ndjson line per trace: [ id, steps : Seq(step) ],                   *)
(*  step = [ ev  : the event (as in PlotMech),                             *)
(*           x   : the call raised,        rx : a fresh grid raises,       *)
(*           r   : index of the returned object (0: none),                 *)
(*           o   : Seq([g : geometry class, c : Seq(<<column, class>>)])   *)
(*                 - every object the caller holds, re-projected after     *)
(*                   this step,                                            *)
(*           argok : (optional) the step was made through a plotting       *)
(*                 accessor and that passed on exactly ev's arguments,     *)
(*           rg, rc : geometry class and columns a FRESH grid returns for  *)
(*                 the same arguments (the reference) ]                    *)
(* Classes are small integers assigned by the harness to bitwise-equal     *)
(* projections (number of geometries, per-geometry vertices, data values). *)
(* Verdicts: <<"V", id, step, clause, label>>; label = the knob of         *)
(* MechObserved whose intended value removes the failure ("unexplained" if *)
(* MechObserved does not break that clause at that step).  <<"D", id,      *)
(* step, clause>> = predicted by MechObserved, not shown by the code.      *)
(***************************************************************************)
EXTENDS PlotMech, Integers, Json, IOUtils

Traces == ndJsonDeserialize(IOEnv.TRACE_FILE)
Block == 64
NBlocks == (Len(Traces) + Block - 1) \div Block

VARIABLE i

ColSet(c) == { <<c[j][1], c[j][2]>> : j \in 1..Len(c) }
ObjEq(a, b) == a.g = b.g /\ ColSet(a.c) = ColSet(b.c)

\* clauses of step q of trace t (prev = the objects as projected after step q - 1)
StepFailed(t, q) ==
    LET s == t.steps[q]
        ev == s.ev
        prev == IF q = 1 THEN <<>> ELSE t.steps[q - 1].o
        isEdit == ev.act = "Edit"
    IN (IF ~isEdit /\ s.x # s.rx THEN {"OutcomeOfThisCall"} ELSE {})
       \* the call went through a plotting accessor: it passed on exactly these arguments (argok)
       \cup (IF "argok" \in DOMAIN s /\ ~s.x /\ ~s.argok THEN {"AccessorArguments"} ELSE {})
       \cup (IF ~isEdit /\ ~s.x /\ ~s.rx /\ s.r # 0 /\ s.o[s.r].g # s.rg THEN {"GeometryOfThisCall"} ELSE {})
       \cup (IF ~isEdit /\ ~s.x /\ ~s.rx /\ s.r # 0 /\ ColSet(s.o[s.r].c) # ColSet(s.rc) THEN {"DataOfThisCall"} ELSE {})
       \cup (IF \/ Len(s.o) < Len(prev)
                \/ \E j \in 1..Len(prev) : (~isEdit \/ j # ev.target) /\ j <= Len(s.o) /\ ~ObjEq(s.o[j], prev[j])
             THEN {"ReturnedNotMutated"} ELSE {})
       \* the object handed out is one the caller already holds
       \cup (IF ~isEdit /\ ~s.x /\ s.r # 0 /\ s.r <= Len(prev) THEN {"FreshObject"} ELSE {})

\* the model along the same events
RECURSIVE RunTo(_, _, _)
RunTo(M, t, q) == IF q = 0 THEN St0 ELSE Step(RunTo(M, t, q - 1), t.steps[q].ev, M)
Predicted(M, t, q) == RunTo(M, t, q).bad
\* a call that raises where a fresh grid returns a value corresponds, in the model, to a call that
\* hands out an object the caller has edited (the cached frame no longer fits the data)
ModelClause(c) == IF c = "OutcomeOfThisCall" THEN "GeometryOfThisCall" ELSE c
KnobOrder == <<"gdfDataInto", "gdfReturned", "lineReturned", "polyReturnOnIndices", "sideTables", "gdfCmp">>
Flip2(M, a, b) == Flip(Flip(M, a), b)
\* the knob of MechObserved that explains failure c at step q: the first knob (in KnobOrder) whose
\* intended value alone removes it; a pair if no single knob does; "unexplained" if MechObserved
\* does not break the clause there at all
Label(t, q, c) ==
    LET mc == ModelClause(c) IN
    IF mc \notin Predicted(MechObserved, t, q) THEN "unexplained"
    ELSE LET S == { j \in 1..Len(KnobOrder) : mc \notin Predicted(Flip(MechObserved, KnobOrder[j]), t, q) }
         IN IF S # {} THEN KnobOrder[CHOOSE j \in S : \A x \in S : j <= x]
            ELSE LET P == { <<a, b>> \in (1..Len(KnobOrder)) \X (1..Len(KnobOrder)) :
                               a < b /\ mc \notin Predicted(Flip2(MechObserved, KnobOrder[a], KnobOrder[b]), t, q) }
                 IN IF P # {} THEN LET pr == CHOOSE x \in P : \A y \in P : x[1] < y[1] \/ (x[1] = y[1] /\ x[2] <= y[2])
                                   IN KnobOrder[pr[1]] \o "&" \o KnobOrder[pr[2]]
                    ELSE "several"

Init == i \in { -b : b \in 1..NBlocks }
Next == /\ i < 0
        /\ i' \in { j \in 1..Len(Traces) : (j - 1) \div Block = (-i) - 1 }

Judge == i > 0 =>
    LET t == Traces[i] IN
    \A q \in 1..Len(t.steps) :
        LET f == StepFailed(t, q)
            p == IF f = {} /\ ~t.check_drift THEN {} ELSE Predicted(MechObserved, t, q)
        IN /\ \A c \in f : PrintT(<<"V", t.id, q, c, Label(t, q, c)>>)
           /\ \A c \in p \ { ModelClause(x) : x \in f } : PrintT(<<"D", t.id, q, c>>)
=============================================================================

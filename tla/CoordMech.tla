----------------------------- MODULE CoordMech -----------------------------
(***************************************************************************)
(* The vocabulary and the mechanics of CoordLazy.tla as pure operators (no *)
(* variables, no constants), shared by the state machine (CoordLazy) and   *)
(* the trace validator (TraceCoord): coordinate variables, frame tags,     *)
(* source descriptors, the mechanism records MechIntended / MechObserved,  *)
(* the effect of each getter and of normalize_cartesian_coordinates on the *)
(* store as a function of the mechanism, and the tags the property allows. *)
(* See CoordLazy.tla for the meaning of the tags.                          *)
(***************************************************************************)
EXTENDS Naturals, Sequences, FiniteSets

(* ---- vocabulary ---------------------------------------------------------- *)
Kinds == {"node", "edge", "face"}
Sph   == {"lon", "lat"}
Cart  == {"x", "y", "z"}
VarTable ==
  { <<"node", "lon", "node_lon">>, <<"node", "lat", "node_lat">>,
    <<"node", "x", "node_x">>, <<"node", "y", "node_y">>, <<"node", "z", "node_z">>,
    <<"edge", "lon", "edge_lon">>, <<"edge", "lat", "edge_lat">>,
    <<"edge", "x", "edge_x">>, <<"edge", "y", "edge_y">>, <<"edge", "z", "edge_z">>,
    <<"face", "lon", "face_lon">>, <<"face", "lat", "face_lat">>,
    <<"face", "x", "face_x">>, <<"face", "y", "face_y">>, <<"face", "z", "face_z">> }
Var == { t[3] : t \in VarTable }
\* constant look-up tables (TLC evaluates them once)
NameTab == [k \in Kinds |-> [c \in Sph \cup Cart |-> (CHOOSE t \in VarTable : t[1] = k /\ t[2] = c)[3]]]
KindTab == [v \in Var |-> (CHOOSE t \in VarTable : t[3] = v)[1]]
CompTab == [v \in Var |-> (CHOOSE t \in VarTable : t[3] = v)[2]]
LonVars  == { v \in Var : CompTab[v] = "lon" }
LatVars  == { v \in Var : CompTab[v] = "lat" }
CartVars == { v \in Var : CompTab[v] \in Cart }
Name(k, c) == NameTab[k][c]
KindOf(v)  == KindTab[v]
CompOf(v)  == CompTab[v]
IsLon(v)   == v \in LonVars
IsLat(v)   == v \in LatVars
IsCart(v)  == v \in CartVars

Tags == {"none", "deg180", "deg360", "deg90", "unit", "raw", "scaled", "degrad", "bad"}

NodeProv   == {"lonlat", "xyz", "both"}
CentreProv == {"none", "lonlat", "xyz", "both"}
SuppliesSph(p)  == p \in {"lonlat", "both"}
SuppliesCart(p) == p \in {"xyz", "both"}

\* a source: provenance per element kind, longitude convention of every supplied
\* longitude, length of every supplied Cartesian vector (raw = one radius # 1)
Sources ==
  { s \in [ node : NodeProv, face : CentreProv, edge : CentreProv,
            lonconv : {"pm180", "z360"}, xyzlen : {"unit", "raw"} ] :
      /\ (s.lonconv = "z360" => \E k \in Kinds : SuppliesSph(s[k]))
      /\ (s.xyzlen = "raw"   => \E k \in Kinds : SuppliesCart(s[k])) }

SuppliedVar(s, v) == IF CompOf(v) \in Sph THEN SuppliesSph(s[KindOf(v)])
                                         ELSE SuppliesCart(s[KindOf(v)])

(* ---- mechanism knobs ------------------------------------------------------- *)
\* nodeFold        where the range folding of longitudes runs in the node_lon/node_lat
\*                 getters relative to deriving them from x, y, z
\* centreUnits     supplied centre lon/lat (degrees) -> x, y, z: converted to radians or not
\* centreNormalize supplied centre x, y, z -> lon/lat: normalised first or not
\* normCheck       which arrays normalize_cartesian_coordinates tests before deciding
\*                 that there is nothing to do
\* recentre        construct_face_centers("cartesian average"): always the normalised mean of
\*                 the corners, or the stored face_x/y/z again when there are any
MechIntended == [ nodeFold |-> "after_populate",  centreUnits |-> "converted",
                  centreNormalize |-> TRUE,       normCheck |-> "per_kind",
                  recentre |-> "from_nodes" ]
\* MechObserved is revised whenever a fix lands in /repo.  History:
\*   53c923b0  node_lon/node_lat getters populate, then fold        nodeFold        before_populate -> after_populate
\*   b821f017  supplied centre lon/lat converted with deg2rad       centreUnits     raw_degrees -> converted
\*   84240cbb  supplied centre x, y, z normalised before asin/atan2 centreNormalize FALSE -> TRUE
\*   2f76d925  _check_normalization tests each kind's own arrays    normCheck       node_only -> per_kind
\* so the code as read now makes the same choices as MechIntended.  MechBeforeFixes is the code
\* as first read: the check explores it too and requires TLC to find failing states there (the
\* model can tell the difference), and the revert mutants reproduce it in the real code.
\*   b0fe37e2  construct_face_centers always recomputes from the nodes recentre        reuse_x -> from_nodes
\* (recentre = "reuse_x", the refuted variant: _populate_face_centroids(repopulate=True) recomputed from
\*  the nodes only when no face_x was stored; it lives on in MechBeforeFixes)
MechObserved == [ nodeFold |-> "after_populate",  centreUnits |-> "converted",
                  centreNormalize |-> TRUE,       normCheck |-> "per_kind",
                  recentre |-> "from_nodes" ]
MechBeforeFixes == [ nodeFold |-> "before_populate", centreUnits |-> "raw_degrees",
                     centreNormalize |-> FALSE,      normCheck |-> "node_only",
                     recentre |-> "reuse_x" ]
MechSpace == [ nodeFold : {"after_populate", "before_populate"},
               centreUnits : {"converted", "raw_degrees"},
               centreNormalize : BOOLEAN,
               recentre : {"from_nodes", "reuse_x"},
               normCheck : {"per_kind", "node_only"} ]

(* ---- the store --------------------------------------------------------------- *)
Has(st, v) == st[v] # "none"
DirOk(t)   == t \in {"unit", "raw", "scaled"}
LonOk(t)   == t \in {"deg180", "deg360"}       \* right meridian, whatever the range
LenUnit(t) == t \in {"unit", "degrad"}

SetSph(st, k, lonT, latT) ==
  [st EXCEPT ![Name(k, "lon")] = lonT, ![Name(k, "lat")] = latT]
SetCart(st, k, t) ==
  [st EXCEPT ![Name(k, "x")] = t, ![Name(k, "y")] = t, ![Name(k, "z")] = t]

\* _set_desired_longitude_range: every longitude variable in the dataset whose maximum
\* exceeds 180 is folded to [-180, 180)
Fold(st) == [v \in Var |-> IF IsLon(v) /\ st[v] = "deg360" THEN "deg180" ELSE st[v]]

\* the dataset the constructor receives, then Grid.__init__ (which folds)
SrcStore(s) ==
  [v \in Var |->
     IF ~SuppliedVar(s, v) THEN "none"
     ELSE IF IsLon(v) THEN (IF s.lonconv = "z360" THEN "deg360" ELSE "deg180")
     ELSE IF IsLat(v) THEN "deg90"
     ELSE s.xyzlen]
InitStore(s) == Fold(SrcStore(s))

\* _populate_node_latlon: normalises, atan2/asin, longitude in [0, 2 pi) -> degrees
PopNodeLatLon(st) ==
  IF DirOk(st["node_x"]) /\ DirOk(st["node_y"]) /\ DirOk(st["node_z"])
  THEN SetSph(st, "node", "deg360", "deg90") ELSE SetSph(st, "node", "bad", "bad")
\* _populate_node_xyz: deg2rad, then the spherical-to-Cartesian formula
PopNodeXyz(st) ==
  IF LonOk(st["node_lon"]) /\ st["node_lat"] = "deg90"
  THEN SetCart(st, "node", "unit") ELSE SetCart(st, "node", "bad")
\* `grid.node_x.values` etc. inside the centre constructions
NodeXyzReady(st) == IF Has(st, "node_x") THEN st ELSE PopNodeXyz(st)

\* _populate_face_centroids / _populate_edge_centroids (same three branches)
PopCentre(m, st0, k) ==
  LET st   == NodeXyzReady(st0)
      lonV == Name(k, "lon")
      latV == Name(k, "lat")
      xV   == Name(k, "x")
  IN IF ~Has(st, lonV)
     THEN LET c    == IF Has(st, xV) THEN st[xV]                       \* reuse supplied x, y, z
                      ELSE IF DirOk(st["node_x"]) THEN "unit" ELSE "bad"   \* normalised mean of corners
              lonT == IF DirOk(c) THEN "deg180" ELSE "bad"             \* atan2 ignores length; folded
              latT == IF c = "unit" \/ (c = "raw" /\ m.centreNormalize) THEN "deg90" ELSE "bad"
              st1  == SetSph(st, k, lonT, latT)
          IN IF Has(st, xV) THEN st1 ELSE SetCart(st1, k, c)
     ELSE \* the stored lon/lat are read through the getters: edge_lon/edge_lat fold on every call
          LET stf == IF k = "edge" THEN Fold(st) ELSE st
              c == IF ~(LonOk(stf[lonV]) /\ stf[latV] = "deg90") THEN "bad"
                   ELSE IF m.centreUnits = "converted" THEN "unit" ELSE "degrad"
          IN IF Has(stf, xV) THEN stf ELSE SetCart(stf, k, c)

\* the fifteen getters
AccessEff(m, st, v) ==
  LET k == KindOf(v) IN
  CASE k = "node" /\ ~IsCart(v) ->
         IF Has(st, v) THEN st
         ELSE IF m.nodeFold = "before_populate" THEN PopNodeLatLon(Fold(st))
              ELSE Fold(PopNodeLatLon(st))
    [] k = "node" /\ IsCart(v) -> IF Has(st, v) THEN st ELSE PopNodeXyz(st)
    [] k = "edge" /\ ~IsCart(v) -> Fold(IF Has(st, v) THEN st ELSE PopCentre(m, st, "edge"))
    [] k = "face" /\ ~IsCart(v) -> IF Has(st, v) THEN st ELSE Fold(PopCentre(m, st, "face"))
    [] OTHER -> IF Has(st, v) THEN st ELSE PopCentre(m, st, k)

\* normalize_cartesian_coordinates with _check_normalization
CartPresent(st, k) == Has(st, Name(k, "x"))
NormAll(st) == [v \in Var |-> IF IsCart(v) /\ st[v] = "raw" THEN "unit" ELSE st[v]]
NormalizeEff(m, st, nm) ==
  IF nm = "yes" THEN [st |-> st, norm |-> nm]
  ELSE LET st1 == IF m.normCheck = "node_only" /\ (CartPresent(st, "edge") \/ CartPresent(st, "face"))
                  THEN NodeXyzReady(st) ELSE st          \* the test reads grid.node_x
           tested == IF m.normCheck = "node_only" THEN {"node"} ELSE Kinds
           off == \E k \in tested : CartPresent(st1, k) /\ ~LenUnit(st1[Name(k, "x")])
       IN IF off THEN [st |-> NormAll(st1), norm |-> "no"]
                 ELSE [st |-> st1, norm |-> "yes"]

\* Which position the face-centre variables denote: "src" the direction the source supplied,
\* "cen" the normalised mean of the corner unit vectors (the same thing when the source supplies
\* no face centres: then always "cen").  All present face variables denote one position: they are
\* derived from each other, and construct_face_centers rewrites all five.
InitFpos(s) == IF s.face = "none" THEN "cen" ELSE "src"
\* Grid.construct_face_centers("cartesian average") = _populate_face_centroids(repopulate=True)
RecentreEff(m, st0, fp) ==
  LET st    == NodeXyzReady(st0)
      reuse == m.recentre = "reuse_x" /\ Has(st, "face_x")
      c     == IF reuse THEN (IF DirOk(st["face_x"]) THEN "unit" ELSE "bad")      \* stored x, y, z, normalised
               ELSE IF DirOk(st["node_x"]) THEN "unit" ELSE "bad"                   \* normalised mean of corners
      st1   == SetSph(st, "face", IF c = "unit" THEN "deg180" ELSE "bad", IF c = "unit" THEN "deg90" ELSE "bad")
  IN [st |-> SetCart(st1, "face", c), fpos |-> IF reuse THEN fp ELSE "cen"]
\* Grid.chunk(): reads every materialised coordinate through its getter, stores it back chunked
RECURSIVE ReadAll(_, _, _)
ReadAll(m, st, vs) == IF vs = {} THEN st
                      ELSE LET v == CHOOSE w \in vs : TRUE
                           IN ReadAll(m, IF Has(st, v) THEN AccessEff(m, st, v) ELSE st, vs \ {v})
ChunkEff(m, st) == ReadAll(m, st, Var)

(* ---- what the property allows ------------------------------------------------- *)
\* tags a present variable may carry: a function of the source and of whether normalisation
\* ran.  (A supplied non-unit vector may be reported as supplied or already normalised: both
\* denote the same point; after normalize_cartesian_coordinates only "unit" is left.)
\* rec: construct_face_centers has run (the face centres are derived from then on)
StillSupplied(s, v, rec) == SuppliedVar(s, v) /\ ~(rec /\ KindOf(v) = "face")
OkTags(s, v, ran, rec) ==
  IF IsLon(v) THEN {"deg180"}
  ELSE IF IsLat(v) THEN {"deg90"}
  ELSE IF StillSupplied(s, v, rec) /\ s.xyzlen = "raw" /\ ~ran THEN {"raw", "unit"}
  ELSE {"unit"}
\* position the face-centre variables must denote
OkFpos(s, rec) == IF rec THEN "cen" ELSE InitFpos(s)
\* the clause of the property a tag outside OkTags breaks
ClauseOf(s, v, t) ==
  IF IsLon(v) THEN (IF t = "deg360" THEN "LonInRange" ELSE "SamePoint")
  ELSE IF IsLat(v) THEN "SamePoint"
  ELSE IF t \in {"raw", "scaled"} THEN (IF SuppliedVar(s, v) THEN "NormalizedIsUnit" ELSE "DerivedUnit")
  ELSE "SamePoint"

DirClass(t) == IF DirOk(t) THEN "ok" ELSE t
=============================================================================

----------------------------- MODULE SubsetHist -----------------------------
(***************************************************************************)
(* C09: histories of coordinate selections on ONE grid object.             *)
(*                                                                         *)
(* A history is a sequence of selections (operation, element kind); the    *)
(* grid keeps one neighbour-search object per tree type, which holds one   *)
(* tree per element kind and a notion of the kind it currently serves.     *)
(* Normative (Fresh): every selection of every history queries the tree of *)
(* the kind it asked for -- its result is that of the same selection on a  *)
(* fresh grid.  The mechanism is data:                                     *)
(*   "by_kind"        the tree is looked up by the requested kind (code)   *)
(*   "set_on_build"   a current-tree pointer is re-pointed only when a     *)
(*                    tree is built: nodes, faces, nodes again serves the  *)
(*                    face tree (a plausible refactoring; TLC must refute) *)
(* TLC proves Fresh for "by_kind" over all histories up to MaxLen, refutes *)
(* it for "set_on_build" (shortest counterexample: three selections), and  *)
(* prints every history for the replay harness, which judges each step by  *)
(* the exact selection clauses of JudgeSubset.tla.                         *)
(***************************************************************************)
EXTENDS Naturals, Sequences, FiniteSets, TLC

CONSTANTS MaxLen, Mechanism

Ops   == { "knn", "circle", "box" }
Kinds == { "node", "face", "edge" }
UsesTree(op) == op \in { "knn", "circle" }       \* a bounding box compares coordinates directly

VARIABLES hist,        \* the selections so far
          built,       \* kinds whose tree exists in the grid's search object
          serving,     \* kind of the tree a query is answered from
          lastOK       \* the last selection was answered from the tree of its own kind
vars == << hist, built, serving, lastOK >>

Init == hist = << >> /\ built = {} /\ serving = "none" /\ lastOK = TRUE

Select(op, k) ==
    /\ Len(hist) < MaxLen
    /\ hist' = Append(hist, << op, k >>)
    /\ IF ~UsesTree(op) THEN UNCHANGED << built, serving >> /\ lastOK' = TRUE
       ELSE /\ built' = built \cup { k }
            /\ serving' = IF Mechanism = "by_kind" \/ k \notin built THEN k ELSE serving
            /\ lastOK' = (serving' = k)
Next == \E op \in Ops, k \in Kinds : Select(op, k)
Spec == Init /\ [][Next]_vars

TypeOK == Len(hist) <= MaxLen /\ built \subseteq Kinds
Fresh  == lastOK
Emit   == Len(hist) = MaxLen => PrintT(<< "H", hist >>)
=============================================================================

--------------------------- MODULE JudgeIntersect ---------------------------
(***************************************************************************)
(* X01: judges what uxarray.grid.intersections and its users returned.     *)
(* One ndjson line per record; variants v: 1..nx exact images (as          *)
(* generated, arcs swapped, an arc reversed, quarter turn, north-south      *)
(* flip), then perturbed replays (jv: every coordinate jittered by a few   *)
(* ulps; the last: a generic rotation about the polar axis).               *)
(*                                                                         *)
(* "P"  gca_gca_intersection on configurations C14 leaves out: a, b,       *)
(*      o[j] = <<c, d>>, r[j][v] = <<n, t1, t2>>, n points returned (-1    *)
(*      raised), t = 1 iff the point is within 1e-8 rad of both float arcs *)
(* "Z"  gca_const_lat_intersection: a, b, cs[j] = <<s, num, den>>,         *)
(*      r[j][v] = <<n, u1, z1, a1, u2, z2, a2, dist>> (unit length, z = c, *)
(*      on the arc -- each to 1e-10 -- for the two points; dist: the two   *)
(*      points differ)                                                     *)
(* "SZ" the same on arcs shrunk around an interior lattice point p, c the  *)
(*      z of p: ks, zm[ki] = 1 iff both endpoints are >= 1e-6 from c in z, *)
(*      r[ki][v] as for "Z"                                                *)
(* "F"  fast_constant_lat_intersections on a table of arcs: cz,            *)
(*      arcs[i] = <<a, b>>, ret = returned 0-based indices                 *)
(* "G"  a grid: nodes, faces (0-based), cs, r[j] = <<edges as node pairs,  *)
(*      faces, cross-section faces, <<raisedE, raisedF, raisedCS, nface>>>> *)
(* Verdicts <<"V", id, kind, j, class, kinds, {<<clause, v>>}>>, statistics  *)
(* <<"S", id, kind, arckind, judged, boundary, positives>>.                 *)
(***************************************************************************)
EXTENDS Intersect, Json, IOUtils, TLCExt

Recs  == ndJsonDeserialize(IOEnv.REC_FILE)
Block == 4
NBlocks == (Len(Recs) + Block - 1) \div Block
VARIABLE i

Has(r, f) == f \in DOMAIN r
Range(s)  == { s[k] : k \in DOMAIN s }
Vec3(s)   == << s[1], s[2], s[3] >>
ValidArc(a, b) == Judgeable(a) /\ Judgeable(b) /\ IsArc(a, b) /\ ArcMargin(a, b)
NX(r, nv) == IF Has(r, "nx") THEN r.nx ELSE nv
JV(r)     == IF Has(r, "jv") THEN r.jv ELSE 0
InvName(r, v) == IF v = JV(r) THEN "JitterStable" ELSE "Invariance"
\* per-variant failures plus disagreement between variants of the projected answer got(v)
VarFails(r, nv, got(_), bad(_), stable) ==
    { <<bad(v), v>> : v \in { w \in 1..nv : bad(w) # "ok" } }
    \cup (IF stable /\ \E v \in 2..NX(r, nv) : got(v) # got(1) THEN { <<"Invariance", 0>> } ELSE {})
    \cup (IF stable THEN { <<InvName(r, v), v>> : v \in { w \in (NX(r, nv) + 1)..nv : got(w) # got(1) } } ELSE {})

(* ---- "P" ------------------------------------------------------------------------------ *)
PFails(r, j) ==
    LET a == Vec3(r.a)  b == Vec3(r.b)  c == Vec3(r.o[j][1])  d == Vec3(r.o[j][2])
        nv == Len(r.r[j])
        got(v) == r.r[j][v]
        empty == DisjointRobust(a, b, c, d) \/ CoplanarDisjointRobust(a, b, c, d)
        overlap == CoplanarOverlapRobust(a, b, c, d)
        bad(v) == CASE got(v)[1] = -1 -> "NoRaise"
                    [] got(v)[1] > 2 -> "CountBound"
                    [] got(v)[1] >= 1 /\ got(v)[2] # 1 -> "PointsOnBothArcs"
                    [] got(v)[1] >= 2 /\ got(v)[3] # 1 -> "PointsOnBothArcs"
                    [] empty /\ got(v)[1] # 0 -> "DisjointEmpty"
                    [] overlap /\ v <= NX(r, nv) /\ got(v)[1] = 0 -> "OverlapReported"
                    [] DifferentCircles(a, b, c, d) /\ PlanesApart(a, b, c, d) /\ got(v)[1] > 1 -> "CountBound"
                    [] OTHER -> "ok"
    IN VarFails(r, nv, LAMBDA v : got(v)[1], bad, empty)
JudgeP(r) ==
    LET a == Vec3(r.a)  b == Vec3(r.b)
        J == { j \in 1..Len(r.o) : ValidArc(a, b) /\ ValidArc(Vec3(r.o[j][1]), Vec3(r.o[j][2])) }
        fixed(j) == LET c == Vec3(r.o[j][1])  d == Vec3(r.o[j][2]) IN
                    DisjointRobust(a, b, c, d) \/ CoplanarDisjointRobust(a, b, c, d) \/ CoplanarOverlapRobust(a, b, c, d)
    IN /\ PrintT(<<"S", r.id, "P", IF ValidArc(a, b) THEN ArcKind(a, b) ELSE "notarc", Cardinality(J),
                   Len(r.o) - Cardinality(J), Cardinality({ j \in J : fixed(j) })>>)
       /\ \A j \in J : LET f == PFails(r, j)  c == Vec3(r.o[j][1])  d == Vec3(r.o[j][2]) IN
             f = {} \/ PrintT(<<"V", r.id, "P", j, GcaConfig(a, b, c, d), <<ArcKind(a, b), ArcKind(c, d)>>, f>>)

(* ---- "Z" and "SZ" ----------------------------------------------------------------------- *)
\* g = <<n, u1, z1, a1, u2, z2, a2, dist>>
PointBad(g) == CASE g[1] = -1 -> "NoRaise"
                 [] g[1] > 2 -> "CountBound"
                 [] g[1] >= 1 /\ g[2] # 1 -> "UnitVector"
                 [] g[1] >= 2 /\ g[5] # 1 -> "UnitVector"
                 [] g[1] >= 1 /\ g[3] # 1 -> "PointOnParallel"
                 [] g[1] >= 2 /\ g[6] # 1 -> "PointOnParallel"
                 [] g[1] >= 1 /\ g[4] # 1 -> "PointOnArc"
                 [] g[1] >= 2 /\ g[7] # 1 -> "PointOnArc"
                 [] OTHER -> "ok"
ZFails(r, j) ==
    LET a == Vec3(r.a)  b == Vec3(r.b)  c == Vec3(r.cs[j])
        nv == Len(r.r[j])
        got(v) == r.r[j][v]
        judged == LatJudged(a, b, c)
        bad(v) == IF PointBad(got(v)) # "ok" THEN PointBad(got(v))
                  ELSE IF judged /\ got(v)[1] # LatCount(a, b, c) THEN "LatCountExact"
                  ELSE IF judged /\ got(v)[1] = 2 /\ got(v)[8] # 1 THEN "PointsDistinct" ELSE "ok"
    IN VarFails(r, nv, LAMBDA v : got(v)[1], bad, judged)
JudgeZ(r) ==
    LET a == Vec3(r.a)  b == Vec3(r.b)
        J == { j \in 1..Len(r.cs) : ValidArc(a, b) }
        Jd == { j \in J : LatJudged(a, b, Vec3(r.cs[j])) }
    IN /\ PrintT(<<"S", r.id, "Z", IF ValidArc(a, b) THEN ArcKind(a, b) ELSE "notarc", Cardinality(Jd),
                   Len(r.cs) - Cardinality(Jd), Cardinality({ j \in Jd : LatCount(a, b, Vec3(r.cs[j])) = 2 })>>)
       /\ \A j \in J : LET f == ZFails(r, j) IN
             f = {} \/ PrintT(<<"V", r.id, "Z", j, <<LatCount(a, b, Vec3(r.cs[j])), LatJudged(a, b, Vec3(r.cs[j]))>>,
                               <<ArcKind(a, b)>>, f>>)
JudgeSZ(r) ==
    LET a == Vec3(r.a)  b == Vec3(r.b)  p == Vec3(r.p)
        ok(ki) == /\ ValidArc(a, b) /\ Judgeable(p) /\ StrictlyWithinArc(a, b, p) /\ ~OnEquatorCircle(a, b)
                  /\ r.zm[ki] = 1
                  /\ ~ShrunkBulgesNorth(a, b, p, Pow10(r.ks[ki])) /\ ~ShrunkBulgesSouth(a, b, p, Pow10(r.ks[ki]))
        KS == { ki \in 1..Len(r.ks) : ok(ki) }
        f(ki) == LET nv == Len(r.r[ki])  got(v) == r.r[ki][v]
                     bad(v) == IF PointBad(got(v)) # "ok" THEN PointBad(got(v))
                               ELSE IF got(v)[1] # 1 THEN "LatCountExact" ELSE "ok"
                 IN VarFails(r, nv, LAMBDA v : got(v)[1], bad, TRUE)
    IN /\ PrintT(<<"S", r.id, "SZ", IF ValidArc(a, b) THEN ArcKind(a, b) ELSE "notarc", Cardinality(KS),
                   Len(r.ks) - Cardinality(KS), Cardinality(KS)>>)
       /\ \A ki \in KS : f(ki) = {} \/ PrintT(<<"V", r.id, "SZ", r.ks[ki], <<1, TRUE>>, <<ArcKind(a, b)>>, f(ki)>>)

(* ---- "F" ---------------------------------------------------------------------------------- *)
JudgeF(r) ==
    LET c == Vec3(r.cz)
        ret == { x + 1 : x \in Range(r.ret) }
        arc(k) == << Vec3(r.arcs[k][1]), Vec3(r.arcs[k][2]) >>
        I == 1..Len(r.arcs)
        care == { k \in I : ~EndOnParallel(arc(k)[1], arc(k)[2], c) }
        want == { k \in care : Straddles(arc(k)[1], arc(k)[2], c) }
        missing == want \ ret
        extra == (ret \cap care) \ want
        f == (IF r.err = 1 THEN { <<"NoRaise", 1>> } ELSE {})
             \cup (IF r.err = 0 /\ missing # {} THEN { <<"StraddlingEdgeMissing", 1>> } ELSE {})
             \cup (IF r.err = 0 /\ extra # {} THEN { <<"NonStraddlingEdgeReturned", 1>> } ELSE {})
             \cup (IF r.err = 0 /\ ~(ret \subseteq I) THEN { <<"IndexRange", 1>> } ELSE {})
    IN /\ PrintT(<<"S", r.id, "F", "table", Cardinality(care), Len(r.arcs) - Cardinality(care), Cardinality(want)>>)
       /\ f = {} \/ PrintT(<<"V", r.id, "F", 0, <<Cardinality(missing), Cardinality(extra)>>, <<"table">>, f>>)

(* ---- "G" ---------------------------------------------------------------------------------- *)
JudgeG(r) ==
    LET nodes == [ k \in 1..Len(r.nodes) |-> Vec3(r.nodes[k]) ]
        faces == [ k \in 1..Len(r.faces) |-> [ m \in 1..Len(r.faces[k]) |-> r.faces[k][m] + 1 ] ]
        f(j) ==
          LET c == Vec3(r.cs[j])
              res == r.r[j]
              flags == res[4]
              gotE == { {pr[1] + 1, pr[2] + 1} : pr \in Range(res[1]) }
              gotF == { x + 1 : x \in Range(res[2]) }
              gotC == { x + 1 : x \in Range(res[3]) }
              E == MeshEdges(faces)
              wantE == EdgesAt(nodes, faces, c)
              dc == { e \in E : EdgeDontCare(nodes, e, c) }
              wantF == FacesAt(nodes, faces, c)
              mayF == FacesMaybe(nodes, faces, c)
          IN (IF flags[1] = 1 \/ flags[2] = 1 THEN { <<"NoRaise", 1>> } ELSE {})
             \cup (IF flags[1] = 0 /\ ~(wantE \ dc \subseteq gotE) THEN { <<"StraddlingEdgeMissing", 1>> } ELSE {})
             \cup (IF flags[1] = 0 /\ ~(gotE \subseteq wantE \cup dc) THEN { <<"NonStraddlingEdgeReturned", 1>> } ELSE {})
             \cup (IF flags[2] = 0 /\ ~(wantF \subseteq gotF /\ gotF \subseteq mayF) THEN { <<"FacesWithStraddlingEdge", 1>> } ELSE {})
             \cup (IF flags[2] = 0 /\ flags[3] = 0 /\ (gotC # gotF \/ flags[4] # Cardinality(gotF))
                   THEN { <<"CrossSectionFaces", 1>> } ELSE {})
             \cup (IF flags[2] = 0 /\ ((flags[3] = 1) # (gotF = {})) THEN { <<"CrossSectionRaisesIffEmpty", 1>> } ELSE {})
        bulge == UNION { FacesBulgeOnly(nodes, faces, Vec3(r.cs[j])) \X {j} : j \in 1..Len(r.cs) }
    IN /\ PrintT(<<"S", r.id, "G", "mesh", Len(r.cs), 0, Cardinality(bulge)>>)
       /\ \A j \in 1..Len(r.cs) : f(j) = {} \/ PrintT(<<"V", r.id, "G", j, Vec3(r.cs[j]), <<"mesh">>, f(j)>>)

Init == i \in { -k : k \in 1..NBlocks }
Next == /\ i < 0
        /\ i' \in { k \in 1..Len(Recs) : (k - 1) \div Block = (-i) - 1 }
Judge == i > 0 =>
           LET r == Recs[i] IN
           CASE r.kind = "P" -> JudgeP(r)
             [] r.kind = "Z" -> JudgeZ(r)
             [] r.kind = "SZ" -> JudgeSZ(r)
             [] r.kind = "F" -> JudgeF(r)
             [] r.kind = "G" -> JudgeG(r)
=============================================================================

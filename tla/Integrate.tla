----------------------------- MODULE Integrate -----------------------------
(***************************************************************************)
(* C06: integration is the area-weighted sum over faces.                   *)
(*                                                                         *)
(* An array is [ name, dims, data ] where dims is a sequence of dimension  *)
(* NAMES, the last one being the element dimension ("n_face", "n_node",    *)
(* "n_edge"), and data[l][e] is the value at (flattened) leading index l   *)
(* and element e.  A grid is [ id, nf, nn, ne, A ] with A[f] > 0 the area  *)
(* of face f.                                                              *)
(*                                                                         *)
(*   Integrate(da, g) is defined iff the element dimension of da is NAMED  *)
(*   "n_face" -- not iff its length equals g.nf -- and then                *)
(*      dims  = the leading dims (exactly the face dimension is removed),  *)
(*      name  = da.name,  grid = g.id,                                     *)
(*      data[l] = SUM_f da.data[l][f] * g.A[f].                            *)
(*   Otherwise the call is "Rejected".                                     *)
(*                                                                         *)
(* Three uses (INIT/NEXT chosen by the configuration):                     *)
(*  Laws   TLC checks, over all small integer tables and weights:          *)
(*         linearity, Integrate(1) = total area, the shape effect, and     *)
(*         that the size-based dispatch the implementation is known to use *)
(*         agrees with the name-based one EXACTLY when no sizes coincide   *)
(*         (so coincident-size grids are the cases that tell them apart).  *)
(*  Cases  test vectors for the implementation: grid sizes (from the       *)
(*         catalogue and from the coincident-size meshes defined here) x   *)
(*         element kind x leading shape x dtype x quadrature x preceding   *)
(*         operation x integer data pattern, each with the expected        *)
(*         outcome, dims and -- as integer coefficients of the face areas  *)
(*         -- the expected values.                                         *)
(*  Judge  verdicts on the records of UxDataArray.integrate.               *)
(***************************************************************************)
EXTENDS Integers, Sequences, FiniteSets, TLC, Json, IOUtils, SphereZ

(* ---- the specification of the operation -------------------------------------------- *)
RECURSIVE SumTo(_, _, _)
SumTo(row, A, n) == IF n = 0 THEN 0 ELSE SumTo(row, A, n - 1) + row[n] * A[n]
Dot1(row, A) == SumTo(row, A, Len(A))
Last(s)  == s[Len(s)]
Front(s) == [ k \in 1..(Len(s) - 1) |-> s[k] ]

FaceCentred(da) == Len(da.dims) >= 1 /\ Last(da.dims) = "n_face"
Integrate(da, g) ==
    IF FaceCentred(da)
    THEN [ outcome |-> "Value", dims |-> Front(da.dims), name |-> da.name, grid |-> g.id,
           data |-> [ l \in DOMAIN da.data |-> Dot1(da.data[l], g.A) ] ]
    ELSE [ outcome |-> "Rejected" ]

\* the dispatch the implementation is known to use: on the LENGTH of the last dimension
SizeOf(g, d) == CASE d = "n_face" -> g.nf [] d = "n_node" -> g.nn [] d = "n_edge" -> g.ne [] d = "ncol" -> g.nf
IntegrateBySize(da, g) ==
    IF Len(da.dims) >= 1 /\ SizeOf(g, Last(da.dims)) = g.nf
    THEN [ outcome |-> "Value", dims |-> Front(da.dims), name |-> da.name, grid |-> g.id,
           data |-> [ l \in DOMAIN da.data |-> Dot1(da.data[l], g.A) ] ]
    ELSE [ outcome |-> "Rejected" ]

(* ---- Laws ------------------------------------------------------------------------------- *)
CONSTANTS AreasReturn,   \* Laws: "fresh" | "cached" (what a grid hands out as areas; "cached" must be refuted)
          MaxF,      \* Laws: largest number of faces
          Vals,      \* Laws: data values
          Wts        \* Laws: face weights (positive integers)

VARIABLES g, x, y, stage,    \* Laws
          c,                 \* Cases
          ji                 \* Judge
vars == <<g, x, y, stage, c, ji>>

ElemDims == {"n_face", "n_node", "n_edge"}
LawVals == { v - 1 : v \in Vals }          \* a configuration file cannot hold negative numbers
Tables(L, n) == [1..L -> [1..n -> LawVals]]
Arr(d, lead, tab) == [ name |-> "v", dims |-> (IF lead = 0 THEN <<>> ELSE <<"time">>) \o <<d>>, data |-> tab ]

LawInit == /\ stage = 0 /\ x = <<>> /\ y = <<>> /\ c = <<>> /\ ji = 0
           /\ g \in UNION { { [ id |-> 1, nf |-> nf, nn |-> nn, ne |-> ne, A |-> A, lead |-> lead ] :
                                 nn \in 1..MaxF, ne \in {1, MaxF}, lead \in {0, 2}, A \in [1..nf -> Wts] } :
                             nf \in 1..MaxF }
LawNext == /\ stage = 0 /\ stage' = 1 /\ g' = g /\ UNCHANGED <<c, ji>>
           /\ x' \in Tables(IF g.lead = 0 THEN 1 ELSE g.lead, g.nf)
           /\ y' \in Tables(IF g.lead = 0 THEN 1 ELSE g.lead, g.nf)

Lin(a, b, u, v) == [ l \in DOMAIN u |-> [ f \in DOMAIN u[l] |-> a * u[l][f] + b * v[l][f] ] ]
Ones(u)         == [ l \in DOMAIN u |-> [ f \in DOMAIN u[l] |-> 1 ] ]

Linear == stage = 1 =>
    \A a, b \in {-1, 2} :
        LET ix == Integrate(Arr("n_face", g.lead, x), g).data
            iy == Integrate(Arr("n_face", g.lead, y), g).data
            iz == Integrate(Arr("n_face", g.lead, Lin(a, b, x, y)), g).data
        IN \A l \in DOMAIN ix : iz[l] = a * ix[l] + b * iy[l]
OneGivesTotal == stage = 1 =>
    LET r == Integrate(Arr("n_face", g.lead, Ones(x)), g) IN
    \A l \in DOMAIN r.data : r.data[l] = Dot1([ f \in 1..g.nf |-> 1 ], g.A)
ShapeEffect == stage = 1 =>
    LET da == Arr("n_face", g.lead, x)  r == Integrate(da, g) IN
    /\ r.outcome = "Value" /\ r.name = da.name /\ r.grid = g.id
    /\ r.dims \o <<"n_face">> = da.dims /\ DOMAIN r.data = DOMAIN da.data
RejectsOthers == stage = 1 =>
    \A d \in {"n_node", "n_edge"} : Integrate(Arr(d, g.lead, x), g).outcome = "Rejected"
\* size-based and name-based dispatch agree exactly when no element count coincides with n_face
\* (tables of the wrong width are only dispatched, never summed: the outcome class is compared)
SizeRuleDiffersOnlyOnCoincidence == stage = 1 =>
    \A d \in ElemDims :
        (IntegrateBySize(Arr(d, g.lead, x), g).outcome = Integrate(Arr(d, g.lead, x), g).outcome)
        <=> (d = "n_face" \/ SizeOf(g, d) # g.nf)
\* results belong to the caller: what a caller does, in place, to areas an earlier call RETURNED to it can
\* not change a later integral.  AreasReturn = "cached" models a grid that hands out its stored areas
\* themselves; TLC refutes EditIsolation for it (the configuration that runs it expects so).
AreasSeenAfterEdit(gr, e) == IF AreasReturn = "cached" THEN [ f \in 1..gr.nf |-> gr.A[f] * e ] ELSE gr.A
EditIsolation == stage = 1 =>
    \A e \in {0, 2} : Integrate(Arr("n_face", g.lead, x), [ g EXCEPT !.A = AreasSeenAfterEdit(g, e) ]).data
                       = Integrate(Arr("n_face", g.lead, x), g).data
\* integrating over a SUBSET of the faces (a derived grid holding exactly the selected faces, with their
\* areas) is the weighted sum over the selected faces, and the parts of a partition add up to the whole
SelSet(name, n) == CASE name = "evens" -> { f \in 1..n : f % 2 = 1 }        \* 0-based even = 1-based odd positions
                     [] name = "odds"  -> { f \in 1..n : f % 2 = 0 }
                     [] name = "low"   -> { f \in 1..n : f <= n \div 2 }
                     [] name = "high"  -> { f \in 1..n : f > n \div 2 }
Comp(name) == CASE name = "evens" -> "odds" [] name = "odds" -> "evens" [] name = "low" -> "high" [] name = "high" -> "low"
RECURSIVE Pick(_, _, _)
Pick(row, S, k) == IF k > Len(row) THEN <<>> ELSE (IF k \in S THEN <<row[k]>> ELSE <<>>) \o Pick(row, S, k + 1)
SubIntegral(tab, gr, S) == [ l \in DOMAIN tab |-> Dot1(Pick(tab[l], S, 1), Pick(gr.A, S, 1)) ]
Masked(tab, S) == [ l \in DOMAIN tab |-> [ f \in DOMAIN tab[l] |-> IF f \in S THEN tab[l][f] ELSE 0 ] ]
SubsetLaws == stage = 1 =>
    \A nm \in {"evens", "low"} :
        LET S == SelSet(nm, g.nf)  T == SelSet(Comp(nm), g.nf)
            whole == Integrate(Arr("n_face", g.lead, x), g).data
        IN /\ S \cup T = 1..g.nf /\ S \cap T = {}
           /\ \A l \in DOMAIN whole :
                 /\ SubIntegral(x, g, S)[l] + SubIntegral(x, g, T)[l] = whole[l]
                 /\ SubIntegral(x, g, S)[l] = Integrate(Arr("n_face", g.lead, Masked(x, S)), g).data[l]
\* the integral is homogeneous in the areas: a mesh shrunk so that every area is k times smaller integrates to a
\* k times smaller value, at every scale (no threshold below which a face stops counting)
ScaleLaw == stage = 1 =>
    \A k \in {2, 3} : LET big == Integrate(Arr("n_face", g.lead, x), [ g EXCEPT !.A = [ f \in 1..g.nf |-> k * g.A[f] ] ]).data
                           small == Integrate(Arr("n_face", g.lead, x), g).data
                       IN \A l \in DOMAIN small : big[l] = k * small[l]
Positive == stage = 1 => ((\A l \in DOMAIN x : \A f \in DOMAIN x[l] : x[l][f] >= 0) =>
                             \A l \in DOMAIN x : Integrate(Arr("n_face", g.lead, x), g).data[l] >= 0)

(* ---- coincident-size meshes (defined here, proved here) ---------------------------------- *)
\* all ten triangles on five corners of a convex pentagon around the pole: n_face = n_edge = 10
PentaNodes == << <<3, 0, 1>>, <<1, 2, 1>>, <<-2, 2, 1>>, <<-2, -1, 1>>, <<1, -2, 1>> >>
PentaFaces == << <<0,1,2>>, <<0,1,3>>, <<0,1,4>>, <<0,2,3>>, <<0,2,4>>, <<0,3,4>>, <<1,2,3>>, <<1,2,4>>, <<1,3,4>>, <<2,3,4>> >>
\* a square pyramid: 5 nodes, 5 faces (self-dual): n_face = n_node = 5
PyrNodes == << <<2, 2, 1>>, <<-2, 2, 1>>, <<-2, -2, 1>>, <<2, -2, 1>>, <<0, 0, -1>> >>
PyrFaces == << <<0, 1, 2, 3>>, <<1, 0, 4>>, <<2, 1, 4>>, <<3, 2, 4>>, <<0, 3, 4>> >>
SideSet(F) == UNION { { { F[k][i], F[k][(i % Len(F[k])) + 1] } : i \in 1..Len(F[k]) } : k \in 1..Len(F) }
FaceCCW(N, face) == \A i \in 1..Len(face) : \A w \in 1..Len(face) :
                       (w # i /\ w # (i % Len(face)) + 1) =>
                           Det(N[face[i] + 1], N[face[(i % Len(face)) + 1] + 1], N[face[w] + 1]) > 0
\* a 2 x 2 patch of the lattice <<6, i, j>>, two cells split into triangles: mixed sizes (padded table), and
\* SCALABLE by the exact shrink map v -> (M - 1)(v.c)c + (c.c)v with c the x axis, i.e. <<M x, y, z>>
PatchNodes == << <<6,0,0>>, <<6,0,1>>, <<6,0,2>>, <<6,1,0>>, <<6,1,1>>, <<6,1,2>>, <<6,2,0>>, <<6,2,1>>, <<6,2,2>> >>
PatchFaces == << <<0, 3, 4, 1>>, <<3, 6, 7, 4>>, <<1, 4, 5>>, <<1, 5, 2>>, <<4, 7, 8>>, <<4, 8, 5>> >>
OwnMeshes == { [ id |-> "k5_all_triangles", nodes |-> PentaNodes, faces |-> PentaFaces ],
               [ id |-> "square_pyramid", nodes |-> PyrNodes, faces |-> PyrFaces ],
               [ id |-> "patch6_tri_quad", nodes |-> PatchNodes, faces |-> PatchFaces ] }
ShrinkX(M, v) == << M * v[1], v[2], v[3] >>
ShrinkGen(M, cc, v) == LET k == (M - 1) * Dot(v, cc) IN << k * cc[1] + N2(cc) * v[1], k * cc[2] + N2(cc) * v[2], k * cc[3] + N2(cc) * v[3] >>
\* cancellation-free exact area descriptor of a face: fan of triangles, each <<det, |a|^2, |b|^2, |c|^2, a.b, a.c, b.c>>
TriDescr(u, v, w) == << Det(u, v, w), N2(u), N2(v), N2(w), Dot(u, v), Dot(u, w), Dot(v, w) >>
PatchFaceAt(M, k) == [ j \in 1..Len(PatchFaces[k]) |-> ShrinkX(M, PatchNodes[PatchFaces[k][j] + 1]) ]
PatchFan(M, k) == LET F == PatchFaceAt(M, k) IN [ t \in 1..(Len(F) - 2) |-> TriDescr(F[1], F[t + 1], F[t + 2]) ]
\* the scale law, proved at small multipliers: the map is the stated one, orientation and convexity survive it,
\* every fan triangle stays positively oriented
PatchScaleOK == \A M \in {1, 2, 5} :
    /\ \A n \in 1..Len(PatchNodes) : ShrinkX(M, PatchNodes[n]) = ShrinkGen(M, <<1, 0, 0>>, PatchNodes[n])
    /\ \A k \in 1..Len(PatchFaces) : FaceCCW([ n \in 1..Len(PatchNodes) |-> ShrinkX(M, PatchNodes[n]) ], PatchFaces[k])
    /\ \A k \in 1..Len(PatchFaces) : \A t \in 1..(Len(PatchFaces[k]) - 2) : PatchFan(M, k)[t][1] > 0
OwnMeshesOK ==
    /\ \A m \in OwnMeshes : \A k \in 1..Len(m.faces) : FaceCCW(m.nodes, m.faces[k])
    /\ Cardinality(SideSet(PentaFaces)) = Len(PentaFaces)          \* n_edge = n_face
    /\ Len(PyrNodes) = Len(PyrFaces)                               \* n_node = n_face
    /\ Cardinality(SideSet(PyrFaces)) = 8
    /\ PatchScaleOK /\ Cardinality(SideSet(PatchFaces)) = 14
EmitOwn == PrintT(<<"M", { [ id |-> m.id, nodes |-> m.nodes, faces |-> m.faces,
                             nn |-> Len(m.nodes), nf |-> Len(m.faces), ne |-> Cardinality(SideSet(m.faces)) ] : m \in OwnMeshes },
                         [ M \in {1, 2, 5} |-> [ k \in 1..Len(PatchFaces) |-> PatchFan(M, k) ] ]>>)

\* emitted once (in one distinguished initial state of Laws)
EmitOwnOnce == (stage = 0 /\ g.nf = 1 /\ g.nn = 1 /\ g.ne = 1 /\ g.lead = 0 /\ g.A = <<1>>) => EmitOwn

(* ---- Cases ---------------------------------------------------------------------------------- *)
\* grids of this run: ndjson lines [ id, nf, nn, ne ]
Grids == ndJsonDeserialize(IOEnv.GRID_FILE)
LeadShapes == { <<>>, <<2>>, <<2, 3>>, <<2, 1, 3>> }           \* rank 0..3 leading dimensions
LeadNames  == <<"time", "lev", "member">>
\* "ncol": a last dimension that carries NO grid-element name but has n_face entries (a data file whose face
\* dimension was not recognised): the implementation's documented fallback integrates it by length; the
\* specification allows that or a rejection ("ValueOrRejected") -- a returned value must be the weighted sum
Kinds      == <<"n_face", "n_node", "n_edge", "ncol">>
Dtypes     == {"int64", "float32", "float64", "bool"}
RECURSIVE Prod(_)
Prod(s) == IF s = <<>> THEN 1 ELSE s[1] * Prod(Tail(s))
LinA == 2
LinB == -3
RECURSIVE Pattern(_, _, _)
\* integer data patterns: value at flattened leading index l (1-based) and element e (1-based)
Pattern(p, l, e) == CASE p = "ones"   -> 1
                      [] p = "ramp"   -> ((3 * l + 2 * e) % 7) - 2
                      [] p = "mixed"  -> ((l * l + 5 * e + l * e) % 11) - 5
                      [] p = "sparse" -> IF (l + e) % 4 = 0 THEN e ELSE 0
                      [] p = "lin"    -> LinA * Pattern("ramp", l, e) + LinB * Pattern("mixed", l, e)
Patterns == {"ones", "ramp", "mixed", "sparse", "lin"}
AsDtype(v, dt) == IF dt = "bool" THEN (IF v % 2 = 0 THEN 0 ELSE 1) ELSE v

CONSTANT Quads,      \* Cases: set of quadrature names, e.g. {"t4", "g3"}
         Prevs,      \* Cases: preceding operations on the grid, e.g. {"none", "face_areas", "compute_other"}
         Scales      \* Cases: multipliers of the exact shrink map applied to the scalable patch

CaseInit == /\ c \in { [ gi |-> gi, kind |-> k ] : gi \in 1..Len(Grids), k \in 1..4 }
            /\ g = <<>> /\ x = <<>> /\ y = <<>> /\ stage = 0 /\ ji = 0
\* the case grid.  Base block: every combination, face dimension last, numpy data, UxDataArray.integrate.
\* Extension blocks (smaller): the face dimension FIRST, dask-backed data, and UxDataset.integrate on a
\* dataset holding the one variable.
CaseRec(ls, dt, q, pv, p, lay, sto, api) ==
    [ gi |-> c.gi, kind |-> c.kind, lead |-> ls, dtype |-> dt, quad |-> q, prev |-> pv, pat |-> p,
      layout |-> lay, storage |-> sto, api |-> api, sel |-> "", mult |-> 0 ]
AllLeads == LeadShapes \cup { << Grids[c.gi].nf >> }          \* also a square table: lead length = n_face
CaseNext == /\ DOMAIN c = {"gi", "kind"} /\ UNCHANGED <<g, x, y, stage, ji>>
            /\ c' \in
                 { CaseRec(ls, dt, q, pv, p, "last", "numpy", "dataarray") :
                       ls \in AllLeads, dt \in Dtypes, q \in Quads, pv \in Prevs,
                       p \in (IF c.kind = 1 THEN Patterns ELSE {"ramp"}) }     \* non-face arrays need no data variety
                 \cup { CaseRec(ls, dt, q, "none", p, "first", "numpy", "dataarray") :
                       ls \in AllLeads \ { <<>> }, dt \in (IF c.kind = 4 THEN {} ELSE {"float64", "int64"}), q \in Quads,
                       p \in (IF c.kind = 1 THEN {"ramp", "mixed"} ELSE {"ramp"}) }
                 \cup { CaseRec(ls, dt, q, "none", "ramp", "last", "dask", "dataarray") :
                       ls \in AllLeads, dt \in {"float64", "int64"}, q \in Quads }
                 \* the caller edited, in place, the areas an earlier compute_face_areas(same rule, same order) returned
                 \cup { CaseRec(ls, dt, q, pv, p, "last", "numpy", "dataarray") :
                       ls \in { <<>>, <<2>> }, dt \in {"float64", "int64"}, q \in Quads,
                       pv \in (IF c.kind = 1 THEN {"edit_same_scale", "edit_same_zero", "edit_default_scale"} ELSE {}),
                       p \in {"ramp", "ones"} }
                 \* a subset (UxDataArray.isel on n_face) of a parent on which nothing (or only face_areas) was read
                 \* before; only on grids with mixed face sizes (padded tables)
                 \cup { [ CaseRec(ls, "float64", q, pv, p, "last", "numpy", "isel") EXCEPT !.sel = sl ] :
                       ls \in { <<>>, <<2>> }, q \in Quads,
                       pv \in (IF c.kind = 1 /\ Grids[c.gi].mixed THEN {"none", "face_areas"} ELSE {}),
                       p \in {"ramp", "ones"}, sl \in {"evens", "odds", "low", "high"} }
                 \* SCALE: the scalable patch shrunk by the exact map with multiplier m (faces down to ~1e-6 rad); whole
                 \* mesh and one half of a partition; judged against the EXACT areas (class 1e-6), not only a fresh grid's
                 \cup { [ CaseRec(ls, "float64", q, "none", p, "last", "numpy", IF sl = "" THEN "dataarray" ELSE "isel")
                           EXCEPT !.sel = sl, !.mult = m ] :
                       \* one-point rules have no accuracy class: only rules at least as exact as the default one are scaled
                       ls \in { <<>>, <<2>> }, q \in Quads \ {"t1", "g1"}, p \in {"ramp", "ones"}, sl \in {"", "evens", "high"},
                       m \in (IF c.kind = 1 /\ Grids[c.gi].scalable THEN Scales ELSE {}) }
                 \cup { CaseRec(ls, dt, q, "none", p, "last", "numpy", "dataset") :
                       ls \in { <<>>, <<2>>, << Grids[c.gi].nf >> }, dt \in {"float64", "int64"}, q \in Quads,
                       p \in (IF c.kind = 1 THEN {"ramp", "ones"} ELSE {"ramp"}) }
\* ascending 0-based indices of a set of 1-based positions
RECURSIVE Asc0(_, _, _)
Asc0(S, k, n) == IF k > n THEN <<>> ELSE (IF k \in S THEN <<k - 1>> ELSE <<>>) \o Asc0(S, k + 1, n)
SetToSortSeq0(S) == Asc0(S, 1, 64)
CaseFull == "pat" \in DOMAIN c
CaseArr ==
    LET gr == Grids[c.gi]
        d  == Kinds[c.kind]
        n  == SizeOf(gr, d)
        L  == Prod(c.lead)
    IN [ name |-> "var_" \o c.pat,
         dims |-> IF c.layout = "last" THEN [ k \in 1..Len(c.lead) |-> LeadNames[k] ] \o <<d>>
                  ELSE <<d>> \o [ k \in 1..Len(c.lead) |-> LeadNames[k] ],
         data |-> [ l \in 1..L |-> [ e \in 1..n |-> AsDtype(Pattern(c.pat, l, e), c.dtype) ] ] ]
\* expected result; the areas are symbolic, so the expected values are the coefficient rows themselves
\* With the face dimension last the property promises the value.  With the face dimension elsewhere the
\* array is still face-centred BY NAME; the property speaks of "leading dimensions", so an implementation
\* may decline ("ValueOrRejected") -- but if it returns, it must have removed exactly the face dimension
\* and summed over faces, never over another axis of the same length.
HasFaceDim(da) == \E k \in 1..Len(da.dims) : da.dims[k] = "n_face"
WithoutFace(dims) == SelectSeq(dims, LAMBDA d : d # "n_face")
CaseExpected ==
    LET da == CaseArr IN
    IF c.api = "isel"
    THEN [ outcome |-> "Value", dims |-> Front(da.dims), name |-> da.name, shape |-> c.lead,
           coeff |-> Masked(da.data, SelSet(c.sel, Grids[c.gi].nf)) ]       \* the unselected faces do not count
    ELSE IF FaceCentred(da)
    THEN [ outcome |-> "Value", dims |-> Front(da.dims), name |-> da.name, shape |-> c.lead, coeff |-> da.data ]
    ELSE IF HasFaceDim(da)
    THEN [ outcome |-> "ValueOrRejected", dims |-> WithoutFace(da.dims), name |-> da.name, shape |-> c.lead, coeff |-> da.data ]
    ELSE IF Last(da.dims) = "ncol"
    THEN [ outcome |-> "ValueOrRejected", dims |-> Front(da.dims), name |-> da.name, shape |-> c.lead, coeff |-> da.data ]
    ELSE [ outcome |-> "Rejected" ]
\* a coincident-size case: the size-based dispatch would accept what the specification rejects
CaseCoincident == LET gr == Grids[c.gi] IN c.kind \in {2, 3} /\ SizeOf(gr, Kinds[c.kind]) = gr.nf
CaseSound == CaseFull => /\ (CaseExpected.outcome = "Rejected" <=> c.kind \in {2, 3})
                        /\ (CaseExpected.outcome = "Value" <=> (c.kind = 1 /\ c.layout = "last"))
                        /\ (CaseExpected.outcome # "Rejected" => CaseExpected.dims \o <<"n_face">> = CaseArr.dims
                                                                \/ <<"n_face">> \o CaseExpected.dims = CaseArr.dims
                                                                \/ CaseExpected.dims \o <<"ncol">> = CaseArr.dims)
CaseSquare == Len(c.lead) >= 1 /\ c.lead[Len(c.lead)] = Grids[c.gi].nf
CaseEmit == CaseFull => PrintT(<<"K", [ grid |-> Grids[c.gi].id, kind |-> Kinds[c.kind], lead |-> c.lead, dtype |-> c.dtype,
                                        quad |-> c.quad, prev |-> c.prev, pat |-> c.pat, dims |-> CaseArr.dims,
                                        layout |-> c.layout, storage |-> c.storage, api |-> c.api, square |-> CaseSquare,
                                        sel |-> c.sel, mult |-> c.mult,
                                        sel_faces |-> IF c.api = "isel" THEN SetToSortSeq0(SelSet(c.sel, Grids[c.gi].nf)) ELSE <<>>,
                                        comp_faces |-> IF c.api = "isel" THEN SetToSortSeq0(SelSet(Comp(c.sel), Grids[c.gi].nf)) ELSE <<>>,
                                        name |-> CaseArr.name, table |-> CaseArr.data,
                                        parts |-> IF c.pat = "lin" /\ c.dtype # "bool" /\ c.kind = 1 /\ c.layout = "last" /\ c.api = "dataarray"
                                                  THEN << LinA, LinB,
                                                          [ l \in 1..Prod(c.lead) |-> [ e \in 1..Grids[c.gi].nf |-> Pattern("ramp", l, e) ] ],
                                                          [ l \in 1..Prod(c.lead) |-> [ e \in 1..Grids[c.gi].nf |-> Pattern("mixed", l, e) ] ] >>
                                                  ELSE <<>>,
                                        coincident |-> CaseCoincident, expected |-> CaseExpected ]>>)

(* ---- Judge ------------------------------------------------------------------------------------ *)
\* one ndjson line per call: id, expected (as emitted), coincident, and the projection of what happened:
\*   raised, dims (names), name, same_grid (result.uxgrid is the source's), shape, is_uxda,
\*   q = quantised relative deviation from SUM coeff*area(fresh grid, requested quadrature): <<ceil(x*1e13), ceil(x*1e6)>>
\*   qlin (linear-combination cases), qone (constant-one cases: against the fresh grid's total area)
Recs  == ndJsonDeserialize(IOEnv.REC_FILE)
Block == 64
JInit == /\ ji \in { -b : b \in 1..((Len(Recs) + Block - 1) \div Block) }
         /\ g = <<>> /\ x = <<>> /\ y = <<>> /\ stage = 0 /\ c = <<>>
JNext == ji < 0 /\ ji' \in { k \in 1..Len(Recs) : (k - 1) \div Block = (-ji) - 1 } /\ UNCHANGED <<g, x, y, stage, c>>
Within12(q) == q[1] <= 10          \* x <= 1e-12
Has(r, k) == k \in DOMAIN r
\* r.api = "dataset": UxDataset.integrate returns bare numbers (no dims, name or grid to judge)
JClauses(r) ==
    LET e == r.expected
        value == e.outcome = "Value"
        got   == e.outcome # "Rejected" /\ ~r.raised          \* a value came back where one is possible
        uxda  == r.api = "dataarray"
    IN
    [ RejectsNonFace     |-> e.outcome = "Rejected" => r.raised,
      ReturnsValue       |-> value => ~r.raised,
      DropsExactlyFaceDim |-> got => (r.shape = e.shape /\ (uxda => r.dims = e.dims)),
      KeepsName          |-> (got /\ uxda) => r.name = e.name,
      KeepsGrid          |-> (got /\ uxda) => (r.is_uxda /\ r.same_grid),
      WeightedSum        |-> got => Within12(r.q),
      LinearInData       |-> (got /\ Has(r, "qlin")) => Within12(r.qlin),
      OneGivesTotalArea  |-> (got /\ Has(r, "qone")) => Within12(r.qone),
      PartitionIntegralsAdd |-> (got /\ Has(r, "qpart")) => Within12(r.qpart),
      \* against the exact areas of the shrunk faces: relative 1e-6 (the accuracy class of faces up to 10 degrees)
      ScaledIntegralMatchesExact |-> (got /\ Has(r, "qx")) => r.qx[2] <= 1 ]
JFailed(r) == LET cl == JClauses(r) IN { k \in DOMAIN cl : ~cl[k] }
Judge == ji > 0 => LET r == Recs[ji]  fl == JFailed(r) IN
                  fl = {} \/ PrintT(<<"V", r.id, fl, IF r.coincident THEN "coincident-size" ELSE "distinct-size",
                                       [ api |-> r.api, layout |-> r.layout, storage |-> r.storage,
                                         square |-> r.square, prev |-> r.prev, mult |-> r.mult ]>>)
=============================================================================

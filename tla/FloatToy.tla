------------------------------ MODULE FloatToy ------------------------------
(***************************************************************************)
(* A toy binary floating-point format, small enough for TLC to exhaust.    *)
(*                                                                         *)
(* Precision P bits, exponents 0..EMax, gradual underflow: a float is an   *)
(* INTEGER multiple of the least unit (taken as 1), namely any integer x   *)
(* with |x| < 2^P (these include the subnormals) or |x| = m * 2^k with     *)
(* 2^(P-1) <= m < 2^P and 1 <= k <= EMax.  Sums, differences and products  *)
(* of floats are integers, so every exact quantity an error-free           *)
(* transformation speaks about is a TLC integer; fl() is round to nearest, *)
(* ties to even; the fused multiply-add rounds a*b + c once.  Overflow is  *)
(* outside the scope: identities are stated under Finite(..) premises.     *)
(***************************************************************************)
EXTENDS Integers

CONSTANTS P, EMax

RECURSIVE Pow2(_)
Pow2(n) == IF n = 0 THEN 1 ELSE 2 * Pow2(n - 1)
Abs(x) == IF x < 0 THEN -x ELSE x
Sgn(x) == IF x < 0 THEN -1 ELSE IF x > 0 THEN 1 ELSE 0
RECURSIVE Bits(_)
Bits(n) == IF n = 0 THEN 0 ELSE 1 + Bits(n \div 2)          \* n >= 0

MaxFloat == (Pow2(P) - 1) * Pow2(EMax)
IsFloat(x) == LET a == Abs(x)  k == Bits(a) - P IN
              k <= 0 \/ (k <= EMax /\ a % Pow2(k) = 0)
Floats == { x \in (-MaxFloat)..MaxFloat : IsFloat(x) }

\* round to nearest, ties to even (of an integer; the format's least unit is 1)
RN(x) == LET a == Abs(x)  k == Bits(a) - P IN
         IF k <= 0 THEN x
         ELSE LET q == a \div Pow2(k)  r == a % Pow2(k)  h == Pow2(k - 1)
                  up == r > h \/ (r = h /\ q % 2 = 1)
              IN Sgn(x) * (IF up THEN q + 1 ELSE q) * Pow2(k)
Finite(x) == Abs(RN(x)) <= MaxFloat

Add(a, b)    == RN(a + b)
Sub(a, b)    == RN(a - b)
Mul(a, b)    == RN(a * b)
Fma(a, b, c) == RN(a * b + c)

\* unit in the last place of the binade of x (x # 0), and the unit roundoff as a fraction 1 / UInv
Ulp(x) == LET k == Bits(Abs(x)) - P IN IF k <= 0 THEN 1 ELSE Pow2(k)
UInv == Pow2(P)

\* sanity of the format itself (checked by TLC): rounding returns a float, is the identity on floats,
\* is monotone and is a nearest float
RNSane(x) == /\ (Finite(x) => IsFloat(RN(x)))
             /\ (IsFloat(x) => RN(x) = x)
             /\ (Finite(x) => \A y \in Floats : Abs(x - RN(x)) <= Abs(x - y))
=============================================================================

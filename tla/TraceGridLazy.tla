--------------------------- MODULE TraceGridLazy ---------------------------
(***************************************************************************)
(* Validates traces recorded from real Grid objects (harness/gridmachine)  *)
(* against the GridLazy machine.  One ndjson line per trace:               *)
(*   [tid, events: <<e1, e2, ...>>], each event                            *)
(*   [act, h, args, raised, fresh_raised, res_ok, obs, bad, tmpl, earlier, *)
(*    grew]                                                                *)
(* Every event must be a step of the machine (the action named by the      *)
(* event, with the logged arguments, taken from the current abstract       *)
(* state); after the step the normative clauses are evaluated on the       *)
(* logged observation against what the machine's ideal wants (`last.want`):*)
(*   Refines        the result coincides with the ideal result of THIS     *)
(*                  call's arguments (not of an earlier call's)            *)
(*   Outcome        value-or-raise as on a fresh grid                      *)
(*   ResultFresh    the value equals the fresh value                       *)
(*   StoredFresh    every variable stored in any live grid equals its      *)
(*                  fresh value                                            *)
(*   Templates      module-level constants unchanged                       *)
(*   EarlierKept    objects returned earlier are unchanged                 *)
(*   InputsKept     the arrays / dicts / dataset a grid was built from     *)
(*                  are as they were before construction                   *)
(* Verdicts are total: a failing clause is printed as <<"V", tid, l, name>>*)
(* and the trace goes on; <<"E", tid, n>> marks a trace consumed to its    *)
(* end.  Descriptive mismatches (materialised set) are printed as "D".     *)
(***************************************************************************)
EXTENDS GridLazy, Json, IOUtils, TLCExt

Traces == ndJsonDeserialize(IOEnv.TRACE_FILE)

VARIABLES tid, l
tvars == << vars, tid, l >>

Range(s) == { s[i] : i \in DOMAIN s }
\* the initial dataset contents are part of the trace (what the source supplies)
TraceInit == /\ tid \in 1..Len(Traces) /\ l = 0
             /\ InitWith([d \in DsIds |-> IF ToString(d) \in DOMAIN Traces[tid].init
                                              THEN Range(Traces[tid].init[ToString(d)]) \cap Stored ELSE {}])

Ev == Traces[tid].events[l + 1]

StepOf(e) ==
  CASE e.act = "Access"       -> Access(e.h, e.args[1])
    [] e.act = "ComputeAreas" -> ComputeAreas(e.h, << e.args[1], e.args[2], e.args[3] >>)
    [] e.act = "GetBallTree"  -> GetTree("ball", e.h, e.args[1], e.args[2], e.args[3], e.args[4])
    [] e.act = "GetKdTree"    -> GetTree("kd", e.h, e.args[1], e.args[2], e.args[3], e.args[4])
    [] e.act = "ToGdf"        -> ToGdf(e.h, e.args[1], e.args[2], e.args[3], e.args[4], e.args[5])
    [] e.act = "DataToGdf"    -> DataToGdf(e.h, e.args[1], e.args[2], e.args[3], e.args[4])
    [] e.act = "ToPoly"       -> ToPoly(e.h, e.args[1], e.args[2], e.args[3], e.args[4])
    [] e.act = "ToLine"       -> ToLine(e.h, e.args[1], e.args[2], e.args[3], e.args[4])
    [] e.act = "ToXarray"     -> ToXarray(e.h, e.args[1])
    [] e.act = "Derive"       -> Derive(e.h, e.args[1])
    [] e.act = "Chunk"        -> Chunk(e.h)
    [] e.act = "Copy"         -> Copy(e.h, e.args[1], e.args[2])
    [] e.act = "Mutate"       -> Mutate(e.h, e.args[1])
    [] e.act = "EditInput"    -> EditInput(e.h)
    [] e.act = "EditExport"   -> \E x \in exports : x.h = e.h /\ x.fmt = e.args[1] /\ EditExport(x)
    [] e.act = "EditReturned" -> EditReturned(e.h, e.args[1])

\* what the ideal wants to be observed, in the vocabulary of the recorder
SetToSeq1(S) == IF S = {} THEN <<>> ELSE << CHOOSE x \in S : TRUE >>
WantObs(w, act, args) ==
  CASE act \in { "GetBallTree", "GetKdTree" } -> << w[2].kind, w[2].sys, w[2].metric >>
    [] act \in { "ToGdf", "DataToGdf" }       -> << w[2].pe, w[2].proj, w[2].eng, SetToSeq1(w[3]) >>
    [] act \in { "ToPoly", "ToLine" }         -> << w[2].pe, w[2].proj >>
    [] act = "ComputeAreas"                   -> w[2]
    [] act = "Access" /\ args[1] = "face_jacobian" -> w[2]
    [] OTHER                                  -> <<>>

Failed(e, w) ==
  LET c == [ Refines     |-> e.raised \/ e.fresh_raised \/ e.obs = << "-" >> \/ e.obs = WantObs(w, e.act, e.args),
             Outcome     |-> e.raised = e.fresh_raised,
             ResultFresh |-> e.res_ok,
             StoredFresh |-> e.bad = <<>>,
             Templates   |-> e.tmpl = <<>>,
             EarlierKept |-> e.earlier = <<>>,
             InputsKept  |-> e.inputs = <<>> ]
  IN { k \in DOMAIN c : ~c[k] }

\* descriptive: variables that appeared in the dataset though the dependency table does not predict them
Unpredicted(e, newStore, oldStore) == Range(e.grew) \ (newStore \ oldStore)

TraceNext ==
  /\ l < Len(Traces[tid].events)
  /\ LET e == Ev IN
       /\ StepOf(e)
       /\ l' = l + 1 /\ tid' = tid
       /\ LET f == Failed(e, last'.want)
              u == IF Live(e.h) THEN Unpredicted(e, store'[ds'[e.h]], store[ds[e.h]]) ELSE {}
          IN /\ \A k \in f : PrintT(<< "V", Traces[tid].tid, l + 1, k >>)
             /\ (u = {} \/ PrintT(<< "D", Traces[tid].tid, l + 1, u >>))
       /\ (l + 1 = Len(Traces[tid].events) => PrintT(<< "E", Traces[tid].tid, l + 1 >>))

\* the machine's own invariants are evaluated on every state of every trace as well
TraceTypeOK == TypeOK
=============================================================================

---------------------------- MODULE JudgeReaders ----------------------------
(***************************************************************************)
(* C01 - judges what a Grid presents after reading a source.               *)
(*                                                                         *)
(* One ndjson line per opened source.  kind = "case": a source generated   *)
(* by Dialects.tla (the record repeats what TLC emitted with the case:     *)
(* exp, perm, orient, keeps_ids, carried, nn) plus the projection `got` of *)
(* the real Grid:                                                          *)
(*   n_face, n_node, tbl (face_node_connectivity, fill -> PAD),            *)
(*   node_pos (lattice id of every grid node by position, -2 = no lattice  *)
(*   point there), dtype_ok / fill_ok (table name -> BOOLEAN), lon_ok,     *)
(*   lat_ok, and the carried tables that the case supplies.                *)
(* kind = "file": a sample file, judged for standard form and for the      *)
(* number of faces the file itself declares.                               *)
(* kind = "pair": two sample files describing one mesh; b's table is       *)
(* already expressed in a's node ids by position.                          *)
(* Every clause is a named operator; the verdict of a record is the set of *)
(* names of false clauses, printed as <<"V", id, names>>; <<"D", id, ..>>  *)
(* is descriptive only (corner rotation differs although the cycle agrees).*)
(***************************************************************************)
EXTENDS Mesh, Json, IOUtils, TLCExt

Recs  == ndJsonDeserialize(IOEnv.REC_FILE)
Block == 32
NBlocks == (Len(Recs) + Block - 1) \div Block

VARIABLE i

Has(r, f) == f \in DOMAIN r
Rev(s) == [ j \in 1..Len(s) |-> s[Len(s) + 1 - j] ]
Ident(n) == [ k \in 1..n |-> k - 1 ]
RowSet(row) == Range(Unpadded(row))

(* ---- faces ----------------------------------------------------------------- *)
\* corner positions of a grid row: node id -> lattice id of the position the grid gives that node
PosRow(g, row) == [ j \in 1..Len(row) |->
                      IF row[j] >= 0 /\ row[j] < Len(g.node_pos) THEN g.node_pos[row[j] + 1] ELSE -3 ]
GotFace(g, f) == PosRow(g, Unpadded(g.tbl[f]))
FaceAgrees(orient, a, b) == SameCycle(a, b) \/ (orient = "free" /\ SameCycle(Rev(a), b))

\* r.complete[f]: row f of the source is a whole face.  Only a regional MPAS dual has other rows (a vertex
\* some of whose cells are absent): the property does not say whether such a row is a face, so a Grid may
\* present every row (the present cells, padded at the end) or only the complete ones - in the source's order.
CompleteRows(r) == SelectSeq([ k \in 1..Len(r.exp) |-> k ], LAMBDA k : r.complete[k])
AllComplete(r)  == \A k \in 1..Len(r.exp) : r.complete[k]
FaceCount(r)  == /\ Len(r.got.tbl) = r.got.n_face
                 /\ (r.got.n_face = Len(r.exp) \/ (~AllComplete(r) /\ r.got.n_face = Len(CompleteRows(r))))
\* same corner positions in the same cyclic order, face by face in the source's order
FacesMatch(r) == FaceCount(r) =>
                   IF r.got.n_face = Len(r.exp)
                   THEN \A f \in 1..Len(r.exp) :
                          IF r.complete[f] THEN FaceAgrees(r.orient, GotFace(r.got, f), Unpadded(r.exp[f]))
                          ELSE Range(GotFace(r.got, f)) = Range(Unpadded(r.exp[f])) /\ Len(GotFace(r.got, f)) = Len(Unpadded(r.exp[f]))
                   ELSE LET c == CompleteRows(r) IN
                        \A k \in 1..Len(c) : FaceAgrees(r.orient, GotFace(r.got, k), Unpadded(r.exp[c[k]]))
SameStart(r)  == FaceCount(r) /\ r.got.n_face = Len(r.exp) /\ \A f \in 1..Len(r.exp) : GotFace(r.got, f) = Unpadded(r.exp[f])

(* ---- standard form ------------------------------------------------------------ *)
StdDtype(g) == \A k \in DOMAIN g.dtype_ok : g.dtype_ok[k]      \* one flag per index table presented
StdFill(g)  == \A k \in DOMAIN g.fill_ok : g.fill_ok[k]
\* Mesh!PadOnlyAtEnd, written linearly (sample files have rows of thousands of entries)
PadTail(row) == \A j \in 1..(Len(row) - 1) : row[j] = PAD => row[j + 1] = PAD
PadAtEnd(g) == \A f \in 1..Len(g.tbl) : PadTail(g.tbl[f])
InRange(g)  == \A f \in 1..Len(g.tbl) : \A j \in 1..Len(g.tbl[f]) :
                  g.tbl[f][j] = PAD \/ g.tbl[f][j] \in 0..(g.n_node - 1)
LonRange(g) == g.lon_ok
LatRange(g) == g.lat_ok
\* ... under every order in which the Grid's attributes were read (r.later: the later decodings of the same
\* input, each read in another order - see Orders in Dialects.tla)
Laters(r) == IF Has(r, "later") THEN r.later ELSE <<>>
LonRangeAll(r) == LonRange(r.got) /\ \A n \in 1..Len(Laters(r)) : Laters(r)[n].lon_ok
LatRangeAll(r) == LatRange(r.got) /\ \A n \in 1..Len(Laters(r)) : Laters(r)[n].lat_ok
\* the Cartesian node coordinates denote the same lattice points as the spherical ones, whichever was read first
XyzAgrees(r) == /\ (Has(r.got, "xyz_pos") => r.got.xyz_pos = r.got.node_pos)
                /\ \A n \in 1..Len(Laters(r)) : Has(Laters(r)[n], "xyz_pos") => Laters(r)[n].xyz_pos = Laters(r)[n].node_pos
\* index routes keep the source's node numbering: node k of the grid sits where node k of the source sits
NodesKept(r) == r.keeps_ids => (r.got.n_node = r.nn /\ r.got.node_pos = Ident(r.nn))

(* ---- explicit connectivity and centres carried over ------------------------------- *)
SrcMesh(r) == MeshOf(r.exp)
CarriedEdgeNode(r) ==
    Has(r.carried, "edge_node") =>
      IF ~Has(r.got, "edge_node") THEN FALSE
      ELSE IF r.carry_exact
           THEN /\ Len(r.got.edge_node) = Len(r.carried.edge_node)
                /\ \A k \in 1..Len(r.carried.edge_node) :
                      RowOK2(r.got.edge_node[k]) /\ RowAsSide(r.got.edge_node[k]) = RowAsSide(r.carried.edge_node[k])
           ELSE IsEdgeTable(SrcMesh(r), r.got.edge_node)
CarriedFaceEdge(r) ==
    Has(r.carried, "face_edge") =>
      IF ~Has(r.got, "face_edge") THEN FALSE
      ELSE IF r.carry_exact
           THEN IF r.fe_slots = "fixed" THEN r.got.face_edge = r.carried.face_edge
                ELSE /\ Len(r.got.face_edge) = Len(r.carried.face_edge)      \* the same edges for every face
                     /\ \A f \in 1..Len(r.carried.face_edge) :
                           /\ RowSet(r.got.face_edge[f]) = RowSet(r.carried.face_edge[f])
                           /\ Len(Unpadded(r.got.face_edge[f])) = Len(Unpadded(r.carried.face_edge[f]))
                           /\ PadOnlyAtEnd(r.got.face_edge[f])
           ELSE Has(r.got, "edge_node") /\
                IsFaceEdgeTable(SrcMesh(r), r.got.edge_node, r.got.face_edge, MaxSize(SrcMesh(r)))
\* only the edge table was supplied: the face_edge table derived afterwards indexes the carried edge table
DerivedFaceEdge(r) ==
    Has(r.carried, "derive_fe") =>
      /\ Has(r.got, "face_edge_derived") /\ Has(r.got, "edge_node")
      /\ IsFaceEdgeTable(SrcMesh(r), r.got.edge_node, r.got.face_edge_derived, MaxSize(SrcMesh(r)))
RowsAsSets(G, C) == Len(G) = Len(C) /\ \A k \in 1..Len(C) : RowSet(G[k]) = RowSet(C[k]) /\ PadOnlyAtEnd(G[k]) /\ NoDupRow(G[k])
CarriedEdgeFace(r) == Has(r.carried, "edge_face") => (Has(r.got, "edge_face") /\ RowsAsSets(r.got.edge_face, r.carried.edge_face))
CarriedNodeFace(r) == Has(r.carried, "node_face") => (Has(r.got, "node_face") /\ RowsAsSets(r.got.node_face, r.carried.node_face))
CarriedFaceFace(r) ==
    Has(r.carried, "face_face") =>
      /\ Has(r.got, "face_face")
      /\ Len(r.got.face_face) = Len(r.carried.face_face)
      /\ \A f \in 1..Len(r.carried.face_face) :
            \* the same neighbours, as often, and nothing else (a padding slot decoded as a neighbour is "else")
            /\ \A g \in 0..(Len(r.carried.face_face) - 1) : CountIn(r.got.face_face[f], g) = CountIn(r.carried.face_face[f], g)
            /\ Len(Unpadded(r.got.face_face[f])) = Len(Unpadded(r.carried.face_face[f]))
\* centre of expected face k = the centre the source gives its face perm[k]
CarriedCentres(r) == Has(r.carried, "centres") => (Has(r.got, "centres") /\ r.got.centres = r.perm)
CarriedCounts(r)  == Has(r.carried, "npf") => (Has(r.got, "npf") /\ r.got.npf = r.carried.npf)
\* per-element quantities (abstract tags, see Dialects.tla): the values the source gives, under the name that
\* has the same meaning, in element order
CarriedAreas(r)        == Has(r.carried, "face_areas") => (Has(r.got, "face_areas") /\ r.got.face_areas = r.carried.face_areas)
CarriedEdgeNodeDist(r) == Has(r.carried, "edge_node_dist") => (Has(r.got, "edge_node_dist") /\ r.got.edge_node_dist = r.carried.edge_node_dist)
CarriedEdgeFaceDist(r) == Has(r.carried, "edge_face_dist") => (Has(r.got, "edge_face_dist") /\ r.got.edge_face_dist = r.carried.edge_face_dist)

(* ---- decoding a shared input more than once (Decode ; Decode of Dialects.tla) ------------------ *)
\* r.kept[i]: after the i-th decoding the input object still is, bit for bit, what was handed over
\* (deep fingerprint: every variable's dtype, shape, bytes, attributes; dimensions; global attributes)
InputKept(r) == Has(r, "kept") => \A n \in 1..Len(r.kept) : r.kept[n]
\* r.later[i]: projection of the Grid from decoding i + 1 of the SAME input object; r.modes / r.exps say how it
\* is judged: as the faces of the case (by position, like the first decoding) or as the index table TLC derived
\* from the stored source for the other MPAS grid
DecodeRepeatable(r) ==
    Has(r, "later") => \A n \in 1..Len(r.later) :
        LET g == r.later[n] IN
        IF r.modes[n + 1] = "faces"
        THEN LET r2 == [ r EXCEPT !.got = g ] IN FaceCount(r2) /\ FacesMatch(r2) /\ InRange(g) /\ PadAtEnd(g)
        ELSE g.tbl = r.exps[n + 1]

\* what the source shipped is still what the Grid presents after the reads in between (r.got_after: the carried
\* values projected again after the sweep of Dialects!Sweeps), on the first decoding and on the repeats
CarriedAll(r) == /\ CarriedEdgeNode(r) /\ CarriedFaceEdge(r) /\ CarriedEdgeFace(r) /\ CarriedNodeFace(r) /\ CarriedFaceFace(r)
                 /\ CarriedCentres(r) /\ CarriedCounts(r) /\ CarriedAreas(r) /\ CarriedEdgeNodeDist(r) /\ CarriedEdgeFaceDist(r)
CarriedStable(r) == /\ (Has(r, "got_after") => CarriedAll([ r EXCEPT !.got = r.got_after ]))
                    /\ (Has(r, "later_after") => \A n \in 1..Len(r.later_after) : CarriedAll([ r EXCEPT !.got = r.later_after[n] ]))

CaseClauses(r) ==
  [ FaceCount       |-> FaceCount(r),
    FacesMatch      |-> FacesMatch(r),
    StdDtype        |-> StdDtype(r.got),
    StdFill         |-> StdFill(r.got),
    PadAtEnd        |-> PadAtEnd(r.got),
    InRange         |-> InRange(r.got),
    LonRange        |-> LonRangeAll(r),
    LatRange        |-> LatRangeAll(r),
    XyzAgrees       |-> XyzAgrees(r),
    NodesKept       |-> NodesKept(r),
    CarriedEdgeNode |-> CarriedEdgeNode(r),
    CarriedFaceEdge |-> CarriedFaceEdge(r),
    DerivedFaceEdge |-> DerivedFaceEdge(r),
    CarriedEdgeFace |-> CarriedEdgeFace(r),
    CarriedNodeFace |-> CarriedNodeFace(r),
    CarriedFaceFace |-> CarriedFaceFace(r),
    CarriedCentres  |-> CarriedCentres(r),
    CarriedCounts   |-> CarriedCounts(r),
    CarriedAreas    |-> CarriedAreas(r),
    CarriedEdgeNodeDist |-> CarriedEdgeNodeDist(r),
    CarriedEdgeFaceDist |-> CarriedEdgeFaceDist(r),
    CarriedStable   |-> CarriedStable(r),
    InputKept       |-> InputKept(r),
    DecodeRepeatable |-> DecodeRepeatable(r) ]

(* ---- sample files (code -> spec) ------------------------------------------------------ *)
\* every face has at least three corners
EnoughCorners(g) == \A f \in 1..Len(g.tbl) : Len(Unpadded(g.tbl[f])) >= 3
FileClauses(r) ==
  [ StdDtype |-> StdDtype(r.got), StdFill |-> StdFill(r.got), PadAtEnd |-> PadAtEnd(r.got),
    InRange |-> InRange(r.got), LonRange |-> LonRange(r.got), LatRange |-> LatRange(r.got),
    EnoughCorners |-> EnoughCorners(r.got),
    ShapeAgrees |-> r.got.n_face = Len(r.got.tbl),
    \* the number of elements the file itself declares (its face dimension / element blocks / polygon parts)
    DeclaredFaceCount |-> Has(r, "declared_n_face") => r.got.n_face = r.declared_n_face ]
\* two formats of one mesh: same face count, each face the same corner cycle (b expressed in a's node ids)
PairClauses(r) ==
  [ PairFaceCount |-> Len(r.a) = Len(r.b),
    PairFacesAgree |-> Len(r.a) = Len(r.b) =>
                         \A f \in 1..Len(r.a) : SameCycle(Unpadded(r.a[f]), Unpadded(r.b[f])) ]

Clauses(r) == CASE r.kind = "case" -> CaseClauses(r)
                [] r.kind = "file" -> FileClauses(r)
                [] r.kind = "pair" -> PairClauses(r)
Failed(r) == LET c == Clauses(r) IN { k \in DOMAIN c : ~c[k] }
Drift(r)  == IF r.kind = "case" /\ FaceCount(r) /\ FacesMatch(r) /\ r.orient = "fixed" /\ ~SameStart(r)
             THEN { "corner_rotation" } ELSE {}

Init == i \in { -b : b \in 1..NBlocks }
Next == /\ i < 0
        /\ i' \in { k \in 1..Len(Recs) : (k - 1) \div Block = (-i) - 1 }

Judge == i > 0 =>
           LET r == Recs[i]
               f == Failed(r)
               dr == Drift(r)
           IN /\ (f = {} \/ PrintT(<< "V", r.id, f >>))
              /\ (dr = {} \/ PrintT(<< "D", r.id, dr >>))
=============================================================================

------------------------------- MODULE ZonalOps -------------------------------
(***************************************************************************)
(* X02 -- pure operators shared by the model (ZonalIntervals) and the      *)
(* judge (JudgeZonal): the DEFINITION of zonal weights on a circle of m    *)
(* unit cells.  Rows are line intervals <<a, b, face>> covering the cells  *)
(* a..b-1; every covered cell is shared equally among the faces covering   *)
(* it.  Weights are kept exact as integers scaled by D = 12 = lcm(1..4)    *)
(* (at most 4 faces overlap in any generated configuration; a judge of     *)
(* recorded behaviour with more faces uses DBig = lcm(1..8) = 840).        *)
(***************************************************************************)
EXTENDS Integers, Sequences, FiniteSets

D == 12
RECURSIVE SumOver(_, _)
SumOver(S, fn) == IF S = {} THEN 0 ELSE LET x == CHOOSE y \in S : TRUE IN fn[x] + SumOver(S \ {x}, fn)
RECURSIVE SumSeqFrom(_, _)
SumSeqFrom(s, k) == IF k > Len(s) THEN 0 ELSE s[k] + SumSeqFrom(s, k + 1)
SumSeq(s) == SumSeqFrom(s, 1)

RowCells(m, rows, f) == UNION { { c \in 0..(m - 1) : rows[k][1] <= c /\ c < rows[k][2] } : k \in { j \in DOMAIN rows : rows[j][3] = f } }
W1Rows(m, rows, n) == LET cov == [ f \in 1..n |-> RowCells(m, rows, f) ]
                          cnt == [ c \in 0..(m - 1) |-> Cardinality({ f \in 1..n : c \in cov[f] }) ]
                      IN [ f \in 1..n |-> SumOver(cov[f], [ c \in cov[f] |-> D \div cnt[c] ]) ]
CoveredRows(m, rows, n) == UNION { RowCells(m, rows, f) : f \in 1..n }
=============================================================================

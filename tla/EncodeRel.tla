------------------------------ MODULE EncodeRel ------------------------------
(***************************************************************************)
(* C07, pure part: what an encoded grid *is* in each of the three output   *)
(* formats, how it is decoded by the FORMAT'S OWN conventions, how the     *)
(* library's readers decode it, and when two face lists are "the same      *)
(* faces".  No variables.  Shared by                                        *)
(*   EncodeLazy  (state machine: encoders/decoders on abstract meshes),     *)
(*   TraceEncode (recorded executions of the real code),                    *)
(*   JudgeEncode (records of real encodings of big meshes).                 *)
(*                                                                          *)
(* A face is a sequence of POSITION ids (a position = a point of the        *)
(* sphere; two nodes at the same point have the same id).  -1 = a position  *)
(* the harness could not match to any source node.                          *)
(*                                                                          *)
(* An encoded dataset is a record ("E-record"), same shape for all formats: *)
(*  kind    "ugrid" | "exodus" | "scrip" | "none"                           *)
(*  conn    UGRID: face_node_connectivity rows as stored; FILL = an entry    *)
(*          equal to the variable's declared _FillValue, JUNK = any other    *)
(*          integer outside -2^30..2^30                                      *)
(*  start   UGRID: declared start_index, -1 = attribute absent              *)
(*  hasfill UGRID: a _FillValue attribute is declared                        *)
(*  blocks  Exodus: <<connect1 rows, connect2 rows, ...>> as stored (1-based)*)
(*  corners SCRIP: per cell the position ids of grid_corner_lon/lat          *)
(*  nnode   number of nodes the dataset declares (UGRID, Exodus)             *)
(*  pos     position id of node i (1-based index into this sequence)         *)
(*  has     names of the variables the dataset contains that the format      *)
(*          gives a meaning to                                               *)
(***************************************************************************)
EXTENDS Naturals, Integers, Sequences, FiniteSets, TLC

FILL == -9
JUNK == -7

Range(s)  == { s[i] : i \in DOMAIN s }
MaxOf(S)  == CHOOSE x \in S : \A y \in S : y <= x
MinOf(S)  == CHOOSE x \in S : \A y \in S : x <= y
Widths(m) == { Len(m[i]) : i \in DOMAIN m }
Width(m)  == IF m = <<>> THEN 0 ELSE MaxOf(Widths(m))
Mixed(m)  == Cardinality(Widths(m)) > 1
NNodeOf(m) == IF m = <<>> THEN 0 ELSE MaxOf(UNION { Range(m[i]) : i \in DOMAIN m }) + 1

RECURSIVE Flat(_)
Flat(ss) == IF ss = <<>> THEN <<>> ELSE Head(ss) \o Flat(Tail(ss))

\* the k-th smallest element of a finite set of integers
Kth(S, k) == CHOOSE x \in S : Cardinality({ y \in S : y <= x }) = k
SortedSeq(S) == [ k \in 1..Cardinality(S) |-> Kth(S, k) ]

(* ---- cycles -------------------------------------------------------------- *)
Rot(f, k)       == [ j \in 1..Len(f) |-> f[((j + k - 1) % Len(f)) + 1] ]
SameCycle(a, b) == /\ Len(a) = Len(b)
                   /\ (Len(a) = 0 \/ \E k \in 0..(Len(a) - 1) : Rot(a, k) = b)
\* canonical rotation: start at the first occurrence of the least element
Canon(f) == IF f = <<>> THEN f
            ELSE LET m == MinOf(Range(f))
                     k == MinOf({ j \in 1..Len(f) : f[j] = m })
                 IN Rot(f, k - 1)
\* drop corners that repeat their cyclic predecessor (SCRIP pads short cells by
\* repeating a corner: the format cannot say "fewer corners" in any other way)
Collapse(f) ==
    IF Len(f) <= 1 THEN f
    ELSE LET keep == { j \in 1..Len(f) : f[j] # f[IF j = 1 THEN Len(f) ELSE j - 1] }
         IN IF keep = {} THEN <<f[1]>> ELSE [ k \in 1..Cardinality(keep) |-> f[Kth(keep, k)] ]
SimpleFace(f) == Len(f) >= 3 /\ \A i, j \in 1..Len(f) : i # j => f[i] # f[j]

(* ---- "the same faces" ------------------------------------------------------ *)
SeqMatch(src, got) == /\ Len(src) = Len(got)
                      /\ \A i \in DOMAIN src : SameCycle(src[i], got[i])
BagMatch(src, got) ==
    /\ Len(src) = Len(got)
    /\ LET cs == [ i \in DOMAIN src |-> Canon(src[i]) ]
           cg == [ i \in DOMAIN got |-> Canon(got[i]) ]
       IN \A i \in DOMAIN cs :
            Cardinality({ j \in DOMAIN cs : cs[j] = cs[i] }) = Cardinality({ j \in DOMAIN cg : cg[j] = cs[i] })
\* UGRID, SCRIP: same faces in the same order; Exodus: same multiset (blocks group by size).
\* `got` is compared as it is: a face that comes back with a repeated corner is another face
\* (the repetition SCRIP uses for short cells is undone by the format's decoder, ScripFaces,
\* and has to be undone by a reader: a reopened grid has no repeated corners)
FacesMatch(fmt, src, got) ==
    IF fmt = "exodus" THEN BagMatch(src, got) ELSE SeqMatch(src, got)

\* a strip of faces with the given sizes (face-size sequence is the generator's parameter):
\* nodes 0 and 1 are the left bottom / left top corner; a face of size n takes (n + 1) \div 2
\* corners along the bottom and the rest along the top, counter-clockwise; neighbours share the
\* edge between them.  The harness only attaches coordinates to this table.
RECURSIVE StripFrom(_, _, _, _)
StripFrom(sizes, bl, tl, next) ==
    IF sizes = <<>> THEN <<>>
    ELSE LET n  == Head(sizes)
             b  == (n + 1) \div 2
             t  == n - b
             bot == <<bl>> \o [ j \in 1..(b - 1) |-> next + j - 1 ]
             tops == [ j \in 1..(t - 1) |-> next + (b - 1) + j - 1 ]          \* left to right
             topRL == [ j \in 1..(t - 1) |-> tops[t - j] ] \o <<tl>>           \* right to left, ending at tl
             nbl == bot[b]
             ntl == IF t > 1 THEN tops[t - 1] ELSE tl
         IN << bot \o topRL >> \o StripFrom(Tail(sizes), nbl, ntl, next + n - 2)
StripMesh(sizes) == StripFrom(sizes, 0, 1, 2)

(* ---- E-records --------------------------------------------------------------- *)
NoEnc == [ kind |-> "none", conn |-> <<>>, start |-> 0, hasfill |-> FALSE, blocks |-> <<>>,
           corners |-> <<>>, nnode |-> 0, pos |-> <<>>, has |-> {} ]

PadRow(f, w, x) == [ j \in 1..w |-> IF j <= Len(f) THEN f[j] ELSE x ]
Table(m)        == [ i \in DOMAIN m |-> PadRow(m[i], Width(m), FILL) ]
IdPos(n)        == [ i \in 1..n |-> i - 1 ]

ScripRequired  == { "grid_corner_lat", "grid_corner_lon", "grid_center_lat", "grid_center_lon",
                    "grid_imask", "grid_area", "grid_dims" }
ExodusRequired == { "coord", "connect" }
UgridRequired  == { "topology", "face_node_connectivity", "node_lon", "node_lat" }

(* ---- decoding by the format's conventions (independent of the library) ------ *)
\* UGRID 1.0: start_index absent means 0; padding only with the declared _FillValue,
\* only at the row end; every other entry, minus start_index, is a node number.
UgridRowOK(E, r) ==
    LET si == IF E.start = -1 THEN 0 ELSE E.start
    IN /\ \A j \in 1..Len(r) :
            IF r[j] = FILL THEN E.hasfill /\ \A k \in j..Len(r) : r[k] = FILL
            ELSE (r[j] - si) \in 0..(E.nnode - 1)
       /\ Cardinality({ j \in 1..Len(r) : r[j] # FILL }) >= 3
UgridOK(E) == /\ UgridRequired \subseteq E.has
              /\ Len(E.pos) = E.nnode
              /\ \A i \in DOMAIN E.conn : UgridRowOK(E, E.conn[i])
UgridFaces(E) ==
    LET si == IF E.start = -1 THEN 0 ELSE E.start
    IN [ i \in DOMAIN E.conn |->
           LET r == SelectSeq(E.conn[i], LAMBDA x : x # FILL)
           IN [ j \in DOMAIN r |-> E.pos[r[j] - si + 1] ] ]

\* Exodus II: every connectN is a rectangular table of 1-based node numbers
ExodusOK(E) == /\ ExodusRequired \subseteq E.has
               /\ Len(E.pos) = E.nnode
               /\ Len(E.blocks) >= 1
               /\ \A b \in DOMAIN E.blocks :
                    /\ Len(E.blocks[b]) >= 1
                    /\ \A i \in DOMAIN E.blocks[b] :
                         /\ Len(E.blocks[b][i]) = Len(E.blocks[b][1])
                         /\ Len(E.blocks[b][i]) >= 3
                         /\ \A j \in DOMAIN E.blocks[b][i] : E.blocks[b][i][j] \in 1..E.nnode
ExodusFaces(E) == LET rows == Flat(E.blocks)
                  IN [ i \in DOMAIN rows |-> [ j \in DOMAIN rows[i] |-> E.pos[rows[i][j]] ] ]

\* SCRIP: a cell is its list of corner positions; short cells repeat a corner
ScripOK(E) == /\ ScripRequired \subseteq E.has
              /\ Len(E.corners) >= 1
              /\ \A i \in DOMAIN E.corners :
                   /\ Len(E.corners[i]) = Len(E.corners[1])
                   /\ Len(Collapse(E.corners[i])) >= 3
ScripFaces(E) == [ i \in DOMAIN E.corners |-> Collapse(E.corners[i]) ]

WellFormed(E) == CASE E.kind = "ugrid"  -> UgridOK(E)
                   [] E.kind = "exodus" -> ExodusOK(E)
                   [] E.kind = "scrip"  -> ScripOK(E)
                   [] OTHER -> FALSE
Decoded(E)    == CASE E.kind = "ugrid"  -> UgridFaces(E)
                   [] E.kind = "exodus" -> ExodusFaces(E)
                   [] E.kind = "scrip"  -> ScripFaces(E)
                   [] OTHER -> <<>>
\* a short reason (first that applies), for reports and known-finding signatures
WhyIllFormed(E) ==
  CASE E.kind = "ugrid" ->
         IF ~(UgridRequired \subseteq E.has)
         THEN (IF "topology" \notin E.has THEN "missing:topology"
               ELSE IF "face_node_connectivity" \notin E.has THEN "missing:face_node_connectivity"
               ELSE "missing:node_coordinates")
         ELSE IF Len(E.pos) # E.nnode THEN "node_count"
         ELSE "start_index_or_fill_not_truthful"
    [] E.kind = "exodus" ->
         IF ~(ExodusRequired \subseteq E.has) THEN "missing_variables"
         ELSE IF Len(E.pos) # E.nnode THEN "node_count"
         ELSE IF \E b \in DOMAIN E.blocks : \E i \in DOMAIN E.blocks[b] : Len(E.blocks[b][i]) # Len(E.blocks[b][1]) THEN "ragged_block"
         ELSE "connect_entry_not_a_node_number"
    [] E.kind = "scrip" ->
         IF ~(ScripRequired \subseteq E.has) THEN "missing_variables" ELSE "corners"
    [] OTHER -> "no_dataset"
\* "start_index and _FillValue say the truth about the stored integers" is UgridRowOK;
\* this names the reason when it is false
UgridAttrsTruthful(E) == E.kind = "ugrid" => \A i \in DOMAIN E.conn : UgridRowOK(E, E.conn[i])

(* ---- abstract encoders (the writers, with their mechanism choices as data) ---- *)
EncUgrid(m, hasLonLat) ==
    [ NoEnc EXCEPT !.kind = "ugrid", !.conn = Table(m), !.start = 0, !.hasfill = TRUE,
                   !.nnode = NNodeOf(m), !.pos = IdPos(NNodeOf(m)),
                   !.has = { "topology", "face_node_connectivity" }
                           \cup (IF hasLonLat THEN { "node_lon", "node_lat" } ELSE {}) ]

\* scripPad: "repeat_last" | "index_with_fill" (fancy-indexing the node arrays with the
\* fill value: out of bounds as soon as one row is padded)
ScripRaises(m, scripPad) == scripPad = "index_with_fill" /\ Mixed(m)
EncScrip(m) ==
    [ NoEnc EXCEPT !.kind = "scrip",
                   !.corners = [ i \in DOMAIN m |-> PadRow(m[i], Width(m), m[i][Len(m[i])]) ],
                   !.has = ScripRequired ]

\* Exodus writer.  K = [fillTest, blockStart, units]
\*  fillTest   "fill_value": a row ends at the first fill value
\*             "minus_one" : a row ends at the first -1 (never present: rows keep their padding)
\*  blockStart "accumulate": start += num_faces;  "assign": start = num_faces
\*  units      "converted" | "raw" (degrees fed to a radian formula: positions are wrong
\*             whenever x, y, z have to be derived from lon/lat)
ExoRowLen(r, fillTest) ==
    LET stop == IF fillTest = "fill_value" THEN FILL ELSE -1
        S == { j \in 1..Len(r) : r[j] = stop }
    IN IF S = {} THEN Len(r) ELSE MinOf(S) - 1
ExoNoFill(m, fillTest) ==
    LET T == Table(m) IN [ i \in DOMAIN T |-> SubSeq(T[i], 1, ExoRowLen(T[i], fillTest)) ]
StableBySize(rows) ==
    Flat([ k \in 1..Cardinality(Widths(rows)) |->
             SelectSeq(rows, LAMBDA r : Len(r) = Kth(Widths(rows), k)) ])
RECURSIVE ExoBlocks(_, _, _, _, _)
ExoBlocks(sorted, sizes, k, start, K) ==
    IF k > Len(sizes) THEN <<>>
    ELSE LET n    == Cardinality({ i \in DOMAIN sorted : Len(sorted[i]) = sizes[k] })
             rows == SubSeq(sorted, start + 1, start + n)
             blk  == [ i \in DOMAIN rows |-> [ j \in DOMAIN rows[i] |-> rows[i][j] + 1 ] ]
         IN <<blk>> \o ExoBlocks(sorted, sizes, k + 1,
                                 IF K.blockStart = "accumulate" THEN start + n ELSE n, K)
ExoRagged(blocks) == \E b \in DOMAIN blocks : \E i \in DOMAIN blocks[b] :
                        Len(blocks[b][i]) # Len(blocks[b][1])
EncExodus(m, K, derivedXYZ) ==
    LET rows   == ExoNoFill(m, K.fillTest)
        sorted == StableBySize(rows)
        blocks == ExoBlocks(sorted, SortedSeq(Widths(rows)), 1, 0, K)
        n      == NNodeOf(m)
    IN [ NoEnc EXCEPT !.kind = "exodus", !.blocks = blocks, !.nnode = n,
                      !.pos = IF K.units = "raw" /\ derivedXYZ THEN [ i \in 1..n |-> -1 ] ELSE IdPos(n),
                      !.has = ExodusRequired ]

(* ---- the library's readers (Reopen), with their mechanism choices as data ---- *)
\* returns [st |-> "ok" | "raise", faces |-> ...]
Raise == [ st |-> "raise", faces |-> <<>> ]
ReadUgrid(E) == IF ~({ "node_lon", "node_lat", "topology", "face_node_connectivity" } \subseteq E.has) THEN Raise
                ELSE [ st |-> "ok",
                       faces |-> [ i \in DOMAIN E.conn |->
                                     LET r == SelectSeq(E.conn[i], LAMBDA x : x # FILL)
                                     IN [ j \in DOMAIN r |-> IF (r[j] - (IF E.start = -1 THEN 0 ELSE E.start) + 1) \in DOMAIN E.pos
                                                             THEN E.pos[r[j] - (IF E.start = -1 THEN 0 ELSE E.start) + 1] ELSE -1 ] ] ]
\* exoReader "all_blocks" | "last_block"; an entry e means node e - 1; 0 and (fill + 1) are padding
ReadExodus(E, exoReader) ==
    IF E.blocks = <<>> THEN Raise
    ELSE LET rows == IF exoReader = "all_blocks" THEN Flat(E.blocks) ELSE E.blocks[Len(E.blocks)]
         IN [ st |-> "ok",
              faces |-> [ i \in DOMAIN rows |->
                            LET r == SelectSeq(rows[i], LAMBDA x : x - 1 # FILL /\ x - 1 # -1)
                            IN [ j \in DOMAIN r |-> IF r[j] \in DOMAIN E.pos THEN E.pos[r[j]] ELSE -1 ] ] ]
\* scripReader: how the reader undoes the corner repetition of short cells
\*   "trailing_run"     every trailing corner equal to its predecessor is padding
\*   "last_column_only" only the last column is looked at (cells two or more corners short keep repeats)
\*   "keep"             nothing is undone
RECURSIVE TrimTrail(_)
TrimTrail(r) == IF Len(r) >= 2 /\ r[Len(r)] = r[Len(r) - 1] THEN TrimTrail(SubSeq(r, 1, Len(r) - 1)) ELSE r
ReadScrip(E, scripReader) ==
    IF ~(ScripRequired \subseteq E.has) THEN Raise
    ELSE [ st |-> "ok",
           faces |-> [ i \in DOMAIN E.corners |->
                         LET r == E.corners[i] IN
                         CASE scripReader = "trailing_run" -> TrimTrail(r)
                           [] scripReader = "last_column_only" ->
                                IF Len(r) >= 2 /\ r[Len(r)] = r[Len(r) - 1] THEN SubSeq(r, 1, Len(r) - 1) ELSE r
                           [] OTHER -> r ] ]
\* R = [exoReader, scripReader]
ReadBack(E, R) == CASE E.kind = "ugrid"  -> ReadUgrid(E)
                    [] E.kind = "exodus" -> ReadExodus(E, R.exoReader)
                    [] E.kind = "scrip"  -> ReadScrip(E, R.scripReader)
                    [] OTHER -> Raise
=============================================================================

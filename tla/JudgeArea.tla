----------------------------- MODULE JudgeArea -----------------------------
(***************************************************************************)
(* C05: judges areas recorded from the implementation.                     *)
(*                                                                         *)
(* The harness evaluates the exact descriptors of AreaCases.tla to floats  *)
(* and reports every deviation as a QUANTISED RELATIVE ERROR               *)
(*      q = << ceil(x * 10^13) , ceil(x * 10^6) >>   (each capped at 2^30) *)
(* (x = |observed - reference| / exact area).  Everything else -- which    *)
(* tolerance applies to which face (the diameter bucket was decided        *)
(* exactly by AreaCases), which orders must converge to what, what         *)
(* "invariant", "additive", "4 pi" mean -- is decided here.  One ndjson    *)
(* line per case; the verdict is the set of names of the false clauses,    *)
(* printed as <<"V", id, names, cartesian class>>.                         *)
(*                                                                         *)
(* Tolerances are those of the property text: default rule 1e-2 / 1e-4 /   *)
(* 1e-6 relative for faces at most 65 / 30 / 10 degrees across; highest    *)
(* order of each family within 1e-9 on faces up to 30 degrees and never    *)
(* worse than the lowest order; renumbering and rigid rotation 1e-10;      *)
(* start corner, coordinate input, additivity and 4 pi "to the same        *)
(* accuracy", i.e. the class of the face (two quantities of the class are  *)
(* compared, hence twice the tolerance).                                   *)
(***************************************************************************)
EXTENDS Integers, Sequences, FiniteSets, TLC, Json, IOUtils

Recs  == ndJsonDeserialize(IOEnv.REC_FILE)
Block == 64
VARIABLE i
Init == i \in { -b : b \in 1..((Len(Recs) + Block - 1) \div Block) }
Next == i < 0 /\ i' \in { k \in 1..Len(Recs) : (k - 1) \div Block = (-i) - 1 }

Cap == 1073741824
RECURSIVE Pow10(_)
Pow10(e) == IF e = 0 THEN 1 ELSE 10 * Pow10(e - 1)
\* x <= m * 10^-e
Le(q, m, e) == IF e <= 6 THEN q[2] <= m * Pow10(6 - e) ELSE q[1] <= m * Pow10(13 - e)
\* x <= y (decided on the fine scale when y is representable there)
Leq(qx, qy) == IF qy[1] < Cap THEN qx[1] <= qy[1] ELSE (qx[1] < Cap \/ qx[2] <= qy[2])
\* the accuracy class of a face, as <<m, e>>; faces wider than 65 degrees have none
HasClass(b) == b \in {"le10", "le30", "le65"}
TolE(b)   == CASE b = "le10" -> 6 [] b = "le30" -> 4 [] b = "le65" -> 2 [] OTHER -> 2
Small(b)  == b \in {"le10", "le30"}

Has(r, k) == k \in DOMAIN r
\* errors of one family, lowest order first: the highest order is within 1e-9 on faces up to 30 degrees
\* and never worse than the lowest order.  The second part is only demanded above a floor (1e-4 up to
\* 65 degrees): a one-point rule is accidentally very good on some faces (observed: gaussian order 2
\* slightly worse than order 1 on small triangles), and an error below the floor is not a failure to
\* converge.  Faces wider than 65 degrees are not judged here at all: a convex quadrilateral with sides
\* below 90 degrees can be 160 degrees across, its fan triangle is nearly singular, and the highest
\* triangular order is then still 16 % off while order 1 happens to be 10 % off (observed); the property
\* states no rate there.  Intermediate orders are judged by HigherOrders, not against order 1.
FloorE(b) == CASE b = "le65" -> 4 [] OTHER -> 9
Converges(b, errs) ==
    /\ Small(b) => Le(errs[Len(errs)], 1, 9)
    /\ HasClass(b) => (Leq(errs[Len(errs)], errs[1]) \/ Le(errs[Len(errs)], 1, FloorE(b)))
\* "converges as the order rises", intermediate orders: a rule at least as exact as the default one
\* (gaussian with >= 3 points integrates degree 5, triangular orders >= 4) is at least within the
\* accuracy class the property grants the default rule on that face
HigherOrders(b, g, t) ==
    HasClass(b) => /\ \A k \in 3..Len(g) : Le(g[k], 1, TolE(b))
                   /\ \A k \in 2..Len(t) : Le(t[k], 1, TolE(b))

FaceClauses(r) ==
    [ NonNegative          |-> ~r.neg,
      DefaultAccuracy      |-> HasClass(r.bucket) => Le(r.d, 1, TolE(r.bucket)),
      ConvergesGaussian    |-> Converges(r.bucket, r.g),
      ConvergesTriangular  |-> Converges(r.bucket, r.t),
      HigherOrdersWithinClass |-> HigherOrders(r.bucket, r.g, r.t),
      CartesianInputAgrees |-> ~r.cneg /\ Le(r.cx, 1, TolE(r.bucket)) ]

SubOK(b, s) == /\ HasClass(b) => Le(s.add_d, 2, TolE(b))
               /\ Small(b) => Le(s.add_hi, 2, 9)
OrbitClauses(r) ==
    [ NonNegative          |-> ~r.neg,
      StartCornerInvariant |-> /\ HasClass(r.bucket) => Le(r.shift_d, 2, TolE(r.bucket))
                               /\ Small(r.bucket) => Le(r.shift_hi, 2, 9),
      RotationInvariant    |-> Le(r.rot, 1, 10),
      Additive             |-> \A k \in 1..Len(r.subs) : SubOK(r.bucket, r.subs[k]),
      PieceAccuracy        |-> HasClass(r.bucket) => \A k \in 1..Len(r.subs) : Le(r.subs[k].piece_d, 1, TolE(r.bucket)) ]

MeshClauses(r) ==
    [ NonNegative          |-> ~r.neg,
      TotalIs4Pi           |-> /\ HasClass(r.bucket) => Le(r.tot_d, 1, TolE(r.bucket))
                               /\ Small(r.bucket) => Le(r.tot_hi, 1, 9)
                               /\ Converges(r.bucket, r.tot_g) /\ Converges(r.bucket, r.tot_t)
                               /\ HigherOrders(r.bucket, r.tot_g, r.tot_t),
      TotalFunctionAgrees  |-> Le(r.tot_fn, 1, 12),
      RenumberInvariant    |-> Le(r.renum, 1, 10),
      CachedEqualsFresh    |-> r.cached ]

\* a grid whose source stores float32 coordinates: every call returns (both inputs), and the areas
\* computed from the STORED coordinates are those of the float64-built grid holding the same values, to
\* single precision (q).  The other input uses coordinates the grid derives in the source's precision
\* (6e-8 in position, i.e. up to 5e-6 of the area of a 0.7 degree face -- observed): qd is only held to a
\* gross 1e-4, which is not a tolerance of the property but a guard against a wrong value.
F32Clauses(r) ==
    [ NonNegative           |-> r.raised \/ ~r.neg,
      SinglePrecisionSource |-> ~r.raised /\ Le(r.q, 1, 6) /\ Le(r.qd, 1, 4) ]

\* a grid derived from a source (AreaDerived.tla): r.exp = the source faces it must consist of and
\* r.exp_sizes their sizes (both emitted by TLC); q_inv = deviation of every area observation (face_areas,
\* compute_face_areas in both inputs, total) from the FRESH source's values of those faces; qe = per face
\* <<class, deviation of the default-rule area from the exact excess>>
DerivedClauses(r) ==
    [ DerivedReturns             |-> ~r.raised,
      DerivedFaceCount           |-> ~r.raised => r.n_face = Len(r.exp),
      DerivedSizes               |-> ~r.raised => r.npf = r.exp_sizes,
      DerivedAreasAreSourceAreas |-> ~r.raised => Le(r.q_inv, 1, 10),
      DerivedAreasExact          |-> ~r.raised => \A k \in 1..Len(r.qe) :
                                         HasClass(r.qe[k][1]) => Le(r.qe[k][2], 1, TolE(r.qe[k][1])),
      NonNegative                |-> ~r.raised => ~r.neg ]
DualClauses(r) ==
    [ DerivedReturns   |-> ~r.raised,
      DualHistoryFree  |-> ~r.raised => Le(r.q_inv, 1, 10),
      DualTotalIs4Pi   |-> (~r.raised /\ r.closed) => Le(r.tot, 1, 2),
      NonNegative      |-> ~r.raised => ~r.neg ]
PartitionClauses(r) == [ PartitionAdds |-> Le(r.part_q, 1, 10) ]

Clauses(r) == CASE r.kind = "face" -> FaceClauses(r)
                [] r.kind = "derived" -> DerivedClauses(r)
                [] r.kind = "dual" -> DualClauses(r)
                [] r.kind = "partition" -> PartitionClauses(r)
                [] r.kind = "f32" -> F32Clauses(r)
                [] r.kind = "orbit" -> OrbitClauses(r)
                [] r.kind = "mesh" -> MeshClauses(r)
Failed(r) == LET c == Clauses(r) IN { k \in DOMAIN c : ~c[k] }
\* abstract class of a Cartesian-input disagreement (part of a finding's signature)
CartClass(r) == IF r.kind = "face" /\ Has(r, "czero") /\ r.czero THEN "degenerate" ELSE "other"

Judge == i > 0 => LET r == Recs[i]  fl == Failed(r) IN
                  fl = {} \/ PrintT(<<"V", r.id, fl, CartClass(r)>>)

(* ---- the judge itself is not vacuous: checked once on literal records ---------------------- *)
Q(lo, hi) == <<lo, hi>>
SelfTest ==
    LET good == [ kind |-> "face", id |-> "x", bucket |-> "le30", neg |-> FALSE, cneg |-> FALSE, czero |-> FALSE,
                  d |-> Q(60000000, 6), cx |-> Q(10, 1),
                  g |-> << Q(Cap, 900), Q(5000, 1) >>, t |-> << Q(Cap, 40), Q(9000, 1) >> ]
    IN /\ Failed(good) = {}
       /\ Failed([ good EXCEPT !.d = Q(Cap, 101) ]) = {"DefaultAccuracy"}
       /\ Failed([ good EXCEPT !.bucket = "le10" ]) = {"DefaultAccuracy"}
       /\ Failed([ good EXCEPT !.g = << Q(Cap, 900), Q(10001, 1) >> ]) = {"ConvergesGaussian"}
       /\ Failed([ good EXCEPT !.t = << Q(50, 1), Q(10001, 1) >> ]) = {"ConvergesTriangular"}
       /\ Failed([ good EXCEPT !.bucket = "le65", !.t = << Q(Cap, 90), Q(Cap, 101) >> ]) = {"ConvergesTriangular"}
       /\ Failed([ good EXCEPT !.bucket = "le65", !.t = << Q(Cap, 90), Q(Cap, 100) >> ]) = {}
       /\ Failed([ good EXCEPT !.bucket = "gt65", !.t = << Q(Cap, 9000), Q(Cap, 10001) >> ]) = {}
       /\ Failed([ good EXCEPT !.g = << Q(Cap, 900), Q(5, 1), Q(Cap, 101), Q(5000, 1) >> ]) = {"HigherOrdersWithinClass"}
       /\ Failed([ good EXCEPT !.cx = Q(Cap, 1000000), !.czero = TRUE ]) = {"CartesianInputAgrees"}
       /\ Failed([ good EXCEPT !.neg = TRUE ]) = {"NonNegative"}
       /\ LET d == [ kind |-> "derived", id |-> "z", raised |-> FALSE, neg |-> FALSE, n_face |-> 2, exp |-> <<0, 2>>,
                      npf |-> <<3, 4>>, exp_sizes |-> <<3, 4>>, q_inv |-> Q(0, 0), qe |-> << <<"le65", Q(Cap, 90)>>, <<"gt65", Q(Cap, Cap)>> >> ]
          IN /\ Failed(d) = {}
             /\ Failed([ d EXCEPT !.npf = <<4, 4>> ]) = {"DerivedSizes"}
             /\ Failed([ d EXCEPT !.q_inv = Q(1001, 1) ]) = {"DerivedAreasAreSourceAreas"}
             /\ Failed([ d EXCEPT !.qe = << <<"le65", Q(Cap, 10001)>> >> ]) = {"DerivedAreasExact"}
             /\ Failed([ d EXCEPT !.n_face = 3 ]) = {"DerivedFaceCount"}
       /\ Failed([ kind |-> "f32", id |-> "y", raised |-> TRUE, neg |-> FALSE, q |-> Q(0, 0), qd |-> Q(0, 0) ]) = {"SinglePrecisionSource"}
       /\ Failed([ kind |-> "f32", id |-> "y", raised |-> FALSE, neg |-> FALSE, q |-> Q(Cap, 2), qd |-> Q(0, 0) ]) = {"SinglePrecisionSource"}
       /\ Failed([ kind |-> "f32", id |-> "y", raised |-> FALSE, neg |-> FALSE, q |-> Q(9000000, 1), qd |-> Q(Cap, 100) ]) = {}
       /\ Failed([ kind |-> "f32", id |-> "y", raised |-> FALSE, neg |-> FALSE, q |-> Q(0, 0), qd |-> Q(Cap, 101) ]) = {"SinglePrecisionSource"}
ASSUME SelfTest
=============================================================================

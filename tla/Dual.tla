-------------------------------- MODULE Dual --------------------------------
(***************************************************************************)
(* C18 - the dual mesh swaps nodes and faces with correct ring order.      *)
(*                                                                         *)
(* Vocabulary (independent of uxarray/grid/dual.py, which sorts face       *)
(* centres by a floating point angle):                                     *)
(*                                                                         *)
(*  * the ring of a node v is the cyclic sequence of the faces meeting at  *)
(*    v in which each face is followed by its counter-clockwise neighbour  *)
(*    around v.  For counter-clockwise faces this is purely combinatorial: *)
(*    face g = (.. p, v, n ..) occupies the wedge that starts at the side  *)
(*    v-n and ends, counter-clockwise, at the side v-p; so the successor   *)
(*    of g is the face h whose side v-NextOf(h, v) is g's side             *)
(*    v-PrevOf(g, v)   (Mesh!RingSucc).                                    *)
(*  * RingWedges / RingCentres below are the *geometric* statements (exact *)
(*    integer determinants on direction vectors) that this combinatorial   *)
(*    ring really is counter-clockwise seen from outside the sphere; TLC   *)
(*    proves them for every node of every catalogue mesh (DualScope.tla).  *)
(*  * IsDual... are relations on the table an implementation returns; they *)
(*    leave free exactly what the property leaves free: the corner a dual  *)
(*    face starts with, the width of the table, and - on partial grids -   *)
(*    the numbering of the dual faces.                                     *)
(***************************************************************************)
EXTENDS Catalog

(* ---- the combinatorial ring -------------------------------------------- *)
Succs(mesh, v, g) == { h \in 1..Len(mesh) : RingSucc(mesh, v, g, h) }      \* 1-based positions

RECURSIVE RingWalk(_, _, _, _)
RingWalk(mesh, v, start, acc) ==
    LET S == Succs(mesh, v, acc[Len(acc)])
    IN IF S = {} THEN acc                                  \* open fan: the walk ends at the boundary
       ELSE LET h == CHOOSE x \in S : TRUE
            IN IF h = start \/ Len(acc) >= Len(mesh) THEN acc
               ELSE RingWalk(mesh, v, start, Append(acc, h))

\* canonical witness: starts at the smallest face id; 0-based face ids
DualRing(mesh, v) ==
    LET F == { f + 1 : f \in FacesAtNode(mesh, v) }
    IN IF F = {} THEN << >>
       ELSE LET w == RingWalk(mesh, v, MinOf(F), << MinOf(F) >>)
            IN [ i \in 1..Len(w) |-> w[i] - 1 ]

\* every face at v has exactly one successor and the walk visits all of them: one single cycle
SuccIsFunction(mesh, v) == \A f \in FacesAtNode(mesh, v) : Cardinality(Succs(mesh, v, f + 1)) = 1
SingleCycle(mesh, v)    == SuccIsFunction(mesh, v) /\ DualRingOK(mesh, v, DualRing(mesh, v))
\* consecutive faces of a ring share a side that ends at v
ConsecutiveShareSideAt(mesh, v, ring) ==
    \A i \in 1..Len(ring) :
        LET g == mesh[ring[i] + 1]
            h == mesh[ring[IF i = Len(ring) THEN 1 ELSE i + 1] + 1]
        IN \E s \in Sides(g) \cap Sides(h) : v \in s

\* nodes that get a dual face: "surrounded by at least three faces"
Qual(mesh, nNode) == { v \in 0..(nNode - 1) : Valence(mesh, v) >= 3 }
\* the abstract dual of a closed mesh: one face per node, in node order
DualMesh(mesh, nNode) == [ k \in 1..nNode |-> DualRing(mesh, k - 1) ]

(* ---- geometry: the ring is counter-clockwise (exact) --------------------- *)
Add3(a, b) == << a[1] + b[1], a[2] + b[2], a[3] + b[3] >>
RECURSIVE SumDirs(_, _)
SumDirs(ds, k) == IF k = 0 THEN Zero3 ELSE Add3(SumDirs(ds, k - 1), ds[k])
\* an interior point of face f: the sum of its corner directions.  When all nodes of the mesh
\* have the same norm this is exactly the direction of the face centre (normalised mean of the
\* corner unit vectors); otherwise it is merely *some* point strictly inside the convex face.
FaceSum(m, f)  == LET d == FaceDirs(m, f) IN SumDirs(d, Len(d))
EqualNorm(m)   == \A a, b \in 1..Len(m.nodes) : N2(m.nodes[a]) = N2(m.nodes[b])
SumInside(m)   == \A f \in 1..Len(m.faces) : PointClass(FaceDirs(m, f), FaceSum(m, f)) = "Inside"

\* azimuth of a around the axis v, measured counter-clockwise (seen from outside, v towards the
\* viewer) from the azimuth of c1: half 0 = [0, 180), half 1 = [180, 360)
Half(v, c1, a) == LET d == Det(v, c1, a)
                  IN IF d > 0 THEN 0 ELSE IF d < 0 THEN 1
                     ELSE IF Dot(Cross(v, c1), Cross(v, a)) > 0 THEN 0 ELSE 1
AzLess(v, c1, a, b) == \/ Half(v, c1, a) < Half(v, c1, b)
                       \/ (Half(v, c1, a) = Half(v, c1, b) /\ Det(v, a, b) > 0)
\* pts[1], pts[2], ... have strictly increasing azimuth in [0, 360) from pts[1]: counter-clockwise, winding once
CcwSorted(v, pts) == /\ \A i \in 1..Len(pts) : ~Parallel(v, pts[i])
                     /\ \A i \in 1..(Len(pts) - 1) : AzLess(v, pts[1], pts[i], pts[i + 1])

Dir(m, n) == m.nodes[n + 1]
\* (a) the wedges tile the full turn once, counter-clockwise: the sides v-w_i, w_i = NextOf(ring_i, v),
\*     are CcwSorted, every wedge is less than 180 degrees and wedge i ends where wedge i+1 starts.
\*     Any interior point of the convex face ring_i lies strictly inside wedge i, so *any* choice of
\*     face centres inside the faces is counter-clockwise in ring order.
RingWedges(m, v) ==
    LET ring == DualRing(m.faces, v)
        w    == [ i \in 1..Len(ring) |-> Dir(m, NextOf(m.faces[ring[i] + 1], v)) ]
    IN /\ CcwSorted(Dir(m, v), w)
       /\ \A i \in 1..Len(ring) :
             LET g == m.faces[ring[i] + 1]
                 j == IF i = Len(ring) THEN 1 ELSE i + 1
             IN /\ Det(Dir(m, v), Dir(m, NextOf(g, v)), Dir(m, PrevOf(g, v))) > 0
                /\ Dir(m, PrevOf(g, v)) = w[j]
\* (b) directly: the face interior points, in ring order, are counter-clockwise around v
RingCentres(m, v) ==
    LET ring == DualRing(m.faces, v)
    IN CcwSorted(Dir(m, v), [ i \in 1..Len(ring) |-> FaceSum(m, ring[i] + 1) ])
\* the test discriminates: the same centres in the opposite cyclic order are *not* counter-clockwise
RingCentresReversedRejected(m, v) ==
    LET ring == DualRing(m.faces, v)
        k    == Len(ring)
    IN k >= 3 => ~CcwSorted(Dir(m, v), [ i \in 1..k |-> FaceSum(m, ring[k + 1 - i] + 1) ])
\* (c) and the dual face is a counter-clockwise polygon in the sense of the catalogue itself
\*     (only meaningful when it is convex, which TLC reports per mesh rather than assumes)
DualFaceConvexCCW(m, v) ==
    LET ring == DualRing(m.faces, v)
    IN ConvexCCW([ i \in 1..Len(ring) |-> FaceSum(m, ring[i] + 1) ])

(* ---- duality laws on closed meshes ------------------------------------------ *)
EulerDuality(mesh, nNode) ==
    LET D == DualMesh(mesh, nNode)
    IN /\ Len(D) = nNode                                             \* dual n_face = primal n_node
       /\ NodesUsed(D) = 0..(Len(mesh) - 1)                          \* dual n_node = primal n_face
       /\ Cardinality(EdgeSet(D)) = Cardinality(EdgeSet(mesh))       \* dual n_edge = primal n_edge
       /\ Manifold(D) /\ Closed(D) /\ Euler(D) = 2
\* the dual of the dual is the mesh itself (same cyclic corner order, so the same orientation)
DualInvolution(mesh, nNode) ==
    LET D == DualMesh(mesh, nNode)
    IN \A f \in 1..Len(mesh) : SameCycle(DualRing(D, f - 1), mesh[f])

(* ---- renumbering (the verdict may not depend on numbering) -------------------- *)
PermsOf(n)   == { p \in [1..n -> 1..n] : \A i, j \in 1..n : i # j => p[i] # p[j] }
InvAt(p, k)  == CHOOSE i \in DOMAIN p : p[i] = k
\* np, fp : old 1-based position -> new 1-based position; each face also gets a new start corner
Renum(m, np, fp) ==
    [ name  |-> m.name,
      nodes |-> [ k \in 1..Len(m.nodes) |-> m.nodes[InvAt(np, k)] ],
      faces |-> [ g \in 1..Len(m.faces) |->
                    LET f == m.faces[InvAt(fp, g)]
                    IN Rotate([ j \in 1..Len(f) |-> np[f[j] + 1] - 1 ], g % Len(f)) ] ]
RenumCommutes(m, np, fp) ==
    LET r == Renum(m, np, fp)
    IN \A v \in 0..(Len(m.nodes) - 1) :
          LET a == DualRing(m.faces, v)
          IN SameCycle(DualRing(r.faces, np[v + 1] - 1), [ i \in 1..Len(a) |-> fp[a[i] + 1] - 1 ])

(* ---- relations on a recorded dual table D (rows padded with PAD) ---------------- *)
RowSet(row)  == Range(Unpadded(row))
NodeFaces(mesh, nNode) == [ k \in 1..nNode |-> FacesAtNode(mesh, k - 1) ]     \* computed once per record
\* the node a row of a partial grid's dual stands for: a corner of the row's first face whose
\* face set is the row (unique in a manifold mesh since three faces share at most one node)
RowNodes(mesh, NF, row) ==
    IF Unpadded(row) = << >> \/ ~(Unpadded(row)[1] + 1 \in 1..Len(mesh)) THEN {}
    ELSE { v \in Corners(mesh[Unpadded(row)[1] + 1]) :
              Cardinality(NF[v + 1]) >= 3 /\ NF[v + 1] = RowSet(row) }
\* node of row k: closed grids keep node order (data are swapped unpermuted), partial grids are matched
NodeOfRow(mesh, NF, closed, D, k) ==
    IF closed THEN (IF k <= Len(NF) THEN {k - 1} ELSE {}) ELSE RowNodes(mesh, NF, D[k])

DualFaceCount(mesh, nNode, D)  == Len(D) = Cardinality(Qual(mesh, nNode))
DualNoRepeats(D)               == \A k \in 1..Len(D) : NoDupRow(D[k])
DualPadding(mesh, D)           == \A k \in 1..Len(D) :
                                     /\ PadOnlyAtEnd(D[k])
                                     /\ Len(D[k]) = Len(D[1])
                                     /\ \A j \in 1..Len(D[k]) : D[k][j] = PAD \/ D[k][j] \in 0..(Len(mesh) - 1)
\* each row is the face set of a qualifying node, each qualifying node at most once
DualMembers(mesh, NF, closed, D) ==
    /\ \A k \in 1..Len(D) : \E v \in NodeOfRow(mesh, NF, closed, D, k) :
                               Cardinality(NF[v + 1]) >= 3 /\ RowSet(D[k]) = NF[v + 1]
    /\ \A k, l \in 1..Len(D) : k # l => RowSet(D[k]) # RowSet(D[l])
\* rows judged for ring order: those whose node is fully surrounded (every node of a closed grid)
RingRows(mesh, NF, closed, D) ==
    { k \in 1..Len(D) : \E v \in NodeOfRow(mesh, NF, closed, D, k) :
                           RowSet(D[k]) = NF[v + 1] /\ NoDupRow(D[k]) /\ InteriorNode(mesh, v) }
RowNode(mesh, NF, closed, D, k) == CHOOSE v \in NodeOfRow(mesh, NF, closed, D, k) : RowSet(D[k]) = NF[v + 1]
RowCCW(mesh, NF, closed, D, k) == DualRingOK(mesh, RowNode(mesh, NF, closed, D, k), Unpadded(D[k]))
RowCW(mesh, NF, closed, D, k)  == DualRingCW(mesh, RowNode(mesh, NF, closed, D, k), Unpadded(D[k]))
DualRingsCCW(mesh, NF, closed, D) == \A k \in RingRows(mesh, NF, closed, D) : RowCCW(mesh, NF, closed, D, k)
\* diagnosis of a ring failure, used as the signature of a finding
RingDiagnosis(mesh, NF, closed, D) ==
    LET R   == RingRows(mesh, NF, closed, D)
        bad == { k \in R : ~RowCCW(mesh, NF, closed, D, k) }
        cw  == { k \in bad : RowCW(mesh, NF, closed, D, k) }
    IN [ rows |-> Cardinality(R), bad |-> Cardinality(bad), reversed |-> Cardinality(cw),
         scrambled |-> Cardinality(bad \ cw),
         kind |-> IF bad = {} THEN "none"
                  ELSE IF cw = bad THEN (IF bad = R THEN "all_reversed" ELSE "some_reversed")
                  ELSE IF cw = {} THEN "scrambled" ELSE "reversed_and_scrambled" ]
=============================================================================

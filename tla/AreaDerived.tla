---------------------------- MODULE AreaDerived ----------------------------
(***************************************************************************)
(* C05, derived grids: the areas a grid DERIVED from a source reports      *)
(* (a subset by Grid.isel on n_face / n_node / n_edge, the dual mesh) are  *)
(* the areas of the faces it consists of -- whatever was or was not read   *)
(* on the source before, between and after the derivations -- and the      *)
(* areas of a partition of the faces into subsets add up to the source's.  *)
(*                                                                         *)
(* Two parts.                                                              *)
(*                                                                         *)
(* Machine.  The source is the set of variables materialised on it (the    *)
(* only thing about its history that a derivation can possibly see); the   *)
(* actions are reads on the source (n_nodes_per_face, face_areas, a        *)
(* non-default compute_face_areas, face_jacobian, calculate_total_face_    *)
(* area) and derivations, each followed by a fixed panel of observations   *)
(* on the derived grid.  A plan is a sequence of derivations (the members  *)
(* of a partition in some order, or a single node / edge selection or the  *)
(* dual).  The state carries the history; the reachable final states ARE   *)
(* the behaviours the harness replays.  The mechanism is data: "intended"  *)
(* (a derived value is a function of the source mesh and the selection),   *)
(* and "slice_sizes_from_corrupt_table" (the subset's face sizes are       *)
(* inherited when the source has them, recomputed from a table whose       *)
(* padding was renumbered when it has not): TLC must find the latter       *)
(* violating DerivedExact / HistoryFree.                                   *)
(*                                                                         *)
(* Selections.  For every concrete mesh handed in by the harness (integer  *)
(* corner directions, mixed face sizes, i.e. padded tables) TLC proves the *)
(* preconditions (convex CCW faces, mixed sizes, partition families are    *)
(* partitions), and emits per selection the source faces the derived grid  *)
(* must consist of (Mesh.tla: faces touching the selected nodes / sides),  *)
(* with their sizes, exact excess descriptors and diameter classes.        *)
(* JudgeArea.tla judges the records.                                       *)
(***************************************************************************)
EXTENDS AreaCases

CONSTANTS MaxPre,        \* reads on the source before the first derivation (0..MaxPre, in every order)
          MidReads,      \* BOOLEAN: also one optional read between the first and the second derivation
          DMech          \* "intended" | "slice_sizes_from_corrupt_table"

Reads == {"npf", "face_areas", "compute_g3", "face_jacobian", "total"}
\* what a read leaves materialised on the source (descriptive: which derivations can see a difference)
Leaves(r) == CASE r = "npf" -> {"npf"}
               [] r = "face_areas" -> {"npf", "face_areas"}
               [] r = "face_jacobian" -> {"npf", "face_areas"}
               [] OTHER -> {"npf"}

\* plans: partition families of face selections (every order of derivation that starts anywhere), single
\* node / side selections, the dual
FaceFamilies == { <<"evens", "odds">>, <<"odds", "evens">>, <<"low", "high">>, <<"high", "low">>,
                  <<"m0", "m1", "m2">>, <<"m2", "m0", "m1">>, <<"all">> }
Plans == FaceFamilies \cup { <<"nodes_low">>, <<"nodes_third">>, <<"sides_first">>, <<"dual">> }

VARIABLES mat,      \* variables materialised on the source
          todo,     \* derivations still to make (a suffix of the plan), or <<"?">> before the plan is chosen
          hist      \* sequence of [ act, arg, res ]
dvars == <<mat, todo, hist, f>>

DInit == mat = {} /\ todo = <<"?">> /\ hist = <<>> /\ f = 0
NPre == Cardinality({ k \in 1..Len(hist) : hist[k].act = "read" })
Derived == { k \in 1..Len(hist) : hist[k].act = "derive" }

\* what the panel of observations on the derived grid shows: "exact" = the areas (and sizes) of the selected faces
DeriveResultWith(m, d) ==
    IF DMech = "intended" THEN "exact"
    ELSE IF d = "dual" THEN "exact"
    ELSE IF "npf" \in m THEN "exact" ELSE "corrupt"
DeriveResult(d) == DeriveResultWith(mat, d)
AllDerivs == UNION { { p[k] : k \in 1..Len(p) } : p \in Plans }

ReadSrc(r) == /\ mat' = mat \cup Leaves(r)
              /\ hist' = Append(hist, [ act |-> "read", arg |-> r, res |-> "done" ])
              /\ UNCHANGED <<todo, f>>
DPre   == todo = <<"?">> /\ NPre < MaxPre /\ \E r \in Reads : ReadSrc(r)
DPlan  == todo = <<"?">> /\ \E p \in Plans : todo' = p /\ UNCHANGED <<mat, hist, f>>
DMid   == /\ MidReads /\ todo # <<"?">> /\ todo # <<>> /\ Cardinality(Derived) = 1
          /\ hist[Len(hist)].act = "derive"
          /\ \E r \in Reads : ReadSrc(r)
DDerive == /\ todo # <<"?">> /\ todo # <<>>
           /\ hist' = Append(hist, [ act |-> "derive", arg |-> todo[1], res |-> DeriveResult(todo[1]) ])
           /\ todo' = Tail(todo)
           /\ UNCHANGED <<mat, f>>      \* a derivation may materialise helpers on the source, never an area variable
DNext == DPre \/ DPlan \/ DMid \/ DDerive
DSpec == DInit /\ [][DNext]_dvars

DerivedExact == \A k \in Derived : hist[k].res = "exact"
\* what a derivation shows does not depend on what is materialised on the source
HistoryFree  == \A d \in AllDerivs : DeriveResultWith(mat, d) = DeriveResultWith({}, d)
\* every history reaches the end of its plan; complete histories are the behaviours to replay
DComplete == todo = <<>>
DEmit == DComplete => PrintT(<<"H", hist>>)

(* ---- selections on concrete meshes --------------------------------------------------------- *)
DMeshes == ndJsonDeserialize(IOEnv.MESH_FILE)      \* records [ id, nodes (directions), faces (0-based), soup ]
SelInit == f \in 1..Len(DMeshes) /\ mat = {} /\ todo = <<>> /\ hist = <<>>
SelNext == FALSE /\ UNCHANGED dvars
DM == DMeshes[f]
NFaces == Len(DM.faces)
NNodes == Len(DM.nodes)
AscSeq(S) == SetToSortSeq(S, LAMBDA a, b : a < b)
FaceSel(name) ==
    CASE name = "evens" -> { k \in 0..(NFaces - 1) : k % 2 = 0 }
      [] name = "odds"  -> { k \in 0..(NFaces - 1) : k % 2 = 1 }
      [] name = "low"   -> { k \in 0..(NFaces - 1) : k < NFaces \div 2 }
      [] name = "high"  -> { k \in 0..(NFaces - 1) : k >= NFaces \div 2 }
      [] name = "m0"    -> { k \in 0..(NFaces - 1) : k % 3 = 0 }
      [] name = "m1"    -> { k \in 0..(NFaces - 1) : k % 3 = 1 }
      [] name = "m2"    -> { k \in 0..(NFaces - 1) : k % 3 = 2 }
      [] name = "all"   -> 0..(NFaces - 1)
NodeSel(name) == CASE name = "nodes_low"   -> { v \in 0..(NNodes - 1) : v < 3 }
                   [] name = "nodes_third" -> { v \in 0..(NNodes - 1) : v % 3 = 1 }
\* a set of sides (the harness looks their edge numbers up on a separate grid): all sides at node 0
SideSel == { s \in EdgeSet(DM.faces) : 0 \in s }
\* the source faces a derivation must consist of, in the order the derived grid lists them
SelFaces(name) ==
    IF name \in {"nodes_low", "nodes_third"} THEN AscSeq(FacesTouchingNodes(DM.faces, NodeSel(name)))
    ELSE IF name = "sides_first" THEN AscSeq({ k \in 0..(NFaces - 1) : Sides(DM.faces[k + 1]) \cap SideSel # {} })
    ELSE AscSeq(FaceSel(name))
SelNames == { "evens", "odds", "low", "high", "m0", "m1", "m2", "all" }
            \cup (IF DM.soup THEN {} ELSE { "nodes_low", "nodes_third", "sides_first" })
DFaceDirs(k) == [ j \in 1..Len(DM.faces[k]) |-> DM.nodes[DM.faces[k][j] + 1] ]

SelOK ==
    /\ WellFormed(DM.faces, NNodes)
    /\ \A k \in 1..NFaces : ConvexCCW(DFaceDirs(k)) /\ SidesShorterThan90(DFaceDirs(k))
    /\ Cardinality({ Len(DM.faces[k]) : k \in 1..NFaces }) >= 2                 \* mixed sizes: the tables are padded
    /\ ~DM.soup => Manifold(DM.faces)
    \* the face families are partitions of the faces
    /\ \A fam \in FaceFamilies :
          /\ UNION { FaceSel(fam[k]) : k \in 1..Len(fam) } = 0..(NFaces - 1)
          /\ \A a, b \in 1..Len(fam) : a # b => FaceSel(fam[a]) \cap FaceSel(fam[b]) = {}
          /\ \A k \in 1..Len(fam) : FaceSel(fam[k]) # {}
    /\ ~DM.soup => SideSel # {}
SelEmit == PrintT(<<"D", DM.id,
              [ ex      |-> [ k \in 1..NFaces |-> ExcessDescr(DFaceDirs(k)) ],
                buckets |-> [ k \in 1..NFaces |-> Bucket(DFaceDirs(k)) ],
                sizes   |-> [ k \in 1..NFaces |-> Len(DM.faces[k]) ],
                closed  |-> (~DM.soup /\ Closed(DM.faces)),
                sides   |-> IF DM.soup THEN {} ELSE { AscSeq(s) : s \in SideSel },
                nodesel |-> IF DM.soup THEN <<>> ELSE << AscSeq(NodeSel("nodes_low")), AscSeq(NodeSel("nodes_third")) >>,
                sels    |-> { << n, SelFaces(n) >> : n \in SelNames } ]>>)
=============================================================================

----------------------------- MODULE EdgeShrink -----------------------------
(***************************************************************************)
(* Model-checks the closed form used for fine meshes in C16: for all       *)
(* lattice directions a, b (|coordinate| <= KA) and centres c (<= KC) the  *)
(* geodesic descriptor of the pair shrunk about c by 1/M, M = 1..3, equals *)
(* EdgeOps.ShrunkGeo of the base parts (a polynomial identity in M: it     *)
(* holds for every M once it holds for three values of each degree-2       *)
(* coefficient; the harness substitutes M = 10^3..10^6).                   *)
(***************************************************************************)
EXTENDS EdgeOps

CONSTANTS KA, KC

VARIABLES a, b, c

Init == a \in Vec(KA) /\ b = a /\ c = a
Next == /\ b = a /\ c = a                   \* second level: all (b, c) for this a (spreads over the workers)
        /\ a' = a /\ b' \in Vec(KA) /\ c' \in Vec(KC)

Geo   == LawShrinkGeo(a, b, c)
Keeps == LawShrinkKeeps(a, c)
=============================================================================

------------------------------ MODULE Dialects ------------------------------
(***************************************************************************)
(* C01 - readers decode every supported format to the faces the source     *)
(* describes.                                                              *)
(*                                                                         *)
(* For every input route this module defines                               *)
(*   - the finite lattice of DIALECT knobs a well-formed source may use,   *)
(*   - StoredSrc(m, route, d): the integer tables and metadata such a      *)
(*     source contains for the mesh m (index shift, fill substitution,     *)
(*     padding style, transposition, block grouping, ring closure ...),    *)
(*   - Decode(src): what those tables MEAN according to the format's own   *)
(*     rules, reading only what is in the source (attributes, counts),     *)
(*     never the knobs,                                                    *)
(*   - Expected(m, route, d): the standard form the Grid must present.     *)
(* TLC proves Decode(StoredSrc(m, r, d)) = Expected(m, r, d) and that the  *)
(* expected table is in standard form for every (m, r, d) of the scope:    *)
(* the test vectors are certified unambiguous and consistent before one    *)
(* source is materialised.  An ill-formed combination (a 1-based UGRID     *)
(* table without start_index, a fill value that collides with an index,    *)
(* padding a format cannot express) fails RoundTrip here, not in the code. *)
(*                                                                         *)
(* Meshes come from Catalog.tla (hull-built polyhedra), plus cubed spheres *)
(* and sub-meshes defined below; each is proved well-formed (MeshOK).      *)
(* NB Mesh.tla already owns the name Stored(mesh, W) (canonical padding);  *)
(* the per-dialect operator is therefore called StoredSrc.                 *)
(***************************************************************************)
EXTENDS Catalog

CONSTANTS MeshSel,       \* subset of 1..Len(MeshList)
          RouteSel,      \* subset of Routes
          ThinMeshes,    \* meshes on which only one slice of the size-independent knobs is generated (like m.big)
          Mech           \* "copies": a decoder works on its own copy of the input (the specification);
                         \* "aliases": it decodes platform-integer tables in place (shown to violate InputKept)

NANCODE  == -99999       \* stands for NaN in float storage
BIGFILL  == -88888       \* stands for the platform fill value (INT_FILL_VALUE) in the source
NOFILL   == -77777       \* "this source has no padding value"; never stored

EmptyFn  == [ x \in {} |-> x ]
Opt(c, r) == IF c THEN r ELSE EmptyFn
Has(r, f) == f \in DOMAIN r
Lt(a, b)  == a < b
PairLess(p, q) == p[1] < q[1] \/ (p[1] = q[1] /\ p[2] < q[2])

(* ======================================================================= *)
(* meshes                                                                  *)
(* ======================================================================= *)
RotSeq == SetToSortSeq(Rot24, LAMBDA r, s : SeqLess(r[1] \o r[2], s[1] \o s[2]))
FirstFaceOfSize(m, k) == CHOOSE f \in 1..Len(m.faces) : Len(m.faces[f]) = k /\ \A g \in 1..(f - 1) : Len(m.faces[g]) # k
TruncOctaSplit == SplitFace(TruncOcta, FirstFaceOfSize(TruncOcta, 6), 1, 3, "truncated_octahedron_split")   \* 3 + 5
TruncCubeSplit == SplitFace(TruncCube, FirstFaceOfSize(TruncCube, 8), 1, 3, "truncated_cube_split")         \* 3 + 7

(* cubed sphere with n x n cells per tile; tile t has outward normal c and in-tile axes u, v with u x v = c *)
CSFrames == << << <<1, 0, 0>>,  <<0, 1, 0>>,  <<0, 0, 1>> >>,
               << <<0, 1, 0>>,  <<-1, 0, 0>>, <<0, 0, 1>> >>,
               << <<0, 0, 1>>,  <<1, 0, 0>>,  <<0, 1, 0>> >>,
               << <<-1, 0, 0>>, <<0, -1, 0>>, <<0, 0, 1>> >>,
               << <<0, -1, 0>>, <<1, 0, 0>>,  <<0, 0, 1>> >>,
               << <<0, 0, -1>>, <<0, 1, 0>>,  <<1, 0, 0>> >> >>
CSCorner(n, t, y, x) ==           \* y, x \in 0..n : the corner lattice of tile t
    LET c == CSFrames[t][1]  u == CSFrames[t][2]  v == CSFrames[t][3]
    IN [ i \in 1..3 |-> n * c[i] + (2 * x - n) * u[i] + (2 * y - n) * v[i] ]
CSNodes(n) == SetToSortSeq({ CSCorner(n, t, y, x) : t \in 1..6, y \in 0..n, x \in 0..n }, Lex3)
CSIdIn(nodes, v) == (CHOOSE k \in 1..Len(nodes) : nodes[k] = v) - 1
CSMesh(n) ==
    LET nodes == CSNodes(n)
        id(t, y, x) == CSIdIn(nodes, CSCorner(n, t, y, x))
    IN [ name |-> "cubed_sphere", nodes |-> nodes,
         faces |-> [ k \in 1..(6 * n * n) |->
                       LET t == ((k - 1) \div (n * n)) + 1
                           r == (k - 1) % (n * n)
                           y == r \div n
                           x == r % n
                       IN << id(t, y, x), id(t, y, x + 1), id(t, y + 1, x + 1), id(t, y + 1, x) >> ] ]

Poly(id, m, cs) == [ id |-> id, nodes |-> m.nodes, faces |-> m.faces, cs |-> cs, xrows |-> <<>>, big |-> FALSE ]
Big(p) == [ p EXCEPT !.big = TRUE ]       \* a few hundred faces: the dialect lattice is thinned on such meshes

(* A regional (limited-area) MPAS file seen through its DUAL: m is a closed triangle mesh whose nodes are the
   MPAS cells and whose faces are the MPAS vertices; the cells in R are absent from the file.  Every vertex
   that still touches a cell is in the file; a slot of cellsOnVertex whose cell is absent holds 0.
   nodes: the remaining cells, renumbered; faces: the complete triangles; xrows: ALL rows, -1 = absent cell *)
Regional(id, m, R) ==
    LET keep == SelectSeq([ k \in 1..Len(m.nodes) |-> k - 1 ], LAMBDA n : n \notin R)
        newid(n) == IF n \in R THEN -1 ELSE (CHOOSE k \in 1..Len(keep) : keep[k] = n) - 1
        rows == SelectSeq(m.faces, LAMBDA f : \E j \in 1..Len(f) : f[j] \notin R)
        ren  == [ r \in 1..Len(rows) |-> [ j \in 1..Len(rows[r]) |-> newid(rows[r][j]) ] ]
    IN [ id |-> id, nodes |-> [ k \in 1..Len(keep) |-> m.nodes[keep[k] + 1] ],
         faces |-> SelectSeq(ren, LAMBDA f : \A j \in 1..Len(f) : f[j] # -1),
         cs |-> 0, xrows |-> ren, big |-> FALSE ]
FacesAvoiding(m, v) == { k \in 1..Len(m.faces) : v \notin Corners(m.faces[k]) }
WithoutNode(m, v)   == SubMesh(m, FacesAvoiding(m, v), m.name)     \* node v stays in the node list, unused
CutEvery(m, c)      == SubMesh(m, { f \in 1..Len(m.faces) : f % c # 0 }, m.name)
Rot(m, k)           == Rotated(m, RotSeq[k], m.name)

MeshList == <<
    Poly("cube",                         Cube, 0),                                   \*  1 quads, valence 3, antimeridian face
    Poly("cuboctahedron",                Cuboctahedron, 0),                          \*  2 mixed 3/4, nodes on the antimeridian
    Poly("octahedron",                   Octahedron, 0),                             \*  3 triangles, both poles are nodes
    Poly("truncated_octahedron_split",   TruncOctaSplit, 0),                         \*  4 sizes 3 4 5 6
    Poly("truncated_cube_split",         TruncCubeSplit, 0),                         \*  5 sizes 3 7 8
    Poly("cuboctahedron_minus_node0",    WithoutNode(Cuboctahedron, 0), 0),          \*  6 partial, mixed, node 0 unused
    Poly("cubed_sphere_1",               CSMesh(1), 1),                              \*  7
    Poly("cubed_sphere_2",               CSMesh(2), 2),                              \*  8 24 quads, poles are nodes
    Poly("tetrakis_cube_r7",             Rot(TetrakisCube, 7), 0),                   \*  9 24 triangles, valence 4/6
    Poly("truncated_octahedron_cut3",    CutEvery(TruncOcta, 3), 0),                 \* 10 partial 4/6
    Poly("rhombic_dodecahedron",         RhombicDodeca, 0),                          \* 11 quads, valence 3/4, poles
    Poly("tetrahedron",                  Tetrahedron, 0),                            \* 12 n_face = n_node
    Poly("rhombicuboctahedron_r13",      Rot(RhombiCubo, 13), 0),                    \* 13 26 faces 3/4
    Poly("tetrakis_cube_cut5",           CutEvery(TetrakisCube, 5), 0),              \* 14 partial triangles
    Poly("truncated_cube_split_minus_node0_r3", Rot(WithoutNode(TruncCubeSplit, 0), 3), 0),  \* 15 partial 3/7/8, node 0 unused
    Poly("octahedron_r5",                Rot(Octahedron, 5), 0),                     \* 16
    Poly("truncated_octahedron_split_r20", Rot(TruncOctaSplit, 20), 0),              \* 17
    Poly("cube_minus_node0",             WithoutNode(Cube, 0), 0),                   \* 18 partial, uniform, node 0 unused:
                                                                                     \*    the least stored index is not the index base
    Regional("tetrakis_cube_regional",   TetrakisCube, { 0, 3 }),                    \* 19 partial triangles; as an MPAS dual: absent cells
    Big(Poly("cubed_sphere_4",           CSMesh(4), 4)),                             \* 20 96 quads
    Big(Poly("cubed_sphere_6",           CSMesh(6), 6))                              \* 21 216 quads
  >>

NN(m)        == Len(m.nodes)
Wd(m)        == MaxSize(m.faces)
Uniform(m)   == \A f \in 1..Len(m.faces) : Len(m.faces[f]) = Wd(m)
IsClosed(m)  == Closed(m.faces)
Triangles(m) == Wd(m) = 3 /\ Uniform(m)
Node0Unused(m) == 0 \notin NodesUsed(m.faces)
Canonical(faces) == Stored(faces, MaxSize(faces))             \* Mesh!Stored: PAD at the row ends

MeshWellFormed(m) == IF IsClosed(m) THEN ClosedOK(m) ELSE PartialOK(m)

\* a direction inside face f (the "centre" a source supplies): the sum of its corner vectors
RECURSIVE SumVec(_, _)
SumVec(vs, k) == IF k = 0 THEN Zero3
                 ELSE LET s == SumVec(vs, k - 1) IN << s[1] + vs[k][1], s[2] + vs[k][2], s[3] + vs[k][3] >>
\* ... with the first corner counted twice: strictly inside the (convex) face but NOT its centroid, so a
\* reader that recomputes centres instead of carrying the supplied ones is seen
CentreDir(m, f) == LET vs == FaceDirs(m, f)  s == SumVec(vs, Len(vs))
                   IN << s[1] + vs[1][1], s[2] + vs[1][2], s[3] + vs[1][3] >>
CentreDirs(m)   == [ f \in 1..Len(m.faces) |-> CentreDir(m, f) ]

(* ======================================================================= *)
(* explicit connectivity a source may supply in addition to the faces      *)
(* (deliberately NOT in the order a deriving algorithm would produce:      *)
(* descending, ends swapped - "carried over" must not mean "recomputed")   *)
(* ======================================================================= *)
SortedPairs(faces) == SetToSortSeq({ << MinOf(s), MaxOf(s) >> : s \in EdgeSet(faces) }, PairLess)
SrcEdges(faces) == LET S == SortedPairs(faces)  n == Len(S)
                   IN [ k \in 1..n |-> << S[n + 1 - k][2], S[n + 1 - k][1] >> ]
EdgeIdOf(E, side) == (CHOOSE k \in 1..Len(E) : { E[k][1], E[k][2] } = side) - 1
SrcFaceEdges(faces, E) == [ f \in 1..Len(faces) |-> [ j \in 1..Len(faces[f]) |-> EdgeIdOf(E, SideAt(faces[f], j)) ] ]
SrcEdgeFaces(faces, E) == [ k \in 1..Len(E) |-> SetToSortSeq({ f - 1 : f \in FacesOfSide(faces, { E[k][1], E[k][2] }) }, Lt) ]
SrcNodeFaces(faces, nn) == [ n \in 1..nn |-> SetToSortSeq(FacesAtNode(faces, n - 1), Lt) ]
\* neighbour across side j (closed meshes only)
SrcFaceFaces(faces) == [ f \in 1..Len(faces) |-> [ j \in 1..Len(faces[f]) |->
                           (CHOOSE g \in FacesOfSide(faces, SideAt(faces[f], j)) : g # f) - 1 ] ]
MaxLen(rows) == MaxOr0({ Len(rows[r]) : r \in 1..Len(rows) })
Pad(rows, w) == [ r \in 1..Len(rows) |-> [ j \in 1..w |-> IF j <= Len(rows[r]) THEN rows[r][j] ELSE PAD ] ]
PadMax(rows) == Pad(rows, MaxLen(rows))

(* per-element quantities a source may supply (areas, edge lengths): abstract TAGS.  The harness stores
   tag / 4096 (areas) resp. tag / 1024 (distances) - exactly representable - and reads the Grid's values
   back as tags; "carried over with the same meaning" = the right tags under the right name in element order *)
AreaTags(n)  == [ k \in 1..n |-> k ]
DvTags(n)    == [ k \in 1..n |-> k ]              \* distance between the two MPAS vertices of an edge
DcTags(n)    == [ k \in 1..n |-> 2048 + k ]       \* distance between the two MPAS cells of an edge

(* rows: unpadded index rows; stored with a base and a padding value *)
EncTable(rows, w, base, fillv) ==
    [ r \in 1..Len(rows) |-> [ j \in 1..w |-> IF j <= Len(rows[r]) THEN rows[r][j] + base ELSE fillv ] ]
Transposed(T, w) == [ c \in 1..w |-> [ r \in 1..Len(T) |-> T[r][c] ] ]
Untransposed(T)  == IF Len(T) = 0 THEN <<>> ELSE [ r \in 1..Len(T[1]) |-> [ c \in 1..Len(T) |-> T[c][r] ] ]

(* ======================================================================= *)
(* routes                                                                  *)
(* ======================================================================= *)
Routes == { "ugrid", "mpas", "mpas_dual", "scrip", "exodus", "esmf", "geos", "icon", "geo", "verts", "topology" }

Applies(m, route) ==
    CASE route = "geos"      -> m.cs > 0
      [] route = "icon"      -> Triangles(m)                       \* boundary: 0 in the slot of the absent cell
      [] route = "mpas_dual" -> Triangles(m) /\ (IsClosed(m) \/ m.xrows # <<>>)
      [] OTHER               -> TRUE

(* ---- UGRID ---------------------------------------------------------------- *)
UgridSlice(d) == d.names = "arbitrary" /\ d.topo = "attr" /\ d.lon = "p360" /\ d.layout = "rows" /\ d.extras # "edge_only"
UgridDs(m) ==
    { d \in [ start : { "0", "1", "absent" }, fill : { "none", "m1", "p999", "nan", "bigfill" },
              dtype : { "int32", "int64", "uint32", "float64" }, names : { "standard", "arbitrary" },
              topo : { "attr", "cfrole" }, lon : { "pm180", "p360" }, extras : { "none", "edges", "edge_only" },
              layout : { "rows", "transposed" }, ftype : { "f64", "f32" } ] :
        \* STORAGE of index tables (dtype) and coordinate arrays (ftype).  int64 / f64 is what the Grid itself uses - the
        \* one storage for which a decoder needs no conversion and therefore makes no copy: it is crossed with every
        \* other knob; the other storages are crossed with one slice of the knobs they are independent of.
        /\ (d.dtype = "uint32" => d.fill \in { "none", "p999" } /\ UgridSlice(d))     \* -1 is not an unsigned value
        /\ (d.ftype = "f32" => UgridSlice(d))
        /\ (d.fill = "nan" => d.dtype = "float64")         \* NaN needs float storage
        /\ (d.fill = "bigfill" => d.dtype = "int64")       \* the platform fill value only fits the platform integer
        /\ (d.fill = "none" => Uniform(m))                 \* without a fill value nothing can be padded
        \* a table stored [corner, face] is only well-formed with a declared face_dimension (kept to one
        \* naming / extras variant: the knob is independent of those)
        /\ (d.layout = "transposed" => d.names = "arbitrary" /\ d.extras = "none")
        \* only the edge table supplied (face_edge is then derived by the Grid and must index THAT table);
        \* kept to one naming variant
        /\ (d.extras = "edge_only" => d.names = "standard" /\ d.topo = "attr" /\ d.lon = "pm180") }
UgridFill(d) == CASE d.fill = "m1" -> -1 [] d.fill = "p999" -> 999 [] d.fill = "nan" -> NANCODE
                  [] d.fill = "bigfill" -> BIGFILL [] OTHER -> NOFILL
UgridBase(d) == IF d.start = "1" THEN 1 ELSE 0              \* absent => 0-based: the UGRID default
UgridStored(m, d) ==
    LET b  == UgridBase(d)
        fv == UgridFill(d)
        E  == SrcEdges(m.faces)
        ef == d.extras = "edges" /\ (d.fill # "none" \/ IsClosed(m))
    IN [ route |-> "ugrid",
         attrs |-> Opt(d.start # "absent", [ start_index |-> b ]) @@ Opt(d.fill \in { "m1", "p999", "bigfill" }, [ fill_value |-> fv ]),
         dtype |-> d.dtype, ftype |-> d.ftype, names |-> d.names, topo |-> d.topo, lon |-> d.lon,
         \* face_axis: which axis of the stored face table the declared face_dimension is (1 = rows)
         face_axis |-> IF d.layout = "transposed" THEN 2 ELSE 1,
         face_node |-> IF d.layout = "transposed" THEN Transposed(EncTable(m.faces, Wd(m), b, fv), Wd(m))
                       ELSE EncTable(m.faces, Wd(m), b, fv),
         centres   |-> d.extras = "edges",
         edge_node |-> IF d.extras # "none" THEN EncTable(E, 2, b, fv) ELSE <<>>,
         face_edge |-> IF d.extras = "edges" THEN EncTable(SrcFaceEdges(m.faces, E), Wd(m), b, fv) ELSE <<>>,
         edge_face |-> IF ef THEN EncTable(SrcEdgeFaces(m.faces, E), 2, b, fv) ELSE <<>> ]
UgridDecodeTable(src, T) ==
    LET b == IF Has(src.attrs, "start_index") THEN src.attrs.start_index ELSE 0
        isfill(x) == (Has(src.attrs, "fill_value") /\ x = src.attrs.fill_value) \/ (src.dtype = "float64" /\ x = NANCODE)
    IN [ r \in 1..Len(T) |-> [ j \in 1..Len(T[r]) |-> IF isfill(T[r][j]) THEN PAD ELSE T[r][j] - b ] ]

(* ---- from_topology (explicit arrays) ----------------------------------------- *)
TopoSlice(d) == d.via = "classmethod" /\ d.box = "ndarray" /\ d.dims = "no" /\ d.extras # "edge_only"
TopoDs(m) ==
    { d \in [ fill : { "none", "m1", "bigfill" }, start : { "0", "1" }, dtype : { "int32", "int64", "uint32" },
              via : { "classmethod", "open_grid" }, extras : { "none", "edges", "edge_only" },
              box : { "ndarray", "list", "readonly" }, dims : { "no", "yes" }, ftype : { "f64", "f32" } ] :
        /\ (d.dtype = "uint32" => d.fill = "none" /\ TopoSlice(d))
        /\ (d.ftype = "f32" => TopoSlice(d))
        /\ (d.extras = "edge_only" => d.via = "classmethod")
        \* containers other than a writable ndarray, and dims_dict: independent of the other knobs
        /\ (d.box # "ndarray" => d.via = "classmethod" /\ d.dims = "no" /\ d.extras # "edge_only")
        \* (tuples are outside the property: from_topology documents np.ndarray; lists happen to work and stay)
        /\ (d.box = "list" => d.dtype = "int64")                          \* python ints have no width
        /\ (d.dims = "yes" => d.via = "classmethod" /\ d.extras = "none")
        /\ (d.fill = "none" => Uniform(m))
        /\ (d.fill = "bigfill" => d.dtype = "int64") }      \* the platform fill only fits the platform integer
TopoFill(d) == CASE d.fill = "m1" -> -1 [] d.fill = "bigfill" -> BIGFILL [] OTHER -> NOFILL
TopoStored(m, d) ==
    LET b == IF d.start = "1" THEN 1 ELSE 0
        fv == TopoFill(d)
        E == SrcEdges(m.faces)
    IN [ route |-> "topology", fill_value |-> fv, start_index |-> b, dtype |-> d.dtype, ftype |-> d.ftype, via |-> d.via,
         box |-> d.box, dims_dict |-> d.dims = "yes",
         face_node |-> EncTable(m.faces, Wd(m), b, fv),
         edge_node |-> IF d.extras # "none" THEN EncTable(E, 2, b, fv) ELSE <<>>,
         face_edge |-> IF d.extras = "edges" THEN EncTable(SrcFaceEdges(m.faces, E), Wd(m), b, fv) ELSE <<>> ]
TopoDecodeTable(src, T) ==
    [ r \in 1..Len(T) |-> [ j \in 1..Len(T[r]) |->
        IF src.fill_value # NOFILL /\ T[r][j] = src.fill_value THEN PAD ELSE T[r][j] - src.start_index ] ]

(* ---- MPAS primal: 1-based, 0 = missing, nEdgesOnCell authoritative ------------------ *)
\* pad: what the slots beyond nEdgesOnCell hold - the MPAS specification only gives meaning to the first
\* nEdgesOnCell entries: 0, the last valid entry repeated, or one past the dimension (n + 1), all seen in real files.
\* store: storage of index tables / coordinates (real files: int32 / float64)
MpasStores == { "i32f64", "i64f64", "u32f32" }
MpasDs(m) == { d \in [ pad : { "zeros", "repeat", "dimsize" }, extras : { "none", "edges" }, xyz : { "no", "yes" }, store : MpasStores ] :
                 Uniform(m) => d.pad = "zeros" }
MpasPadRows(rows, w, pad, n) ==      \* rows 0-based unpadded; stored 1-based; n: size of the dimension indexed
    [ r \in 1..Len(rows) |-> [ j \in 1..w |->
        IF j <= Len(rows[r]) THEN rows[r][j] + 1
        ELSE IF pad = "zeros" \/ Len(rows[r]) = 0 THEN 0
        ELSE IF pad = "repeat" THEN rows[r][Len(rows[r])] + 1 ELSE n + 1 ] ]
\* neighbour across side j of every cell, -1 where the side is on the boundary (absent cell: 0 in ITS slot)
MpasCellsOnCell(faces) == [ f \in 1..Len(faces) |-> [ j \in 1..Len(faces[f]) |->
                             LET o == FacesOfSide(faces, SideAt(faces[f], j)) \ { f }
                             IN IF o = {} THEN -1 ELSE (CHOOSE g \in o : TRUE) - 1 ] ]
\* MPAS slot convention (measured on real files): edgesOnCell(j) joins verticesOnCell(j-1) and verticesOnCell(j),
\* cellsOnCell(j) is the cell across edgesOnCell(j); likewise edgesOnVertex / cellsOnVertex on the dual.
\* rows aligned "entry j belongs to side (j, j+1)" are therefore stored rotated by one slot.
MpasSlots(rows) == [ r \in 1..Len(rows) |-> [ j \in 1..Len(rows[r]) |-> rows[r][IF j = 1 THEN Len(rows[r]) ELSE j - 1] ] ]
MpasStored(m, d) ==
    LET E  == SrcEdges(m.faces)
        NF == SrcNodeFaces(m.faces, NN(m))
        deg == IF MaxLen(NF) = 0 THEN 1 ELSE MaxLen(NF)
        ed == d.extras = "edges"
    IN [ route |-> "mpas", xyz |-> d.xyz = "yes", store |-> d.store,
         verticesOnCell |-> MpasPadRows(m.faces, Wd(m), d.pad, NN(m)),
         nEdgesOnCell   |-> [ f \in 1..Len(m.faces) |-> Len(m.faces[f]) ],
         cellsOnVertex  |-> EncTable(NF, deg, 1, 0),
         centres        |-> ed,
         verticesOnEdge |-> IF ed THEN EncTable(E, 2, 1, 0) ELSE <<>>,
         edgesOnCell    |-> IF ed THEN MpasPadRows(MpasSlots(SrcFaceEdges(m.faces, E)), Wd(m), d.pad, Len(E)) ELSE <<>>,
         cellsOnEdge    |-> IF ed THEN EncTable(SrcEdgeFaces(m.faces, E), 2, 1, 0) ELSE <<>>,
         cellsOnCell    |-> IF ed THEN MpasPadRows(MpasSlots(MpasCellsOnCell(m.faces)), Wd(m), d.pad, Len(m.faces)) ELSE <<>>,
         areaCell       |-> IF ed THEN AreaTags(Len(m.faces)) ELSE <<>>,
         dvEdge         |-> IF ed THEN DvTags(Len(E)) ELSE <<>>,
         dcEdge         |-> IF ed THEN DcTags(Len(E)) ELSE <<>> ]
MpasDecodeCounted(T, cnt) ==
    [ r \in 1..Len(T) |-> [ j \in 1..Len(T[r]) |-> IF j <= cnt[r] /\ T[r][j] # 0 THEN T[r][j] - 1 ELSE PAD ] ]
MpasDecodeZeros(T) ==
    [ r \in 1..Len(T) |-> [ j \in 1..Len(T[r]) |-> IF T[r][j] # 0 THEN T[r][j] - 1 ELSE PAD ] ]

(* ---- MPAS dual: one triangle per MPAS vertex, its corners are the cells around it ----- *)
MpasDualDs(m) == { d \in [ xyz : { "no", "yes" }, extras : { "none", "edges" }, pad : { "zeros", "repeat", "dimsize" }, store : MpasStores ] :
                     m.xrows # <<>> => d.extras = "none" }
\* the stored rows: all vertices of the file; an absent cell is 0
DualRows(m) == IF m.xrows # <<>> THEN m.xrows ELSE m.faces
MpasDualStored(m, d) ==
    LET rows == DualRows(m)
        NF == [ n \in 1..NN(m) |-> SetToSortSeq({ r - 1 : r \in { q \in 1..Len(rows) : \E j \in 1..3 : rows[q][j] = n - 1 } }, Lt) ]
        E  == SrcEdges(m.faces)
        ed == d.extras = "edges"
    IN [ route |-> "mpas_dual", xyz |-> d.xyz = "yes", store |-> d.store,
         cellsOnVertex  |-> [ r \in 1..Len(rows) |-> [ j \in 1..3 |-> rows[r][j] + 1 ] ],       \* -1 -> 0
         verticesOnCell |-> MpasPadRows(NF, MaxLen(NF), d.pad, Len(rows)),
         nEdgesOnCell   |-> [ n \in 1..NN(m) |-> Len(NF[n]) ],
         centres        |-> TRUE,
         \* on the dual an edge's nodes are the two cells, its faces the two vertices
         cellsOnEdge    |-> IF ed THEN EncTable(E, 2, 1, 0) ELSE <<>>,
         verticesOnEdge |-> IF ed THEN EncTable(SrcEdgeFaces(m.faces, E), 2, 1, 0) ELSE <<>>,
         edgesOnVertex  |-> IF ed THEN EncTable(MpasSlots(SrcFaceEdges(m.faces, E)), 3, 1, 0) ELSE <<>>,
         areaTriangle   |-> IF ed THEN AreaTags(Len(m.faces)) ELSE <<>>,
         dvEdge         |-> IF ed THEN DvTags(Len(E)) ELSE <<>>,
         dcEdge         |-> IF ed THEN DcTags(Len(E)) ELSE <<>> ]
\* the cells of a row that are present, in their order
Present(row) == SelectSeq(row, LAMBDA x : x # 0)
MpasDualDecode(T) == [ r \in 1..Len(T) |-> LET p == Present(T[r]) IN [ j \in 1..Len(T[r]) |-> IF j <= Len(p) THEN p[j] - 1 ELSE PAD ] ]

(* ---- SCRIP: corner lists, a smaller cell repeats its last corner ------------------------ *)
ScripDs(m) == [ lon : { "pm180", "p360" }, units : { "degrees", "radians" }, ftype : { "f64", "f32" } ]
ScripStored(m, d) ==
    [ route |-> "scrip", lon |-> d.lon, units |-> d.units, ftype |-> d.ftype, centres |-> TRUE, grid_area |-> AreaTags(Len(m.faces)),
      corners |-> [ f \in 1..Len(m.faces) |-> [ j \in 1..Wd(m) |->
                      IF j <= Len(m.faces[f]) THEN m.faces[f][j] ELSE m.faces[f][Len(m.faces[f])] ] ] ]
\* number of corners of a stored row: trailing repetitions of the last corner are padding
ScripCount(row) == CHOOSE n \in 1..Len(row) :
                      /\ \A k \in n..Len(row) : row[k] = row[n]
                      /\ \A i \in 1..(n - 1) : \E k \in i..Len(row) : row[k] # row[i]
ScripDecode(src) == [ f \in 1..Len(src.corners) |-> [ j \in 1..Len(src.corners[f]) |->
                        IF j <= ScripCount(src.corners[f]) THEN src.corners[f][j] ELSE PAD ] ]

(* ---- Exodus: 1-based connectN, one element type per block, elements numbered block after block *)
\* blocks: "min" one block per element size; "plus1" one size split over two blocks; "n11" / "n12": faces of one size
\* spread over so many single-type blocks that the file has 11 / 12 of them (connect10, connect11 ... exist:
\* blocks are numbered, and elements follow the blocks in NUMERIC order)
ExoBlockCount(m, d) == LET k == Cardinality({ Len(m.faces[f]) : f \in 1..Len(m.faces) })
                       IN CASE d.blocks = "min" -> k [] d.blocks = "plus1" -> k + 1 [] d.blocks = "n11" -> 11 [] OTHER -> 12
ExoDs(m) == { d \in [ coord : { "coord", "xyz" }, dtype : { "int32", "int64" }, order : { "asc", "desc" },
                      blocks : { "min", "plus1", "n11", "n12" }, ftype : { "f64", "f32" } ] :
                /\ (d.ftype = "f32" => d.order = "asc" /\ d.blocks \in { "min", "n12" })
                /\ (Uniform(m) => d.order = "asc")
                /\ ExoBlockCount(m, d) <= Len(m.faces)           \* every block has an element
                /\ (m.big => d.blocks \in { "min", "n12" }) }
SizesSeq(m, order) == SetToSortSeq({ Len(m.faces[f]) : f \in 1..Len(m.faces) },
                                   LAMBDA a, b : IF order = "asc" THEN a < b ELSE a > b)
FacesOfSize(m, s) == SelectSeq([ k \in 1..Len(m.faces) |-> k ], LAMBDA k : Len(m.faces[k]) = s)
\* peel single-element blocks off the groups (front first) until `need` more blocks exist
RECURSIVE Peel(_, _)
Peel(groups, need) ==
    IF need = 0 \/ groups = <<>> THEN groups
    ELSE IF Len(groups[1]) >= 2
         THEN << << groups[1][1] >> >> \o Peel(<< Tail(groups[1]) >> \o Tail(groups), need - 1)
         ELSE << groups[1] >> \o Peel(Tail(groups), need)
ExoGroups(m, d) ==
    LET ss == SizesSeq(m, d.order)
        g0 == [ i \in 1..Len(ss) |-> FacesOfSize(m, ss[i]) ]
    IN Peel(g0, ExoBlockCount(m, d) - Len(g0))
ExoPerm(m, d) == FlattenSeq(ExoGroups(m, d))                 \* 1-based source face positions, in element order
ExoStored(m, d) ==
    LET G == ExoGroups(m, d)
    IN [ route |-> "exodus", coord |-> d.coord, dtype |-> d.dtype, ftype |-> d.ftype,
         blocks |-> [ i \in 1..Len(G) |-> [ j \in 1..Len(G[i]) |->
                        [ c \in 1..Len(m.faces[G[i][j]]) |-> m.faces[G[i][j]][c] + 1 ] ] ] ]
ExoDecode(src) ==
    LET rows == FlattenSeq(src.blocks)
        w == MaxLen(rows)
    IN [ r \in 1..Len(rows) |-> [ j \in 1..w |-> IF j <= Len(rows[r]) THEN rows[r][j] - 1 ELSE PAD ] ]

(* ---- ESMF: numElementConn authoritative, start_index attribute (default 1) ----------------- *)
EsmfDs(m) == { d \in [ start : { "absent", "0", "1" }, padv : { "m1", "zero", "junk" }, centres : { "no", "yes" }, lon : { "pm180", "p360" },
                       store : { "i32f64", "i64f64", "i32f32" } ] :
                 /\ (Uniform(m) => d.padv = "m1")
                 /\ (d.store = "i32f32" => d.lon = "p360" /\ d.padv \in { "m1", "junk" }) }
EsmfStored(m, d) ==
    LET b == IF d.start = "0" THEN 0 ELSE 1
        pv == CASE d.padv = "m1" -> -1 [] d.padv = "zero" -> 0 [] OTHER -> 77
    IN [ route |-> "esmf", lon |-> d.lon, centres |-> d.centres = "yes", store |-> d.store,
         elementArea |-> IF d.centres = "yes" THEN AreaTags(Len(m.faces)) ELSE <<>>,
         attrs |-> Opt(d.start # "absent", [ start_index |-> b ]),
         elementConn |-> EncTable(m.faces, Wd(m), b, pv),
         numElementConn |-> [ f \in 1..Len(m.faces) |-> Len(m.faces[f]) ] ]
EsmfDecode(src) ==
    LET b == IF Has(src.attrs, "start_index") THEN src.attrs.start_index ELSE 1
    IN [ f \in 1..Len(src.elementConn) |-> [ j \in 1..Len(src.elementConn[f]) |->
           IF j <= src.numElementConn[f] THEN src.elementConn[f][j] - b ELSE PAD ] ]

(* ---- GEOS cube sphere: nf x (n+1) x (n+1) corner arrays; cell (t, y, x) has the four corners around it *)
GeosDs(m) == [ lon : { "pm180", "p360" }, centres : { "no", "yes" }, ftype : { "f64", "f32" } ]
GeosStored(m, d) ==
    LET n == m.cs
    IN [ route |-> "geos", lon |-> d.lon, centres |-> d.centres = "yes", n |-> n, ftype |-> d.ftype,
         corners |-> [ t \in 1..6 |-> [ y \in 1..(n + 1) |-> [ x \in 1..(n + 1) |->
                        CSIdIn(m.nodes, CSCorner(n, t, y - 1, x - 1)) ] ] ] ]
GeosDecode(src) ==
    LET n == src.n  C == src.corners
    IN [ k \in 1..(6 * n * n) |->
           LET t == ((k - 1) \div (n * n)) + 1
               r == (k - 1) % (n * n)
               y == (r \div n) + 1
               x == (r % n) + 1
           IN << C[t][y][x], C[t][y][x + 1], C[t][y + 1][x + 1], C[t][y + 1][x] >> ]

(* ---- ICON: transposed 1-based tables, triangles ------------------------------------------------ *)
IconDs(m) == [ store : { "i32f64", "i64f64", "i64f32" } ]
\* a boundary has 0 in the slot of the absent cell - wherever that slot is
IconSlots(rows) == [ r \in 1..Len(rows) |-> [ j \in 1..Len(rows[r]) |-> rows[r][j] + 1 ] ]     \* -1 -> 0
IconFaceFaces(faces) == [ f \in 1..Len(faces) |-> [ j \in 1..3 |->
                           LET o == FacesOfSide(faces, SideAt(faces[f], j)) \ { f }
                           IN IF o = {} THEN -1 ELSE (CHOOSE g \in o : TRUE) - 1 ] ]
\* cells of an edge; for a boundary edge the absent cell takes the FIRST slot on odd edges, the second on even ones
IconEdgeFaces(faces, E) == [ k \in 1..Len(E) |->
                              LET cs == SetToSortSeq({ f - 1 : f \in FacesOfSide(faces, { E[k][1], E[k][2] }) }, Lt)
                              IN IF Len(cs) = 2 THEN cs ELSE IF k % 2 = 1 THEN << -1, cs[1] >> ELSE << cs[1], -1 >> ]
IconStored(m, d) ==
    LET E == SrcEdges(m.faces)
    IN [ route |-> "icon", centres |-> TRUE, store |-> d.store,
         vertex_of_cell        |-> Transposed(EncTable(m.faces, 3, 1, 0), 3),
         edge_vertices         |-> Transposed(EncTable(E, 2, 1, 0), 2),
         edge_of_cell          |-> Transposed(EncTable(SrcFaceEdges(m.faces, E), 3, 1, 0), 3),
         adjacent_cell_of_edge |-> Transposed(IconSlots(IconEdgeFaces(m.faces, E)), 2),
         neighbor_cell_index   |-> Transposed(IconSlots(IconFaceFaces(m.faces)), 3) ]
IconDecodeTable(T) == LET U == Untransposed(T) IN [ r \in 1..Len(U) |-> [ j \in 1..Len(U[r]) |-> U[r][j] - 1 ] ]

(* ---- GeoJSON / shapefile: one face per exterior ring, rings closed ------------------------------- *)
GeoDs(m) == [ fmt : { "geojson", "shp" }, kind : { "polygon", "multi", "mixed" } ]
\* parts of one MultiPolygon may touch in points only: group faces that share no side
RECURSIVE Extend(_, _, _, _)
Extend(F, chosen, cand, k) ==
    IF k = 0 \/ cand = <<>> THEN chosen
    ELSE IF \A c \in Range(chosen) : Sides(F[cand[1]]) \cap Sides(F[c]) = {}
         THEN Extend(F, Append(chosen, cand[1]), Tail(cand), k - 1)
         ELSE Extend(F, chosen, Tail(cand), k)
RECURSIVE GeoGroups(_, _, _)
GeoGroups(F, rem, want) ==
    IF rem = <<>> THEN <<>>
    ELSE LET g == Extend(F, << rem[1] >>, Tail(rem), want - 1)
             rest == SelectSeq(rem, LAMBDA x : x \notin Range(g))
         IN << g >> \o GeoGroups(F, rest, (want % 3) + 1)
GeoGrouping(m, d) == IF d.kind = "polygon" THEN [ k \in 1..Len(m.faces) |-> << k >> ]
                     ELSE GeoGroups(m.faces, [ k \in 1..Len(m.faces) |-> k ], 2)
GeoPerm(m, d) == FlattenSeq(GeoGrouping(m, d))
Ring(face) == Append(face, face[1])
GeoStored(m, d) ==
    LET G == GeoGrouping(m, d)
    IN [ route |-> "geo", fmt |-> d.fmt,
         \* a feature: [multi, rings]; "multi" forces MultiPolygon even for one part, "mixed" does not
         features |-> [ i \in 1..Len(G) |-> [ multi |-> (d.kind = "multi" \/ Len(G[i]) > 1),
                                              rings |-> [ j \in 1..Len(G[i]) |-> Ring(m.faces[G[i][j]]) ] ] ] ]
GeoDecode(src) ==
    LET rings == FlattenSeq([ i \in 1..Len(src.features) |-> src.features[i].rings ])
        rows == [ r \in 1..Len(rings) |-> SubSeq(rings[r], 1, Len(rings[r]) - 1) ]     \* closing point dropped
    IN PadMax(rows)

(* ---- face-vertex arrays ------------------------------------------------------------------------------- *)
VertsDs(m) == { d \in [ coords : { "lonlat", "xyz" }, shape : { "many", "single" }, box : { "ndarray", "list", "tuple" },
                        via : { "classmethod", "open_grid" }, ftype : { "f64", "f32" } ] :
                  d.ftype = "f32" => d.box = "ndarray" /\ d.via = "classmethod" }
VertsFaces(m, d) == IF d.shape = "single" THEN << m.faces[1] >> ELSE m.faces
VertsStored(m, d) ==
    LET F == VertsFaces(m, d)
    IN [ route |-> "verts", coords |-> d.coords, single |-> d.shape = "single", box |-> d.box, via |-> d.via, ftype |-> d.ftype,
         corners |-> EncTable(F, MaxSize(F), 0, BIGFILL) ]          \* a padded slot holds the fill value in every coordinate
VertsDecode(src) == [ f \in 1..Len(src.corners) |-> [ j \in 1..Len(src.corners[f]) |->
                        IF src.corners[f][j] = BIGFILL THEN PAD ELSE src.corners[f][j] ] ]

(* ======================================================================= *)
(* dispatch                                                                *)
(* ======================================================================= *)
\* on meshes of a few hundred faces one variant of every knob that is independent of the mesh size is kept
ThinOK(route, d) ==
    CASE route = "ugrid"    -> d.names = "arbitrary" /\ d.topo = "attr" /\ d.lon = "p360" /\ d.dtype \in { "int32", "int64", "float64" } /\ d.ftype = "f64" /\ d.extras # "edge_only"
      [] route = "topology" -> d.via = "classmethod" /\ d.box = "ndarray" /\ d.dims = "no" /\ d.dtype \in { "int32", "int64" } /\ d.ftype = "f64" /\ d.extras # "edge_only"
      [] route = "verts"    -> d.box = "ndarray" /\ d.via = "classmethod"
      [] route = "esmf"     -> d.lon = "p360" /\ d.padv = "m1"
      [] route = "geo"      -> d.kind = "mixed"
      [] OTHER              -> TRUE
AllDialectsOf(m, route) ==
    CASE route = "ugrid"     -> UgridDs(m)
      [] route = "topology"  -> TopoDs(m)
      [] route = "mpas"      -> MpasDs(m)
      [] route = "mpas_dual" -> MpasDualDs(m)
      [] route = "scrip"     -> ScripDs(m)
      [] route = "exodus"    -> ExoDs(m)
      [] route = "esmf"      -> EsmfDs(m)
      [] route = "geos"      -> GeosDs(m)
      [] route = "icon"      -> IconDs(m)
      [] route = "geo"       -> GeoDs(m)
      [] route = "verts"     -> VertsDs(m)
DialectsOf(m, route) == IF m.big THEN { d \in AllDialectsOf(m, route) : ThinOK(route, d) } ELSE AllDialectsOf(m, route)
\* the full knob product on the meshes of the core set; the thin slice on big meshes and on the additional
\* (rotated / cut) variants a deeper tier adds
DialectsFor(i, route) == IF MeshList[i].big \/ i \in ThinMeshes
                         THEN { d \in AllDialectsOf(MeshList[i], route) : ThinOK(route, d) }
                         ELSE AllDialectsOf(MeshList[i], route)

StoredSrc(m, route, d) ==
    CASE route = "ugrid"     -> UgridStored(m, d)
      [] route = "topology"  -> TopoStored(m, d)
      [] route = "mpas"      -> MpasStored(m, d)
      [] route = "mpas_dual" -> MpasDualStored(m, d)
      [] route = "scrip"     -> ScripStored(m, d)
      [] route = "exodus"    -> ExoStored(m, d)
      [] route = "esmf"      -> EsmfStored(m, d)
      [] route = "geos"      -> GeosStored(m, d)
      [] route = "icon"      -> IconStored(m, d)
      [] route = "geo"       -> GeoStored(m, d)
      [] route = "verts"     -> VertsStored(m, d)

\* what the stored face table means, by the format's own rules (reads the source only)
Decode(src) ==
    CASE src.route = "ugrid"     -> UgridDecodeTable(src, IF src.face_axis = 2 THEN Untransposed(src.face_node) ELSE src.face_node)
      [] src.route = "topology"  -> TopoDecodeTable(src, src.face_node)
      [] src.route = "mpas"      -> MpasDecodeCounted(src.verticesOnCell, src.nEdgesOnCell)
      [] src.route = "mpas_dual" -> MpasDualDecode(src.cellsOnVertex)
      [] src.route = "scrip"     -> ScripDecode(src)
      [] src.route = "exodus"    -> ExoDecode(src)
      [] src.route = "esmf"      -> EsmfDecode(src)
      [] src.route = "geos"      -> GeosDecode(src)
      [] src.route = "icon"      -> IconDecodeTable(src.vertex_of_cell)
      [] src.route = "geo"       -> GeoDecode(src)
      [] src.route = "verts"     -> VertsDecode(src)

\* the faces the Grid must present, in order (some formats fix an element order of their own)
ExpFaces(m, route, d) ==
    CASE route = "exodus" -> LET p == ExoPerm(m, d) IN [ k \in 1..Len(p) |-> m.faces[p[k]] ]
      [] route = "geo"    -> LET p == GeoPerm(m, d) IN [ k \in 1..Len(p) |-> m.faces[p[k]] ]
      [] route = "verts"  -> VertsFaces(m, d)
      \* regional MPAS dual: one row per vertex of the file; a vertex whose cells are not all present keeps
      \* the present ones (Complete says which rows are triangles)
      [] route = "mpas_dual" /\ m.xrows # <<>> -> [ r \in 1..Len(m.xrows) |-> SelectSeq(m.xrows[r], LAMBDA x : x # -1) ]
      [] OTHER            -> m.faces
Expected(m, route, d) == Canonical(ExpFaces(m, route, d))
Complete(m, route, d) == LET F == ExpFaces(m, route, d) IN [ r \in 1..Len(F) |-> Len(F[r]) >= 3 ]
FacePerm(m, route, d) ==          \* 0-based source face of each expected face (centres follow it)
    CASE route = "exodus" -> LET p == ExoPerm(m, d) IN [ k \in 1..Len(p) |-> p[k] - 1 ]
      [] route = "geo"    -> LET p == GeoPerm(m, d) IN [ k \in 1..Len(p) |-> p[k] - 1 ]
      [] OTHER            -> [ k \in 1..Len(ExpFaces(m, route, d)) |-> k - 1 ]

\* is the corner direction of rotation fixed by the source?  (GEOS-CS stores no corner order at all;
\* the shapefile writer used to materialise sources re-orients rings, so the file's own order is not ours)
Orientation(route, d) == IF route = "geos" \/ (route = "geo" /\ d.fmt = "shp") THEN "free" ELSE "fixed"
\* does the route keep the source's node numbering (index tables) or rebuild it from positions?
KeepsNodeIds(route) == route \in { "ugrid", "topology", "mpas", "mpas_dual", "exodus", "esmf", "icon" }

\* explicit connectivity / centres the source supplies and the Grid must carry over, decoded (0-based, PAD)
Carried(m, route, d) ==
    LET F  == m.faces
        E  == SrcEdges(F)
        edges == [ edge_node |-> E, face_edge |-> Pad(SrcFaceEdges(F, E), Wd(m)) ]
        ef == [ edge_face |-> Pad(SrcEdgeFaces(F, E), 2) ]
        nf == [ node_face |-> PadMax(SrcNodeFaces(F, NN(m))) ]
        ce == [ centres |-> TRUE ]
        \* only the edge table is supplied: it is carried over, and the face_edge table the Grid derives later
        \* must index it (derive_fe asks the harness to derive face_edge BEFORE it reads the edge table)
        eo == [ edge_node |-> E, derive_fe |-> TRUE ]
        ar == [ face_areas |-> AreaTags(Len(F)) ]
        \* MPAS: on the primal mesh an edge's nodes are vertices (dvEdge) and its faces cells (dcEdge);
        \* on the dual it is the other way round
        dp == [ edge_node_dist |-> DvTags(Len(E)), edge_face_dist |-> DcTags(Len(E)) ]
        dd == [ edge_node_dist |-> DcTags(Len(E)), edge_face_dist |-> DvTags(Len(E)) ]
    IN CASE route = "ugrid"     -> Opt(d.extras = "edges", edges @@ ce) @@ Opt(d.extras = "edges" /\ (d.fill # "none" \/ IsClosed(m)), ef)
                                   @@ Opt(d.extras = "edge_only", eo)
         [] route = "topology"  -> Opt(d.extras = "edges", edges) @@ Opt(d.extras = "edge_only", eo)
         [] route = "mpas"      -> nf @@ Opt(d.extras = "edges", edges @@ ef @@ ce @@ ar @@ dp @@
                                         [ face_face |-> PadMax([ f \in 1..Len(F) |-> SelectSeq(MpasCellsOnCell(F)[f], LAMBDA x : x # -1) ]) ])
         [] route = "mpas_dual" -> IF m.xrows # <<>> THEN EmptyFn
                                   ELSE nf @@ ce @@ Opt(d.extras = "edges", edges @@ ef @@ ar @@ dd)
         [] route = "scrip"     -> ce @@ ar
         [] route = "esmf"      -> [ npf |-> [ f \in 1..Len(F) |-> Len(F[f]) ] ] @@ Opt(d.centres = "yes", ce @@ ar)
         [] route = "geos"      -> Opt(d.centres = "yes", ce)
         [] route = "icon"      -> edges @@ ef @@ ce @@ [ face_face |-> PadMax([ f \in 1..Len(F) |->
                                       SelectSeq(IconFaceFaces(F)[f], LAMBDA x : x # -1) ]) ]
         [] OTHER               -> EmptyFn

\* connectivity declared by the topology variable must be carried over as it is; a table that is only
\* recognisable by its own cf_role (not declared by the topology) may be used or re-derived: then it is
\* judged by the relations of Mesh.tla instead of row by row
CarryExact(route, d) == ~(route = "ugrid" /\ d.topo = "cfrole")

\* is entry j of a carried face_edge row tied to a particular side of the face?  UGRID / from_topology tables are
\* carried over row by row as stored.  MPAS stores edge j between corners j-1 and j; whether a reader re-aligns the
\* row to the corner order is C02's matter - C01 demands the same edges for every face.
FaceEdgeSlots(route) == IF route \in { "mpas", "mpas_dual" } THEN "free" ELSE "fixed"

\* abstract facts about a case that known-finding signatures may refer to (all decided here)
Tags(m, route, d) ==
    [ mixed |-> ~Uniform(m), node0_unused |-> Node0Unused(m), partial |-> ~IsClosed(m),
      regional |-> m.xrows # <<>>, big |-> m.big,
      \* a UGRID source stored as the platform integer with a declared fill value of its own, some table padded
      padded_int64_fill |-> route = "ugrid" /\ d.dtype = "int64" /\ d.fill \in { "m1", "p999" } /\
                            LET src == UgridStored(m, d) IN
                            \E T \in { src.face_node, src.edge_node, src.face_edge, src.edge_face } :
                               T # <<>> /\ \E r \in 1..Len(T) : \E j \in 1..Len(T[r]) : T[r][j] = UgridFill(d),
      nblocks |-> IF route = "exodus" THEN (IF Len(ExoGroups(m, d)) >= 10 THEN ">=10" ELSE IF Len(ExoGroups(m, d)) > 1 THEN ">1" ELSE "1") ELSE "-",
      multipart |-> route = "geo" /\ \E g \in Range(GeoGrouping(m, d)) : Len(g) > 1,
      based |-> CASE route \in { "ugrid", "topology", "esmf" } -> d.start [] OTHER -> "-",
      \* a UGRID source without start_index in which some table's least stored value is not the index base 0
      \* (a padded table: the fill value; a table that never mentions element 0)
      least_not_base |-> route = "ugrid" /\ d.start = "absent" /\
                         LET src == UgridStored(m, d)
                             off(T) == T # <<>> /\ \A r \in 1..Len(T) : \A j \in 1..Len(T[r]) : T[r][j] # 0
                             padded(T) == T # <<>> /\ \E r \in 1..Len(T) : \E j \in 1..Len(T[r]) : T[r][j] = UgridFill(d)
                         IN \E T \in { src.face_node, src.edge_node, src.face_edge, src.edge_face } : off(T) \/ padded(T) ]

(* ======================================================================= *)
(* decoding a shared input more than once                                  *)
(* ======================================================================= *)
\* The options with which the SAME input object is decoded, one after the other.  An MPAS dataset holds two
\* grids (primal: the cells; dual: the vertices): it is decoded twice with the route's own option and then
\* with the other one (possible when the source has the other grid's node coordinates).
Plan(m, route, d) ==
    CASE route = "mpas"      -> IF d.extras = "edges" THEN << "primal", "primal", "dual" >> ELSE << "primal", "primal" >>
      [] route = "mpas_dual" -> << "dual", "dual", "primal" >>
      [] OTHER               -> << "same", "same" >>
\* what decoding the stored source with an option means - a function of the source alone
DecodeAs(src, opt) ==
    CASE opt = "primal" -> MpasDecodeCounted(src.verticesOnCell, src.nEdgesOnCell)
      [] opt = "dual"   -> MpasDualDecode(src.cellsOnVertex)
      [] OTHER          -> Decode(src)
\* is the k-th result judged as faces of the case's mesh (by position) or as the other grid's index table?
StepMode(route, opt) == IF opt = "same" \/ (route = "mpas" /\ opt = "primal") \/ (route = "mpas_dual" /\ opt = "dual")
                        THEN "faces" ELSE "ids"
\* The ORDER in which the decoded Grid's attributes are read is a parameter of every observation: a Grid is a
\* lazily populated object, and what it presents must not depend on which of its attributes was asked for first.
\* An order is "first" followed by the others in the base order.  The first decoding of a source is read in the
\* order chosen with the case (all four for sources that supply Cartesian node coordinates only, where longitudes
\* and latitudes are derived on demand); every later decoding of the same input is read in another order, so each
\* in-memory source is observed under at least two.  DecodeAs has no order argument: that IS the specification.
ReadBase == << "conn", "lon", "lat", "xyz" >>
ReadOrder(first) == << first >> \o SelectSeq(ReadBase, LAMBDA x : x # first)
CartesianOnly(route, d) == (route = "verts" /\ d.coords = "xyz")
FirstChoices(route, d) == IF CartesianOnly(route, d) THEN { "conn", "lon", "lat", "xyz" } ELSE { "conn" }
LaterFirst == << "conn", "lat", "xyz" >>          \* decoding 2 is read latitude first, decoding 3 Cartesian first
Orders(m, route, d, first) == [ i \in 1..Len(Plan(m, route, d)) |-> ReadOrder(IF i = 1 THEN first ELSE LaterFirst[i]) ]

\* READS IN BETWEEN.  A Grid is a lazily populated, caching object; what the source shipped (tables, centres, areas,
\* distances: Carried) must still be what the Grid presents after ANY sequence of reads of its other public
\* attributes.  The attribute list is taken from the Grid class by introspection when the case is replayed (a new
\* property is included automatically); the specification fixes the ORDER as a descriptor over that list:
\* position j of the sequence is attribute (start + j * step) mod N, reversed or not, every attribute once
\* (the harness takes the next step coprime with N), followed by the public methods that compute what a source may
\* ship (compute_face_areas).  Reads are observations: they have no action in the machine below, which is the
\* statement that they change nothing - the carried values are judged again after them (CarriedStable).
Sweeps == << [ kind |-> "sweep", start |-> 0, step |-> 1, reverse |-> FALSE ], [ kind |-> "sweep", start |-> 0, step |-> 1, reverse |-> TRUE ],
             [ kind |-> "sweep", start |-> 17, step |-> 5, reverse |-> FALSE ], [ kind |-> "sweep", start |-> 40, step |-> 11, reverse |-> TRUE ] >>
NoSweep == [ kind |-> "none" ]
ShipsQuantities(c) == \E f \in { "face_areas", "centres", "edge_node_dist", "edge_face_dist" } : f \in DOMAIN c
\* every order where values are shipped, on one slice of the knobs the order is independent of; one order (varying
\* with mesh and knobs) elsewhere; on the routes with large lattices only where the tables are declared plainly
AllOrdersSlice(route, d) ==
    CASE route = "esmf"      -> d.store = "i32f64" /\ d.lon = "p360" /\ d.padv = "m1"
      [] route = "mpas"      -> d.store = "i32f64" /\ d.xyz = "no"
      [] route = "mpas_dual" -> d.store = "i32f64" /\ d.xyz = "no" /\ d.pad = "zeros"
      [] route = "scrip"     -> d.ftype = "f64"
      [] route = "geos"      -> d.ftype = "f64"
      [] route = "icon"      -> TRUE
      [] OTHER               -> FALSE
SweptAtAll(route, d) ==
    CASE route = "ugrid"    -> d.names = "arbitrary" /\ d.topo = "attr"
      [] route = "topology" -> d.via = "classmethod"
      [] OTHER              -> TRUE
BetweenChoices(i, route, d) ==
    LET c == Carried(MeshList[i], route, d)
        pick == (i + (IF "lon" \in DOMAIN d /\ d.lon = "p360" THEN 1 ELSE 0) + (IF "start" \in DOMAIN d /\ d.start = "1" THEN 2 ELSE 0)) % 4
    IN IF DOMAIN c = {} \/ ~SweptAtAll(route, d) THEN { NoSweep }
       ELSE IF ShipsQuantities(c) /\ AllOrdersSlice(route, d) /\ ~MeshList[i].big THEN { Sweeps[j] : j \in 1..4 }
       ELSE { Sweeps[pick + 1] }

\* the two mechanisms.  "aliases" transcribes a decoder that converts a table already stored as the platform
\* integer in place: afterwards the shared input holds zero-based indices and fill values.
InPlace(T, dec) == [ r \in 1..Len(T) |-> [ j \in 1..Len(T[r]) |-> IF dec[r][j] = PAD THEN BIGFILL ELSE dec[r][j] ] ]
InputAfter(inp, opt) ==
    IF Mech = "aliases" /\ inp.route \in { "mpas", "mpas_dual" } /\ inp.store = "i64f64"
    THEN [ inp EXCEPT !.verticesOnCell = InPlace(@, MpasDecodeCounted(inp.verticesOnCell, inp.nEdgesOnCell)),
                      !.cellsOnVertex = InPlace(@, MpasDecodeZeros(inp.cellsOnVertex)) ]
    ELSE inp

(* ======================================================================= *)
(* state space: (mesh, route), one dialect each, then Decode ; Decode ...   *)
(* over the shared input                                                    *)
(* ======================================================================= *)
VARIABLES mi, route, d,
          nd,      \* number of decodings done
          inp,     \* what the shared input object holds now
          outs,    \* the decoded face tables so far
          ro,      \* which attribute of the first decoded Grid is read first
          bw       \* the reads of other attributes in between (a sweep descriptor)
vars == << mi, route, d, nd, inp, outs, ro, bw >>
NoD == [ none |-> TRUE ]

M == MeshList[mi]

Init == /\ mi \in MeshSel
        /\ route \in (RouteSel \cup { "mesh" })
        /\ (route = "mesh" \/ Applies(MeshList[mi], route))
        /\ d = NoD /\ nd = 0 /\ inp = NoD /\ outs = <<>> /\ ro = "-" /\ bw = NoSweep
Choose == /\ d = NoD /\ route # "mesh"
          /\ d' \in DialectsFor(mi, route)
          /\ ro' \in FirstChoices(route, d')
          /\ bw' \in BetweenChoices(mi, route, d')
          /\ inp' = StoredSrc(M, route, d')
          /\ UNCHANGED << mi, route, nd, outs >>
DecodeStep == /\ d # NoD /\ nd < Len(Plan(M, route, d))
              /\ LET opt == Plan(M, route, d)[nd + 1] IN
                   /\ outs' = Append(outs, DecodeAs(inp, opt))       \* reads what the input holds NOW
                   /\ inp' = InputAfter(inp, opt)
              /\ nd' = nd + 1
              /\ UNCHANGED << mi, route, d, ro, bw >>
Next == Choose \/ DecodeStep

IsCase == d # NoD /\ nd = 0         \* the per-source theorems and the emission are evaluated once per source

\* decoding never changes the input ...
InputKept == d # NoD => inp = StoredSrc(M, route, d)
\* ... and every decoding of the shared input yields what the source means under that option, however many
\* decodings went before (so equal options give equal results)
DecodeRepeatable == d # NoD => \A i \in 1..Len(outs) : outs[i] = DecodeAs(StoredSrc(M, route, d), Plan(M, route, d)[i])

(* ---- the model theorems -------------------------------------------------------------------- *)
MeshOK == route = "mesh" => MeshWellFormed(M)

RoundTrip == IsCase => Decode(StoredSrc(M, route, d)) = Expected(M, route, d)

ExpectedStandard == IsCase =>
    LET X == Expected(M, route, d)
    IN /\ TableInStandardForm(X, 0, NN(M) - 1)
       /\ MeshOf(X) = ExpFaces(M, route, d)
       /\ \A f \in 1..Len(X) : LET face == MeshOf(X)[f] IN
             /\ \A i, j \in 1..Len(face) : i # j => face[i] # face[j]
             /\ (Complete(M, route, d)[f] <=> Len(face) >= 3)
             /\ (Len(face) >= 3 \/ (route = "mpas_dual" /\ M.xrows # <<>> /\ Len(face) >= 1))

\* the element order a format imposes is a permutation of the faces (identity for a single block / polygons)
PermOK == IsCase =>
    LET p == FacePerm(M, route, d)
    IN /\ Len(p) = Len(ExpFaces(M, route, d))
       /\ \A i, j \in 1..Len(p) : i # j => p[i] # p[j]
       /\ ((route \notin { "verts" } /\ M.xrows = <<>>) => Range(p) = 0..(Len(M.faces) - 1))
       /\ ((route = "exodus" /\ Tags(M, route, d).nblocks = "1") => p = [ k \in 1..Len(p) |-> k - 1 ])
       /\ (route = "exodus" => /\ Len(ExoGroups(M, d)) = ExoBlockCount(M, d)
                               /\ \A b \in 1..Len(ExoGroups(M, d)) : ExoGroups(M, d)[b] # <<>>)

\* supplied connectivity is itself a correct description of the mesh (relations of Mesh.tla)
CarriedConsistent == IsCase =>
    LET c == Carried(M, route, d)
        F == M.faces
    IN /\ (Has(c, "edge_node") => IsEdgeTable(F, c.edge_node))
       /\ (Has(c, "face_edge") => IsFaceEdgeTable(F, c.edge_node, c.face_edge, Wd(M)))
       /\ (Has(c, "edge_face") => IsEdgeFaceTable(F, c.edge_node, c.edge_face))
       /\ (Has(c, "node_face") => IsNodeFaceTable(F, NN(M), c.node_face) \/ MaxLen(c.node_face) = 0)
       /\ (Has(c, "face_face") => IsFaceFaceTable(F, c.face_face))

\* supplied extra tables of the index routes decode to the carried tables (same rules as the face table)
ExtrasRoundTrip == IsCase =>
    LET src == StoredSrc(M, route, d)
        c == Carried(M, route, d)
    IN CASE route = "ugrid" ->
              /\ (Has(c, "edge_node") => UgridDecodeTable(src, src.edge_node) = c.edge_node)
              /\ (Has(c, "face_edge") => UgridDecodeTable(src, src.face_edge) = c.face_edge)
              /\ (Has(c, "edge_face") => UgridDecodeTable(src, src.edge_face) = c.edge_face)
         [] route = "topology" ->
              /\ (Has(c, "edge_node") => TopoDecodeTable(src, src.edge_node) = c.edge_node)
              /\ (Has(c, "face_edge") => TopoDecodeTable(src, src.face_edge) = c.face_edge)
         [] route = "mpas" ->
              /\ MpasDecodeZeros(src.cellsOnVertex) = Pad(SrcNodeFaces(M.faces, NN(M)), Len(src.cellsOnVertex[1]))
              /\ (Has(c, "edge_node") => MpasDecodeZeros(src.verticesOnEdge) = c.edge_node)
              \* the same edges per cell; which slot holds which is the format's convention, not C01's concern
              /\ (Has(c, "face_edge") => LET T == MpasDecodeCounted(src.edgesOnCell, src.nEdgesOnCell) IN
                     Len(T) = Len(c.face_edge) /\ \A r \in 1..Len(T) : Range(Unpadded(T[r])) = Range(Unpadded(c.face_edge[r])))
              /\ (Has(c, "edge_face") => MpasDecodeZeros(src.cellsOnEdge) = c.edge_face)
              /\ (Has(c, "face_face") => LET T == MpasDecodeCounted(src.cellsOnCell, src.nEdgesOnCell) IN
                     Len(T) = Len(c.face_face) /\ \A r \in 1..Len(T) : \A g \in 0..(Len(T) - 1) :
                        CountIn(T[r], g) = CountIn(c.face_face[r], g))
         [] route = "mpas_dual" ->
              /\ (Has(c, "node_face") => MpasDecodeCounted(src.verticesOnCell, src.nEdgesOnCell) = c.node_face)
              /\ (Has(c, "edge_node") => MpasDecodeZeros(src.cellsOnEdge) = c.edge_node)
              /\ (Has(c, "face_edge") => LET T == MpasDecodeZeros(src.edgesOnVertex) IN
                     Len(T) = Len(c.face_edge) /\ \A r \in 1..Len(T) : Range(Unpadded(T[r])) = Range(Unpadded(c.face_edge[r])))
              /\ (Has(c, "edge_face") => MpasDecodeZeros(src.verticesOnEdge) = c.edge_face)
         [] route = "icon" ->
              LET sameSets(A, B) == Len(A) = Len(B) /\ \A r \in 1..Len(A) : Range(Unpadded(A[r])) = Range(Unpadded(B[r]))
              IN /\ IconDecodeTable(src.edge_vertices) = c.edge_node
                 /\ IconDecodeTable(src.edge_of_cell) = c.face_edge
                 \* a 0 decodes to "absent" in its slot; the carried table has the same cells per row
                 /\ sameSets(IconDecodeTable(src.adjacent_cell_of_edge), c.edge_face)
                 /\ sameSets(IconDecodeTable(src.neighbor_cell_index), c.face_face)
         [] OTHER -> TRUE

(* ---- emission (generation channel) ------------------------------------------------------------ *)
EmitMesh == route = "mesh" =>
    PrintT(<< "MESH", [ mi |-> mi, id |-> M.id, nodes |-> M.nodes, faces |-> M.faces, centres |-> CentreDirs(M),
                        closed |-> IsClosed(M), cs |-> M.cs ] >>)
EmitCase == IsCase =>
    PrintT(<< "CASE", [ mi |-> mi, mesh |-> M.id, route |-> route, d |-> d,
                        src |-> StoredSrc(M, route, d),
                        exp |-> Expected(M, route, d),
                        perm |-> FacePerm(M, route, d),
                        orient |-> Orientation(route, d),
                        keeps_ids |-> KeepsNodeIds(route),
                        carried |-> Carried(M, route, d),
                        carry_exact |-> CarryExact(route, d),
                        fe_slots |-> FaceEdgeSlots(route),
                        complete |-> Complete(M, route, d),
                        plan |-> Plan(M, route, d),
                        first |-> ro, between |-> bw,
                        orders |-> Orders(M, route, d, ro),
                        modes |-> [ i \in 1..Len(Plan(M, route, d)) |-> StepMode(route, Plan(M, route, d)[i]) ],
                        exps |-> [ i \in 1..Len(Plan(M, route, d)) |-> DecodeAs(StoredSrc(M, route, d), Plan(M, route, d)[i]) ],
                        tags |-> Tags(M, route, d),
                        nn |-> NN(M) ] >>)
=============================================================================

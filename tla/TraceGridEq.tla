----------------------------- MODULE TraceGridEq -----------------------------
(***************************************************************************)
(* Trace validation for C20 over histories: every recorded history of two  *)
(* real Grid objects (harness/x_c20.py) is replayed through the actions of *)
(* GridEqHist under the intended mechanism; at each Compare event the      *)
(* recorded answers of == and != are judged against Eq of the contents the *)
(* specification has reached.  One ndjson line per history:                *)
(*   [tid, init2, route, events: <<[act, o, t, f, how, x, y, obs]>>]              *)
(* obs = <<x == y, x != y>> for Compare, <<>> otherwise; a step that       *)
(* raised carries obs = <<"raised">>.                                      *)
(* Verdicts: <<"V", tid, line, clause>>; <<"E", tid, lines consumed>>.     *)
(***************************************************************************)
EXTENDS GridEqHist, Json, IOUtils

Traces == ndJsonDeserialize(IOEnv.TRACE_FILE)

VARIABLES tid, l

tvars == << vars, tid, l >>

TraceInit ==
  /\ tid \in 1..Len(Traces)
  /\ l = 1
  /\ init2 = Traces[tid].init2
  /\ route = Traces[tid].route
  /\ prov = [ o \in Objs |-> [ latFirst |-> FALSE, sliced |-> FALSE, edited |-> FALSE ] ]
  /\ cont = [ o \in Objs |-> IF o = 1 THEN C0 ELSE InitContent(init2) ]
  /\ derived = [ o \in Objs |-> {} ]
  /\ cmp = [ o \in Objs |-> FALSE ]
  /\ memo = [ o \in Objs |-> NoMemo ]
  /\ last = Step("Init", <<>>, TRUE, TRUE)
  /\ hist = <<>>

Evs == Traces[tid].events

StepOf(e) ==
  CASE e.act = "Touch"   -> Touch(e.o, e.t)
    [] e.act = "Edit"    -> Edit(e.o, e.f, e.how)
    [] e.act = "Copy"    -> CopyOf(e.o, e.how)
    [] e.act = "Compare" -> Compare(e.x, e.y)

TraceNext ==
  /\ l <= Len(Evs)
  /\ StepOf(Evs[l])
  /\ l' = l + 1
  /\ tid' = tid

\* the event just consumed
Prev == Evs[l - 1]

Clauses ==
  IF l = 1 THEN [ none |-> TRUE ]
  ELSE LET e == Prev IN
    IF e.act = "Compare"
      THEN [ NoRaise        |-> e.obs # << "raised" >>,
             EqIffIdentical |-> e.obs = << "raised" >> \/ e.obs[1] = last.want,
             NeIsNegation   |-> e.obs = << "raised" >> \/ e.obs[2] = ~e.obs[1] ]
      ELSE [ NoRaise |-> e.act = "Touch" \/ e.obs # << "raised" >> ]

Judge ==
  /\ \A k \in { c \in DOMAIN Clauses : ~Clauses[c] } : PrintT(<< "V", Traces[tid].tid, l - 1, k >>)
  /\ (l = Len(Evs) + 1) => PrintT(<< "E", Traces[tid].tid, l - 1 >>)

TraceTypeOK == TypeOK /\ Refines
=============================================================================

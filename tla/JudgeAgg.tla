------------------------------ MODULE JudgeAgg ------------------------------
(***************************************************************************)
(* Judges recorded results of UxDataArray.topological_<op>(destination)    *)
(* against Aggregate.tla.  One ndjson line per (grid, data array):         *)
(*   id, n_node, mesh (faces as given to the constructor, in that order),  *)
(*   den (data value = rows[r][n] / den), pos (0-based position of the     *)
(*   node dimension), lead / lead_dims (sizes / names of the OTHER dims in *)
(*   order), rows (one node row per C-order index of the other dims),      *)
(*   edges (the grid's own edge_node table),                               *)
(*   res[dest][op] = [flat |-> the result in its own C order, entries      *)
(*                    <<p, q, flags>>, dims, shape, cls, same]             *)
(*                   or [err |-> text],                                    *)
(*   unsup = sequence of [src, dst, raised].                               *)
(* A result value x arrives as the rational p/q nearest to x (for std: to  *)
(* x squared) with q <= 4096, q = 0 if x is not finite or absurdly large;  *)
(* flags: bit 0 = x is exactly p/q, bit 1 = x is within 1e-12 of it,       *)
(* bit 2 = x >= 0.  Equality with the expected rational is decided here,   *)
(* by cross-multiplication on integers.                                    *)
(* Verdict: one <<"V", record index, failed clause name>> per failed clause *)
(* (short values: TLC wraps long ones over several lines).                 *)
(***************************************************************************)
EXTENDS Aggregate, Json, IOUtils, TLCExt

Recs  == ndJsonDeserialize(IOEnv.REC_FILE)
Block == 8
NBlocks == (Len(Recs) + Block - 1) \div Block

VARIABLE i

Has(r, f) == f \in DOMAIN r
Bit(x, k) == (x \div Pow(2, k)) % 2 = 1

DestDim(dest) == IF dest = "face" THEN "n_face" ELSE "n_edge"
Elements(r, dest) == IF dest = "face" THEN r.mesh ELSE r.edges

EdgeTableSane(r) == \A k \in 1..Len(r.edges) :
                       Len(r.edges[k]) = 2 /\ \A j \in 1..2 : r.edges[k][j] \in 0..(r.n_node - 1)

\* a non-finite expectation <<sentinel, 0>> must be met by the same sentinel (NaN where NaN is due, the infinity
\* with its sign), a finite one by the same rational
Match(op, got, exp) ==
    IF exp[2] = 0 THEN got[2] = 0 /\ got[1] = exp[1] ELSE
    /\ got[2] > 0
    /\ got[1] * exp[2] = exp[1] * got[2]
    /\ Bit(got[3], 1)
    /\ (op \in ExactOps => Bit(got[3], 0))
    /\ (op = "std" => Bit(got[3], 2))

Lay(r) == [ pos |-> r.pos, lead |-> r.lead ]

\* e.flat = the result flattened in its own C order.  Every canonical row (flattened index of the other
\* dimensions) and element is looked up at the offset the layout demands (Aggregate.FlatOffset, proved to be the
\* C-order offset in AggLayout.tla) and compared with the spec's fold over exactly that element's nodes.
ValueOK(r, dest, op) ==
    LET e   == r.res[dest][op]
        els == Elements(r, dest)
        l   == Lay(r)
        n   == Len(els)
    IN Has(e, "flat") =>
         /\ Len(r.rows) = NRows(l)
         /\ Len(e.flat) = Len(r.rows) * n
         /\ \A row \in 1..Len(r.rows) : \A k \in 1..n :
              LET o == FlatOffset(l, n, row - 1, k - 1) + 1
              IN o <= Len(e.flat) => Match(op, e.flat[o], ReduceX(op, Gather(els[k], r.rows[row]), r.den))

\* the destination dimension takes the place (position) of the node dimension, the other dimensions keep theirs
DimsOK(r, dest, op) ==
    LET e == r.res[dest][op]
    IN Has(e, "flat") => /\ e.dims = InsAt(r.lead_dims, r.pos, DestDim(dest))
                         /\ e.shape = LayoutShape(Lay(r), Len(Elements(r, dest)))
ClassOK(r, dest, op) == LET e == r.res[dest][op] IN Has(e, "flat") => e.cls = "UxDataArray"
GridOK(r, dest, op)  == LET e == r.res[dest][op] IN Has(e, "flat") => e.same
Accepted(r, dest, op) == Has(r.res[dest][op], "flat")

\* records of history steps carry only the destinations that were aggregated (r.dests)
DestsOf(r) == IF Has(r, "dests") THEN { d \in Dests : \E k \in 1..Len(r.dests) : r.dests[k] = d } ELSE Dests
Failed(r) ==
    LET sane  == EdgeTableSane(r)
        ds    == IF sane THEN DestsOf(r) ELSE DestsOf(r) \cap { "face" }
        pairs == { << op, d >> : op \in Ops, d \in ds }
        every == { << op, d >> : op \in Ops, d \in DestsOf(r) }
    IN (IF sane THEN {} ELSE { "EdgeTableSane" })
       \cup { "Value_" \o c[1] \o "_" \o c[2] : c \in { x \in pairs : ~ValueOK(r, x[2], x[1]) } }
       \cup { "Dims_" \o d     : d \in { x \in ds : \E op \in Ops : ~DimsOK(r, x, op) } }
       \cup { "Class_" \o d    : d \in { x \in ds : \E op \in Ops : ~ClassOK(r, x, op) } }
       \cup { "SameGrid_" \o d : d \in { x \in ds : \E op \in Ops : ~GridOK(r, x, op) } }
       \cup { "Accepts_" \o c[1] \o "_" \o c[2] : c \in { x \in every : ~Accepted(r, x[2], x[1]) } }
       \cup (IF \A k \in 1..Len(r.unsup) : Supported(r.unsup[k].src, r.unsup[k].dst) \/ r.unsup[k].raised
             THEN {} ELSE { "Rejects" })
       \cup (IF \A k \in 1..Len(r.unsup) : Supported(r.unsup[k].src, r.unsup[k].dst) => ~r.unsup[k].raised
             THEN {} ELSE { "AcceptsSupported" })

\* coverage facts decided here: all faces of one size in a table wider than that size; mixed sizes
UniformInWiderTable(r) == Has(r, "width") /\ Cardinality({ Len(r.mesh[f]) : f \in 1..Len(r.mesh) }) = 1
                          /\ r.width > Len(r.mesh[1])
MixedSizes(r) == Cardinality({ Len(r.mesh[f]) : f \in 1..Len(r.mesh) }) >= 2

Init == i \in { -b : b \in 1..NBlocks }
Next == /\ i < 0
        /\ i' \in { k \in 1..Len(Recs) : (k - 1) \div Block = (-i) - 1 }

Judge == i > 0 =>
           LET r == Recs[i]
               f == Failed(r)
           IN /\ \A c \in f : PrintT(<<"V", i, c>>)      \* one short line per failed clause
              /\ (UniformInWiderTable(r) => PrintT(<<"C", i, "UniformInWiderTable">>))
              /\ ((MixedSizes(r) /\ Has(r, "handle") /\ r.handle = "slice") => PrintT(<<"C", i, "MixedSubset">>))
=============================================================================

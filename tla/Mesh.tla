------------------------------- MODULE Mesh -------------------------------
(***************************************************************************)
(* Mesh combinatorics of an unstructured grid, stated declaratively.       *)
(*                                                                         *)
(* A mesh is a sequence of faces; a face is a sequence of node ids         *)
(* (naturals, 0-based like the implementation) listed in cyclic order.     *)
(* Index tables recorded from the implementation are sequences of rows,    *)
(* rows are sequences of integers, padding is PAD (-1): the harness maps   *)
(* the implementation's fill value to PAD only after checking dtype and    *)
(* fill value, which travel as booleans in the record.                     *)
(*                                                                         *)
(* Everything is a relation IsX(input, output) wherever the property       *)
(* leaves freedom (edge numbering, order of the two ends, order inside a   *)
(* row of node_face / face_face); face order, corner order and padding     *)
(* position are fixed and therefore compared exactly.                      *)
(***************************************************************************)
EXTENDS Naturals, Integers, Sequences, FiniteSets, TLC

PAD == -1

Range(s) == { s[i] : i \in DOMAIN s }
MaxOf(S) == CHOOSE x \in S : \A y \in S : y <= x
MinOf(S) == CHOOSE x \in S : \A y \in S : x <= y
MaxOr0(S) == IF S = {} THEN 0 ELSE MaxOf(S)

(* ---- faces ------------------------------------------------------------ *)
NFace(mesh)        == Len(mesh)
Size(face)         == Len(face)
NextIdx(face, j)   == IF j = Len(face) THEN 1 ELSE j + 1
PrevIdx(face, j)   == IF j = 1 THEN Len(face) ELSE j - 1
SideAt(face, j)    == { face[j], face[NextIdx(face, j)] }      \* the j-th boundary segment
Sides(face)        == { SideAt(face, j) : j \in 1..Len(face) }
Corners(face)      == Range(face)
NodesUsed(mesh)    == UNION { Corners(mesh[f]) : f \in 1..Len(mesh) }
MaxSize(mesh)      == MaxOr0({ Len(mesh[f]) : f \in 1..Len(mesh) })

SimpleFace(face)   == /\ Len(face) >= 3
                      /\ \A i, j \in 1..Len(face) : i # j => face[i] # face[j]
WellFormed(mesh, nNode) ==
    /\ Len(mesh) >= 1
    /\ \A f \in 1..Len(mesh) : SimpleFace(mesh[f]) /\ Corners(mesh[f]) \subseteq 0..(nNode - 1)

(* ---- edges ------------------------------------------------------------ *)
EdgeSet(mesh)      == UNION { Sides(mesh[f]) : f \in 1..Len(mesh) }
FacesOfSide(mesh, s) == { f \in 1..Len(mesh) : s \in Sides(mesh[f]) }      \* 1-based face positions
Manifold(mesh)     == \A s \in EdgeSet(mesh) : Cardinality(FacesOfSide(mesh, s)) <= 2
\* a side occurring twice in ONE face cannot happen for simple faces of size >= 3
Closed(mesh)       == \A s \in EdgeSet(mesh) : Cardinality(FacesOfSide(mesh, s)) = 2
Euler(mesh)        == Cardinality(NodesUsed(mesh)) - Cardinality(EdgeSet(mesh)) + Len(mesh)

RowOK2(row)        == Len(row) = 2 /\ row[1] # PAD /\ row[2] # PAD /\ row[1] # row[2]
RowAsSide(row)     == { row[1], row[2] }

\* E : edge_node_connectivity as recorded (sequence of 2-rows)
IsEdgeTable(mesh, E) ==
    /\ \A k \in 1..Len(E) : RowOK2(E[k])
    /\ { RowAsSide(E[k]) : k \in 1..Len(E) } = EdgeSet(mesh)
    /\ Len(E) = Cardinality(EdgeSet(mesh))            \* each exactly once

\* the clauses separately, so a failed verdict names what is wrong
EdgeRowsWellShaped(E)   == \A k \in 1..Len(E) : RowOK2(E[k])
EdgeNoneMissing(mesh,E) == EdgeSet(mesh) \subseteq { RowAsSide(E[k]) : k \in 1..Len(E) }
EdgeNoneExtra(mesh,E)   == \A k \in 1..Len(E) : RowOK2(E[k]) => RowAsSide(E[k]) \in EdgeSet(mesh)
EdgeNoDuplicates(E)     == \A k, l \in 1..Len(E) : k # l /\ RowOK2(E[k]) /\ RowOK2(E[l]) => RowAsSide(E[k]) # RowAsSide(E[l])

\* FE : face_edge_connectivity (rows of width W, entries are 0-based edge ids or PAD)
IsFaceEdgeTable(mesh, E, FE, W) ==
    /\ Len(FE) = Len(mesh)
    /\ \A f \in 1..Len(mesh) :
         /\ Len(FE[f]) = W
         /\ \A j \in 1..W :
              IF j <= Len(mesh[f])
              THEN /\ FE[f][j] \in 0..(Len(E) - 1)
                   /\ RowAsSide(E[FE[f][j] + 1]) = SideAt(mesh[f], j)
              ELSE FE[f][j] = PAD

FaceEdgeShape(mesh, FE, W) == Len(FE) = Len(mesh) /\ \A f \in 1..Len(FE) : Len(FE[f]) = W
FaceEdgePadding(mesh, FE)  == \A f \in 1..Len(mesh) : f <= Len(FE) =>
                                 \A j \in 1..Len(FE[f]) : (j > Len(mesh[f])) <=> (FE[f][j] = PAD)
FaceEdgeJoins(mesh, E, FE) == \A f \in 1..Len(mesh) : f <= Len(FE) =>
                                 \A j \in 1..Len(mesh[f]) : j <= Len(FE[f]) =>
                                    /\ FE[f][j] \in 0..(Len(E) - 1)
                                    /\ RowAsSide(E[FE[f][j] + 1]) = SideAt(mesh[f], j)

IsNodesPerFace(mesh, N) == Len(N) = Len(mesh) /\ \A f \in 1..Len(mesh) : N[f] = Len(mesh[f])

(* ---- standard form of a stored table -------------------------------------- *)
Unpadded(row)      == SelectSeq(row, LAMBDA x : x # PAD)
PadOnlyAtEnd(row)  == \A i, j \in 1..Len(row) : i < j /\ row[i] = PAD => row[j] = PAD
TableInStandardForm(T, lo, hi) ==
    \A r \in 1..Len(T) : PadOnlyAtEnd(T[r]) /\ \A j \in 1..Len(T[r]) : T[r][j] = PAD \/ T[r][j] \in lo..hi
\* the face table a mesh must be stored as, width W
Stored(mesh, W)    == [ f \in 1..Len(mesh) |-> [ j \in 1..W |-> IF j <= Len(mesh[f]) THEN mesh[f][j] ELSE PAD ] ]
\* and back
MeshOf(T)          == [ f \in 1..Len(T) |-> Unpadded(T[f]) ]

(* ---- incidence (C03) ------------------------------------------------------ *)
FacesAtNode(mesh, n) == { f - 1 : f \in { g \in 1..Len(mesh) : n \in Corners(mesh[g]) } }   \* 0-based ids
Valence(mesh, n)     == Cardinality(FacesAtNode(mesh, n))
NoDupRow(row)        == \A i, j \in 1..Len(row) : i # j /\ row[i] # PAD => row[i] # row[j]

IsNodeFaceTable(mesh, nNode, NF) ==
    /\ Len(NF) = nNode
    /\ \A n \in 0..(nNode - 1) :
         /\ PadOnlyAtEnd(NF[n + 1])
         /\ NoDupRow(NF[n + 1])
         /\ Range(Unpadded(NF[n + 1])) = FacesAtNode(mesh, n)
         /\ Len(NF[n + 1]) = MaxOr0({ Valence(mesh, m) : m \in 0..(nNode - 1) })

NodeFaceShape(mesh, nNode, NF) == Len(NF) = nNode /\ \A r \in 1..Len(NF) :
                                    Len(NF[r]) = MaxOr0({ Valence(mesh, m) : m \in 0..(nNode - 1) })
NodeFaceMembers(mesh, nNode, NF) == \A n \in 0..(nNode - 1) : n + 1 <= Len(NF) =>
                                    Range(Unpadded(NF[n + 1])) = FacesAtNode(mesh, n)
NodeFacePadding(NF) == \A r \in 1..Len(NF) : PadOnlyAtEnd(NF[r]) /\ NoDupRow(NF[r])

FacesOfEdgeRow(mesh, row) == { f - 1 : f \in FacesOfSide(mesh, RowAsSide(row)) }
IsEdgeFaceTable(mesh, E, EF) ==
    /\ Len(EF) = Len(E)
    /\ \A k \in 1..Len(E) :
         /\ Len(EF[k]) = 2
         /\ PadOnlyAtEnd(EF[k]) /\ NoDupRow(EF[k])
         /\ Range(Unpadded(EF[k])) = FacesOfEdgeRow(mesh, E[k])
EdgeFaceShape(E, EF) == Len(EF) = Len(E) /\ \A k \in 1..Len(EF) : Len(EF[k]) = 2
EdgeFaceMembers(mesh, E, EF) == \A k \in 1..Len(E) : k <= Len(EF) =>
                                   Range(Unpadded(EF[k])) = FacesOfEdgeRow(mesh, E[k])
EdgeFacePadding(EF) == \A k \in 1..Len(EF) : PadOnlyAtEnd(EF[k]) /\ NoDupRow(EF[k])

\* multiset of neighbours of face f (0-based ids), once per shared side
NeighbourCount(mesh, f, g) ==            \* f, g 1-based positions, f # g
    Cardinality({ s \in Sides(mesh[f]) : s \in Sides(mesh[g]) })
CountIn(row, x) == Cardinality({ i \in 1..Len(row) : row[i] = x })
IsFaceFaceTable(mesh, FF) ==
    /\ Len(FF) = Len(mesh)
    /\ \A f \in 1..Len(mesh) :
         /\ PadOnlyAtEnd(FF[f])
         /\ \A g \in 1..Len(mesh) :
              CountIn(FF[f], g - 1) = IF g = f THEN 0 ELSE NeighbourCount(mesh, f, g)
         /\ \A j \in 1..Len(FF[f]) : FF[f][j] = PAD \/ FF[f][j] \in 0..(Len(mesh) - 1)
FaceFaceCounts(mesh, FF) == Len(FF) = Len(mesh) /\ \A f \in 1..Len(mesh) : \A g \in 1..Len(mesh) :
                               CountIn(FF[f], g - 1) = IF g = f THEN 0 ELSE NeighbourCount(mesh, f, g)
FaceFacePadding(mesh, FF) == \A f \in 1..Len(FF) : PadOnlyAtEnd(FF[f]) /\
                               \A j \in 1..Len(FF[f]) : FF[f][j] = PAD \/ FF[f][j] \in 0..(Len(mesh) - 1)

HoleEdgeIds(mesh, E) == { k - 1 : k \in { l \in 1..Len(E) : Cardinality(FacesOfSide(mesh, RowAsSide(E[l]))) = 1 } }
IsHoleEdgeList(mesh, E, H) == Range(H) = HoleEdgeIds(mesh, E) /\ Len(H) = Cardinality(HoleEdgeIds(mesh, E))

(* ---- subsets (C09) -------------------------------------------------------- *)
\* inclusive selections, as 0-based source face ids
FacesTouchingNodes(mesh, ns) == { f - 1 : f \in { g \in 1..Len(mesh) : Corners(mesh[g]) \cap ns # {} } }
FacesTouchingEdges(mesh, E, es) == { f - 1 : f \in { g \in 1..Len(mesh) :
                                       \E k \in es : k + 1 \in 1..Len(E) /\ RowAsSide(E[k + 1]) \in Sides(mesh[g]) } }

\* sub : faces of the result as sequences of *source* node ids (the harness maps the
\* result's node ids back through the recorded subgrid_node_indices, or by position)
\* src : recorded source face ids of the result's faces, in result order
IsRestriction(mesh, selected, sub, src) ==
    /\ Len(sub) = Len(src)
    /\ Range(src) = selected
    /\ Len(src) = Cardinality(selected)                         \* no duplicates
    /\ \A i \in 1..Len(sub) : src[i] + 1 \in 1..Len(mesh) /\ sub[i] = mesh[src[i] + 1]

(* ---- dual (C18) ------------------------------------------------------------ *)
\* Faces at node v in counter-clockwise ring order, for a mesh whose faces are CCW:
\* after face g (in which v is followed by b = next corner), ... the ring successor
\* of g around v is the face h in which v is preceded by ... see DualRingOK.
PosOf(face, v)      == CHOOSE j \in 1..Len(face) : face[j] = v
NextOf(face, v)     == face[NextIdx(face, PosOf(face, v))]
PrevOf(face, v)     == face[PrevIdx(face, PosOf(face, v))]
\* Going counter-clockwise around v, consecutive faces g then h share the side {v, w}
\* with w = PrevOf(g, v) = NextOf(h, v) when faces are CCW (g's incoming side at v is
\* h's outgoing side).
RingSucc(mesh, v, g, h) == v \in Corners(mesh[g]) /\ v \in Corners(mesh[h]) /\ g # h /\
                           PrevOf(mesh[g], v) = NextOf(mesh[h], v)
\* ring: sequence of 0-based face ids (unpadded)
DualRingOK(mesh, v, ring) ==
    /\ Range(ring) = FacesAtNode(mesh, v)
    /\ Len(ring) = Valence(mesh, v)
    /\ \A i \in 1..Len(ring) :
         RingSucc(mesh, v, ring[i] + 1, ring[IF i = Len(ring) THEN 1 ELSE i + 1] + 1)
\* clockwise variant, used to *diagnose* orientation errors
DualRingCW(mesh, v, ring) ==
    /\ Range(ring) = FacesAtNode(mesh, v)
    /\ Len(ring) = Valence(mesh, v)
    /\ \A i \in 1..Len(ring) :
         RingSucc(mesh, v, ring[IF i = Len(ring) THEN 1 ELSE i + 1] + 1, ring[i] + 1)
InteriorNode(mesh, v) ==   \* every side at v is shared by two faces: v is surrounded
    \A f \in 1..Len(mesh) : v \in Corners(mesh[f]) =>
        /\ Cardinality(FacesOfSide(mesh, {v, NextOf(mesh[f], v)})) = 2
        /\ Cardinality(FacesOfSide(mesh, {v, PrevOf(mesh[f], v)})) = 2

(* ---- helpers --------------------------------------------------------------- *)
Rotate(face, k) == [ j \in 1..Len(face) |-> face[((j - 1 + k) % Len(face)) + 1] ]
SameCycle(a, b) == Len(a) = Len(b) /\ \E k \in 0..(Len(a) - 1) : Rotate(a, k) = b
=============================================================================

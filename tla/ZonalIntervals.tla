--------------------------- MODULE ZonalIntervals ---------------------------
(***************************************************************************)
(* X02 -- zonal face weights: interval algebra on a latitude circle.       *)
(*                                                                         *)
(* A constant-latitude circle is cut into M unit cells 0..M-1 (cell c is   *)
(* the longitude range [c, c+1] in units of 2 pi / M).  A face covers an   *)
(* arc <<s, len>>: the len cells s, s+1, .. eastward (mod M); len = 0 is   *)
(* "not touched", len = M the full circle of a polar cap, s + len > M an   *)
(* arc through the 0 / 2 pi seam.  A face may cover two arcs (a face whose *)
(* edge bulges across the circle).                                         *)
(*                                                                         *)
(* L1 (declarative, the definition of the weight): every covered cell is   *)
(* shared equally among the faces that cover it,                           *)
(*      W(f) = sum over cells c covered by f of 1 / #{g : g covers c},     *)
(* kept exact as integers scaled by D = 12 = lcm(1..4).                    *)
(*                                                                         *)
(* L2 (implementation-shaped): uxarray.grid.integrate                      *)
(*   - _get_zonal_face_interval hands a face's arc over as one interval    *)
(*     [a, b] with 0 <= a < b <= M on the LINE, or as the two intervals    *)
(*     [0, e] and [s, M] when the arc runs through the seam (Split);       *)
(*   - _process_overlapped_intervals sorts the events (position, "end" <   *)
(*     "start") and sweeps: each stretch between consecutive events is     *)
(*     divided equally among the SET of active faces; an "end" for a face  *)
(*     that is not active raises.                                          *)
(*                                                                         *)
(* TLC proves for every configuration of NF <= 4 faces (one arc each, or   *)
(* up to two disjoint non-adjacent arcs when TwoArcs):                     *)
(*   SweepNeverRaises, SweepIsDefinition (L2 = L1, total = covered cells), *)
(*   NonNegative, SumIsCovered, UntouchedGetsNothing, PermutationLaw,      *)
(*   RotationLaw (incl. through the seam), ReflectionLaw,                  *)
(*   IdenticalShareEqually, NestedLaw, MonotoneLaw.                        *)
(* What the sweep does NOT handle (and its docstring does not claim):      *)
(*   DegenerateRaises -- a zero-length interval, or two overlapping        *)
(*   intervals of one face, make it raise / drop length (stated below as   *)
(*   properties of L2, and excluded from conformance judgement).           *)
(***************************************************************************)
EXTENDS ZonalOps, TLC

CONSTANTS M,          \* cells on the circle
          NF,         \* faces
          TwoArcs,    \* BOOLEAN: faces may cover two arcs
          MaxLen,     \* longest arc generated (M = unrestricted)
          EmitMod, Seed

Faces == 1..NF

(* ---- arcs, covers ------------------------------------------------------------- *)
Arcs == { <<0, 0>> } \cup { <<s, l>> : s \in 0..(M - 1), l \in 1..(IF MaxLen < M THEN MaxLen ELSE M - 1) }
             \cup (IF MaxLen >= M THEN { <<0, M>> } ELSE {})
CellsOf(a) == { (a[1] + k) % M : k \in 0..(a[2] - 1) }
\* a face: a set of arcs whose cell sets are disjoint and not adjacent (they would be one arc)
Touching(a, b) == \E c \in CellsOf(a) : c \in CellsOf(b) \/ (c + 1) % M \in CellsOf(b) \/ (c + M - 1) % M \in CellsOf(b)
FaceCovers == { {a} : a \in Arcs } \cup (IF TwoArcs THEN { {a, b} : a \in Arcs, b \in Arcs } ELSE {})
GoodCover(S) == \/ Cardinality(S) = 1
                \/ /\ \A a \in S : a[2] > 0 /\ a[2] < M
                   /\ \A a \in S : \A b \in S : a # b => ~Touching(a, b)
Cover(S) == UNION { CellsOf(a) : a \in S }

(* ---- L1 -------------------------------------------------------------------------- *)
Count(cfg, c) == Cardinality({ f \in DOMAIN cfg : c \in Cover(cfg[f]) })
W1All(cfg) == LET cov == [ f \in DOMAIN cfg |-> Cover(cfg[f]) ]
                   cnt == [ c \in 0..(M - 1) |-> Cardinality({ f \in DOMAIN cfg : c \in cov[f] }) ]
               IN [ f \in DOMAIN cfg |-> SumOver(cov[f], [ c \in cov[f] |-> D \div cnt[c] ]) ]
W1(cfg, f) == W1All(cfg)[f]
Covered(cfg) == UNION { Cover(cfg[f]) : f \in DOMAIN cfg }

(* ---- L2: split onto the line, sort the events, sweep -------------------------------- *)
\* intervals of one arc on the line 0..M, as _get_zonal_face_interval produces them
Split(a) == IF a[2] = 0 THEN {}
            ELSE IF a[1] + a[2] <= M THEN { <<a[1], a[1] + a[2]>> }
            ELSE { <<0, a[1] + a[2] - M>>, <<a[1], M>> }
Lines(S) == UNION { Split(a) : a \in S }
\* events <<position, type, face>>, type 0 = "end" sorts before 1 = "start" at equal position
\* rows: sequence of <<start, end, face>> (the DataFrame handed to the sweep, in row order)
Key(e) == e[1] * 2 + e[2]
RECURSIVE Sweep(_, _, _)
\* st = [active, last, total, w, err]; events taken in (position, type) order, ties in row order
Sweep(ev, st, n) ==
    IF ev = {} THEN st
    ELSE LET e == CHOOSE x \in ev : \A y \in ev : Key(x) < Key(y) \/ (Key(x) = Key(y) /\ x[4] <= y[4])
             pos == e[1]
             na == Cardinality(st.active)
             seg == IF st.last >= 0 /\ na > 0 THEN pos - st.last ELSE 0
             w1 == [ f \in 1..n |-> IF f \in st.active /\ seg > 0 THEN st.w[f] + (seg * D) \div na ELSE st.w[f] ]
             bad == e[2] = 0 /\ e[3] \notin st.active
             act == IF e[2] = 1 THEN st.active \cup {e[3]} ELSE st.active \ {e[3]}
         IN IF st.err THEN st
            ELSE Sweep(ev \ {e}, [ active |-> act, last |-> pos, total |-> st.total + seg, w |-> w1, err |-> bad ], n)
\* one event pair per row; the 4th component is the row number (stable sort)
RowEvents(rows) == UNION { { <<rows[k][1], 1, rows[k][3], 2 * k>>, <<rows[k][2], 0, rows[k][3], 2 * k + 1>> } : k \in DOMAIN rows }
Sweep0(n) == [ active |-> {}, last |-> -1, total |-> 0, w |-> [ f \in 1..n |-> 0 ], err |-> FALSE ]
Process(rows, n) == Sweep(RowEvents(rows), Sweep0(n), n)

\* the rows of a configuration: faces in order, each face's intervals by start
RECURSIVE SetToSortedSeq(_)
SetToSortedSeq(S) == IF S = {} THEN <<>>
                     ELSE LET x == CHOOSE y \in S : \A z \in S : y[1] <= z[1] IN <<x>> \o SetToSortedSeq(S \ {x})
RECURSIVE RowsFrom(_, _)
RowsFrom(cfg, f) == IF f > Len(cfg) THEN <<>>
                    ELSE LET iv == SetToSortedSeq(Lines(cfg[f]))
                         IN [ k \in 1..Len(iv) |-> <<iv[k][1], iv[k][2], f>> ] \o RowsFrom(cfg, f + 1)
Rows(cfg) == RowsFrom(cfg, 1)
L2(cfg) == Process(Rows(cfg), Len(cfg))

(* ---- the machine: one state per configuration --------------------------------------- *)
\* (built face by face so that TLC's workers share the enumeration; the laws are judged on complete configurations)
VARIABLE part
GoodCovers == { S \in FaceCovers : GoodCover(S) }
Init == part = <<>>
Next == Len(part) < NF /\ \E S \in GoodCovers : part' = Append(part, S)
Complete == Len(part) = NF
cfg == part

RotArc(a, r)  == IF a[2] = 0 \/ a[2] = M THEN a ELSE << (a[1] + r) % M, a[2] >>
MirArc(a)     == IF a[2] = 0 \/ a[2] = M THEN a ELSE << (2 * M - a[1] - a[2]) % M, a[2] >>
Rot(c, r)     == [ f \in DOMAIN c |-> { RotArc(a, r) : a \in c[f] } ]
Mirror(c)     == [ f \in DOMAIN c |-> { MirArc(a) : a \in c[f] } ]
Swap12(c)     == [ f \in DOMAIN c |-> IF f = 1 THEN c[IF NF >= 2 THEN 2 ELSE 1] ELSE IF f = 2 THEN c[1] ELSE c[f] ]
Cycle(c)      == [ f \in DOMAIN c |-> c[(f % NF) + 1] ]

\* Every law below is a named clause; Laws evaluates them with the sweeps computed once and prints the names that
\* fail.  Swap12 and Cycle generate the symmetric group, Rot(., 1) the rotations: with every configuration visited
\* they give every permutation and every rotation (through the seam too).
Clauses ==
    LET l2  == L2(cfg)
        w1  == W1All(cfg)
        cov == [ f \in Faces |-> Cover(cfg[f]) ]
        ncov == Cardinality(Covered(cfg))
        l2s == L2(Swap12(cfg))
        l2c == L2(Cycle(cfg))
        l2r == L2(Rot(cfg, 1))
        l2m == L2(Mirror(cfg))
    IN
    [ SweepNeverRaises      |-> ~l2.err,
      SweepIsDefinition     |-> l2.w = w1 /\ l2.total = ncov,
      RowsDefinitionAgrees  |-> W1Rows(M, Rows(cfg), NF) = w1,
      NonNegative           |-> \A f \in Faces : w1[f] >= 0,
      SumIsCovered          |-> SumOver(Faces, w1) = D * ncov,
      UntouchedGetsNothing  |-> \A f \in Faces : cov[f] = {} => (w1[f] = 0 /\ l2.w[f] = 0),
      PermutationLaw        |-> /\ \A f \in Faces : l2s.w[f] = l2.w[IF f = 1 THEN (IF NF >= 2 THEN 2 ELSE 1) ELSE IF f = 2 THEN 1 ELSE f]
                                /\ \A f \in Faces : l2c.w[f] = l2.w[(f % NF) + 1],
      RotationLaw           |-> l2r.w = l2.w /\ l2r.total = l2.total,
      ReflectionLaw         |-> l2m.w = l2.w /\ l2m.total = l2.total,
      IdenticalShareEqually |-> \A f \in Faces : \A g \in Faces : cfg[f] = cfg[g] => l2.w[f] = l2.w[g],
      MonotoneLaw           |-> \A f \in Faces : \A g \in Faces : cov[f] \subseteq cov[g] => w1[f] <= w1[g],
      \* two faces, one inside the other, nobody else: the inner one gets half of itself, the outer one the rest
      NestedLaw             |-> \A f \in Faces : \A g \in Faces :
                                  (f # g /\ cov[f] \subseteq cov[g] /\ \A h \in Faces \ {f, g} : cov[h] = {}) =>
                                      /\ 2 * w1[f] = D * Cardinality(cov[f])
                                      /\ 2 * w1[g] = D * (2 * Cardinality(cov[g]) - Cardinality(cov[f])) ]
Laws == Complete => LET c == Clauses
                        bad == { k \in DOMAIN c : ~c[k] }
                    IN bad = {} \/ (PrintT(<<"LAWFAIL", cfg, bad>>) /\ FALSE)

(* ---- what the sweep does not handle (properties of L2; not claimed by its docstring) -------- *)
\* a zero-length interval raises (its "end" sorts before its "start"); two overlapping intervals of ONE face raise at
\* the second "end" (the active faces are a set)
DegenerateRaises == Len(part) = 0 =>
    /\ Process(<< <<1, 1, 1>> >>, 1).err
    /\ Process(<< <<0, 2, 1>>, <<1, 3, 1>> >>, 1).err
    /\ ~Process(<< <<0, 2, 1>>, <<2, 3, 1>> >>, 1).err          \* abutting intervals of one face are fine

(* ---- emission for conformance ------------------------------------------------------------------ *)
RECURSIVE HS(_, _)
HS(rows, k) == IF k > Len(rows) THEN 0 ELSE (rows[k][1] * 7 + rows[k][2] * 13 + rows[k][3] * 31) * (k + 2) + HS(rows, k + 1)
Emit == (Complete /\ Covered(cfg) # {} /\ (HS(Rows(cfg), 1) + Seed) % EmitMod = 0) =>
            PrintT(<<"ZCFG", [ rows |-> Rows(cfg), n |-> NF, m |-> M,
                               w |-> W1All(cfg), total |-> Cardinality(Covered(cfg)),
                               maxlen |-> LET ls == { a[2] : a \in UNION { cfg[f] : f \in Faces } } IN CHOOSE x \in ls : \A y \in ls : x >= y,
                               arcs |-> [ f \in Faces |-> cfg[f] ] ]>>)
=============================================================================

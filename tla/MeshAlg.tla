------------------------------ MODULE MeshAlg ------------------------------
(***************************************************************************)
(* Implementation-shaped ("L2") transcriptions of the connectivity         *)
(* algorithms in uxarray/grid/connectivity.py.  TLC checks, over an        *)
(* exhaustive small scope (MeshScope.tla), that each L2 algorithm          *)
(* satisfies the declarative relation of Mesh.tla (L1).  The harness also  *)
(* compares recorded implementation output with L2 *exactly*; a mismatch   *)
(* there that still satisfies L1 is MODEL-DRIFT, not a violation.          *)
(***************************************************************************)
EXTENDS Mesh, SequencesExt, FiniteSetsExt

(* close_face_nodes: append one fill, then put the first node at the first fill *)
FirstPad(ext)   == CHOOSE j \in 1..Len(ext) : ext[j] = PAD /\ \A i \in 1..(j - 1) : ext[i] # PAD
CloseRow(row)   == LET ext == Append(row, PAD) IN [ ext EXCEPT ![FirstPad(ext)] = row[1] ]

(* _build_n_nodes_per_face: argmax of (closed == FILL) on the row extended by one fill *)
AlgNodesPerFace(T) == [ f \in 1..Len(T) |-> FirstPad(Append(T[f], PAD)) - 1 ]

SortPair(a, b)  == IF a <= b THEN <<a, b>> ELSE <<b, a>>
LexLess(p, q)   == p[1] < q[1] \/ (p[1] = q[1] /\ p[2] < q[2])

(* _build_edge_node_connectivity on a stored table T of width W *)
AlgEdges(T) ==
    LET nF    == Len(T)
        W     == Len(T[1])
        cl    == [ f \in 1..nF |-> CloseRow(T[f]) ]
        pair(t) == LET f == ((t - 1) \div W) + 1
                       j == ((t - 1) % W) + 1
                   IN SortPair(cl[f][j], cl[f][j + 1])
        all   == { pair(t) : t \in 1..(nF * W) }
        U     == SetToSortSeq(all, LexLess)                    \* np.unique(axis=0)
        inv(t) == CHOOSE k \in 1..Len(U) : U[k] = pair(t)      \* 1-based inverse index
        fill(k) == U[k][1] = PAD \/ U[k][2] = PAD
        nFillUpTo(k) == Cardinality({ i \in 1..k : fill(i) })
        edges == SelectSeq(U, LAMBDA p : p[1] # PAD /\ p[2] # PAD)
        inv2(t) == IF fill(inv(t)) THEN PAD ELSE (inv(t) - 1) - nFillUpTo(inv(t))
    IN [ edges |-> edges,
         face_edges |-> [ f \in 1..nF |-> [ j \in 1..W |-> inv2((f - 1) * W + j) ] ] ]

(* _build_edge_face_connectivity: two-slot loop over faces in order *)
RECURSIVE EFLoop(_, _, _, _, _)
EFLoop(FE, N, f, j, acc) ==
    IF f > Len(FE) THEN acc
    ELSE IF j > N[f] THEN EFLoop(FE, N, f + 1, 1, acc)
    ELSE LET e == FE[f][j] + 1
             row == acc[e]
             new == IF row[1] = PAD THEN <<f - 1, row[2]>> ELSE <<row[1], f - 1>>
         IN EFLoop(FE, N, f, j + 1, [ acc EXCEPT ![e] = new ])
AlgEdgeFaces(FE, N, nEdge) == EFLoop(FE, N, 1, 1, [ k \in 1..nEdge |-> <<PAD, PAD>> ])

(* _build_node_faces_connectivity: per node, faces in order of appearance; padded to the max *)
AlgNodeFaces(T, nNode) ==
    LET hits(n) == SelectSeq([ f \in 1..Len(T) |-> f - 1 ],
                             LAMBDA g : \E j \in 1..Len(T[g + 1]) : T[g + 1][j] = n)
        \* a node listed twice in one face would be appended twice by the code; simple faces only
        width == MaxOr0({ Len(hits(n)) : n \in 0..(nNode - 1) })
    IN [ r \in 1..nNode |-> [ j \in 1..width |-> IF j <= Len(hits(r - 1)) THEN hits(r - 1)[j] ELSE PAD ] ]

(* _build_face_face_connectivity: walk edge_face rows in edge order *)
RECURSIVE FFLoop(_, _, _)
FFLoop(EF, k, acc) ==
    IF k > Len(EF) THEN acc
    ELSE LET a == EF[k][1]  b == EF[k][2]
         IN IF a # PAD /\ b # PAD
            THEN FFLoop(EF, k + 1, [ acc EXCEPT ![a + 1] = Append(@, b), ![b + 1] = Append(@, a) ])
            ELSE FFLoop(EF, k + 1, acc)
AlgFaceFaces(EF, nFace, W) ==
    LET lists == FFLoop(EF, 1, [ f \in 1..nFace |-> <<>> ])
    IN [ f \in 1..nFace |-> [ j \in 1..W |-> IF j <= Len(lists[f]) THEN lists[f][j] ELSE PAD ] ]

(* get_face_node_partitions (C17): faces grouped by size, ascending; the order inside a   *)
(* group is whatever argsort gives (not stable) -> relation, not function                 *)
IsSizePartition(N, order, sizes, counts, change) ==
    /\ Range(order) = 0..(Len(N) - 1) /\ Len(order) = Len(N)                  \* a permutation
    /\ \A i, j \in 1..Len(order) : i < j => N[order[i] + 1] <= N[order[j] + 1]  \* ascending size
    /\ Range(sizes) = Range(N) /\ Len(sizes) = Cardinality(Range(N))
    /\ \A i, j \in 1..Len(sizes) : i < j => sizes[i] < sizes[j]
    /\ Len(counts) = Len(sizes)
    /\ \A i \in 1..Len(sizes) : counts[i] = Cardinality({ f \in 1..Len(N) : N[f] = sizes[i] })
    /\ Len(change) = Len(sizes) + 1 /\ change[1] = 0
    /\ \A i \in 1..Len(sizes) : change[i + 1] = change[i] + counts[i]
=============================================================================

-------------------------------- MODULE ArcZ --------------------------------
(***************************************************************************)
(* C14: arc predicates, arc-arc intersections and extreme latitudes on     *)
(* integer direction vectors.  Extends the exact oracle of SphereZ.tla     *)
(* with                                                                    *)
(*   - the lattice of primitive directions and its arcs,                   *)
(*   - exact *margins* (integer sufficient conditions for "at least 1e-4   *)
(*     rad, hence at least the property's 1e-6 rad, from every decision    *)
(*     boundary"),                                                         *)
(*   - latitude descriptors <<sign, num, den>> (lat = sign * asin sqrt     *)
(*     (num/den)) and their exact order,                                   *)
(*   - the laws of the oracle itself (symmetries, sign form = definitional *)
(*     form of a crossing, partition of a great circle, dominance of the   *)
(*     extreme latitude) as predicates that ArcScope.tla model-checks.     *)
(* Nothing here is taken from uxarray/grid/arcs.py or intersections.py.    *)
(***************************************************************************)
EXTENDS SphereZ, TLC

(* ---- the lattice ---------------------------------------------------------- *)
PVec(K)  == { v \in Vec(K) : Primitive(v) }
Arcs(K)  == { e \in PVec(K) \X PVec(K) : IsArc(e[1], e[2]) }
LexLess(u, v) == \/ u[1] < v[1]
                 \/ (u[1] = v[1] /\ u[2] < v[2])
                 \/ (u[1] = v[1] /\ u[2] = v[2] /\ u[3] < v[3])
CanonArc(e)   == LexLess(e[1], e[2])
ArcLess(e, f) == LexLess(e[1], f[1]) \/ (e[1] = f[1] /\ LexLess(e[2], f[2]))
\* the harness addresses lattice points by index 0 .. (2K+1)^3 - 1 (pure indexing, no geometry)
VecOfIndex(i, K) == LET w == 2 * K + 1
                    IN << (i \div (w * w)) - K, ((i \div w) % w) - K, (i % w) - K >>
Judgeable(v)  == v # Zero3 /\ Primitive(v)

(* ---- kinds of arcs (coverage bookkeeping and known-finding signatures) ------ *)
PoleEnd(a, b)   == IsPole(a) \/ IsPole(b)
\* the arc contains a pole: as an endpoint or in its interior (it then lies in a meridian plane)
PolarArc(a, b)  == MeridianArc(a, b) /\ (PoleEnd(a, b) \/ ThroughPole(a, b))
AntimeridianArc(a, b) == ~MeridianArc(a, b) /\ CrossesAntimeridianStrict(a, b)
ArcKind(a, b) == IF PolarArc(a, b) THEN "polar"
                 ELSE IF MeridianArc(a, b) THEN "meridian"
                 ELSE IF EquatorArc(a, b) THEN "equator"
                 ELSE IF AntimeridianArc(a, b) THEN "antimeridian"
                 ELSE "generic"

(* ---- margins ------------------------------------------------------------------ *)
\* sin^2(angle) >= 1 / MarginInv  =>  angle >= 1e-4 rad  >= the property's 1e-6 rad.
\* All products stay far below 2^31 for K <= 3 (TLC traps overflow otherwise).
MarginInv == 100000000
FarFromCircle(n, p) == LET d == Dot(n, p)
                       IN d # 0 /\ (N2(n) * N2(p)) \div (d * d) <= MarginInv
Apart(p, a) == \/ Dot(p, a) <= 0
               \/ (~Parallel(p, a) /\ (N2(p) * N2(a)) \div N2(Cross(p, a)) <= MarginInv)
ArcMargin(a, b) == IsArc(a, b) /\ (N2(a) * N2(b)) \div N2(Cross(a, b)) <= MarginInv
\* a query point is judged iff it is not an endpoint and clears the margin of its class
TripleJudged(a, b, p) ==
    LET c == ArcClass(a, b, p) IN
    /\ ArcMargin(a, b)
    /\ CASE c = "Off"      -> FarFromCircle(Cross(a, b), p)
         [] c = "Endpoint" -> FALSE
         [] OTHER          -> Apart(p, a) /\ Apart(p, b)
OnArcExpected(a, b, p) == ArcClass(a, b, p) = "Interior"

CrossPoint(a, b, c, d) ==
    LET k == ArcPairClass(a, b, c, d) IN
    IF k = "CrossAtX" THEN CrossX(a, b, c, d)
    ELSE IF k = "CrossAtMinusX" THEN Neg(CrossX(a, b, c, d))
    ELSE Zero3
Crosses(a, b, c, d) == ArcPairClass(a, b, c, d) \in {"CrossAtX", "CrossAtMinusX"}
\* a pair is judged iff the circles differ, no endpoint is on the other circle, all with margin
PairJudged(a, b, c, d) ==
    LET n1 == Cross(a, b)  n2 == Cross(c, d)  x == Cross(n1, n2) IN
    /\ ArcMargin(a, b) /\ ArcMargin(c, d)
    /\ x # Zero3
    /\ (N2(n1) * N2(n2)) \div N2(x) <= MarginInv
    /\ FarFromCircle(n2, a) /\ FarFromCircle(n2, b)
    /\ FarFromCircle(n1, c) /\ FarFromCircle(n1, d)

(* ---- latitude descriptors ------------------------------------------------------ *)
\* <<s, num, den>> denotes the latitude s * asin(sqrt(num / den)), s in {-1, 0, 1}
LatOf(v)       == << Sgn(v[3]), v[3] * v[3], N2(v) >>
TopOf(a, b)    == LET n == Cross(a, b) IN << 1, n[1] * n[1] + n[2] * n[2], N2(n) >>
BottomOf(a, b) == LET n == Cross(a, b) IN << -1, n[1] * n[1] + n[2] * n[2], N2(n) >>
LatNeg(d)      == << -d[1], d[2], d[3] >>
LatDescrCmp(d, e) ==
    IF d[1] # e[1] THEN Sgn(d[1] - e[1])
    ELSE IF d[1] = 0 THEN 0
    ELSE d[1] * Sgn(d[2] * e[3] - e[2] * d[3])
\* which candidate is the answer: 1 = latitude of a, 2 = latitude of b, 3 = top of the circle, 4 = bottom
MaxLatWhich(a, b) == LET d == ExtremeLatMax(a, b) IN IF d[1] = "top" THEN 3 ELSE d[2]
MinLatWhich(a, b) == LET d == ExtremeLatMin(a, b) IN IF d[1] = "bottom" THEN 4 ELSE d[2]
Candidate(a, b, w) == CASE w = 1 -> LatOf(a) [] w = 2 -> LatOf(b)
                        [] w = 3 -> TopOf(a, b) [] w = 4 -> BottomOf(a, b)
MaxLat(a, b) == Candidate(a, b, MaxLatWhich(a, b))
MinLat(a, b) == Candidate(a, b, MinLatWhich(a, b))
\* the highest point of the great circle of (a, b) (exists unless the circle is the equator)
TopPoint(a, b) == LET n == Cross(a, b)
                  IN << -(n[1] * n[3]), -(n[2] * n[3]), n[1] * n[1] + n[2] * n[2] >>
RotX180(v) == << v[1], -v[2], -v[3] >>

(* ---- laws of the oracle: triples ------------------------------------------------ *)
LawSwapEnds(a, b, p) == ArcClass(b, a, p) = ArcClass(a, b, p)
LawRotZ(a, b, p)     == \A k \in 1..3 : ArcClass(RotZ(k, a), RotZ(k, b), RotZ(k, p)) = ArcClass(a, b, p)
\* The quarter turn about z and the cyclic permutation of the axes generate the 24 rotations of the
\* cube (ASSUMEd, i.e. computed by TLC, in ArcScope.tla).  The scope is closed under both, so a
\* quantity that is invariant under the two generators at *every* case of the scope is invariant
\* under all of Rot24 (induction on the word length); the laws quantify over the generators only.
RotGen   == { << <<2, 1, 3>>, <<-1, 1, 1>> >>,      \* v |-> <<-v[2], v[1], v[3]>>  = RotZ(1, v)
              << <<2, 3, 1>>, <<1, 1, 1>> >> }       \* v |-> <<v[2], v[3], v[1]>>
ComposeRot(r, s) == << [ i \in 1..3 |-> s[1][r[1][i]] ], [ i \in 1..3 |-> r[2][i] * s[2][r[1][i]] ] >>
RECURSIVE CloseRot(_)
CloseRot(S) == LET T == S \cup { ComposeRot(r, s) : r \in S, s \in S }
               IN IF T = S THEN S ELSE CloseRot(T)
GeneratorsGenerateRot24 ==
    /\ RotGen \subseteq Rot24
    /\ CloseRot(RotGen) = Rot24
    /\ Cardinality(Rot24) = 24
    /\ \A r \in RotGen, s \in RotGen : \A v \in Vec(1) :
          ApplyRot(ComposeRot(r, s), v) = ApplyRot(r, ApplyRot(s, v))
    /\ \A v \in Vec(1) : ApplyRot(<< <<2, 1, 3>>, <<-1, 1, 1>> >>, v) = RotZ(1, v)
LawRot24(a, b, p)    == \A r \in RotGen :
                           ArcClass(ApplyRot(r, a), ApplyRot(r, b), ApplyRot(r, p)) = ArcClass(a, b, p)
\* a, b, -a, -b cut the great circle into four open arcs; a point of the circle that is not
\* one of the four directions lies in exactly one of them
LawPartition(a, b, p) ==
    (OnCircle(a, b, p) /\ ~Parallel(p, a) /\ ~Parallel(p, b)) =>
        Cardinality({ e \in { <<a, b>>, <<b, Neg(a)>>, <<Neg(a), Neg(b)>>, <<Neg(b), a>> } :
                        StrictlyWithinArc(e[1], e[2], p) }) = 1
LawAntipode(a, b, p) == StrictlyWithinArc(a, b, p) => ArcClass(a, b, Neg(p)) = "OnCircleOutside"
\* the interior is the open positive cone of a and b: p on the circle, and p = s a + t b with s, t > 0
\* (s, t are found by Cramer's rule in the two coordinates where the normal is largest; here: all
\* three coordinate planes must agree whenever their 2x2 determinant is non-zero)
ConeForm(a, b, p) ==
    /\ OnCircle(a, b, p)
    /\ \A i, j \in 1..3 : (i < j /\ a[i] * b[j] - a[j] * b[i] # 0) =>
          LET dd == a[i] * b[j] - a[j] * b[i]
              s  == p[i] * b[j] - p[j] * b[i]
              t  == a[i] * p[j] - a[j] * p[i]
          IN s * dd > 0 /\ t * dd > 0
LawCone(a, b, p)     == StrictlyWithinArc(a, b, p) <=> ConeForm(a, b, p)
\* every non-degenerate lattice case clears the margin (so "boundary" = exact degeneracy only)
LawTripleMargin(a, b, p) == (ArcClass(a, b, p) # "Endpoint") => TripleJudged(a, b, p)

(* ---- laws of the oracle: pairs of arcs on different circles ---------------------- *)
Kind(k) == IF k \in {"CrossAtX", "CrossAtMinusX"} THEN "Cross" ELSE k
LawSignIsDefinitional(a, b, c, d) ==
    LET k == ArcPairClass(a, b, c, d)  x == CrossX(a, b, c, d) IN
    /\ Crosses(a, b, c, d) <=> CrossesDefinitional(a, b, c, d)
    /\ (k = "CrossAtX") => (StrictlyWithinArc(a, b, x) /\ StrictlyWithinArc(c, d, x))
    /\ (k = "CrossAtMinusX") => (StrictlyWithinArc(a, b, Neg(x)) /\ StrictlyWithinArc(c, d, Neg(x)))
    /\ (k = "Disjoint") => \A y \in { x, Neg(x) } :
           ~(ArcClass(a, b, y) \in {"Interior", "Endpoint"} /\ ArcClass(c, d, y) \in {"Interior", "Endpoint"})
SamePoint(u, v) == (u = Zero3 /\ v = Zero3) \/ (u # Zero3 /\ v # Zero3 /\ SameDir(u, v))
LawPairSwapArcs(a, b, c, d) ==
    /\ Kind(ArcPairClass(c, d, a, b)) = Kind(ArcPairClass(a, b, c, d))
    /\ SamePoint(CrossPoint(c, d, a, b), CrossPoint(a, b, c, d))
LawPairSwapEnds(a, b, c, d) ==
    /\ Kind(ArcPairClass(b, a, c, d)) = Kind(ArcPairClass(a, b, c, d))
    /\ SamePoint(CrossPoint(b, a, c, d), CrossPoint(a, b, c, d))
    /\ Kind(ArcPairClass(a, b, d, c)) = Kind(ArcPairClass(a, b, c, d))
    /\ SamePoint(CrossPoint(a, b, d, c), CrossPoint(a, b, c, d))
LawPairRotZ(a, b, c, d) ==
    \A k \in 1..3 :
       /\ ArcPairClass(RotZ(k, a), RotZ(k, b), RotZ(k, c), RotZ(k, d)) = ArcPairClass(a, b, c, d)
       /\ CrossPoint(RotZ(k, a), RotZ(k, b), RotZ(k, c), RotZ(k, d)) = RotZ(k, CrossPoint(a, b, c, d))
LawPairRot24(a, b, c, d) ==
    \A r \in RotGen :
       /\ ArcPairClass(ApplyRot(r, a), ApplyRot(r, b), ApplyRot(r, c), ApplyRot(r, d)) = ArcPairClass(a, b, c, d)
       /\ CrossPoint(ApplyRot(r, a), ApplyRot(r, b), ApplyRot(r, c), ApplyRot(r, d))
             = ApplyRot(r, CrossPoint(a, b, c, d))
AllSignsNonZero(a, b, c, d) == /\ SA(a, b, c, d) # 0 /\ SB(a, b, c, d) # 0
                               /\ SC(a, b, c, d) # 0 /\ SD(a, b, c, d) # 0
LawPairMargin(a, b, c, d) == AllSignsNonZero(a, b, c, d) => PairJudged(a, b, c, d)

(* ---- laws of the oracle: extreme latitude ---------------------------------------- *)
LawLatSwap(a, b) == /\ LatDescrCmp(MaxLat(a, b), MaxLat(b, a)) = 0
                    /\ LatDescrCmp(MinLat(a, b), MinLat(b, a)) = 0
LawLatRotZ(a, b) == \A k \in 1..3 :
                       /\ LatDescrCmp(MaxLat(RotZ(k, a), RotZ(k, b)), MaxLat(a, b)) = 0
                       /\ LatDescrCmp(MinLat(RotZ(k, a), RotZ(k, b)), MinLat(a, b)) = 0
\* a half turn about the x axis exchanges north and south
LawLatFlip(a, b) == LatDescrCmp(MaxLat(RotX180(a), RotX180(b)), LatNeg(MinLat(a, b))) = 0
\* the closed-form bulge test is the statement "the circle's highest point is strictly inside the arc"
LawTopWithin(a, b) ==
    LET n == Cross(a, b) IN
    (n[1] # 0 \/ n[2] # 0) =>
        /\ BulgesNorth(a, b) <=> StrictlyWithinArc(a, b, TopPoint(a, b))
        /\ BulgesSouth(a, b) <=> StrictlyWithinArc(a, b, Neg(TopPoint(a, b)))
\* no lattice point of the closed arc is higher than the maximum or lower than the minimum,
\* and no point of the whole circle is higher than its top
LawLatDominates(a, b, S) ==
    \A p \in S :
       /\ ArcClass(a, b, p) \in {"Interior", "Endpoint"} =>
             /\ LatDescrCmp(LatOf(p), MaxLat(a, b)) <= 0
             /\ LatDescrCmp(LatOf(p), MinLat(a, b)) >= 0
       /\ OnCircle(a, b, p) =>
             /\ LatDescrCmp(LatOf(p), TopOf(a, b)) <= 0
             /\ LatDescrCmp(LatOf(p), BottomOf(a, b)) >= 0
LawLatOrder(a, b) == /\ LatDescrCmp(MinLat(a, b), MaxLat(a, b)) <= 0
                     /\ LatDescrCmp(MaxLat(a, b), LatOf(a)) >= 0 /\ LatDescrCmp(MaxLat(a, b), LatOf(b)) >= 0
                     /\ LatDescrCmp(MinLat(a, b), LatOf(a)) <= 0 /\ LatDescrCmp(MinLat(a, b), LatOf(b)) <= 0

(* ---- shrunk arcs: arbitrarily short arcs with an inherited exact class ------------- *)
\* For a direction w strictly inside the arc (a, b), the arc (M w + a, M w + b) lies on the same great
\* circle, inside (a, b), and still contains w strictly inside, for every integer M >= 0; its length is
\* about 1/M.  So a crossing pair shrunk around its crossing direction still crosses exactly there, an
\* interior point stays interior, and whatever was outside (a, b) stays outside.  TLC checks these laws
\* with the exact forms for small M (ArcScope.tla); for M = 10^k the harness builds the integer vectors
\* exactly and the class is inherited by the law.  Only quantities *linear* in M are evaluated here for
\* large M (32-bit safe).
Shr(M, w, a) == [ i \in 1..3 |-> M * w[i] + a[i] ]
ShrinkMs == 1..3
LawShrinkTriple(a, b, p, S) ==
    StrictlyWithinArc(a, b, p) =>
        \A M \in ShrinkMs :
           LET A == Shr(M, p, a)  B == Shr(M, p, b) IN
           /\ IsArc(A, B) /\ SameDir(Cross(A, B), Cross(a, b))
           /\ ArcClass(A, B, p) = "Interior"
           /\ StrictlyWithinArc(a, b, A) /\ StrictlyWithinArc(a, b, B)
           /\ \A q \in S : ArcClass(a, b, q) \in {"OnCircleOutside", "Off"} => ArcClass(A, B, q) = ArcClass(a, b, q)
LawShrinkPair(a, b, c, d) ==
    Crosses(a, b, c, d) =>
        \A M \in ShrinkMs :
           LET w == CrossPoint(a, b, c, d)
               A == Shr(M, w, a)  B == Shr(M, w, b)  C == Shr(M, w, c)  D == Shr(M, w, d)
           IN /\ ArcPairClass(A, B, C, D) = ArcPairClass(a, b, c, d)          \* sign form
              /\ StrictlyWithinArc(A, B, w) /\ StrictlyWithinArc(C, D, w)      \* definitional form
              /\ SameDir(CrossPoint(A, B, C, D), w)
\* bulge tests of the shrunk arc, linear in M: with n = a x b the normal of (M w + a) x (M w + b) is a
\* positive multiple of n, and  A_y n_x - A_x n_y = M (w_y n_x - w_x n_y) + (a_y n_x - a_x n_y)
GForm(n, v) == v[2] * n[1] - v[1] * n[2]
ShrunkBulgesNorth(a, b, w, M) ==
    LET n == Cross(a, b) IN
    /\ (n[1] # 0 \/ n[2] # 0)
    /\ M * GForm(n, w) + GForm(n, a) > 0
    /\ -(M * GForm(n, w)) - GForm(n, b) > 0
ShrunkBulgesSouth(a, b, w, M) == ShrunkBulgesNorth(Neg(a), Neg(b), Neg(w), M)
LawShrinkLat(a, b, p) ==
    StrictlyWithinArc(a, b, p) =>
        \A M \in ShrinkMs :
           /\ ShrunkBulgesNorth(a, b, p, M) <=> BulgesNorth(Shr(M, p, a), Shr(M, p, b))
           /\ ShrunkBulgesSouth(a, b, p, M) <=> BulgesSouth(Shr(M, p, a), Shr(M, p, b))
\* margins for M = 10^k (M >= 3): |M w + e|^2 <= 2 M^2 max(|w|^2, |e|^2), so
\*   sin^2(dist) >= num / (2 M^2 S den)  >=  4e-12   <=   8 S den <= num 10^(12 - 2k)      (2e-6 rad)
Pow10(j) == CASE j = 0 -> 1 [] j = 1 -> 10 [] j = 2 -> 100 [] j = 3 -> 1000 [] j = 4 -> 10000
              [] j = 5 -> 100000 [] j = 6 -> 1000000 [] j = 7 -> 10000000 [] j = 8 -> 100000000
MaxOf(x, y) == IF x > y THEN x ELSE y
ShrinkFar(num, den, S, k) ==      \* num / den = sin^2 of the base configuration's numerator over denominators
    /\ num > 0
    /\ IF 12 - 2 * k >= 9 THEN TRUE ELSE (8 * S * den) \div num <= Pow10(12 - 2 * k)
ShrinkEndFar(e, w, n, k) == LET t == Dot(e, n) IN ShrinkFar(t * t, N2(n), MaxOf(N2(w), N2(e)), k)
ShrinkPairOK(a, b, c, d, k) ==
    LET w == CrossPoint(a, b, c, d)  n1 == Cross(a, b)  n2 == Cross(c, d) IN
    /\ k \in 1..5 /\ PairJudged(a, b, c, d) /\ Crosses(a, b, c, d)
    /\ ShrinkEndFar(a, w, n2, k) /\ ShrinkEndFar(b, w, n2, k)
    /\ ShrinkEndFar(c, w, n1, k) /\ ShrinkEndFar(d, w, n1, k)
\* the interior point p is at least 2e-6 rad from both endpoints of the shrunk arc: (M p + e) x p = e x p
ShrinkTripleOK(a, b, p, k) ==
    /\ k \in 1..5 /\ ArcMargin(a, b) /\ StrictlyWithinArc(a, b, p)
    /\ \A e \in {a, b} : ShrinkFar(N2(Cross(e, p)), N2(p), MaxOf(N2(p), N2(e)), k)
=============================================================================

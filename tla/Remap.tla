------------------------------- MODULE Remap -------------------------------
(***************************************************************************)
(* C12: remapping picks true nearest sources and never invents values.     *)
(*                                                                         *)
(* Vocabulary.  A data array has ordered dimensions; the LAST one is the   *)
(* element dimension and its NAME says which kind of element the data live *)
(* on (n_node / n_face / n_edge).  A remap call names a destination grid,  *)
(* a destination kind (remap_to), a coordinate type, and for IDW k and a   *)
(* power.                                                                  *)
(*                                                                         *)
(*   SourceKind(dims)         the kind the data live on -- by NAME          *)
(*   OutDims(dims, remapTo)   the input's dims with the element dimension   *)
(*                            replaced by the destination's                 *)
(*   nearest source / identity / support of the IDW weights: relations of   *)
(*   Nearest.tla on the source elements OF THAT KIND (JudgeNearest.tla:     *)
(*   modes "pick", "ident", "kset").                                        *)
(*                                                                         *)
(* The way the source kind is determined is a mechanism choice (constant   *)
(* Mech.kindBy):                                                           *)
(*   "dim_name"            intended: the name of the element dimension      *)
(*   "length_nodes_first"  as read in remap/utils.py: the LENGTH of the     *)
(*                         last axis is compared with n_node, then n_face,  *)
(*                         then n_edge                                      *)
(* KindRight says the inferred kind is the data's kind for every size       *)
(* triple.  TLC proves it for the intended mechanism, and for the observed  *)
(* one proves KindRightUnlessCoincident and prints every (kind, size        *)
(* pattern) where it fails (<<"K", ...>>): the harness replays exactly      *)
(* those patterns on real coincident-size meshes.                           *)
(*                                                                         *)
(* The same module generates the call matrix (<<"C", ...>>): data kind x    *)
(* leading dims x destination kind x coordinate type x method x k x power,  *)
(* each with its expected source kind and output dims.                      *)
(***************************************************************************)
EXTENDS Integers, Sequences, FiniteSets, TLC

CONSTANTS SizeSet,     \* element counts to range over (kind inference)
          GenMatrix,   \* BOOLEAN: also generate the call matrix
          Ks, Powers,  \* IDW parameters of the matrix
          Mech

VARIABLE c

Kinds   == { "nodes", "face centers", "edge centers" }
ElemDim(k) == CASE k = "nodes" -> "n_node" [] k = "face centers" -> "n_face" [] k = "edge centers" -> "n_edge"
Leads   == { <<>>, <<"time">>, <<"time", "lev">> }
Coords  == { "spherical", "cartesian" }

MechIntended == [ kindBy |-> "dim_name" ]
MechObserved == [ kindBy |-> "length_nodes_first" ]

DimsOf(lead, kind)    == lead \o << ElemDim(kind) >>
SourceKind(dims)      == CHOOSE k \in Kinds : ElemDim(k) = dims[Len(dims)]
OutDims(dims, remapTo) == [ dims EXCEPT ![Len(dims)] = ElemDim(remapTo) ]

\* remap/utils.py: n_elements = shape[-1]; == n_node ? nodes : == n_face ? faces : == n_edge ? edges : error
ByLength(len, sz) == IF len = sz["nodes"] THEN "nodes"
                     ELSE IF len = sz["face centers"] THEN "face centers"
                     ELSE IF len = sz["edge centers"] THEN "edge centers"
                     ELSE "error"
Inferred(mech, dims, sz) == IF mech.kindBy = "dim_name" THEN SourceKind(dims)
                            ELSE ByLength(sz[SourceKind(dims)], sz)

\* which sizes coincide with the data's own: the abstract pattern of a failing case
Pattern(kind, sz) == { k \in Kinds \ {kind} : sz[k] = sz[kind] }

Init == c \in [ kind : Kinds, lead : Leads, sz : [Kinds -> SizeSet], stage : {0} ]
Next == /\ GenMatrix
        /\ c.stage = 0
        /\ \E rt \in Kinds : \E co \in Coords :
             \/ c' = [ kind |-> c.kind, lead |-> c.lead, sz |-> c.sz, stage |-> 1,
                       remapTo |-> rt, coord |-> co, method |-> "nn", k |-> 1, power |-> 0 ]
             \/ \E k \in Ks : \E p \in Powers :
                  c' = [ kind |-> c.kind, lead |-> c.lead, sz |-> c.sz, stage |-> 1,
                         remapTo |-> rt, coord |-> co, method |-> "idw", k |-> k, power |-> p ]

Dims == DimsOf(c.lead, c.kind)

(* ---- invariants ----------------------------------------------------------------------- *)
KindRight == Inferred(Mech, Dims, c.sz) = c.kind
KindRightUnlessCoincident == (Pattern(c.kind, c.sz) = {}) => KindRight
\* prints every failing (kind, pattern, inferred) of the mechanism -- generation of directed tests
Predict == (c.stage = 0 /\ ~KindRight) =>
              PrintT(<<"K", c.kind, Pattern(c.kind, c.sz), Inferred(Mech, Dims, c.sz)>>)

DimsLaw == \A rt \in Kinds :
              LET o == OutDims(Dims, rt) IN
              /\ Len(o) = Len(Dims)
              /\ SubSeq(o, 1, Len(o) - 1) = c.lead
              /\ SourceKind(o) = rt
              /\ (rt = c.kind => o = Dims)

(* ---- the dtype of the remapped variable ---------------------------------------------------- *)
\* nearest neighbour hands back source values: same dtype, exactly a source value.
\* inverse distance weighting hands back a convex combination: whatever dtype the result has, its
\* value -- read in THAT dtype -- lies between the minimum and maximum of the k sources, and a constant
\* field stays that constant (for integer and boolean results: exactly).
DTypes      == { "float64", "float32", "int64", "int32", "int8", "uint8", "bool" }
Integral(d) == d \in { "int64", "int32", "int8", "uint8", "bool" }
\* constant fields to remap (several: whether a weighted sum of equal values rounds below the value
\* depends on the weights)
ConstsOf(d) == CASE d = "bool" -> {1} [] d = "uint8" -> {7, 100, 3} [] OTHER -> {-7, 7, 100, 3}
DTypeCases  == { [ dtype |-> d, meth |-> m, level |-> l, consts |-> ConstsOf(d), exact |-> Integral(d) ] :
                   d \in DTypes, m \in { "nn", "idw2", "idw3" }, l \in { "da", "ds" } }
EmitD == (c.stage = 0 /\ c.kind = "nodes" /\ c.lead = <<>> /\ \A k \in Kinds : c.sz[k] = CHOOSE x \in SizeSet : \A y \in SizeSet : x <= y)
            => PrintT(<<"D", DTypeCases>>)

Emit == c.stage = 1 =>
          PrintT(<<"C", [ kind |-> c.kind, lead |-> c.lead, remapTo |-> c.remapTo, coord |-> c.coord,
                          method |-> c.method, k |-> c.k, power |-> c.power,
                          srcKind |-> SourceKind(Dims), outDims |-> OutDims(Dims, c.remapTo) ]>>)
=============================================================================

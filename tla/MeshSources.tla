---------------------------- MODULE MeshSources ----------------------------
(***************************************************************************)
(* Sources that SUPPLY connectivity tables next to the face-node table,    *)
(* and grids DERIVED from a grid by an index selection (C02 / C03).        *)
(*                                                                         *)
(* A supplied table fixes row identities: edge k of the grid is row k of   *)
(* the supplied edge table, whatever order the source lists its edges in   *)
(* and whichever end of an edge it names first.  Every other table of the  *)
(* grid - supplied or derived - is judged by the relations of Mesh.tla     *)
(* against THAT edge table.  Nothing here is the order a deriving          *)
(* algorithm would produce by itself: rows are permuted by a keyed sort,   *)
(* ends are flipped, neighbour rows are listed descending.                 *)
(*                                                                         *)
(* The MPAS section writes a mesh the way an MPAS file stores it (one      *)
(* based, 0 = absent, rows padded beyond nEdgesOnCell with whatever the    *)
(* writer left there) and states what the file MEANS (decoding), which is  *)
(* what a grid read from it must report.                                   *)
(***************************************************************************)
EXTENDS MeshAlg

Lt(a, b) == a < b
Gt(a, b) == a > b
Ord(x, y, desc) == IF desc THEN x > y ELSE x < y

(* ---- keyed pseudo-random orders (parameters come from the harness seed) -- *)
KeyP == 8191                                   \* prime; arguments stay far below 2^31
Key(x, a, b) == ((x + (b % 1000)) * (((((a % 1000) * 1237) + 4099) % (KeyP - 1)) + 1)) % KeyP      \* x < 10^5
KeyLt(x, y, a, b) == Key(x, a, b) < Key(y, a, b) \/ (Key(x, a, b) = Key(y, a, b) /\ x < y)
KeyPerm(n, a, b) == SetToSortSeq(1..n, LAMBDA x, y : KeyLt(x, y, a, b))          \* a permutation of 1..n
IsPerm(p, n) == Len(p) = n /\ Range(p) = 1..n

(* ---- supplied edge table ---------------------------------------------------- *)
SideList(m) == SetToSortSeq({ << MinOf(s), MaxOf(s) >> : s \in EdgeSet(m) }, LexLess)

\* o : [ how : "sorted" | "reversed" | "keyed", flip : "min" | "max" | "keyed", a, b ]
EdgePermOf(n, o) == CASE o.how = "sorted"   -> [ k \in 1..n |-> k ]
                      [] o.how = "reversed" -> [ k \in 1..n |-> n + 1 - k ]
                      [] OTHER              -> KeyPerm(n, o.a, o.b)
Flipped(k, o) == CASE o.flip = "min" -> FALSE
                   [] o.flip = "max" -> TRUE
                   [] OTHER          -> Key(k, o.b + 3, o.a + 5) % 2 = 1
SupEdges(m, o) ==
    LET S == SideList(m)
        n == Len(S)
        perm == EdgePermOf(n, o)
    IN [ k \in 1..n |-> LET p == S[perm[k]] IN IF Flipped(k, o) THEN << p[2], p[1] >> ELSE p ]

\* 0-based row of the side in E (E is an edge table of m)
EdgeIdOf(E, side) == (CHOOSE k \in 1..Len(E) : RowAsSide(E[k]) = side) - 1

PadTo(row, w) == [ j \in 1..w |-> IF j <= Len(row) THEN row[j] ELSE PAD ]
MaxLen(rows)  == MaxOr0({ Len(rows[r]) : r \in 1..Len(rows) })

(* ---- tables a source may supply, indexed by ITS edge table ------------------- *)
SupFaceEdges(m, E, W) ==
    [ f \in 1..Len(m) |-> PadTo([ j \in 1..Len(m[f]) |-> EdgeIdOf(E, SideAt(m[f], j)) ], W) ]
\* the faces of an edge, listed descending (a deriving loop would list them ascending)
SupEdgeFaces(m, E, desc) ==
    [ k \in 1..Len(E) |-> PadTo(SetToSortSeq(FacesOfEdgeRow(m, E[k]), LAMBDA x, y : Ord(x, y, desc)), 2) ]
\* the neighbour across side j, sides without neighbour skipped; optionally from the last side backwards
AcrossSide(m, f, j) == LET o == FacesOfSide(m, SideAt(m[f], j)) \ { f }
                       IN IF o = {} THEN PAD ELSE (CHOOSE g \in o : TRUE) - 1
NeighbourRow(m, f, back) ==
    LET n   == Len(m[f])
        raw == [ j \in 1..n |-> AcrossSide(m, f, IF back THEN n + 1 - j ELSE j) ]
    IN SelectSeq(raw, LAMBDA x : x # PAD)
SupFaceFaces(m, W, back) == [ f \in 1..Len(m) |-> PadTo(NeighbourRow(m, f, back), W) ]
SupNodeFaces(m, nNode, desc) ==
    LET rows == [ n \in 1..nNode |-> SetToSortSeq(FacesAtNode(m, n - 1), LAMBDA x, y : Ord(x, y, desc)) ]
    IN [ n \in 1..nNode |-> PadTo(rows[n], MaxLen(rows)) ]

\* what makes a bundle of supplied tables a well-formed source for mesh m stored W wide
SuppliedWellFormed(m, nNode, W, sup) ==
    /\ "en" \in DOMAIN sup => IsEdgeTable(m, sup.en)
    /\ "fe" \in DOMAIN sup => "en" \in DOMAIN sup /\ IsFaceEdgeTable(m, sup.en, sup.fe, W)
    /\ "ef" \in DOMAIN sup => "en" \in DOMAIN sup /\ Manifold(m) /\ IsEdgeFaceTable(m, sup.en, sup.ef)
    /\ "ff" \in DOMAIN sup => Manifold(m) /\ IsFaceFaceTable(m, sup.ff)
    /\ "nf" \in DOMAIN sup => IsNodeFaceTable(m, nNode, sup.nf)

\* same row identities: row k of A and row k of B are the same side
SameSides(A, B) == Len(A) = Len(B) /\ \A k \in 1..Len(A) : RowOK2(A[k]) /\ RowOK2(B[k]) /\ RowAsSide(A[k]) = RowAsSide(B[k])

(* ---- index selections (Grid.isel) ------------------------------------------- *)
\* a keyed subset of 0..n-1 holding roughly q quarters of it, never empty
KeyedSubset(n, a, b, q) ==
    LET S == { x \in 0..(n - 1) : Key(x + 1, a, b) % 4 < q }
    IN IF S = {} THEN { Key(1, a, b) % n } ELSE S
\* the index sequence handed to isel: ascending, descending or keyed order
IndexSeq(S, order, a, b) ==
    CASE order = "asc"  -> SetToSortSeq(S, Lt)
      [] order = "desc" -> SetToSortSeq(S, Gt)
      [] OTHER          -> SetToSortSeq(S, LAMBDA x, y : KeyLt(x, y, b + 7, a + 11))
\* faces of the result, as 0-based source ids in result order (inclusive selection, Mesh.tla C09 section)
SelectedFaces(m, E, dim, idx) ==
    CASE dim = "n_face" -> idx
      [] dim = "n_node" -> SetToSortSeq(FacesTouchingNodes(m, Range(idx)), Lt)
      [] OTHER          -> SetToSortSeq(FacesTouchingEdges(m, E, Range(idx)), Lt)
SubMesh(m, fsel) == [ i \in 1..Len(fsel) |-> m[fsel[i] + 1] ]                 \* still in source node ids
NodeRank(kept, n) == Cardinality({ x \in kept : x < n })
Renumber(sub) == LET kept == NodesUsed(sub)
                 IN [ f \in 1..Len(sub) |-> [ j \in 1..Len(sub[f]) |-> NodeRank(kept, sub[f][j]) ] ]
\* the source's edge rows that survive, in source order, renumbered: the result's edge identities
KeptEdgeRows(E, sub) ==
    LET kept == NodesUsed(sub)
        rows == SelectSeq(E, LAMBDA row : RowAsSide(row) \in EdgeSet(sub))
    IN [ k \in 1..Len(rows) |-> << NodeRank(kept, rows[k][1]), NodeRank(kept, rows[k][2]) >> ]

(* ---- MPAS (primal mesh): how a file stores a mesh ----------------------------- *)
\* d : [ pad : "zero" | "last" | "dimp1" | "one",   what fills a row beyond nEdgesOnCell
\*       eoc : "before" | "after",                  edgesOnCell(j) joins vertex j-1 and j (MPAS files) / j and j+1
\*       covz : "end" | "front",                    where a boundary vertex keeps its absent cells
\*       coez : "second" | "first",                 where a boundary edge keeps its absent cell
\*       wide : 0.. ]                               maxEdges exceeds the largest cell by this much
MpasEnc(x) == IF x = PAD THEN 0 ELSE x + 1
MpasRows(rows, w, pad, dimsize) ==
    [ r \in 1..Len(rows) |-> [ j \in 1..w |->
        IF j <= Len(rows[r]) THEN MpasEnc(rows[r][j])
        ELSE CASE pad = "zero"  -> 0
               [] pad = "last"  -> MpasEnc(rows[r][Len(rows[r])])
               [] pad = "dimp1" -> dimsize + 1
               [] OTHER         -> 1 ] ]
\* the side edgesOnCell(j) names
MpasSideIdx(face, j, eoc) == IF eoc = "before" THEN PrevIdx(face, j) ELSE j
MpasEdgesOnCellRows(m, E, eoc) ==
    [ f \in 1..Len(m) |-> [ j \in 1..Len(m[f]) |-> EdgeIdOf(E, SideAt(m[f], MpasSideIdx(m[f], j, eoc))) ] ]
\* cellsOnCell(j) lies across edgesOnCell(j); no neighbour: 0 in that slot
MpasCellsOnCellRows(m, eoc) ==
    [ f \in 1..Len(m) |-> [ j \in 1..Len(m[f]) |-> AcrossSide(m, f, MpasSideIdx(m[f], j, eoc)) ] ]
FrontPad(row, w) == [ j \in 1..w |-> IF j <= w - Len(row) THEN PAD ELSE row[j - (w - Len(row))] ]
MpasStored(m, nNode, E, d) ==
    LET w   == MaxSize(m) + d.wide
        nfr == [ n \in 1..nNode |-> SetToSortSeq(FacesAtNode(m, n - 1), Gt) ]
        deg == IF MaxLen(nfr) = 0 THEN 1 ELSE MaxLen(nfr)
        efr == [ k \in 1..Len(E) |-> SetToSortSeq(FacesOfEdgeRow(m, E[k]), Gt) ]
        place(row, w2, front) == IF front THEN FrontPad(row, w2) ELSE PadTo(row, w2)
    IN [ verticesOnCell |-> MpasRows(m, w, d.pad, nNode),
         nEdgesOnCell   |-> [ f \in 1..Len(m) |-> Len(m[f]) ],
         edgesOnCell    |-> MpasRows(MpasEdgesOnCellRows(m, E, d.eoc), w, d.pad, Len(E)),
         cellsOnCell    |-> MpasRows(MpasCellsOnCellRows(m, d.eoc), w, d.pad, Len(m)),
         verticesOnEdge |-> [ k \in 1..Len(E) |-> << E[k][1] + 1, E[k][2] + 1 >> ],
         cellsOnEdge    |-> [ k \in 1..Len(E) |-> LET r == place(efr[k], 2, d.coez = "first") IN << MpasEnc(r[1]), MpasEnc(r[2]) >> ],
         cellsOnVertex  |-> [ n \in 1..nNode |-> LET r == place(nfr[n], deg, d.covz = "front") IN [ j \in 1..deg |-> MpasEnc(r[j]) ] ] ]

\* what the file means: only the first nEdgesOnCell entries of a cell row count, 0 is "absent"
MpasDecodeCounted(T, cnt) ==
    [ r \in 1..Len(T) |-> [ j \in 1..Len(T[r]) |-> IF j <= cnt[r] /\ T[r][j] # 0 THEN T[r][j] - 1 ELSE PAD ] ]
MpasDecodeZeros(T) == [ r \in 1..Len(T) |-> [ j \in 1..Len(T[r]) |-> IF T[r][j] # 0 THEN T[r][j] - 1 ELSE PAD ] ]
MpasFaces(src) == MeshOf(MpasDecodeCounted(src.verticesOnCell, src.nEdgesOnCell))
\* the file describes mesh m with edge identities E (whatever its padding and slot conventions)
MpasDescribes(src, m, nNode, E) ==
    /\ MpasFaces(src) = m
    /\ SameSides(MpasDecodeZeros(src.verticesOnEdge), E)
    /\ \A f \in 1..Len(m) : \A j \in 1..Len(m[f]) :
          LET e == src.edgesOnCell[f][j] - 1
              c == src.cellsOnCell[f][j] - 1
          IN /\ e \in 0..(Len(E) - 1) /\ f \in FacesOfSide(m, RowAsSide(E[e + 1]))
             /\ (FacesOfSide(m, RowAsSide(E[e + 1])) \ { f }) = (IF c = PAD THEN {} ELSE { c + 1 })
    /\ \A k \in 1..Len(E) : { x - 1 : x \in Range(src.cellsOnEdge[k]) \ { 0 } } = FacesOfEdgeRow(m, E[k])
    /\ \A n \in 1..nNode : { x - 1 : x \in Range(src.cellsOnVertex[n]) \ { 0 } } = FacesAtNode(m, n - 1)
=============================================================================

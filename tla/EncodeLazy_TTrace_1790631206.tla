---- MODULE EncodeLazy_TTrace_1790631206 ----
EXTENDS Sequences, TLCExt, Toolbox, EncodeLazy, Naturals, TLC

_expression ==
    LET EncodeLazy_TEExpression == INSTANCE EncodeLazy_TEExpression
    IN EncodeLazy_TEExpression!expression
----

_trace ==
    LET EncodeLazy_TETrace == INSTANCE EncodeLazy_TETrace
    IN EncodeLazy_TETrace!trace
----

_inv ==
    ~(
        TLCGet("level") = Len(_TETrace)
        /\
        tmplEdge = ({})
        /\
        ops = (2)
        /\
        bad = ({<<"WellFormed", 1, "">>})
        /\
        grid = ([g1 |-> [store |-> {}, helper |-> {}, open |-> FALSE, chunked |-> FALSE], g2 |-> [store |-> {"face_node_connectivity", "node_lon", "node_lat"}, helper |-> {}, open |-> TRUE, chunked |-> FALSE]])
        /\
        exports = (<<[vars |-> {}, g |-> "g2", status |-> "ok", enc |-> [blocks |-> <<<<<<1, 2, 3, 4>>, <<1, 4, 5, -8>>>>>>, kind |-> "exodus", conn |-> <<>>, start |-> 0, hasfill |-> FALSE, corners |-> <<>>, nnode |-> 5, pos |-> <<0, 1, 2, 3, 4>>, has |-> {"coord", "connect"}], fmt |-> "exodus", names |-> {}, helper |-> {}, alias |-> FALSE, jud |-> {<<"WellFormed", "">>}, written |-> "no", mem |-> [st |-> "none", ok |-> TRUE], file |-> [st |-> "none", ok |-> TRUE]]>>)
        /\
        tmplTopo = ({})
        /\
        mesh = ([g1 |-> <<<<0, 1, 2>>, <<0, 2, 3>>, <<0, 3, 1>>>>, g2 |-> <<<<0, 1, 2, 3>>, <<0, 3, 4>>>>])
        /\
        desc = ([g1 |-> [route |-> "topo", shape |-> "uni"], g2 |-> [route |-> "topo", shape |-> "mix"]])
    )
----

_init ==
    /\ bad = _TETrace[1].bad
    /\ desc = _TETrace[1].desc
    /\ mesh = _TETrace[1].mesh
    /\ grid = _TETrace[1].grid
    /\ exports = _TETrace[1].exports
    /\ tmplEdge = _TETrace[1].tmplEdge
    /\ tmplTopo = _TETrace[1].tmplTopo
    /\ ops = _TETrace[1].ops
----

_next ==
    /\ \E i,j \in DOMAIN _TETrace:
        /\ \/ /\ j = i + 1
              /\ i = TLCGet("level")
        /\ bad  = _TETrace[i].bad
        /\ bad' = _TETrace[j].bad
        /\ desc  = _TETrace[i].desc
        /\ desc' = _TETrace[j].desc
        /\ mesh  = _TETrace[i].mesh
        /\ mesh' = _TETrace[j].mesh
        /\ grid  = _TETrace[i].grid
        /\ grid' = _TETrace[j].grid
        /\ exports  = _TETrace[i].exports
        /\ exports' = _TETrace[j].exports
        /\ tmplEdge  = _TETrace[i].tmplEdge
        /\ tmplEdge' = _TETrace[j].tmplEdge
        /\ tmplTopo  = _TETrace[i].tmplTopo
        /\ tmplTopo' = _TETrace[j].tmplTopo
        /\ ops  = _TETrace[i].ops
        /\ ops' = _TETrace[j].ops

\* Uncomment the ASSUME below to write the states of the error trace
\* to the given file in Json format. Note that you can pass any tuple
\* to `JsonSerialize`. For example, a sub-sequence of _TETrace.
    \* ASSUME
    \*     LET J == INSTANCE Json
    \*         IN J!JsonSerialize("EncodeLazy_TTrace_1790631206.json", _TETrace)

=============================================================================

 Note that you can extract this module `EncodeLazy_TEExpression`
  to a dedicated file to reuse `expression` (the module in the 
  dedicated `EncodeLazy_TEExpression.tla` file takes precedence 
  over the module `EncodeLazy_TEExpression` below).

---- MODULE EncodeLazy_TEExpression ----
EXTENDS Sequences, TLCExt, Toolbox, EncodeLazy, Naturals, TLC

expression == 
    [
        \* To hide variables of the `EncodeLazy` spec from the error trace,
        \* remove the variables below.  The trace will be written in the order
        \* of the fields of this record.
        bad |-> bad
        ,desc |-> desc
        ,mesh |-> mesh
        ,grid |-> grid
        ,exports |-> exports
        ,tmplEdge |-> tmplEdge
        ,tmplTopo |-> tmplTopo
        ,ops |-> ops
        
        \* Put additional constant-, state-, and action-level expressions here:
        \* ,_stateNumber |-> _TEPosition
        \* ,_badUnchanged |-> bad = bad'
        
        \* Format the `bad` variable as Json value.
        \* ,_badJson |->
        \*     LET J == INSTANCE Json
        \*     IN J!ToJson(bad)
        
        \* Lastly, you may build expressions over arbitrary sets of states by
        \* leveraging the _TETrace operator.  For example, this is how to
        \* count the number of times a spec variable changed up to the current
        \* state in the trace.
        \* ,_badModCount |->
        \*     LET F[s \in DOMAIN _TETrace] ==
        \*         IF s = 1 THEN 0
        \*         ELSE IF _TETrace[s].bad # _TETrace[s-1].bad
        \*             THEN 1 + F[s-1] ELSE F[s-1]
        \*     IN F[_TEPosition - 1]
    ]

=============================================================================



Parsing and semantic processing can take forever if the trace below is long.
 In this case, it is advised to uncomment the module below to deserialize the
 trace from a generated binary file.

\*
\*---- MODULE EncodeLazy_TETrace ----
\*EXTENDS IOUtils, EncodeLazy, TLC
\*
\*trace == IODeserialize("EncodeLazy_TTrace_1790631206.bin", TRUE)
\*
\*=============================================================================
\*

---- MODULE EncodeLazy_TETrace ----
EXTENDS EncodeLazy, TLC

trace == 
    <<
    ([tmplEdge |-> {},ops |-> 0,bad |-> {},grid |-> [g1 |-> [store |-> {}, helper |-> {}, open |-> FALSE, chunked |-> FALSE], g2 |-> [store |-> {}, helper |-> {}, open |-> FALSE, chunked |-> FALSE]],exports |-> <<>>,tmplTopo |-> {},mesh |-> [g1 |-> <<<<0, 1, 2>>, <<0, 2, 3>>, <<0, 3, 1>>>>, g2 |-> <<<<0, 1, 2, 3>>, <<0, 3, 4>>>>],desc |-> [g1 |-> [route |-> "topo", shape |-> "uni"], g2 |-> [route |-> "topo", shape |-> "mix"]]]),
    ([tmplEdge |-> {},ops |-> 1,bad |-> {},grid |-> [g1 |-> [store |-> {}, helper |-> {}, open |-> FALSE, chunked |-> FALSE], g2 |-> [store |-> {"face_node_connectivity", "node_lon", "node_lat"}, helper |-> {}, open |-> TRUE, chunked |-> FALSE]],exports |-> <<>>,tmplTopo |-> {},mesh |-> [g1 |-> <<<<0, 1, 2>>, <<0, 2, 3>>, <<0, 3, 1>>>>, g2 |-> <<<<0, 1, 2, 3>>, <<0, 3, 4>>>>],desc |-> [g1 |-> [route |-> "topo", shape |-> "uni"], g2 |-> [route |-> "topo", shape |-> "mix"]]]),
    ([tmplEdge |-> {},ops |-> 2,bad |-> {<<"WellFormed", 1, "">>},grid |-> [g1 |-> [store |-> {}, helper |-> {}, open |-> FALSE, chunked |-> FALSE], g2 |-> [store |-> {"face_node_connectivity", "node_lon", "node_lat"}, helper |-> {}, open |-> TRUE, chunked |-> FALSE]],exports |-> <<[vars |-> {}, g |-> "g2", status |-> "ok", enc |-> [blocks |-> <<<<<<1, 2, 3, 4>>, <<1, 4, 5, -8>>>>>>, kind |-> "exodus", conn |-> <<>>, start |-> 0, hasfill |-> FALSE, corners |-> <<>>, nnode |-> 5, pos |-> <<0, 1, 2, 3, 4>>, has |-> {"coord", "connect"}], fmt |-> "exodus", names |-> {}, helper |-> {}, alias |-> FALSE, jud |-> {<<"WellFormed", "">>}, written |-> "no", mem |-> [st |-> "none", ok |-> TRUE], file |-> [st |-> "none", ok |-> TRUE]]>>,tmplTopo |-> {},mesh |-> [g1 |-> <<<<0, 1, 2>>, <<0, 2, 3>>, <<0, 3, 1>>>>, g2 |-> <<<<0, 1, 2, 3>>, <<0, 3, 4>>>>],desc |-> [g1 |-> [route |-> "topo", shape |-> "uni"], g2 |-> [route |-> "topo", shape |-> "mix"]]])
    >>
----


=============================================================================

---- CONFIG EncodeLazy_TTrace_1790631206 ----
CONSTANTS
    MechName = "observed"
    MaxOps = 4
    MaxExports = 2
    Routes1 = { "topo" , "topoE" , "fv" , "ugrid" }
    Shapes1 = { "uni" , "mix" }
    Routes2 = { "topo" , "topoE" , "fv" , "ugrid" }
    Shapes2 = { "uni" , "mix" }
    WithIO = TRUE

INVARIANT
    _inv

CHECK_DEADLOCK
    \* CHECK_DEADLOCK off because of PROPERTY or INVARIANT above.
    FALSE

INIT
    _init

NEXT
    _next

CONSTANT
    _TETrace <- _trace

ALIAS
    _expression
=============================================================================
\* Generated on Mon Sep 28 21:33:28 UTC 2026
----------------------------- MODULE CoordLazy -----------------------------
(***************************************************************************)
(* C04: spherical and Cartesian coordinates of a Grid denote the same      *)
(* points, whatever the source supplied and whatever the order in which    *)
(* the fifteen coordinate properties are first read.                       *)
(*                                                                         *)
(* A grid is a lazily populated store of coordinate variables.  Abstractly *)
(* each variable is either absent ("none") or carries a FRAME TAG saying   *)
(* in which frame its numbers are, relative to the exact positions of the  *)
(* mesh (a lattice mesh of Catalog.tla; which corners belong to which      *)
(* element is Mesh.tla's business, not this module's):                     *)
(*    longitudes  deg180  degrees in [-180, 180], right meridian           *)
(*                deg360  degrees in [0, 360], right meridian, some > 180  *)
(*    latitudes   deg90   degrees in [-90, 90], right parallel             *)
(*    x, y, z     unit    component of the unit vector of the position     *)
(*                raw     right direction, length of the source (not 1)    *)
(*                scaled  right direction, some other length               *)
(*                degrad  unit length, but computed from degrees that      *)
(*                        were read as radians (wrong direction)           *)
(*    any         bad     anything else (wrong place, out of range, NaN)   *)
(* The harness decides numerically, against the lattice, which tag a real  *)
(* array carries; this module says which tags are allowed and how they     *)
(* evolve.                                                                 *)
(*                                                                         *)
(* The mechanism is data: a record Mech.  MechIntended makes every         *)
(* invariant below hold (TLC proves it on all sources and all histories);  *)
(* MechObserved is transcribed from uxarray/grid/grid.py, coordinates.py   *)
(* and validation.py as read -- TLC finds the histories that break the     *)
(* invariants, and the harness replays them against the real code.         *)
(***************************************************************************)
EXTENDS CoordMech, TLC

CONSTANT Mech

VARIABLES src,      \* what the source supplies (never changes)
          store,    \* [Var -> Tag]: the coordinate part of Grid._ds
          norm,     \* Grid._normalized: "unknown" | "yes" | "no"
          nrmRan,   \* normalize_cartesian_coordinates() has been called
          fpos,     \* position the face-centre variables denote: "src" | "cen"
          recRan    \* construct_face_centers("cartesian average") has been called

vars == <<src, store, norm, nrmRan, fpos, recRan>>

(* ---- the machine --------------------------------------------------------------- *)
Init == /\ src \in Sources
        /\ store = InitStore(src)
        /\ norm = "unknown"
        /\ nrmRan = FALSE
        /\ fpos = InitFpos(src)
        /\ recRan = FALSE

Access(v) == /\ store' = AccessEff(Mech, store, v)
             /\ UNCHANGED <<src, norm, nrmRan, fpos, recRan>>

Normalize == LET r == NormalizeEff(Mech, store, norm)
             IN /\ store' = r.st
                /\ norm' = r.norm
                /\ nrmRan' = TRUE
                /\ UNCHANGED <<src, fpos, recRan>>

Recentre == LET r == RecentreEff(Mech, store, fpos)
            IN /\ store' = r.st
               /\ fpos' = r.fpos
               /\ recRan' = TRUE
               /\ UNCHANGED <<src, norm, nrmRan>>

Chunk == /\ store' = ChunkEff(Mech, store)
         /\ UNCHANGED <<src, norm, nrmRan, fpos, recRan>>

Next == (\E v \in Var : Access(v)) \/ Normalize \/ Recentre \/ Chunk
Spec == Init /\ [][Next]_vars

(* ---- the property, clause by clause ------------------------------------------------ *)
TypeOK == /\ src \in Sources
          /\ store \in [Var -> Tags]
          /\ norm \in {"unknown", "yes", "no"}
          /\ nrmRan \in BOOLEAN
          /\ fpos \in {"src", "cen"}
          /\ recRan \in BOOLEAN

LonInRange  == \A v \in Var : (IsLon(v) /\ Has(store, v)) => store[v] = "deg180"
LatInRange  == \A v \in Var : (IsLat(v) /\ Has(store, v)) => store[v] = "deg90"
SamePoint   == \A v \in Var : (IsCart(v) /\ Has(store, v)) => DirOk(store[v])
DerivedUnit == \A v \in Var : (IsCart(v) /\ Has(store, v) /\ ~StillSupplied(src, v, recRan)) => store[v] = "unit"
NormalizedIsUnit == nrmRan => \A v \in Var : (IsCart(v) /\ Has(store, v)) => store[v] \notin {"raw", "scaled"}
SuppliedKept == \A v \in Var : SuppliedVar(src, v) => Has(store, v)
\* observation = function of the source: every present variable carries exactly the tag the
\* source (and normalisation) determines
FunctionOfSource == \A v \in Var : Has(store, v) => store[v] \in OkTags(src, v, nrmRan, recRan)
\* the face centres denote what the source supplied until construct_face_centers is called, and the
\* normalised mean of the corners afterwards -- whatever the source supplied, whatever was read before
FacePosition == (\E v \in Var : KindOf(v) = "face" /\ Has(store, v)) => fpos = OkFpos(src, recRan)
\* chunking changes no frame
ChunkKeeps == [][ Chunk => store' = store ]_vars

\* confluence: once everything is materialised the store does not depend on the order
Complete == \A v \in Var : Has(store, v)
RECURSIVE RunSeq(_, _, _)
RunSeq(m, st, seq) == IF seq = <<>> THEN st ELSE RunSeq(m, AccessEff(m, st, Head(seq)), Tail(seq))
FixedOrder == << "node_lon", "node_lat", "node_x", "node_y", "node_z",
                 "edge_lon", "edge_lat", "edge_x", "edge_y", "edge_z",
                 "face_lon", "face_lat", "face_x", "face_y", "face_z" >>
Canon(s, ran, rec) ==
  LET st0 == RunSeq(Mech, InitStore(s), FixedOrder)
      r   == IF rec THEN RecentreEff(Mech, st0, InitFpos(s)) ELSE [st |-> st0, fpos |-> InitFpos(s)]
  IN <<IF ran THEN NormalizeEff(Mech, r.st, "unknown").st ELSE r.st, r.fpos>>
Confluence == Complete => <<store, fpos>> = Canon(src, nrmRan, recRan)

StateClauses ==
  [ LonInRange |-> LonInRange, LatInRange |-> LatInRange, SamePoint |-> SamePoint,
    DerivedUnit |-> DerivedUnit, NormalizedIsUnit |-> NormalizedIsUnit,
    FacePosition |-> FacePosition, Confluence |-> Confluence ]
FailedClauses == { c \in DOMAIN StateClauses : ~StateClauses[c] }

\* action properties
Monotone == [][ \A v \in Var : Has(store, v) => Has(store', v) ]_vars
NormalizeLengthsOnly ==
  [][ Normalize => \A v \in Var : Has(store, v) =>
        IF IsCart(v) THEN DirClass(store'[v]) = DirClass(store[v]) ELSE store'[v] = store[v] ]_vars
AccessReturns == [][ \A v \in Var : Access(v) => Has(store', v) ]_vars

\* marks every reachable state in which a clause fails (used on MechObserved to list the
\* counterexample states; always TRUE)
Mark == FailedClauses = {} \/ PrintT(<<"BAD", [src |-> src, store |-> store, norm |-> norm, nrmRan |-> nrmRan, fpos |-> fpos, recRan |-> recRan], FailedClauses>>)
=============================================================================

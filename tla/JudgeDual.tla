----------------------------- MODULE JudgeDual -----------------------------
(***************************************************************************)
(* Judges what Grid.get_dual() / UxDataArray.get_dual() returned, against  *)
(* the relations of Dual.tla.  One ndjson line per primal grid:            *)
(*   id, n_node, mesh (0-based CCW faces), closed,                         *)
(*   dual   : the dual's face_node_connectivity (rows, PAD = -1)           *)
(*   flags  : name -> BOOLEAN (standard dtype / fill value)                *)
(*   dn_node, dn_face, dn_edge : sizes the dual grid reports               *)
(*   pos    : per dual node, the primal face whose centre (independent     *)
(*            oracle: normalised mean of the corner unit vectors) it sits  *)
(*            at, -1 if none within the tolerance                          *)
(*   posown : the same against the centres the primal grid itself reports  *)
(*   pos_da : the same for the dual attached by UxDataArray.get_dual       *)
(*   primal_changed(_by_data_routes) : names of stored variables of the    *)
(*            primal grid whose bytes differ after the call                *)
(*   expect : (generated cases) the ring table TLC emitted with the case   *)
(*   fdata  : [dims, vals, base] face-centred tracer base+i after get_dual *)
(*   ndata  : [dims, vals, base] node-centred (time, n_node) tracer        *)
(*   layouts: [in_dims, out_dims, shape, vals, base] tracers whose grid    *)
(*            dimension is first / in the middle (lev = 3, time = 2)       *)
(*   dsdata : the same two tracers through UxDataset.get_dual              *)
(*   dual2, dual3, dual4 : the dual tables of the grids attached to those  *)
(* A verdict is the set of names of the clauses that are false, printed as *)
(* <<"V", id, names>>; a ring failure also prints <<"S", id, diagnosis>>.  *)
(***************************************************************************)
EXTENDS Dual, Json, IOUtils, TLCExt

Recs  == ndJsonDeserialize(IOEnv.REC_FILE)
Block == 16
NBlocks == (Len(Recs) + Block - 1) \div Block

VARIABLE i      \* < 0: block marker, > 0: record index

Has(r, f) == f \in DOMAIN r

Tracer1(base, n)    == [ k \in 1..n |-> base + k - 1 ]
Tracer2(base, t, n) == [ a \in 1..t |-> [ k \in 1..n |-> base + (a - 1) * n + k - 1 ] ]

\* data of any layout: every dimension is renamed by name, sizes and values stay
SwapDim(d)  == IF d = "n_face" THEN "n_node" ELSE IF d = "n_node" THEN "n_face" ELSE d
DimSize(d, nF, nN) == CASE d = "n_face" -> nF [] d = "n_node" -> nN [] d = "lev" -> 3 [] d = "time" -> 2
RECURSIVE Prod(_, _)
Prod(s, k)  == IF k = 0 THEN 1 ELSE s[k] * Prod(s, k - 1)
LayoutOK(l, nF, nN) ==
    /\ l.out_dims = [ k \in 1..Len(l.in_dims) |-> SwapDim(l.in_dims[k]) ]
    /\ l.shape = [ k \in 1..Len(l.in_dims) |-> DimSize(l.in_dims[k], nF, nN) ]
    /\ Len(l.vals) = Prod(l.shape, Len(l.shape))
    /\ l.vals = Tracer1(l.base, Len(l.vals))

Clauses(r) ==
  LET mesh == r.mesh
      nN   == r.n_node
      D    == r.dual
      cl   == r.closed
      NF   == NodeFaces(mesh, nN)
  IN
  [ DualFaceCount    |-> DualFaceCount(mesh, nN, D),
    DualMembers      |-> DualMembers(mesh, NF, cl, D),
    DualNoRepeats    |-> DualNoRepeats(D),
    DualPadding      |-> DualPadding(mesh, D),
    DualRingsCCW     |-> DualRingsCCW(mesh, NF, cl, D),
    MatchesGenerated |-> Has(r, "expect") =>
                            \A k \in RingRows(mesh, NF, cl, D) :
                               SameCycle(Unpadded(D[k]), r.expect[RowNode(mesh, NF, cl, D, k) + 1]),
    DualNodeCount    |-> Has(r, "dn_node") => r.dn_node = Len(mesh),
    DualFaceDim      |-> Has(r, "dn_face") => r.dn_face = Len(D),
    EulerDuality     |-> (cl /\ Has(r, "dn_edge")) => r.dn_edge = Cardinality(EdgeSet(mesh)),
    DualNodeAtFaceCentre     |-> Has(r, "pos") => r.pos = [ k \in 1..Len(mesh) |-> k - 1 ],
    DataRouteNodesAtCentre   |-> Has(r, "pos_da") => r.pos_da = [ k \in 1..Len(mesh) |-> k - 1 ],
    PrimalUnchanged          |-> /\ (Has(r, "primal_changed") => r.primal_changed = << >>)
                                 /\ (Has(r, "primal_changed_by_data_routes") => r.primal_changed_by_data_routes = << >>),
    DualNodeAtReportedCentre |-> Has(r, "posown") => r.posown = [ k \in 1..Len(mesh) |-> k - 1 ],
    FaceDataToNodes  |-> (cl /\ Has(r, "fdata")) =>
                            /\ r.fdata.dims = << "n_node" >>
                            /\ r.fdata.vals = Tracer1(r.fdata.base, Len(mesh)),
    NodeDataToFaces  |-> (cl /\ Has(r, "ndata")) =>
                            /\ r.ndata.dims = << "time", "n_face" >>
                            /\ r.ndata.vals = Tracer2(r.ndata.base, 2, nN),
    DataLayouts      |-> (cl /\ Has(r, "layouts")) =>
                            \A k \in 1..Len(r.layouts) : LayoutOK(r.layouts[k], Len(mesh), nN),
    DatasetDataSwapped |-> (cl /\ Has(r, "dsdata")) =>
                            /\ r.dsdata.adims = << "n_node" >>
                            /\ r.dsdata.avals = Tracer1(r.dsdata.base, Len(mesh))
                            /\ r.dsdata.bdims = << "time", "n_face" >>
                            /\ r.dsdata.bvals = Tracer2(r.dsdata.base, 2, nN),
    DataGridIsTheDual |-> /\ (Has(r, "dual2") => r.dual2 = D)
                          /\ (Has(r, "dual3") => r.dual3 = D)
                          /\ (Has(r, "dual4") => r.dual4 = D),
    StdTypes         |-> Has(r, "flags") => \A k \in DOMAIN r.flags : r.flags[k]
  ]

Failed(r) == LET c == Clauses(r) IN { k \in DOMAIN c : ~c[k] }

Init == i \in { -b : b \in 1..NBlocks }
Next == /\ i < 0
        /\ i' \in { k \in 1..Len(Recs) : (k - 1) \div Block = (-i) - 1 }

Judge == i > 0 =>
           LET r == Recs[i]
               f == Failed(r)
           IN /\ (f = {} \/ PrintT(<<"V", r.id, f>>))
              /\ ("DualRingsCCW" \notin f \/
                    PrintT(<<"S", r.id, RingDiagnosis(r.mesh, NodeFaces(r.mesh, r.n_node), r.closed, r.dual)>>))
=============================================================================

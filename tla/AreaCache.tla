----------------------------- MODULE AreaCache -----------------------------
(***************************************************************************)
(* C05, history clause: "the cached face_areas equal a fresh default       *)
(* computation" -- whatever was computed on the grid before.               *)
(*                                                                         *)
(* A Grid, as far as areas are concerned, is two slots (the face_areas     *)
(* variable of its dataset and the jacobian behind Grid.face_jacobian) and *)
(* a flag (its arrays are dask-backed after Grid.chunk()).  A value is     *)
(* named by the arguments of the computation that produces it on a FRESH   *)
(* grid: a tag <<rule, order, latlon>>.  The public calls are the actions; *)
(* every call returns an observation.  The state carries the whole history *)
(* (bounded), so the reachable states ARE the behaviours the harness       *)
(* replays, each with the expected observation of every step.              *)
(*                                                                         *)
(* The mechanism is data (MechName): "intended" is what the property       *)
(* needs; the others are defects (three repaired ones, and "returns_cached_ *)
(* arrays": results memoised and handed out without a copy)               *)
(* implementation -- TLC must find them violating the invariants, which    *)
(* shows the invariants can fail (the check runs them expecting exactly    *)
(* that).                                                                  *)
(*                                                                         *)
(* The same step function judges traces recorded from the real Grid        *)
(* (TrInit/TrNext/TrJudge): observed values are projected by the harness   *)
(* to the set of tags whose fresh value they equal bitwise.                *)
(***************************************************************************)
EXTENDS Integers, Sequences, FiniteSets, TLC, Json, IOUtils

CONSTANTS Rules,        \* set of rule names, e.g. {"t4", "g3"}; "t4" (triangular, order 4) is the default
          MaxLen,       \* bound on the length of a history
          MechName      \* "intended" | "compute_writes_slots" | "slots_not_initialised" | "chunk_unsafe"

Default == <<"t4", TRUE>>
None    == <<"none">>                            \* an empty slot
Unset   == <<"unset">>                           \* an attribute that was never created
Tags    == Rules \X BOOLEAN                       \* <<rule, latlon>>

Mech == [ computeWritesSlots |-> MechName = "compute_writes_slots",
          slotsInitialised   |-> MechName # "slots_not_initialised",
          chunkSafe          |-> MechName # "chunk_unsafe",
          \* compute_face_areas memoises per request and hands out the memoised arrays themselves
          returnsCached      |-> MechName = "returns_cached_arrays" ]
Edited == <<"edited", FALSE>>                       \* a value some caller changed in place (equals no fresh value)

Acts == { <<"compute", t>> : t \in Tags }         \* Grid.compute_face_areas(rule, order, latlon)
        \cup { <<"total", r>> : r \in Rules }     \* Grid.calculate_total_face_area(rule, order)
        \cup { <<"face_areas">>, <<"face_jacobian">>, <<"chunk">> }
        \* the caller changes, in place, the arrays the most recent compute_face_areas RETURNED to it
        \* (rescaling to km^2, zeroing, reordering): results belong to the caller
        \cup { <<"edit", h>> : h \in {"scale", "zero", "reverse"} }

InitState == [ areas |-> None,
               jac   |-> IF Mech.slotsInitialised THEN None ELSE Unset,
               chunked |-> FALSE,
               memo |-> {},          \* requests whose result is memoised (mechanism returns_cached_arrays only)
               dirty |-> {},         \* memoised results a caller has edited through the array it was handed
               held |-> None ]       \* the request whose returned arrays the caller holds (the most recent compute)
Seen(st, t) == IF Mech.returnsCached /\ t \in st.dirty THEN Edited ELSE t

\* the kernel call behind compute_face_areas: what it returns, and what it leaves in the slots
Kernel(st, t) ==
    IF st.chunked /\ ~Mech.chunkSafe THEN [ st |-> st, res |-> <<"raises">> ]
    ELSE [ st  |-> [ (IF Mech.computeWritesSlots THEN [ st EXCEPT !.jac = t ] ELSE st)
                       EXCEPT !.memo = IF Mech.returnsCached THEN @ \cup {t} ELSE @ ],
           res |-> <<"pair", Seen(st, t), Seen(st, t)>> ]     \* (areas, jacobian) of the requested quadrature

\* face_areas wraps the default request's arrays: under returns_cached_arrays it shares the memoised buffer
ReadAreas(st) ==
    IF st.areas # None THEN [ st |-> st, res |-> <<"areas", Seen(st, st.areas)>> ]
    ELSE LET k == Kernel(st, Default) IN
         IF k.res = <<"raises">> THEN k
         ELSE [ st |-> [ k.st EXCEPT !.areas = Default, !.jac = Default ], res |-> <<"areas", Seen(st, Default)>> ]

Apply(st, a) ==
    CASE a[1] = "compute"       -> LET k == Kernel(st, a[2]) IN
                                   IF k.res = <<"raises">> THEN k ELSE [ st |-> [ k.st EXCEPT !.held = a[2] ], res |-> k.res ]
      [] a[1] = "total"         -> LET k == Kernel(st, <<a[2], TRUE>>) IN
                                   IF k.res = <<"raises">> THEN k ELSE [ st |-> k.st, res |-> <<"total", Seen(st, <<a[2], TRUE>>)>> ]
      [] a[1] = "edit"          -> [ st |-> IF Mech.returnsCached /\ st.held # None THEN [ st EXCEPT !.dirty = @ \cup {st.held} ] ELSE st,
                                     res |-> <<"done">> ]
      [] a[1] = "face_areas"    -> ReadAreas(st)
      [] a[1] = "face_jacobian" -> IF st.jac = Unset THEN [ st |-> st, res |-> <<"raises">> ]
                                   ELSE IF st.jac # None THEN [ st |-> st, res |-> <<"jac", st.jac>> ]
                                   ELSE LET r == ReadAreas(st) IN
                                        IF r.res = <<"raises">> THEN r ELSE [ st |-> r.st, res |-> <<"jac", r.st.jac>> ]
      [] a[1] = "chunk"         -> [ st |-> [ st EXCEPT !.chunked = TRUE ], res |-> <<"done">> ]

(* ---- the machine ------------------------------------------------------------------ *)
VARIABLES st, hist,       \* hist: sequence of [ act, res ]
          ti              \* only used when judging traces (below); 0 otherwise
vars == <<st, hist, ti>>

Init == st = InitState /\ hist = <<>> /\ ti = 0
Do(a) == /\ Len(hist) < MaxLen
         /\ (a[1] = "edit" => st.held # None)          \* there is a returned array to edit
         /\ ti' = ti
         /\ st' = Apply(st, a).st
         /\ hist' = Append(hist, [ act |-> a, res |-> Apply(st, a).res ])
Next == \E a \in Acts : Do(a)
Spec == Init /\ [][Next]_vars

\* what the property promises about an observation, given the call that produced it
ResOK(a, res) ==
    CASE a[1] = "compute"       -> res = <<"pair", a[2], a[2]>>
      [] a[1] = "total"         -> res = <<"total", <<a[2], TRUE>>>>
      [] a[1] = "face_areas"    -> res = <<"areas", Default>>
      [] a[1] = "face_jacobian" -> res = <<"jac", Default>>
      [] a[1] = "chunk"         -> res = <<"done">>
      [] a[1] = "edit"          -> res = <<"done">>

NeverRaises          == \A i \in 1..Len(hist) : hist[i].res # <<"raises">>
CachedIsDefault      == \A i \in 1..Len(hist) : hist[i].act[1] = "face_areas" /\ hist[i].res # <<"raises">> => ResOK(hist[i].act, hist[i].res)
JacobianIsDefault    == \A i \in 1..Len(hist) : hist[i].act[1] = "face_jacobian" /\ hist[i].res # <<"raises">> => ResOK(hist[i].act, hist[i].res)
ComputeIsRequested   == \A i \in 1..Len(hist) : hist[i].act[1] \in {"compute", "total"} /\ hist[i].res # <<"raises">> => ResOK(hist[i].act, hist[i].res)
\* the slots never hold anything but the default-rule value (the C08-style state invariant)
SlotsHoldDefault     == st.areas \in {None, Default} /\ st.jac \in {None, Default}
\* observations are a function of the call alone: the history never matters
HistoryFree          == \A i, j \in 1..Len(hist) : hist[i].act = hist[j].act => hist[i].res = hist[j].res

\* generation channel: every complete history with the expected observation of each step
EmitFull == Len(hist) = MaxLen => PrintT(<<"H", hist>>)

(* ---- traces recorded from the implementation ----------------------------------------- *)
\* one ndjson line per behaviour: [ id, steps : Seq([ act : Seq, raised : BOOLEAN, kind : STRING, tags : Seq(<<rule, latlon>>) ]) ]
\* tags = every tag whose fresh-grid value equals the observed value bitwise (kind "areas"/"jac"/"total");
\* for "pair": tags = those matching the areas, tags2 = those matching the jacobian
Recs == ndJsonDeserialize(IOEnv.REC_FILE)
TrBlock == 32
TrInit == ti \in { -b : b \in 1..((Len(Recs) + TrBlock - 1) \div TrBlock) } /\ st = InitState /\ hist = <<>>
TrNext == ti < 0 /\ ti' \in { k \in 1..Len(Recs) : (k - 1) \div TrBlock = (-ti) - 1 } /\ UNCHANGED <<st, hist>>

ActOf(s) == IF s.act[1] = "compute" THEN <<"compute", <<s.act[2], s.act[3]>>>>
            ELSE IF s.act[1] = "total" THEN <<"total", s.act[2]>>
            ELSE IF s.act[1] = "edit" THEN <<"edit", s.act[2]>>
            ELSE <<s.act[1]>>
TagSet(q) == { <<q[i][1], q[i][2]>> : i \in 1..Len(q) }
\* the observation agrees with the expected abstract result
Agrees(s, res) ==
    IF s.raised THEN res = <<"raises">>
    ELSE CASE res[1] = "pair"  -> s.kind = "pair" /\ res[2] \in TagSet(s.tags) /\ res[3] \in TagSet(s.tags2)
           [] res[1] = "areas" -> s.kind = "areas" /\ res[2] \in TagSet(s.tags)
           [] res[1] = "jac"   -> s.kind = "jac" /\ res[2] \in TagSet(s.tags)
           [] res[1] = "total" -> s.kind = "total" /\ res[2] \in TagSet(s.tags)
           [] res[1] = "done"  -> s.kind = "done"
           [] OTHER -> FALSE
ClauseOf(a) == CASE a[1] = "compute" -> "ComputeIsRequested" [] a[1] = "total" -> "ComputeIsRequested"
                 [] a[1] = "face_areas" -> "CachedIsDefault" [] a[1] = "face_jacobian" -> "JacobianIsDefault"
                 [] OTHER -> "ChunkCompletes"
\* run the intended machine along the recorded calls; collect <<step, clause>> for every step that disagrees
RECURSIVE Walk(_, _, _, _)
Walk(steps, k, s, bad) ==
    IF k > Len(steps) THEN bad
    ELSE LET a == ActOf(steps[k])
             r == Apply(s, a)
             b == IF Agrees(steps[k], r.res) THEN bad
                  ELSE bad \cup { << k, IF steps[k].raised THEN "NeverRaises" ELSE ClauseOf(a) >> }
         IN Walk(steps, k + 1, r.st, b)
TrJudge == ti > 0 =>
             LET bad == Walk(Recs[ti].steps, 1, InitState, {}) IN
             bad = {} \/ PrintT(<<"V", Recs[ti].id, bad>>)
=============================================================================

------------------------------ MODULE AggHist ------------------------------
(***************************************************************************)
(* C17 - a small history machine around the topological aggregations.      *)
(*                                                                         *)
(* The property quantifies over all grids (any mix of face sizes, any face *)
(* ordering), derived ones included: an aggregation on ANY handle - the    *)
(* grid, a subset, a copy, the dual - reduces over that handle's OWN       *)
(* element-node tables, whatever was computed on another handle before.    *)
(* What an aggregation may leave behind on a grid is derived state (the    *)
(* size partition, n_nodes_per_face, the edge table); abstractly, per      *)
(* handle, `agg` says whose faces that state describes:                    *)
(*     none     nothing stored yet                                         *)
(*     own      computed for this handle's faces                           *)
(*     parent   carried over from the handle it was cut from               *)
(* Mechanism choice as data: SliceKeepsAggCache - a subset inherits the    *)
(* parent's stored partition.  With it FALSE TLC proves AggOwn (and the    *)
(* dump lists every history of at most MaxLen steps: replayed into real    *)
(* grids, every aggregation judged against the spec's fold); with it TRUE  *)
(* TLC must refute AggOwn, the counterexample is replayed as a directed    *)
(* history.                                                                *)
(***************************************************************************)
EXTENDS Naturals, Sequences, FiniteSets, TLC

CONSTANTS SliceKeepsAggCache, MaxLen, MaxHandles

VARIABLES grids, hist

Dests == { "face", "edge" }
\* first faces / last faces / the faces of one size class only (uniform sizes in the parent's wider table) / every other face
Sels  == { "low", "high", "onesize", "mixed" }

IsRoot(h) == grids[h].src[1] = "root"

Init == /\ grids = << [ src |-> << "root" >>, agg |-> "none" ] >>
        /\ hist = << >>

\* all ten reductions to destination d on handle h; a node -> face aggregation stores the partition if none is there
Agg(h, d) == /\ grids' = [ grids EXCEPT ![h].agg = IF d = "face" /\ @ = "none" THEN "own" ELSE @ ]
             /\ hist' = Append(hist, << "agg", h, d >>)
Slice(h, s) == /\ IsRoot(h) /\ Len(grids) < MaxHandles
               /\ grids' = Append(grids, [ src |-> << "slice", h, s >>,
                                           agg |-> IF SliceKeepsAggCache /\ grids[h].agg # "none" THEN "parent" ELSE "none" ])
               /\ hist' = Append(hist, << "slice", h, s >>)
\* a copy has the same faces: what was stored for the original describes the copy as well
Copy(h) == /\ IsRoot(h) /\ Len(grids) < MaxHandles
           /\ grids' = Append(grids, [ src |-> << "copy", h >>, agg |-> grids[h].agg ])
           /\ hist' = Append(hist, << "copy", h >>)
\* the dual is built from scratch
Dual(h) == /\ IsRoot(h) /\ Len(grids) < MaxHandles
           /\ grids' = Append(grids, [ src |-> << "dual", h >>, agg |-> "none" ])
           /\ hist' = Append(hist, << "dual", h >>)

Next == /\ Len(hist) < MaxLen
        /\ \E h \in 1..Len(grids) :
             \/ \E d \in Dests : Agg(h, d)
             \/ \E s \in Sels : Slice(h, s)
             \/ Copy(h)
             \/ Dual(h)

TypeOK == \A h \in 1..Len(grids) : grids[h].agg \in { "none", "own", "parent" }
\* no handle ever aggregates with state that describes another handle's faces
AggOwn == \A h \in 1..Len(grids) : grids[h].agg # "parent"
Spec == Init /\ [][Next]_<< grids, hist >>
=============================================================================

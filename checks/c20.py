"""C20 - grid equality distinguishes any difference in coordinates or connectivity."""

from __future__ import annotations

import os

from harness import tlaval
from harness import ux as hux
from harness.core import Machinery
from harness.pool import pmap

PROP = "C20"

CFG = """SPECIFICATION Spec
CONSTANTS
 Vals = {0, 1, 2}
 MaxEditsH = %d
 MaxEditsG = %d
INVARIANT OracleIsEq
INVARIANT Reflexive
INVARIANT Symmetric
INVARIANT EqIffIdentical
INVARIANT CountsMatter
PROPERTY EditBreaksEq
VIEW View
CHECK_DEADLOCK FALSE
"""


SCALES = ("deg10", "ulp", "nano")


def _coord(v, scale, base):
    """Abstract coordinate value -> degrees.  Distinct abstract values are distinct floats under every
    scale: 10 degrees apart, one unit in the last place apart, or 1e-9 degrees apart."""
    import numpy as np

    if scale == "deg10":
        return 10.0 * v
    if scale == "ulp":
        x = np.float64(base)
        for _ in range(int(v)):
            x = np.nextafter(x, np.float64(1e9))
        return float(x)
    return base + 1e-9 * v


def realise(x, scale="deg10"):
    """Abstract grid -> real Grid."""
    import numpy as np

    ux = hux.import_ux()
    INT_DTYPE, FILL = hux.consts()
    lon = np.array([_coord(v, scale, 30.0 + 7.0 * i) for i, v in enumerate(x["lon"])], dtype=float)
    lat = np.array([_coord(v, scale, -20.0 + 9.0 * i) for i, v in enumerate(x["lat"])], dtype=float)
    conn = np.array([list(f) for f in x["conn"]], dtype=INT_DTYPE)
    g = ux.Grid.from_topology(lon, lat, conn, fill_value=FILL)
    if x["spec"] == "B":
        # same data, other source format
        g = ux.Grid.from_dataset(g._ds.copy(deep=True), source_grid_spec="UGRID")
    return g


def run_pair(case):
    out = {"id": case["id"]}
    try:
        sc = case.get("scale", "deg10")
        g = realise(case["g"], sc)
        h = realise(case["h"], sc)
        out["obs"] = [bool(g == h), bool(h == g), bool(g != h), bool(h != g)]
        out["refl"] = [bool(g == g), bool(h == h), bool(g != g)]
        g2 = realise(case["g"], sc)  # an independently built identical grid
        out["same"] = [bool(g == g2), bool(g2 == g), bool(g != g2)]
        out["copy"] = [bool(g.copy() == g), bool(g == g.copy())]
        out["nongrid"] = [bool(g == 3), bool(g == "grid"), bool(g == None), bool(g != 3)]  # noqa: E711
    except Exception as e:  # noqa
        out["error"] = "%s: %s" % (type(e).__name__, str(e)[:200])
    return out


def diff_kind(g, h):
    ks = []
    if g["spec"] != h["spec"]:
        ks.append("spec")
    if len(g["lon"]) != len(h["lon"]):
        ks.append("n_node")
    if len(g["conn"]) != len(h["conn"]):
        ks.append("n_face")
    if len(g["lon"]) == len(h["lon"]):
        if g["lon"] != h["lon"]:
            ks.append("lon")
        if g["lat"] != h["lat"]:
            ks.append("lat")
    if len(g["conn"]) == len(h["conn"]) and g["conn"] != h["conn"]:
        ks.append("conn")
    return "+".join(ks) or "none"


HIST_CFG = """SPECIFICATION Spec
CONSTANTS
 Mech <- %s
 MaxLen = %d
 Inits <- AllInits
 RouteSel <- AllRoutes
INVARIANT TypeOK
INVARIANT Refines
INVARIANT Reflexive
INVARIANT Symmetric
INVARIANT CopyEqual
INVARIANT SliceAllEqual
PROPERTY EditFlips
%s
CHECK_DEADLOCK FALSE
"""

TRACE_CFG = """INIT TraceInit
NEXT TraceNext
CONSTANTS
 Mech <- MechIntended
 MaxLen = 99
 Inits <- AllInits
 RouteSel <- AllRoutes
INVARIANT TraceTypeOK
INVARIANT Judge
CHECK_DEADLOCK FALSE
"""


def _hist_of(v):
    """<<"H", init2, route, hist>> -> (init2, route, [(act, args, want)])"""
    return v[1], v[2], [(st[0], list(st[1]), bool(st[2])) for st in v[3]]


def history_phase(ctx, thorough):
    """== as a function of the operands' current contents only: GridEqHist.tla (see its header)."""
    import json
    import random

    from harness import x_c20 as X

    rng = random.Random(ctx.seed)
    r = ctx.tlc_ok("GridEqHist", HIST_CFG % ("MechIntended", 3, "INVARIANT Emit"), what="== depends on current contents only: all histories of <= 3 steps, 7 initial pairs", workers=8, timeout=1500)
    hs = [_hist_of(v) for v in r.prints if isinstance(v, tuple) and len(v) == 4 and v[0] == "H"]
    if len(hs) < 1000:
        raise Machinery("GridEqHist emitted only %d histories" % len(hs))
    # the mechanisms that let history leak into the answer must be refuted by the model
    for mech in ("MechDims", "MechMemo", "MechLatFirst", "MechCoords"):
        rr = ctx.tlc("GridEqHist", HIST_CFG % (mech, 3, ""), what="GridEqHist(%s) must violate Refines" % mech, workers=4, count=False, timeout=600)
        if rr.violated not in ("Refines", "SliceAllEqual", "CopyEqual"):
            raise Machinery("%s does not violate Refines in the model (vacuous?): violated=%s" % (mech, rr.violated))
    n_all = len(hs)
    if not thorough:
        first = [h for h in hs if h[2][0][0] in ("Compare", "Copy")]
        rest = [h for h in hs if h[2][0][0] not in ("Compare", "Copy")]
        rng.shuffle(first)
        rng.shuffle(rest)
        hs = first[:9000] + rest[:5000]
    # longer histories: TLC's simulator
    sim = ctx.tlc("GridEqHist", HIST_CFG % ("MechIntended", 6, "INVARIANT EmitAny"), what="simulated histories of 6 steps", workers=1, count=False, timeout=600,
                  simulate="num=%d" % (4000 if thorough else 600), depth=8, seed=ctx.seed)
    long_hs = [_hist_of(v) for v in sim.prints if isinstance(v, tuple) and len(v) == 4 and v[0] == "H"]
    long_hs = [h for h in long_hs if any(st[0] == "Compare" for st in h[2])]
    jobs = []
    for k, (init2, route, steps) in enumerate(hs + long_hs):
        # longitudes derived from Cartesian coordinates go through floating-point trigonometry: differences of
        # one ulp or 1e-9 degrees are not representable on that route
        jobs.append((k + 1, init2, route, steps, X.SCALES[k % len(X.SCALES)] if route == "lonlat" else "deg10"))
    traces = pmap(X.replay, jobs)
    bad = [t for t in traces if "harness_error" in t]
    if bad:
        raise Machinery("replay failed in the harness for %d histories, e.g. %s" % (len(bad), bad[0]["harness_error"]))
    path = os.path.join(ctx.work, "eq_traces.ndjson")
    with open(path, "w") as fh:
        for t in traces:
            fh.write(json.dumps({"tid": t["tid"], "init2": t["init2"], "route": t["route"], "events": [{k: e[k] for k in ("act", "o", "t", "f", "how", "x", "y", "obs")} for e in t["events"]]}) + "\n")
    v = ctx.tlc_ok("TraceGridEq", TRACE_CFG, what="validate %d recorded histories against GridEqHist" % len(traces), workers=8, env={"TRACE_FILE": path}, count=False, timeout=3000, heap="6g")
    os.remove(path)
    viol, ended = {}, {}
    n_parsed = 0
    for p in v.prints:
        if isinstance(p, tuple) and p and p[0] == "V" and len(p) == 4:
            viol.setdefault(p[1], []).append((p[2], p[3]))
            n_parsed += 1
        elif isinstance(p, tuple) and p and p[0] == "E" and len(p) == 3:
            ended[p[1]] = p[2]
    if n_parsed != v.out.count('"V"'):
        raise Machinery("trace validator printed %d verdict lines, parsed %d" % (v.out.count('"V"'), n_parsed))
    by_tid = {t["tid"]: t for t in traces}
    for t in traces:
        if ended.get(t["tid"]) != len(t["events"]):
            raise Machinery("trace %s was not consumed to its end by the specification (%s of %d)" % (t["tid"], ended.get(t["tid"]), len(t["events"])))
    ctx.traces += len(traces)
    touch_raised = 0
    for t in traces:
        key = "hist:%s:%s:%s" % (t["init2"], t["route"], ";".join("%s(%s)" % (e["act"], ",".join(str(e[k]) for k in ("o", "t", "f", "how", "x", "y") if e[k] not in (0, ""))) for e in t["events"]))
        ctx.count(1, key)
        touch_raised += sum(1 for e in t["events"] if e["act"] == "Touch" and "note" in e)
    for tid, vs in sorted(viol.items()):
        t = by_tid[tid]
        line, clause = sorted(vs)[0]
        evs = t["events"][:line]
        shape = [e["act"] + (":" + e["t"] if e["act"] == "Touch" else ":" + e["how"] if e["how"] else "") for e in evs]
        ctx.violation("hist:%s" % tid, clause, detail={"init2": t["init2"], "route": t["route"], "scale": t["scale"], "events": evs, "line": line},
                      sig={"phase": "history", "shape": shape, "init2": t["init2"], "route": t["route"]}, replay={"history": [t["init2"], t["route"], [[e["act"], [e[k] for k in ("o", "t", "f", "how", "x", "y") if e[k] not in (0, "")]] for e in t["events"]]], "scale": t["scale"]})
    ctx.note("history_phase", {"generated_len3": n_all, "replayed_len3": len(hs), "simulated_len6": len(long_hs), "violating": len(viol), "touch_steps_that_raised": touch_raised})


def run(ctx):
    thorough = ctx.tier == "thorough"
    history_phase(ctx, thorough)
    dump = os.path.join(ctx.work, "eq")
    r = ctx.tlc_ok("GridEq", CFG % ((2, 1) if thorough else (2, 0)), what="equality laws + test vectors", dump=dump, workers=8)
    with open(dump + ".dump") as fh:
        states = tlaval.parse_dump(fh.read())
    os.remove(dump + ".dump")
    if not states:
        raise Machinery("no states dumped")
    cases = []
    for k, s in enumerate(states):
        g = {"spec": s["g"]["spec"], "lon": list(s["g"]["lon"]), "lat": list(s["g"]["lat"]), "conn": [list(f) for f in s["g"]["conn"]]}
        h = {"spec": s["h"]["spec"], "lon": list(s["h"]["lon"]), "lat": list(s["h"]["lat"]), "conn": [list(f) for f in s["h"]["conn"]]}
        cases.append({"id": k, "g": g, "h": h, "eq": bool(s["eq"]), "scale": SCALES[k % len(SCALES)]})
    if not thorough and len(cases) > 6000:
        import random

        rng = random.Random(ctx.seed)
        keep = [c for c in cases if c["eq"] or diff_kind(c["g"], c["h"]).count("+") == 0]
        rest = [c for c in cases if not (c["eq"] or diff_kind(c["g"], c["h"]).count("+") == 0)]
        cases = keep + rng.sample(rest, max(0, 6000 - len(keep)))
    else:
        ctx.exhaustive = True
    # pairs differing in coordinates only are realised under every scale (a tolerance in __eq__ shows
    # only for tiny differences), the others under one
    extra = []
    for c in cases:
        if diff_kind(c["g"], c["h"]) in ("lon", "lat", "lon+lat"):
            for sc in SCALES:
                if sc != c["scale"] and (thorough or c["id"] % 2 == 0):
                    e = dict(c)
                    e["scale"] = sc
                    e["id"] = "%s:%s" % (c["id"], sc)
                    extra.append(e)
    cases = cases + extra
    res = pmap(run_pair, cases)
    ctx.rule = (
        "TLC explores pairs of grids reached from a common base by single-entry edits (GridEq.tla), checking the laws of equality "
        "on the specification and dumping each pair with its expected answer; every pair is realised as two real Grids and "
        "==, != are evaluated in both orders, plus reflexivity, equality with an independently built identical grid, with a copy, "
        "and with non-Grid operands. Histories (GridEqHist.tla): TLC proves that the answer is a function of the operands' current "
        "contents under the intended mechanism and refutes the mechanisms that compare dataset dimensions or cache a digest; every "
        "history of three steps over {lazy derivations and content-preserving mutators on one operand, setter / in-place edit of one "
        "longitude, latitude or connectivity entry, copy / deepcopy, compare} (sampled in the quick tier) and simulated histories "
        "of six steps are replayed on two real Grids and validated by TraceGridEq.tla. "
        "Non-trivial = pair that differs (the kind of difference is recorded) or distinct history."
    )
    kinds = {}
    for c, o in zip(cases, res):
        kind = diff_kind(c["g"], c["h"])
        kinds[kind] = kinds.get(kind, 0) + 1
        ctx.count(1, (str(c["g"]), str(c["h"])) if kind != "none" else None)
        ctx.traces += 1
        rp = {"g": c["g"], "h": c["h"], "expected_eq": c["eq"], "scale": c.get("scale")}
        if "error" in o:
            ctx.violation("pair:%s" % c["id"], "Raises", detail=o["error"], replay=rp, sig={"diff": kind, "scale": c.get("scale")})
            continue
        e = c["eq"]
        if o["obs"][0] != e or o["obs"][1] != e:
            ctx.violation("pair:%s" % c["id"], "EqIffIdentical", detail={"obs": o["obs"], "expected": e, "diff": kind}, replay=rp, sig={"diff": kind, "scale": c.get("scale")})
        if o["obs"][0] != o["obs"][1]:
            ctx.violation("pair:%s" % c["id"], "Symmetric", detail=o["obs"], replay=rp, sig={"diff": kind, "scale": c.get("scale")})
        if o["obs"][2] != (not o["obs"][0]) or o["obs"][3] != (not o["obs"][1]):
            ctx.violation("pair:%s" % c["id"], "NeIsNegation", detail=o["obs"], replay=rp, sig={"diff": kind, "scale": c.get("scale")})
        if o["refl"] != [True, True, False] or o["same"] != [True, True, False]:
            ctx.violation("pair:%s" % c["id"], "Reflexive", detail={"refl": o["refl"], "same": o["same"]}, replay=rp, sig={"diff": kind, "scale": c.get("scale")})
        if o["copy"] != [True, True]:
            ctx.violation("pair:%s" % c["id"], "CopyEqual", detail=o["copy"], replay=rp, sig={"diff": kind, "scale": c.get("scale")})
        if o["nongrid"] != [False, False, False, True]:
            ctx.violation("pair:%s" % c["id"], "NonGridFalse", detail=o["nongrid"], replay=rp, sig={"diff": kind, "scale": c.get("scale")})
    ctx.note("difference_kinds", kinds)
    for c in cases[:1] + cases[len(cases) // 2 : len(cases) // 2 + 2]:
        ctx.sample({"g": c["g"], "h": c["h"], "expected_eq": c["eq"]})
    ctx.assumptions += ["abstract coordinate values are realised 10 degrees, one ulp, or 1e-9 degrees apart", "format 'B' is realised as the same dataset with source_grid_spec='UGRID'"]

"""C09 - subsets and cross-sections are faithful, fully functional restrictions."""

from __future__ import annotations

import json
import os
import random

from harness import catalog
from harness import x_c09 as X
from harness.core import Machinery
from harness.pool import pmap

PROP = "C09"

GEN_INVS = [
    "WitnessIsSubset",
    "OrderIsTheGivenOne",
    "ReindexFaithful",
    "InclusiveIsUnion",
    "EdgeImpliesNode",
    "ExclusiveRejected",
    "SortedIndicesRejected",
    "DuplicateRejected",
    "ClassesOK",
    "ShrinkLaws",
    "Emit",
]
GEN_NAMES = ["tetrahedron", "cube", "octahedron"]
FORMS = ["list", "array", "scalar", "npscalar"]
GENERIC_CENTRES = [[1, 2, 3], [-3, 1, -2], [2, -3, 1], [0, 0, 1], [-1, 0, 0], [3, 3, -1]]


# --------------------------------------------------------------------------- TLC: models
def lazy_cfg(mech, maxpre, maxacc, hist, invs):
    return (
        "SPECIFICATION Spec\nCONSTANTS\n MechName = \"%s\"\n MaxPre = %d\n MaxAcc = %d\n WithHist = %s\n"
        % (mech, maxpre, maxacc, "TRUE" if hist else "FALSE")
        + "".join("INVARIANT %s\n" % i for i in invs)
        + "CHECK_DEADLOCK FALSE\n"
    )


def scan_cfg(tmax, emax, racy, rep=False):
    return (
        "SPECIFICATION Spec\nCONSTANTS\n TMax = %d\n EMax = %d\n Racy = %s\n Representatives = %s\n"
        % (tmax, emax, "TRUE" if racy else "FALSE", "TRUE" if rep else "FALSE")
        + "INVARIANT TypeOK\nINVARIANT ScheduleIndependent\nINVARIANT DisjointWrites\nINVARIANT OnParallelNotSelected\nCHECK_DEADLOCK FALSE\n"
    )


def model_checks(ctx, thorough):
    # schedules: every interleaving of the parallel scan
    for tmax, emax, rep in ([(3, 3, False), (3, 4, True)] if thorough else [(3, 3, False)]):
        ctx.tlc_ok(
            "LatScan",
            scan_cfg(tmax, emax, False, rep),
            what="prange scan, sound variant, T<=%d E<=%d, %s: all interleavings" % (tmax, emax, "one z-class pair per case of the sign test" if rep else "all nine z-class pairs per edge"),
            timeout=1500,
        )
    r = ctx.tlc("LatScan", scan_cfg(2, 2, True), what="prange scan, racy variant (shared counter): TLC must find the lost update")
    if r.violated != "ScheduleIndependent":
        raise Machinery("LatScan does not distinguish the racy scan: %r" % r)
    ctx.note("latscan_racy_counterexample_found", True)
    # histories: the intended mechanism and the code as it is now meet the property on every history ...
    ctx.tlc_ok(
        "SliceLazy",
        lazy_cfg("intended", 1, 1, False, ["TypeOK", "AccessOK", "NoWrongValueStored", "StoreClosed"]),
        what="SliceLazy(Mech_intended): every Access on every result of every history is ok",
        timeout=1500,
    )
    # the code as it is now: proved when no defect of this kind is open, refuted (and noted) while one is
    r = ctx.tlc("SliceLazy", lazy_cfg("observed", 1, 1, False, ["TypeOK", "AccessOK", "NoWrongValueStored", "StoreClosed"]), what="SliceLazy(Mech_observed): the code as it is now")
    if not r.ok and r.violated not in ("AccessOK", "NoWrongValueStored"):
        raise Machinery("SliceLazy(Mech_observed): unexpected outcome %r" % r)
    ctx.note("mech_observed", "meets the property" if r.ok else "refuted: %s (an open defect is transcribed)" % r.violated)
    # ... the mechanism as first read, and each single reverted fix, do not: TLC must keep refuting them
    refuted = {}
    for mech, inv in (("prefix", "AccessOK"), ("rev_8ad0ac60", "AccessOK"), ("rev_7638a0fd", "NoWrongValueStored"), ("rev_793eb5ab", "NoWrongValueStored"), ("carry_neighbour", "NoWrongValueStored")):
        r = ctx.tlc("SliceLazy", lazy_cfg(mech, 1, 1, False, ["TypeOK", inv]), what="SliceLazy(%s): counterexample to %s required" % (mech, inv))
        if r.violated != inv:
            raise Machinery("SliceLazy(%s) is not refuted (%s expected to fail): %r" % (mech, inv, r))
        refuted[mech] = r.violated
    ctx.note("mechanism_variants_refuted", refuted)


def gen_index_cases(ctx, maxlen):
    cfg = (
        "INIT Init\nNEXT Next\nCONSTANTS\n Names = {%s}\n MaxLen = %d\n" % (", ".join('"%s"' % n for n in GEN_NAMES), maxlen)
        + "".join("INVARIANT %s\n" % i for i in GEN_INVS)
        + "CHECK_DEADLOCK FALSE\n"
    )
    r = ctx.tlc_ok("SubsetGen", cfg, what="Subset.tla theorems on %s, index sequences of length <= %d, class machinery" % (GEN_NAMES, maxlen), timeout=2500)
    out = []
    for p in r.prints:
        if isinstance(p, tuple) and p and p[0] == "IDX":
            out.append({"name": p[1], "kind": p[2], "idx": [list(x) if isinstance(x, tuple) else x for x in p[3]], "expected": list(p[4])})
    if not out:
        raise Machinery("SubsetGen printed no cases")
    out.sort(key=lambda c: (c["name"], c["kind"], json.dumps(c["idx"])))
    return out


def gen_presets(ctx, nattr, maxpre):
    """Histories over EVERY derived attribute (SliceAll.tla): sets of at most maxpre attribute numbers x slice kind."""
    cfg = "SPECIFICATION Spec\nCONSTANTS\n NAttr = %d\n MaxPre = %d\nINVARIANT TypeOK\nINVARIANT Independent\nINVARIANT Emit\nCHECK_DEADLOCK FALSE\n" % (nattr, maxpre)
    r = ctx.tlc_ok("SliceAll", cfg, what="histories Read^<=%d ; Slice over all %d introspected Grid attributes" % (maxpre, nattr), timeout=1500)
    out = sorted({(tuple(sorted(p[1])), p[2]) for p in r.prints if isinstance(p, tuple) and p and p[0] == "P"})
    if not out:
        raise Machinery("SliceAll printed no histories")
    return out


def gen_selection_histories(ctx, maxlen):
    """Histories of coordinate selections on one grid object (SubsetHist.tla)."""
    cfg = lambda mech, invs: "SPECIFICATION Spec\nCONSTANTS\n MaxLen = %d\n Mechanism = \"%s\"\n" % (maxlen, mech) + "".join("INVARIANT %s\n" % i for i in invs) + "CHECK_DEADLOCK FALSE\n"
    r = ctx.tlc_ok("SubsetHist", cfg("by_kind", ["TypeOK", "Fresh", "Emit"]), what="selection histories of length %d on one grid: every selection is served by the tree of its own kind" % maxlen, timeout=1500)
    bad = ctx.tlc("SubsetHist", cfg("set_on_build", ["TypeOK", "Fresh"]), what="SubsetHist(set_on_build): counterexample required (kind X, kind Y, kind X again)")
    if bad.violated != "Fresh":
        raise Machinery("SubsetHist(set_on_build) is not refuted: %r" % bad)
    out = sorted({tuple(tuple(s) for s in p[1]) for p in r.prints if isinstance(p, tuple) and p and p[0] == "H"})
    if not out:
        raise Machinery("SubsetHist printed no histories")
    return out


def gen_behaviours(ctx, maxpre, maxacc, simulate=None, seed=0):
    kw = {}
    if simulate:
        kw = {"simulate": "num=%d" % simulate, "depth": maxpre + maxacc + 3, "seed": seed + 1, "workers": 1}
    r = ctx.tlc_ok(
        "SliceLazy",
        lazy_cfg("observed", maxpre, maxacc, True, ["TypeOK", "Emit"]),
        what="behaviours Materialise^<=%d ; Slice ; Access^<=%d with predicted outcomes%s" % (maxpre, maxacc, " (simulation)" if simulate else " (all)"),
        count=not simulate,
        timeout=2500,
        **kw,
    )
    seen = set()
    out = []
    for p in r.prints:
        if isinstance(p, tuple) and p and p[0] == "B":
            key = repr(p)
            if key in seen:
                continue
            seen.add(key)
            out.append({"prov": p[1], "hist": p[2]})
    if not out:
        raise Machinery("SliceLazy printed no behaviours")
    if not simulate:
        out.sort(key=lambda b: repr(b))
    return out[:simulate] if simulate else out


# --------------------------------------------------------------------------- cases
def data_spec(k):
    kinds = ["face", "node", "edge"]
    return {"kind": kinds[k % 3], "rank": 1 + (k // 3) % 3, "axis": (k // 9) % 3}


def cat_src(e):
    return {"t": "cat", "eid": catalog.eid(e)}


def build_cases(ctx, rng, thorough, idx_cases, behaviours, sims, presets=(), attrs=(), sel_hists=()):
    cases = []

    def add(cid, src, prov, op, **kw):
        c = {"id": cid, "src": src, "prov": prov, "op": op, "seed": rng.randrange(1 << 30), "rot": len(cases)}
        c.update(kw)
        if c.get("data") and op.get("form") in ("scalar", "npscalar"):
            # a scalar indexer on a UxDataArray follows xarray (the dimension is removed, the grid stays whole):
            # not a grid subset, outside this property; scalars are exercised through Grid.isel
            op["form"] = "list"
        cases.append(c)

    provs = ["derived", "supplied"]
    # A. index sequences enumerated by TLC on the small meshes
    ent = {n: catalog.entries(name=n, rot=0, cut=0)[0] for n in GEN_NAMES}
    for k, c in enumerate(idx_cases):
        op = {"t": "idx", "kind": c["kind"], "form": FORMS[k % len(FORMS)]}
        if c["kind"] == "edge":
            op["sides"] = c["idx"]
            op["idx"] = []
        else:
            op["idx"] = c["idx"]
        kw = {}
        if k % 3 == 0:
            kw["data"] = data_spec(k // 3)
        add("gen:%s:%s:%s" % (c["name"], c["kind"], json.dumps(c["idx"], separators=(",", ":"))), cat_src(ent[c["name"]]), provs[k % 2], op, **kw)
    # B. coordinate selections on catalogue meshes
    names = ["cuboctahedron", "cube", "octahedron", "truncated_octahedron", "rhombic_dodecahedron", "tetrakis_cube", "truncated_cube", "rhombicuboctahedron", "tetrahedron"]
    rots = [0, 5, 17] if thorough else [0, 5]
    cuts = [0, 3]
    nbox, ncirc, nknn = (24, 12, 8) if thorough else (5, 3, 2)
    k = 0
    for name in names:
        for rot in rots:
            for cut in cuts:
                es = catalog.entries(name=name, rot=rot, cut=cut)
                if not es:
                    continue
                e = es[0]
                kinds = ["node", "face", "edge"] if name in X.UNIFORM else ["node"]
                centres = [list(v) for v in e["nodes"][:: max(1, len(e["nodes"]) // 3)]] + GENERIC_CENTRES
                for kind in kinds:
                    for j in range(nbox):
                        k += 1
                        add("box:%s:%s:%d" % (catalog.eid(e), kind, j), cat_src(e), provs[k % 2], {"t": "box", "kind": kind, "pick": [rng.randrange(1000) for _ in range(4)]}, **({"data": data_spec(k)} if k % 4 == 0 else {}))
                    for j in range(ncirc):
                        k += 1
                        add("circle:%s:%s:%d" % (catalog.eid(e), kind, j), cat_src(e), provs[k % 2], {"t": "circle", "kind": kind, "c": centres[rng.randrange(len(centres))], "pick": rng.randrange(1000)}, **({"data": data_spec(k)} if k % 4 == 0 else {}))
                    for j in range(nknn):
                        k += 1
                        add("knn:%s:%s:%d" % (catalog.eid(e), kind, j), cat_src(e), provs[k % 2], {"t": "knn", "kind": kind, "c": centres[rng.randrange(len(centres))], "pick": rng.randrange(1000)}, **({"data": data_spec(k)} if k % 4 == 0 else {}))
                # C. cross-sections: every gap between node latitude classes, every node latitude
                for j in range(8 if thorough else 4):
                    for mode in ("gap", "at"):
                        k += 1
                        add("xsec:%s:%s:%d" % (catalog.eid(e), mode, j), cat_src(e), provs[k % 2], {"t": "lat", "kind": "face", "pick": j, "mode": mode}, threads=X.THREADS if j % 2 == 0 else None, **({"data": data_spec(k)} if k % 3 == 0 else {}))
                        add("faces_at:%s:%s:%d" % (catalog.eid(e), mode, j), cat_src(e), provs[(k + 1) % 2], {"t": "lat", "kind": "face", "pick": j, "mode": mode, "faces_only": True}, threads=X.THREADS)
    # D. index sets chosen by the harness on larger inputs: scalar, singleton, unsorted, all, random
    big = [catalog.entries(name=n, rot=r, cut=c)[0] for n, r, c in [("rhombicuboctahedron", 0, 0), ("truncated_cube", 3, 2), ("tetrakis_cube", 0, 0), ("cuboctahedron", 7, 5)]]
    srcs = [cat_src(e) for e in big]
    for s in range(6 if thorough else 2):
        srcs.append({"t": "planar", "nx": rng.randint(3, 9), "ny": rng.randint(3, 9), "seed": rng.randrange(1 << 30), "holes": [0.0, 0.2][s % 2]})
    file_srcs = []
    if thorough:
        for path in ("test/meshfiles/ugrid/outCSne30/outCSne30.ug", "test/meshfiles/ugrid/quad-hexagon/grid.nc"):
            full = os.path.join(X.hux.REPO, path)
            if os.path.exists(full) and os.path.getsize(full) > 0:
                file_srcs.append({"t": "file", "path": path})
    for si, src in enumerate(srcs + file_srcs):
        geo = X.source_geometry(src)
        n = {"face": len(geo["faces"]), "node": len(geo["lon"]), "edge": len(X.own_edges(geo["faces"], 0))}
        for kind in ("face", "node", "edge"):
            sets = [[rng.randrange(n[kind])], [rng.randrange(n[kind])], list(range(n[kind])), list(range(n[kind]))[::-1]]
            for _ in range(6 if thorough else 2):
                sets.append(rng.sample(range(n[kind]), rng.randint(2, max(2, min(n[kind] // 2, 40 if src["t"] == "file" else 10**6)))))
            for j, idx in enumerate(sets):
                k += 1
                form = ["scalar", "npscalar", "list", "array"][j] if j < 4 else FORMS[k % 3]
                if src["t"] == "file" and (j in (2, 3) or j > 5) and len(geo["faces"]) > 100:
                    continue  # large sample file: scalar / singleton / a few random sets only
                add("idx:%d:%s:%d" % (si, kind, j), src, "file" if src["t"] == "file" else provs[k % 2], {"t": "idx", "kind": kind, "idx": idx, "form": form}, **({"data": data_spec(k)} if k % 2 == 0 else {}))
    # E. histories: behaviours of SliceLazy
    hist_src = [cat_src(catalog.entries(name="cuboctahedron", rot=0, cut=3)[0]), cat_src(catalog.entries(name="cube", rot=0, cut=0)[0]), cat_src(catalog.entries(name="truncated_octahedron", rot=5, cut=2)[0])]
    # Grid.bounds costs ~11 s of JIT per process: in the quick tier only a few behaviours involving it are kept
    # (family "bnd", moved to the front so that the compilation overlaps the rest); thorough sweeps it everywhere
    with_bounds = [b for b in behaviours if any(s[0] in ("mat", "acc") and s[1] == "bounds" for s in b["hist"])]
    keep_bounds = {id(b) for b in (with_bounds if thorough else with_bounds[:: max(1, len(with_bounds) // 24)][:24])}
    for tag, bs in (("hist", behaviours), ("sim", sims)):
        for j, b in enumerate(bs):
            pre = [s[1] for s in b["hist"] if s[0] == "mat"]
            sl = [s for s in b["hist"] if s[0] == "slice"][0]
            acc = [s[1] for s in b["hist"] if s[0] == "acc"]
            pred = {s[1]: s[2] for s in b["hist"] if s[0] == "acc"}
            involves = "bounds" in pre + acc
            if involves and not thorough and id(b) not in keep_bounds:
                continue
            add(
                "%s:%d:%s:%s:%s:%s:%s" % ("bnd" if involves and not thorough else tag, j, b["prov"], "+".join(pre) or "-", sl[1], sl[2], "+".join(acc)),
                hist_src[j % len(hist_src)],
                b["prov"],
                {"t": "idx", "kind": sl[1], "idx": [], "shape": sl[2], "form": "list"},
                pre=pre,
                acc=acc,
                pred=pred,
                bounds=bool(thorough or involves),
                model_stores=[sorted(s[2]) for s in b["hist"] if s[0] == "mat"] + [sorted(sl[3]), sorted(sl[4])] + [sorted(s[3]) for s in b["hist"] if s[0] == "acc"],
            )
    # F. the scan on a grid large enough for the threads to share it: regular lat-lon quads
    ll = {"t": "latlon", "nx": 72, "ny": 32, "dlat": 5, "seed": 5}
    rep_threads = X.THREADS + X.THREADS[::-1] + X.THREADS
    for j in range(16 if thorough else 6):
        for mode in ("gap", "at"):
            add("latlon:faces_at:%s:%d" % (mode, j), ll, provs[j % 2], {"t": "lat", "kind": "face", "pick": j * 3 + 1, "mode": mode, "faces_only": True}, threads=rep_threads)
            if j % 3 == 0:
                add("latlon:xsec:%s:%d" % (mode, j), ll, provs[j % 2], {"t": "lat", "kind": "face", "pick": j * 3 + 1, "mode": mode}, threads=rep_threads, data=data_spec(j))
    # G. sources read from an in-memory UGRID dataset that ships its edge table
    cub = catalog.entries(name="cuboctahedron", rot=0, cut=0)[0]
    for j, prov in enumerate(["ugrid", "ugrid_ec", "ugrid_plain", "ugrid", "ugrid_ec", "ugrid_plain"]):
        add("ugrid:%s:%d" % (prov, j), cat_src(cub), prov, {"t": "idx", "kind": ["face", "node", "edge", "face", "edge", "node"][j], "idx": [[5, 2, 9], [3, 0], [1, 7], [0], [4], [6, 1, 2]][j], "form": "list"}, data=data_spec(j))
    # H. Cartesian centre coordinates: the k-d tree path of nearest_neighbor / bounding_circle
    for name, rot in [("cuboctahedron", 0), ("truncated_octahedron", 5), ("tetrakis_cube", 0), ("rhombicuboctahedron", 17)]:
        e = catalog.entries(name=name, rot=rot, cut=0)[0]
        centres = [list(v) for v in e["nodes"][:: max(1, len(e["nodes"]) // 3)]] + GENERIC_CENTRES
        for kind in (["node", "face", "edge"] if name in X.UNIFORM else ["node"]):
            for j in range(6 if thorough else 2):
                for t in ("knn", "circle"):
                    k += 1
                    add("cart:%s:%s:%s:%d" % (catalog.eid(e), kind, t, j), cat_src(e), provs[k % 2], {"t": t, "kind": kind, "c": centres[rng.randrange(len(centres))], "pick": rng.randrange(1000), "cart": True}, **({"data": data_spec(k)} if k % 3 == 0 else {}))
    # I. sources that SUPPLY their face / edge centres (off-centroid lattice points), incl. mixed-norm meshes
    for name, rot, cut in [("tetrakis_cube", 0, 0), ("rhombic_dodecahedron", 5, 0), ("cuboctahedron", 5, 3), ("truncated_cube", 0, 0)]:
        e = catalog.entries(name=name, rot=rot, cut=cut)[0]
        centres = [list(v) for v in e["nodes"][:: max(1, len(e["nodes"]) // 3)]] + GENERIC_CENTRES
        for kind in ("face", "edge"):
            for j in range(8 if thorough else 3):
                k += 1
                add("supc:box:%s:%s:%d" % (catalog.eid(e), kind, j), cat_src(e), "supplied_c", {"t": "box", "kind": kind, "pick": [rng.randrange(1000) for _ in range(4)]}, **({"data": data_spec(k)} if k % 3 == 0 else {}))
            for j in range(6 if thorough else 2):
                for t in ("circle", "knn"):
                    k += 1
                    add("supc:%s:%s:%s:%d" % (t, catalog.eid(e), kind, j), cat_src(e), "supplied_c", {"t": t, "kind": kind, "c": centres[rng.randrange(len(centres))], "pick": rng.randrange(1000), "cart": bool(j % 2)})
        k += 1
        add("supc:idx:%s" % catalog.eid(e), cat_src(e), "supplied_c", {"t": "idx", "kind": "edge", "idx": [2, 0], "form": "list"}, data=data_spec(k))
    # J. MPAS-dialect sources: 1-based zero-padded tables, radians, their own edge numbering and end order
    for name, rot, cut in [("cuboctahedron", 0, 0), ("truncated_octahedron", 5, 2), ("tetrakis_cube", 0, 0)]:
        e = catalog.entries(name=name, rot=rot, cut=cut)[0]
        src = cat_src(e)
        n = {"face": len(e["faces"]), "node": len(e["nodes"]), "edge": e["n_edge"]}
        centres = [list(v) for v in e["nodes"][:: max(1, len(e["nodes"]) // 3)]] + GENERIC_CENTRES
        for kind in ("face", "node", "edge"):
            for j, idx in enumerate([[rng.randrange(n[kind])], rng.sample(range(n[kind]), 3), list(range(n[kind]))[::-1]] + [rng.sample(range(n[kind]), 4) for _ in range(4 if thorough else 0)]):
                k += 1
                add("mpas:idx:%s:%s:%d" % (catalog.eid(e), kind, j), src, "mpas", {"t": "idx", "kind": kind, "idx": idx, "form": FORMS[j % 2]}, data=data_spec(k))
            if kind == "node" or name in X.UNIFORM:
                for j in range(4 if thorough else 1):
                    k += 1
                    add("mpas:box:%s:%s:%d" % (catalog.eid(e), kind, j), src, "mpas", {"t": "box", "kind": kind, "pick": [rng.randrange(1000) for _ in range(4)]}, data=data_spec(k))
                    add("mpas:circle:%s:%s:%d" % (catalog.eid(e), kind, j), src, "mpas", {"t": "circle", "kind": kind, "c": centres[rng.randrange(len(centres))], "pick": rng.randrange(1000), "cart": bool(j % 2)})
                    add("mpas:knn:%s:%s:%d" % (catalog.eid(e), kind, j), src, "mpas", {"t": "knn", "kind": kind, "c": centres[rng.randrange(len(centres))], "pick": rng.randrange(1000)})
        for j in range(3):
            add("mpas:xsec:%s:%d" % (catalog.eid(e), j), src, "mpas", {"t": "lat", "kind": "face", "pick": j, "mode": ["gap", "at", "gap"][j]}, threads=X.THREADS, data=data_spec(j))
    # K. fine meshes (faces of 1e-3 .. 1e-5 rad): caps of catalogue meshes shrunk by the exact integer map.  About a
    #    pole the map keeps longitudes and the order of latitudes (boxes, parallels); about any centre it keeps the
    #    order of distances from that centre (circles, k nearest); index selections are scale-free anyway.
    Ms = [1000, 10000, 100000]
    fine = []
    for name, rot in [("rhombicuboctahedron", 0), ("truncated_cube", 0), ("tetrakis_cube", 0), ("rhombicuboctahedron", 9), ("tetrakis_cube", 13)]:
        for pole in ([0, 0, 1], [0, 0, -1]):
            fine.append(({"t": "fine", "eid": "%s/r%d/c0" % (name, rot), "centre": pole, "M": Ms[len(fine) % 3]}, True))
    for name, rot in [("cuboctahedron", 0), ("truncated_octahedron", 5), ("rhombicuboctahedron", 3), ("tetrakis_cube", 7)]:
        e = catalog.entries(name=name, rot=rot, cut=0)[0]
        for c in ([list(e["nodes"][1])] + [[sum(e["nodes"][v][i] for v in e["faces"][2]) for i in range(3)]] + [[3, -1, 2]]):
            fine.append(({"t": "fine", "eid": catalog.eid(e), "centre": c, "M": Ms[len(fine) % 3]}, False))
    if not thorough:
        fine = fine[::2]
    for fi, (src, polar) in enumerate(fine):
        geo = X.source_geometry(src)
        if len(geo["faces"]) < 2:
            continue
        n = {"face": len(geo["faces"]), "node": len(geo["nodes"]), "edge": len(X.own_edges(geo["faces"], 0))}
        c = src["centre"]
        tag = "%s:%s:M%d" % (src["eid"], "".join("%+d" % x for x in c), src["M"])
        for kind in ("face", "node", "edge"):
            k += 1
            add("fine:idx:%s:%s" % (tag, kind), src, provs[k % 2], {"t": "idx", "kind": kind, "idx": rng.sample(range(n[kind]), min(n[kind], 3)), "form": "list"}, data=data_spec(k))
        for j in range(4 if thorough else 2):
            for kind, prov in (("node", provs[j % 2]), ("face", "supplied_c"), ("edge", "supplied_c")):
                k += 1
                add("fine:circle:%s:%s:%d" % (tag, kind, j), src, prov, {"t": "circle", "kind": kind, "c": c, "pick": rng.randrange(1000), "cart": bool(j % 2)}, **({"data": data_spec(k)} if k % 3 == 0 else {}))
                add("fine:knn:%s:%s:%d" % (tag, kind, j), src, prov, {"t": "knn", "kind": kind, "c": c, "pick": rng.randrange(1000), "cart": not bool(j % 2)})
                if polar:
                    add("fine:box:%s:%s:%d" % (tag, kind, j), src, prov, {"t": "box", "kind": kind, "pick": [rng.randrange(1000) for _ in range(4)]})
            if polar:
                for mode in ("gap", "at"):
                    add("fine:xsec:%s:%s:%d" % (tag, mode, j), src, provs[j % 2], {"t": "lat", "kind": "face", "pick": j, "mode": mode}, threads=X.THREADS, **({"data": data_spec(j)} if j % 2 else {}))
                    add("fine:faces_at:%s:%s:%d" % (tag, mode, j), src, provs[(j + 1) % 2], {"t": "lat", "kind": "face", "pick": j, "mode": mode, "faces_only": True}, threads=X.THREADS)
    # N. every lazily derived public attribute of Grid (enumerated by introspection): read a TLC-chosen set on the
    #    source, slice, then read ALL of them on the result and on the same subset of a pristine source.
    #    Meshes with faces across the antimeridian, holes (partial cuts) and mixed face sizes.
    all_src = [cat_src(catalog.entries(name=n, rot=r, cut=c)[0]) for n, r, c in [("cuboctahedron", 0, 3), ("truncated_octahedron", 5, 2), ("rhombicuboctahedron", 0, 0), ("cube", 0, 0), ("tetrakis_cube", 13, 5)]]
    plist = list(presets)
    if thorough and len(plist) > 1500:
        singles = [p for p in plist if len(p[0]) <= 1]
        pairs = [p for p in plist if len(p[0]) > 1]
        plist = singles + pairs[:: len(pairs) // 500 + 1]
    for j, (pset, kind) in enumerate(plist):
        names = [attrs[a - 1] for a in pset]
        for si in ([j % len(all_src)] if not (thorough and len(pset) <= 1) else [j % len(all_src), (j + 2) % len(all_src)]):
            if kind in ("xsec", "faces_at"):
                # constant-latitude queries in the bulge band of a wide face, after the attributes were read
                op = {"t": "lat", "kind": "face", "pick": j + si, "mode": "band"}
                if kind == "faces_at":
                    op["faces_only"] = True
            else:
                op = {"t": "idx", "kind": kind, "idx": [], "shape": "proper", "form": "list"}
            add("all:%d:%s:%s:%d" % (j, "+".join(names) or "-", kind, si), all_src[si], provs[(j + si) % 2], op, pre_attrs=names, read_all=True, bounds=True)
    # Q. constant-latitude queries in the bulge band after Grid.bounds (or other per-face quantities) were read
    for si, src in enumerate(all_src):
        for j in range(6 if thorough else 3):
            for pre_names in (["bounds"], ["bounds", "face_areas"], ["face_lat"]):
                for kind in ("xsec", "faces_at"):
                    k += 1
                    op = {"t": "lat", "kind": "face", "pick": 2 * j + (k % 2), "mode": "band"}
                    if kind == "faces_at":
                        op["faces_only"] = True
                    add("bulge:%d:%d:%s:%s" % (si, j, "+".join(pre_names), kind), src, provs[k % 2], op, pre_attrs=pre_names, read_all=True, bounds=True, threads=X.THREADS if kind == "faces_at" else None)
    # O. a UxDataset holding face-, node- and edge-centred variables together, sliced as a whole
    for name, rot, cut in [("cube", 0, 0), ("cuboctahedron", 0, 3), ("truncated_octahedron", 5, 0)]:
        e = catalog.entries(name=name, rot=rot, cut=cut)[0]
        n = {"face": len(e["faces"]), "node": len(e["nodes"]), "edge": e["n_edge"]}
        for kind in ("face", "node", "edge"):
            sets = [rng.sample(range(n[kind]), 3), list(range(n[kind]))[::-1], [rng.randrange(n[kind])]] + [rng.sample(range(n[kind]), 2) for _ in range(4 if thorough else 0)]
            for j, idx in enumerate(sets):
                k += 1
                specs = [{"kind": "face", "rank": 1 + k % 3, "axis": k % 2}, {"kind": "node", "rank": 1 + (k + 1) % 3, "axis": (k + 1) % 3}, {"kind": "edge", "rank": 1 + (k + 2) % 3, "axis": 0}, {"kind": kind, "rank": 1, "axis": 0}]
                add("dset:%s:%s:%d" % (catalog.eid(e), kind, j), cat_src(e), ["derived", "supplied", "mpas"][k % 3], {"t": "idx", "kind": kind, "idx": idx, "form": FORMS[j % 2]}, dataset=specs)
            k += 1
            add("dset:%s:%s:slice" % (catalog.eid(e), kind), cat_src(e), provs[k % 2], {"t": "idx", "kind": kind, "idx": [], "slice": [-3, None, None]}, dataset=[{"kind": "face", "rank": 2, "axis": 1}, {"kind": "node", "rank": 1, "axis": 0}, {"kind": "edge", "rank": 3, "axis": 2}])
    # P. histories of coordinate selections on ONE grid object, alternating operations and element kinds
    seq_src = [catalog.entries(name=n, rot=r, cut=c)[0] for n, r, c in [("cuboctahedron", 0, 0), ("truncated_octahedron", 5, 0), ("rhombicuboctahedron", 17, 0), ("cube", 5, 0)]]
    hs = list(sel_hists)
    if not thorough:
        # keep every history that returns to an element kind used before (the interference pattern), thin the rest
        back = [h for h in hs if any(h[i][1] == h[j][1] and any(h[m][1] != h[i][1] for m in range(i + 1, j)) for i in range(len(h)) for j in range(i + 2, len(h)))]
        rest = [h for h in hs if h not in back]
        hs = back[:: max(1, len(back) // 150)] + rest[:: max(1, len(rest) // 60)]
    for j, h in enumerate(hs):
        e = seq_src[j % len(seq_src)]
        centres = [list(v) for v in e["nodes"][:: max(1, len(e["nodes"]) // 4)]] + GENERIC_CENTRES
        seq = []
        for op, kind in h:
            o = {"t": op, "kind": kind}
            if op == "box":
                o["pick"] = [rng.randrange(1000) for _ in range(4)]
            else:
                o["c"] = centres[rng.randrange(len(centres))]
                o["pick"] = rng.randrange(1000)
                o["cart"] = rng.random() < 0.3
            seq.append(o)
        k += 1
        add("seq:%d:%s:%s" % (j, catalog.eid(e), "/".join("%s.%s" % s for s in h)), cat_src(e), provs[j % 2], {"t": "seq", "kind": "node"}, seq=seq, **({"data": data_spec(k)} if j % 4 == 0 else {}))
    # M. slice objects on the grid dimension of a UxDataArray (negative bounds and steps included)
    for name in ("cube", "cuboctahedron"):
        e = catalog.entries(name=name, rot=0, cut=0)[0]
        for j, sl in enumerate([[-3, None, None], [1, -2, None], [None, None, 2], [None, -4, -1], [2, 1000, None], [-2, None, -1], [-5, -1, 2]]):
            for kind in ("face", "node", "edge"):
                k += 1
                add("slc:%s:%s:%d" % (name, kind, j), cat_src(e), provs[k % 2], {"t": "idx", "kind": kind, "idx": [], "slice": sl}, data=dict(data_spec(k), kind=kind))  # a slice refers to the array's own dimension
    # L. repeated FACE indices: outside the quantifier ("all index sets ..."; for node / edge selections repeats
    #    cannot arise in the result).  Recorded for information only, never judged.
    cub = catalog.entries(name="cube", rot=0, cut=0)[0]
    add("repeat:face:0", cat_src(cub), "supplied", {"t": "idx", "kind": "face", "idx": [1, 1, 0], "form": "list"}, observe=True)
    add("repeat:face:1", cat_src(cub), "derived", {"t": "idx", "kind": "face", "idx": [4, 2, 4], "form": "array"}, observe=True, data=data_spec(0))
    return cases


# --------------------------------------------------------------------------- judge
def judge(ctx, recs):
    path = os.path.join(ctx.work, "c09_%d.ndjson" % len(ctx.tlc_runs))
    with open(path, "w") as fh:
        for r in recs:
            fh.write(json.dumps({k: v for k, v in r.items() if not k.startswith("_")}) + "\n")
    res = ctx.tlc_ok(
        "JudgeSubset",
        "INIT Init\nNEXT Next\nINVARIANT Judge\nCHECK_DEADLOCK FALSE\n",
        what="judge %d recorded operations" % len(recs),
        env={"REC_FILE": path},
        count=False,
        timeout=3000,
    )
    if res.distinct < len(recs):
        raise Machinery("judge visited %d states for %d records" % (res.distinct, len(recs)))
    failed, mach, skipped, drift = {}, {}, {}, {}
    for v in res.prints:
        if not isinstance(v, tuple) or not v:
            continue
        if v[0] == "V":
            failed[v[1]] = (set(v[2]), dict(v[3]))
        elif v[0] == "M":
            mach[v[1]] = set(v[2])
        elif v[0] == "S":
            skipped[v[1]] = v[2]
        elif v[0] == "D":
            drift[v[1]] = sorted(tuple(x) for x in v[2])
    os.remove(path)
    return failed, mach, skipped, drift


def run(ctx):
    rng = random.Random(ctx.seed)
    thorough = ctx.tier == "thorough"
    model_checks(ctx, thorough)
    idx_cases = gen_index_cases(ctx, 3 if thorough else 2)
    behaviours = gen_behaviours(ctx, 2 if thorough else 1, 1)
    if thorough and len(behaviours) > 9000:
        behaviours = behaviours[:: (len(behaviours) // 9000 + 1)]
    sims = gen_behaviours(ctx, 4, 6, simulate=400 if thorough else 60, seed=ctx.seed)
    attrs = X.grid_attributes()
    ctx.note("grid_attributes_introspected", attrs)
    presets = gen_presets(ctx, len(attrs), 2 if thorough else 1)
    sel_hists = gen_selection_histories(ctx, 3)
    if thorough:
        sel_hists = sel_hists + gen_selection_histories(ctx, 4)[::40]
    cases = build_cases(ctx, rng, thorough, idx_cases, behaviours, sims, presets, attrs, sel_hists)
    if not thorough:
        # quick tier: thin the large families by a fixed stride (deterministic)
        cap = {"box": 300, "circle": 150, "knn": 100, "xsec": 150, "faces_at": 150, "hist": 450, "fine": 160}
        fam = {}
        for c in cases:
            fam.setdefault(c["id"].split(":")[0], []).append(c)
        cases = []
        for f, cs in sorted(fam.items(), key=lambda kv: kv[0] not in ("bnd", "all", "bulge")):
            if f in cap and len(cs) > cap[f]:
                step = len(cs) / float(cap[f])
                cs = [cs[int(k * step)] for k in range(cap[f])]
            cases += cs
    ids = [c["id"] for c in cases]
    if len(set(ids)) != len(ids):
        raise Machinery("duplicate case ids")
    by_id = {c["id"]: c for c in cases}
    recs = pmap(X.record_case, cases)
    # histories of selections on one grid object come back as one record per step
    flat = []
    for r in recs:
        if "_multi" in r:
            for k, step in enumerate(r["_multi"]):
                by_id[step["id"]] = dict(by_id[r["id"]], id=step["id"], step=k)
                flat.append(step)
        else:
            flat.append(r)
    recs = flat
    # the implementation could not provide the source grid / a projectable result: a verdict about the tree under
    # test (none occurs on the reference tree), not a failure of the harness
    unusable = {r["id"]: r["_machinery"] for r in recs if "_machinery" in r}
    recs = [r for r in recs if "_machinery" not in r]
    skipped_replay = {r["id"]: r["_skip"] for r in recs if "_skip" in r}
    observed = [r for r in recs if by_id[r["id"]].get("observe")]
    ctx.note(
        "repeated_face_indices_observed_not_judged",
        {json.dumps(by_id[r["id"]]["op"]["idx"]): ("raises" if r.get("err") else {"recorded_source_indices": r["res"]["src"], "n_face": len(r["res"]["fn"])}) for r in observed if "_skip" not in r},
    )
    good = [r for r in recs if "_skip" not in r and not by_id[r["id"]].get("observe")]
    failed, mach, skipped, drift = judge(ctx, good)
    if mach:
        k = sorted(mach)[0]
        raise Machinery("%d records fail an exactness precondition of the judge, e.g. %s: %s" % (len(mach), k, sorted(mach[k])))
    ctx.traces += len(good) - len(skipped)
    info = {r["id"]: r.get("_info", {}) for r in good}
    # ---- verdicts
    for r in good:
        rid = r["id"]
        if rid in skipped:
            continue
        c = by_id[rid]
        t = c["op"]["t"]
        nontrivial = (t, c["op"].get("kind"), c["prov"], json.dumps(r.get("sel"), sort_keys=True), json.dumps(c["src"], sort_keys=True), tuple(c.get("pre", ())), json.dumps(c.get("data"))) if len(r.get("mesh", [])) >= 2 else None
        ctx.count(1, nontrivial)
    for rid, msg in sorted(unusable.items()):
        c = by_id[rid]
        ctx.count(1, None)
        ctx.violation(rid, "Unusable", detail=msg, sig={"mech": "none", "prov": c["prov"] if c["prov"].startswith("ugrid") else "any"}, replay=c)
    for rid, (clauses, tags) in sorted(failed.items()):
        c = by_id[rid]
        inf = info.get(rid, {})
        for clause in sorted(clauses):
            ctx.violation(
                rid,
                clause,
                detail={"failed": sorted(clauses), "call": inf.get("call"), "error": inf.get("error"), "access_errors": inf.get("access_errors")},
                sig={"mech": tags.get(clause, "none"), "prov": c["prov"] if c["prov"].startswith("ugrid") else "any"},
                replay=c,
            )
    # ---- descriptive: drift between the transcribed mechanism and the code
    ndrift_store = 0
    for r in good:
        c = by_id[r["id"]]
        if "model_stores" in c and "stores" in r.get("_info", {}):
            st = r["_info"]["stores"]
            flat = [s for s in st if s and not isinstance(s[0], list)] + [x for s in st if s and isinstance(s[0], list) for x in s]
            if [sorted(s) for s in flat] != c["model_stores"][: len(flat)]:
                ndrift_store += 1
    if drift or ndrift_store:
        ex = sorted(drift.items())[:2]
        print("MODEL-DRIFT: %d behaviours whose access outcomes differ from SliceLazy(Mech_observed), %d whose materialised sets differ (descriptive, not a verdict)%s" % (len(drift), ndrift_store, (", e.g. %s" % (ex,)) if ex else ""))
    ctx.note("model_drift_outcomes", len(drift))
    ctx.note("model_drift_stores", ndrift_store)
    ctx.note("not_judged_exact_ties", len(skipped))
    ctx.note("not_judged_replay", len(skipped_replay))
    ctx.note("skip_reasons", sorted(set(skipped_replay.values())))
    kinds = {}
    for c in cases:
        kinds[c["id"].split(":")[0]] = kinds.get(c["id"].split(":")[0], 0) + 1
    ctx.note("cases_by_family", kinds)
    ctx.note("thread_counts", X.THREADS)
    for r in good[:1] + good[len(good) // 2 : len(good) // 2 + 1] + good[-1:]:
        ctx.sample({k: v for k, v in r.items() if k in ("id", "kind", "sel", "err", "op", "faces", "runs") or (k == "res" and len(json.dumps(v)) < 1500)})
    ctx.rule = (
        "Every case is one public call (Grid.isel / Grid.subset.bounding_box|bounding_circle|nearest_neighbor / "
        "Grid.cross_section.constant_latitude / Grid.get_faces_at_constant_latitude, or the UxDataArray counterpart with tracer "
        "data of rank 1..3) on a source grid (catalogue polyhedra incl. rotations and partial cuts, random planar mixed meshes, a "
        "36x16 lat-lon grid; edge table derived or shipped by the source), optionally after a TLC-generated history of derived "
        "variables materialised on the source; every derived table is then requested on the result. TLC (JudgeSubset.tla) "
        "computes the expected selection exactly (Subset.tla / SphereZ.tla; float bounds sit strictly between consecutive exact "
        "classes, verified per record) and judges selection, order, duplicates, corner positions, re-indexing, data alignment, "
        "the C02/C03 relations on the result and float equalities to 1e-12. Index sequences come from SubsetGen.tla, histories "
        "from SliceLazy.tla (all short ones + simulation), schedules from numba thread counts {1,2,4,16}; LatScan.tla proves "
        "schedule independence over all interleavings. Non-trivial = distinct (operation, kind, source, selection, history, data layout)."
    )
    ctx.assumptions += [
        "TLC's evaluator and the CommunityModules Json reader",
        "float bounds/radii/latitudes are midpoints between consecutive exact classes of reference points (margin >= 1e-3 rad); the judge verifies each gap exactly, the harness only evaluates the midpoint",
        "face / edge centres are exact only on meshes whose nodes have equal norm (verified per record by the judge); other meshes get node selections only",
        "a parallel equal to a node latitude is judged only when the implementation's jitted scan itself reports that node's stored z as lying exactly on it",
        "numba thread counts above the machine's NUMBA_NUM_THREADS are clipped; interleavings beyond T<=3, E<=4 are covered by the model only",
        "result node positions are matched to source positions with 1e-9; float equalities use 1e-12 (DESIGN 3.3)",
        "index lists with repeated FACE indices are outside the quantifier ('all index sets'): two are replayed and what the implementation does is noted (it keeps the repeats), without a verdict",
        "fine meshes are exact shrink images of lattice caps: classes decided on the lattice are used only where the map provably keeps them (SubsetGen ShrinkLaws; judge precondition FineOK); a parallel is judged only if its z clears every stored node z by 1e-12",
        "a Cartesian centre is routed to the k-d tree, whose metric is the chord: bounding_circle then gets its radius as a chord length (the accessor documents degrees for longitude-latitude centres only); nearest_neighbor needs no unit",
        "face / edge centres SUPPLIED by a source (off-centroid lattice points, both lon/lat and xyz given) are the reference points of that source",
    ]


def replay(path):
    """./check C09 --replay replays/C09_<clause>_<tier>.json : re-run the recorded cases and judge them again."""
    import shutil

    from harness.core import Ctx

    with open(path) as fh:
        data = json.load(fh)
    cases = [v["replay"] for v in data.get("cases", []) if v.get("replay")]
    seen = set()
    cases = [c for c in cases if not (c["id"] in seen or seen.add(c["id"]))]
    ctx = Ctx(PROP + "_replay", "replay", 0)
    try:
        recs = []
        for c in cases:
            c = {k: v for k, v in c.items() if k != "step"}
            if c.get("seq"):
                c["id"] = c["id"].rsplit(":s", 1)[0]
            r = X.record_case(c)
            recs += r["_multi"] if "_multi" in r else [r]
        for r in recs:
            if "_machinery" in r or "_skip" in r:
                print("NOT-REPLAYED %s: %s" % (r["id"], r.get("_machinery") or r.get("_skip")))
        good = [r for r in recs if "_machinery" not in r and "_skip" not in r]
        failed, mach, skipped, _ = judge(ctx, good) if good else ({}, {}, {}, {})
        for r in good:
            rid = r["id"]
            if rid in failed:
                print("FAILS %s clauses=%s tags=%s info=%s" % (rid, sorted(failed[rid][0]), failed[rid][1], json.dumps(r.get("_info", {}).get("call"))))
            elif rid in mach or rid in skipped:
                print("NOT-JUDGED %s %s" % (rid, mach.get(rid) or skipped.get(rid)))
            else:
                print("HOLDS %s" % rid)
        return 1 if failed else 0
    finally:
        shutil.rmtree(ctx.work, ignore_errors=True)
